"""C27 - TLS peers authenticate each other as configured (TLSHandshake.tla: AuthDemand / Judge27,
TLSHandshakeMC.tla authentication layer, TLSHandshakeGen.tla Cases27; harness cmd/c27, lib/tlsh)."""
import copy
import json

from vlib import Machinery, read_ndjson, write_ndjson
from props import tlshs_common as T
from props import tlshs_mc

META = {
    "technique": "TLA+ authentication layer of the handshake machine (certificates as (key, valid) pairs, ideal signatures and Finished MACs, five ClientAuthTypes) model-checked by TLC; TLC enumerates version x key-exchange class x key type x server scenario (untrusted root, expired, not yet valid, wrong name, wrong key, bad leaf signature, corrupted ServerKeyExchange signature/parameters, corrupted Finished) x client scenario x ClientAuthType with the demanded outcome; real zcrypto handshakes are run on each with a standard-library-built PKI and in-flight byte flips, the standard library's own verdict on the PKI is logged, and TLC judges who was allowed to complete",
    "text": "TLC verifies on the machine that a client completes only against a server whose certificate is valid and whose key it holds, and a server only with a client satisfying its ClientAuthType (proof of possession, chain when verification is requested); it enumerates the scenario matrix for TLS 1.0-1.3 and every key exchange class with the outcome AuthDemand requires; the Go harness concretises each scenario (PKI via crypto/x509, substituted keys, flipped bytes in ServerKeyExchange / CertificateVerify / Finished), re-derives chain validity and key possession with the standard library, runs a real zcrypto client/server pair with verification enabled and logs both ends' outcome; TLC rejects any completion the property forbids and any failure of a fully valid scenario. Exhaustive over the scenario matrix (thorough) plus seeded random combinations.",
    "note": "Trusted: TLC, Go toolchain, crypto/x509 and crypto/* as the oracle for what a valid chain / matching key is. Signatures and MACs are ideal in the model. A wrong client key under RequestClientCert / VerifyClientCertIfGiven is left open (the statement speaks of servers requiring certificates). TLS 1.3 CertificateVerify/Finished corruption is exercised as a corrupted protected record and through the substituted-key scenario, since those messages are encrypted.",
}

KIND_WHAT = {
    "client-completed-with-unauthenticated-server": "client completed although the server's chain does not verify / the server does not hold the leaf key / its key-exchange signature or Finished was corrupted",
    "server-completed-with-unauthenticated-client": "server completed although the client did not satisfy the configured ClientAuthType",
    "good-scenario-failed": "a fully valid scenario did not complete",
    "harness-pki-mismatch": "harness problem: the standard library disagrees with the scenario name about the PKI",
    "panic-or-hang": "endpoint panicked or did not return",
}
CASE_FIELDS = ("id", "vers", "suite", "key", "scen", "cscen", "ckey", "auth", "cas")
HIST_FIELDS = ("id", "vers", "key", "steps")
KIND_WHAT["verifying-client-resumed-unverified-session"] = "a verifying client completed by resuming a session whose chain does not verify under its settings (e.g. established with InsecureSkipVerify)"
KIND_WHAT["good-step-failed"] = "a connection of a history that had to complete failed"
KIND_WHAT["disagreement"] = "client and server disagree on DidResume"


def sig_of(f):
    return {k: f[k] for k in ("kind", "vers", "scen", "cscen", "auth", "kx", "key", "cas", "step", "skip", "resumed", "origin_skip") if k in f}


def to_cands(records, rejects):
    cands = []
    for idx, facts in rejects:
        rec = records[idx]
        if "steps" in rec:
            o = rec["obs"][facts["step"] - 1]
            what = "%s (history TLS 1.%d: steps %s; step %d: client done=%s resumed=%s from step %d, relied chain verifies=%s, err=%r)" % (
                KIND_WHAT.get(facts["kind"], facts["kind"]), rec["vers"] - 10, json.dumps(rec["steps"]), facts["step"], o["cdone"],
                o["cres"], o["origin"], o["relied_ok"], o["cerr"][:90])
            cands.append({"sig": sig_of(facts), "what": what, "case": {k: rec[k] for k in HIST_FIELDS}})
            continue
        what = "%s (TLS 1.%d suite %s key %s, server scenario %s, client scenario %s, ClientAuthType %d, ClientCAs %s; client done=%s err=%r; server done=%s err=%r)" % (
            KIND_WHAT.get(facts["kind"], facts["kind"]), rec["vers"] - 10, rec["suite"], rec["key"], rec["scen"], rec["cscen"],
            rec["auth"], rec.get("cas") or "with", rec["obs"]["cdone"], rec["obs"]["cerr"][:90], rec["obs"]["sdone"], rec["obs"]["serr"][:90])
        cands.append({"sig": sig_of(facts), "what": what, "case": {k: rec[k] for k in CASE_FIELDS}})
    return cands


def run_cases(ctx, binary, cases, tag):
    """scenario cases and multi-step histories (recognised by their `steps`) in one call"""
    out = {}
    for kind, cmd in (("s", "run"), ("h", "runh")):
        part = [c for c in cases if ("steps" in c) == (kind == "h")]
        if not part:
            continue
        cpath, opath = ctx.path("c27_cases_%s_%s.ndjson" % (tag, kind)), ctx.path("c27_obs_%s_%s.ndjson" % (tag, kind))
        write_ndjson(cpath, part)
        ctx.run(binary, [cmd, cpath, opath], timeout=3000)
        recs = read_ndjson(opath)
        if len(recs) != len(part):
            raise Machinery("harness c27 %s produced %d records for %d cases" % (cmd, len(recs), len(part)))
        for c, r in zip(part, recs):
            out[id(c)] = r
    return [out[id(c)] for c in cases]


def selftest_records(records):
    records = [r for r in records if "steps" not in r]
    bad_server = [r for r in records if r["scen"] in ("WrongKey", "Expired", "CorruptSKXSig") and not r["obs"]["cdone"]]
    bad_client = [r for r in records if r["scen"] == "Trusted" and r["cscen"] == "ClientUntrusted" and r["auth"] == 4 and not r["obs"]["sdone"]
                  and r["cas"] == "with"]
    good = [r for r in records if r["scen"] == "Trusted" and r["cscen"] == "ClientTrusted" and r["obs"]["cdone"] and r["obs"]["sdone"]
            and r["cas"] == "with"]
    out = []
    if bad_server:
        a = copy.deepcopy(bad_server[0]); a["id"] = -1; a["obs"]["cdone"] = True
        out.append(a)
    if bad_client:
        b = copy.deepcopy(bad_client[0]); b["id"] = -2; b["obs"]["sdone"] = True
        out.append(b)
    if good:
        c = copy.deepcopy(good[0]); c["id"] = -3; c["obs"]["cdone"] = False
        d = copy.deepcopy(good[0]); d["id"] = -4; d["std"]["server_chain_ok"] = False
        out += [c, d]
    return out


def selftest_hist(hrecs):
    """a history in which the verifying second step did a full handshake: pretend it resumed the
    unverified session of step 1 - must be rejected"""
    for r in hrecs:
        s, o = r["steps"], r["obs"]
        if len(s) == 2 and s[0]["skip"] and s[0]["scert"] == "B" and not s[1]["skip"] and s[1]["scert"] == "B" and not o[1]["cdone"] \
                and s[0]["name"] == s[1]["name"] == "dns" and s[0]["time"] == s[1]["time"] == "now":
            c = copy.deepcopy(r)
            c["id"] = -5
            c["obs"][1].update({"cdone": True, "sdone": True, "dataok": True, "cres": True, "sres": True, "origin": 1, "relied_ok": False})
            return [c]
    return []


def run(ctx):
    quick = ctx.quick
    binary = ctx.gobuild("c27")
    T.write_facts(ctx, binary)
    tlshs_mc.check(ctx, "C27")

    cases, st = T.generate(ctx, "C27", "c27_cases.ndjson")
    if min(st[1:4]) == 0:
        raise Machinery("generator: a demand class is empty (vacuous): %s" % st)
    ctx.add_samples([cases[len(cases) // 2]], n=1)
    hcases = read_ndjson(ctx.specfile("c27h_cases.ndjson"))
    if not hcases:
        raise Machinery("generator: no authentication history")
    for c in hcases:
        c["id"] += 2 * 10 ** 6
    recs = run_cases(ctx, binary, cases, "gen")
    hrecs = run_cases(ctx, binary, hcases, "hist")

    nrand = 1500 if quick else 30000
    rpath = ctx.path("c27_random.ndjson")
    ctx.run(binary, ["random", str(nrand), rpath])
    rcases = read_ndjson(rpath)
    for c in rcases:
        c["id"] += 10 ** 6
    rrecs = run_cases(ctx, binary, rcases, "rand")

    allrecs = recs + rrecs + hrecs
    st_recs = selftest_records(allrecs) + selftest_hist(hrecs)
    rejects = T.judge(ctx, "C27", allrecs + st_recs)
    if len([i for i, _ in rejects if i >= len(allrecs)]) != len(st_recs):
        raise Machinery("binding self-test: a corrupted record was accepted - the judge constrains nothing")
    rejects = [(i, f) for i, f in rejects if i < len(allrecs)]
    mism = [f for _, f in rejects if f["kind"] == "harness-pki-mismatch"]
    if mism:
        raise Machinery("the standard library disagrees with %d scenario concretisations, e.g. %s" % (len(mism), mism[0]))
    if len(st_recs) < 5 and not rejects:
        raise Machinery("selftest: missing base records and nothing rejected (vacuous)")
    cands = to_cands(allrecs, rejects)
    ctx.candidates(binary, cands, reproduce=T.BatchReproducer(ctx, "C27", cands, lambda cs: run_cases(ctx, binary, cs, "repro")))

    hist_cov = {"histories": len(hrecs),
                "resumed_verified": sum(1 for r in hrecs for st, o in zip(r["steps"], r["obs"]) if not st["skip"] and o["cres"] and o["cdone"]),
                "refused_unverified_session": sum(1 for r in hrecs if len(r["steps"]) >= 2 and r["steps"][0]["skip"] and r["obs"][0]["cdone"]
                                                  and not r["steps"][1]["skip"] and not r["obs"][1]["cres"]
                                                  and r["steps"][0]["name"] == r["steps"][1]["name"]),
                "resumed_nonverifying": sum(1 for r in hrecs for st, o in zip(r["steps"], r["obs"]) if st["skip"] and o["cres"])}
    for k, v in hist_cov.items():
        if not v:
            raise Machinery("vacuous coverage of authentication histories: %s" % hist_cov)
    names = {}
    for r in recs:
        if r["scen"].startswith("Name"):
            names[r["scen"]] = names.get(r["scen"], 0) + 1
    if len(names) < 6:
        raise Machinery("server-name classes missing: %s" % names)
    fired = {}
    for r in recs:
        if r["fired"]:
            fired[r["fired"]] = fired.get(r["fired"], 0) + 1
    for w in ("CorruptSKXSig", "CorruptSKXParams", "CorruptServerFinished", "CorruptClientFinished", "CorruptClientCV"):
        if fired.get(w, 0) < 5:
            raise Machinery("wire scenario %s fired only %d times (vacuous)" % (w, fired.get(w, 0)))
    sigs = {}
    for r in recs:
        for k in ("sigfired", "csigfired"):
            if r[k]:
                key = "%s/%s" % (r[k], r["key"] if k == "sigfired" else r["ckey"])
                sigs[key] = sigs.get(key, 0) + 1
    for w in ("SigEmpty", "SigShort", "SigLong", "ClientSigEmpty", "ClientSigShort", "ClientSigLong"):
        for kt in ("E", "P", "R"):
            if not sigs.get("%s/%s" % (w, kt)):
                raise Machinery("structural signature corruption %s never fired with key type %s (vacuous): %s" % (w, kt, sigs))
    cas = {}
    for r in recs:
        if r["auth"] >= 3 and r["cscen"] != "NoClientCert":
            k = "%s:%s" % (r["cas"], "completed" if r["obs"]["sdone"] else "refused")
            cas[k] = cas.get(k, 0) + 1
    for k in ("nil:refused", "empty:refused", "without:refused", "without:completed", "with:completed", "with:refused"):
        if not cas.get(k):
            raise Machinery("ClientCAs classes not covered (vacuous): %s" % cas)
    srecs = recs + rrecs
    cov = {
        "structural_signature_corruptions_fired": sigs, "client_cas_classes_verifying_server": cas,
        "histories": hist_cov, "server_name_classes": names,
        "completed": sum(1 for r in srecs if r["obs"]["cdone"] and r["obs"]["sdone"]),
        "client_refused": sum(1 for r in srecs if not r["obs"]["cdone"] and (not r["std"]["server_chain_ok"] or not r["std"]["server_key_ok"])),
        "server_refused": sum(1 for r in srecs if not r["obs"]["sdone"] and r["scen"] == "Trusted" and r["cscen"] not in ("NoClientCert", "ClientTrusted")),
        "wire_corruptions_fired": fired,
        "versions": sorted({r["vers"] for r in recs}),
    }
    if not cov["completed"] or not cov["client_refused"] or not cov["server_refused"]:
        raise Machinery("vacuous coverage: %s" % cov)
    ctx.cov["observations"] = cov
    ctx.cov["evaluations"] += len(allrecs)
    ctx.cov["traces_validated_against_impl"] += len(allrecs)
    ctx.cov["distinct_nontrivial"] += len({json.dumps([r[k] for k in CASE_FIELDS[1:]], sort_keys=True) for r in srecs
                                           if r["scen"] != "Trusted" or r["cscen"] != "NoClientCert" or r["auth"]}) + len(hrecs)
    ctx.cov["exhaustive"] = not quick
    ctx.cov["rule"] = ("scenario = (version, suite/key-exchange class, server key type, server scenario, client scenario, client "
                       "key type, ClientAuthType); %s; non-trivial = anything but (Trusted, NoClientCert, NoClientCert mode); plus "
                       "seeded random scenarios" % ("every server scenario without client authentication and every (ClientAuthType, client "
                                                    "scenario) pair with an authentic server on 16 combinations" if quick else "full product on 24 combinations"))
    ctx.log("C27 observations: %s" % json.dumps(cov))


def replay(ctx, path):
    import os
    path = os.path.abspath(path)
    binary = ctx.gobuild("c27")
    T.write_facts(ctx, binary)
    out = ctx.path("one.ndjson")
    body = json.load(open(path))
    ctx.run(binary, ["runh-one" if "steps" in body.get("case", {}) else "run-one", path, out])
    rej = T.judge(ctx, "C27", read_ndjson(out))
    again = any(f.get("kind") == body.get("sig", {}).get("kind") for _, f in rej)
    for _, f in rej:
        print("rejected:", json.dumps(f, sort_keys=True))
    print("REPRODUCED" if again else "not reproduced")
    return 1 if again else 0
