"""C11 - chain walking returns exactly the permitted root-terminated paths (Walk.tla, WalkDfs.tla,
WalkImpl.tla, WalkGen.tla, Trace_Walk.tla on top of Graph.tla / GraphCatalog.tla; harness cmd/c11,
lib/graphobs; hook /repo/verifier/verif_graph.go)."""
import copy
import glob
import json
import os
import re

from vlib import Machinery, read_ndjson
from props import graphlib as gl

META = {
    "technique": "TLA+ A/B-layer specification of the graph walk: TLC-enumerated graphs x start certificates replayed on the real WalkChains / WalkChainsAsync with every result judged by TLC against the path-set definition, TLC model check of the producer/channel/consumer processes (safety and liveness), TLC evaluation of the coded and the fixed depth-first walk against the path-set definition, TLC validation of walks recorded on seeded random PKIs",
    "text": "Walk.tla defines Permitted (lenient reading) and Required (strict reading) root-terminated paths of a walk graph and judges an observed result: Required <= returned <= Permitted, no duplicates, channel closed, no panic; each rejected chain is classified (revisit, non-CA, path length, through a root, too long, ...). WalkGen.tla enumerates every sub-graph x root set x start certificate (in or out of the graph) of the catalogue universes (chains, cross-signs, rollovers, self-signed non-roots, path-length and CA-flag variants, cycles, dangling roots, depth-limit lines) and TLC checks on each that the walk with the proposed fix satisfies the judge and predicts what the walk as coded does. The harness builds each graph from real certificates, runs WalkChains and WalkChainsAsync for channel sizes 1,2,3,default with eager and lazy consumers, and TLC judges every distinct observation; seeded random PKIs of 10-30 certificates are judged the same way. WalkImpl.tla model-checks the send/close/receive protocol for every interleaving. Bounded-exhaustive over small graphs plus sampled larger ones.",
    "note": "Trusted: TLC, Go toolchain, crypto/x509 and crypto/ed25519 for certificate creation and concretisation checks, the accessor file verif_graph.go (the judged graph is the real graph as observed through it). Goroutine interleavings of the real WalkChainsAsync are exercised by pacing only (consumer eager/lazy), not enumerated; the enumeration of interleavings is at model level. Three clauses of the statement are read both ways (path-length counting of self-issued certificates, the root's own path-length limit, a root edge issued by a node already on the path) - see design_notes/C11.md; a root edge whose issuer is absent from the graph is required to be reached (known finding C11-root-edge-issuer-absent, fixed in /repo 59a173b).",
}

QUICK_NAMES = ["chain3", "selfx", "cross", "pathlen", "dangling", "nonca4", "rootdang"]
THOROUGH_NAMES = gl.SMALL + gl.FIVE + gl.SIX


def crash_candidates(ctx, binary, out, stderr):
    cands = []
    m = re.search(r"^(panic: .*|fatal error: .*)$", stderr, re.M)
    msg = m.group(1) if m else "process died"
    # one "current case" file per worker slot; only the slot whose case kills a fresh process
    # again is the culprit (candidates() replays one case per signature)
    for f in sorted(glob.glob(out + ".current.*")):
        case = json.load(open(f))
        tmp = ctx.path("crash_probe.json")
        with open(tmp, "w") as fh:
            json.dump({"sig": {}, "case": case}, fh)
        if reproduce(ctx, binary, tmp, None):
            cands.append({"sig": {"kind": "walk-crash", "panic": msg[:120]},
                          "what": "the process running WalkChains/WalkChainsAsync died: %s" % msg, "case": case})
            break
    if not cands:
        raise Machinery("harness died (%s) but no current case kills a fresh process" % msg)
    return cands


def run(ctx):
    quick = ctx.quick
    # ---- U1: producer / channel / consumer, every interleaving ------------------------------
    ctx.tlc("WalkImpl", "Walk_chan.cfg", timeout=900, workers=min(ctx.workers, 4),
            label="WalkImpl channel protocol: safety + liveness")

    # ---- U2: cases + design-level evaluation of coded / fixed walk --------------------------
    names = QUICK_NAMES if quick else THOROUGH_NAMES
    r = ctx.tlc("WalkGen", "Walk_gen.cfg", workers=1, timeout=3000,
                subst={"NAMES": gl.tla_set(names), "LINES": gl.tla_set(["line11"] if quick else gl.LINES),
                       "MAXROOTS": 2 if quick else 3},
                label="WalkGen: cases + coded walk against Walk")
    cases = read_ndjson(ctx.specfile("walk_cases.ndjson"))
    if not cases:
        raise Machinery("WalkGen produced no cases")
    pred, old, old2 = {}, {}, {}
    for c in cases:
        for w in c["pred"]:
            pred[w] = pred.get(w, 0) + 1
        for w in c["old"]:
            old[w] = old.get(w, 0) + 1
        for w in c["old2"]:
            old2[w] = old2.get(w, 0) + 1
    if pred:
        ctx.note("design-level: the B model of the walk as coded leaves the A layer on %d of %d cases: %s (a prediction; "
                 "the verdict comes only from the real code)" % (sum(1 for c in cases if c["pred"]), len(cases),
                                                                 json.dumps(pred, sort_keys=True)))
    else:
        ctx.note("B model of the walk as coded (WalkDfs.DfsCoded) satisfies the A layer on all %d cases; the earlier "
                 "revisions deviate: DfsPreFix on %d %s, DfsPreFix2 on %d %s"
                 % (len(cases), sum(1 for c in cases if c["old"]), json.dumps(old, sort_keys=True),
                    sum(1 for c in cases if c["old2"]), json.dumps(old2, sort_keys=True)))

    binary = ctx.gobuild("c11")
    catalog = ctx.specfile("graph_catalog.ndjson")
    out = ctx.path("walk_obs_gen.ndjson")
    cands = []
    p = ctx.run(binary, ["replay-gen", catalog, ctx.specfile("walk_cases.ndjson"), out], timeout=3000, ok_codes=(0, 2))
    recs = []
    st = {}
    if p.returncode == 2:
        cc = crash_candidates(ctx, binary, out, p.stderr)
        if not cc:
            raise Machinery("harness died without a current case:\n" + p.stderr[-2000:])
        cands += cc
    else:
        _, st = ctx.harness_output(p)
        if st.get("cases", 0) != len(cases) or st.get("walks", 0) == 0:
            raise Machinery("harness ran %s of %d cases, %s walks" % (st.get("cases"), len(cases), st.get("walks")))
        recs = read_ndjson(out)

    # ---- U3: random PKIs --------------------------------------------------------------------
    out2 = ctx.path("walk_obs_rnd.ndjson")
    npki = 15 if quick else 300
    p = ctx.run(binary, ["record", out2, str(npki), "10", "30"], timeout=3000, ok_codes=(0, 2))
    rnd = []
    st2 = {}
    if p.returncode == 2:
        cands += crash_candidates(ctx, binary, out2, p.stderr)
    else:
        _, st2 = ctx.harness_output(p)
        rnd = read_ndjson(out2)

    allrecs = recs + rnd
    rej = []
    vacuous = None
    if allrecs:
        rej = gl.judge(ctx, "Trace_Walk", "Walk_judge.cfg", "walk_obs.ndjson", allrecs,
                       label="Trace_Walk judges %d enumerated + %d random observations" % (len(recs), len(rnd)))
    elif not cands:
        raise Machinery("no observations")
    if allrecs:
        need = {"required-path", "two-required-paths", "no-path", "synthesised-start-with-path", "path-of-max-length",
                "path-of-4", "path-to-root-without-issuer"}
        if ctx.last_cover is None or not need <= ctx.last_cover:
            vacuous = "vacuous: coverage tags never reached: %s" % sorted(need - (ctx.last_cover or set()))
        ctx.cov["cover_tags"] = sorted(ctx.last_cover or [])
        if ctx.last_open:
            ctx.note("%d accepted observations on which the walk omits paths that only the lenient reading permits "
                     "(root issued by a node on the path / root's own path length / self-issued counting)" % ctx.last_open)
    drift = 0
    why_by_index = {}
    for i, why, d in rej:
        why_by_index[i] = why
    # lenient-latitude lines are printed with "open"
    # (parsed from the same output by judge(): entries without "why" are skipped there)
    for i, rec in enumerate(recs):
        got = why_by_index.get(i, [])
        if sorted(rec["case"].get("pred", [])) != got:
            drift += 1
    if drift:
        print("MODEL-DRIFT property=C11 the real walk differs from the B model's prediction on %d enumerated "
              "observations (judged against the A layer only)" % drift, flush=True)
        ctx.note("model drift on %d observations" % drift)

    ctx.cov["evaluations"] += st.get("walks", 0) + st2.get("walks", 0)
    ctx.cov["distinct_nontrivial"] += sum(1 for r_ in allrecs if r_["obs"]["chains"])
    ctx.cov["traces_validated_against_impl"] += len(allrecs)
    ctx.cov["exhaustive"] = True
    ctx.cov["cases"] = len(cases)
    ctx.cov["chains_returned"] = st.get("chains", 0) + st2.get("chains", 0)
    ctx.cov["rule"] = ("evaluations = WalkChains/WalkChainsAsync calls on real graphs; cases = every non-empty subset x "
                       "root set (bounded) x start certificate of the named universes plus depth-limit lines; "
                       "distinct_nontrivial = distinct observations (graph, start, result) with at least one returned "
                       "chain, each judged by TLC with WalkObsJudge")
    ctx.add_samples([{"case": cases[len(cases) // 2]}], n=1)

    for i, why, _ in rej:
        rec = allrecs[i]
        cands.append({"sig": {"kind": "walk-rejected", "why": why},
                      "what": "walk from %s (%s) returned %s: %s" % (rec["case"]["start"]["id"],
                                                                     ",".join(rec["case"]["modes"][:3]),
                                                                     json.dumps(rec["obs"]["chains"]), ",".join(why)),
                      "case": rec["case"]})
    ctx.candidates(binary, cands, reproduce=lambda path, body: reproduce(ctx, binary, path, body))
    # a vacuous run is a machinery problem - but never instead of a reproduced violation
    if vacuous and not ctx.violations:
        ctx.problem(vacuous)

    if not quick and recs:
        selftest(ctx, recs)


def reproduce(ctx, binary, path, body=None):
    out = ctx.path("one_walk.ndjson")
    p = ctx.run(binary, ["record-one", path, out], ok_codes=(0, 2))
    if p.returncode == 2:
        return bool(re.search(r"^(panic|fatal error): ", p.stderr, re.M)) and "zcrypto/verifier" in p.stderr
    recs = read_ndjson(out)
    rej = gl.judge(ctx, "Trace_Walk", "Walk_judge.cfg", "walk_obs.ndjson", recs, label="Trace_Walk (replay)")
    if body and body.get("sig", {}).get("why"):
        return any(why == body["sig"]["why"] for _, why, _ in rej)
    return len(rej) > 0


def selftest(ctx, recs):
    """Binding self-test: corrupted observations must be rejected, the original accepted."""
    good = [r for r in recs if len(r["obs"]["chains"]) >= 1 and not r["case"].get("pred")]
    if not good:
        raise Machinery("selftest: no accepted observation with a chain")
    base = good[len(good) // 2]
    a = copy.deepcopy(base)
    a["obs"]["chains"] = a["obs"]["chains"][1:]                  # a required chain is missing
    b = copy.deepcopy(base)
    b["obs"]["chains"].append(b["obs"]["chains"][0])             # duplicate
    c = copy.deepcopy(base)
    c["obs"]["closed"] = False                                   # channel never closed
    d = copy.deepcopy(base)
    d["obs"]["chains"].append(d["obs"]["chains"][0][:-1])        # chain that does not end at a root
    rej = gl.judge(ctx, "Trace_Walk", "Walk_judge.cfg", "walk_obs.ndjson", [a, b, c, d, base], label="Trace_Walk self-test")
    got = sorted(i for i, _, _ in rej)
    want = [0, 1, 2, 3]
    if got != want:
        raise Machinery("selftest: rejected %s, expected %s" % (got, want))
    ctx.note("binding self-test passed (missing chain, duplicate, unclosed channel, non-root-terminated chain rejected)")
    # the known-finding matcher must not swallow neighbouring violations
    from vlib import load_known, match_known
    kf = load_known("C11")
    for why in (["extra:revisit"], ["extra:revisit-adjacent-self-signed", "missing-chain"],
                ["extra:revisit-adjacent-self-signed", "extra:through-root"], ["duplicate-chain"], ["missing-chain"],
                ["missing-chain", "missing:root-edge-issuer-absent"],
                ["extra:non-ca", "missing:root-edge-issuer-absent"],
                ["channel-not-closed", "missing:root-edge-issuer-absent"]):
        if match_known(kf, {"sig": {"kind": "walk-rejected", "why": why}}) is not None:
            raise Machinery("selftest: known-finding matcher is too broad, it matches %s" % why)


def replay(ctx, path):
    binary = ctx.gobuild("c11")
    body = json.load(open(path))
    again = reproduce(ctx, binary, path, body)
    print("REPRODUCED" if again else "not reproduced")
    return 1 if again else 0
