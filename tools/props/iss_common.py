"""Shared driver code of the issuance group (C04, C05, C06, C03): TLC case generation from
IssuanceGen.tla / IdealGen.tla and function-style observation validation by Trace_Issuance.tla /
Trace_Ideal.tla.  No oracle logic lives here: this module moves files and parses TLC's output."""
import json
import os
import re
import shutil

from vlib import Machinery, read_ndjson, write_ndjson


def gen_cases(ctx, module, cfg, subst, outname, label, produced="iss_cases.ndjson", timeout=1500):
    """Run a constant-level TLC generator; returns (path of the ndjson it wrote, number of cases)."""
    src = ctx.specfile(produced)
    if os.path.exists(src):
        os.remove(src)
    r = ctx.tlc(module, cfg, subst=subst, label=label, timeout=timeout)
    m = re.search(r'<<"CASES", (\d+)>>', r.out)
    if not m or not os.path.exists(src):
        raise Machinery("generator %s wrote no cases:\n%s" % (label, r.out[-1500:]))
    n = int(m.group(1))
    if n == 0:
        raise Machinery("generator %s produced zero cases" % label)
    dst = ctx.path(outname)
    shutil.move(src, dst)
    return dst, n




def tlc_judge(ctx, module, cfg, kind, records, fname="iss_obs.ndjson", label=None, timeout=1500):
    """Function-style validation: TLC evaluates the specification's operators on every logged
    record.  Returns list of (index0, bad_fields, bad_fields_of_std_observer)."""
    if not records:
        raise Machinery("nothing to validate (%s)" % (label or kind))
    write_ndjson(ctx.specfile(fname), records)
    r = ctx.tlc(module, cfg, subst={"KIND": kind}, workers=1, label=label or ("%s[%s, %d records]" % (module, kind, len(records))),
                timeout=timeout)
    m = re.search(r'<<"JUDGED", (\d+)>>', r.out)
    if not m or int(m.group(1)) != len(records):
        raise Machinery("TLC did not judge the whole log (%s):\n%s" % (label or kind, r.out[-1500:]))
    rej = []
    for line in r.out.splitlines():
        if line.startswith('"{'):
            try:
                d = json.loads(json.loads(line))
            except ValueError:
                continue
            if "reject" in d:
                rej.append((int(d["reject"]) - 1, sorted(d.get("bad") or []), sorted(d.get("std") or [])))
    return rej


def pad(alg):
    if "PSS" in alg:
        return "pss"
    if alg.endswith("-RSA"):
        return "pkcs1v15"
    return "none"


def family(kt):
    if kt.startswith("rsa"):
        return "rsa"
    if kt == "ed25519":
        return "ed25519"
    if kt.startswith("dsa"):
        return "dsa"
    return "ecdsa"


def run_gen_replay(ctx, binary, files, dump=None):
    """Replay TLC-generated case files on the real code; returns (candidates, stats summed)."""
    cands, tot = [], {}
    for i, path in enumerate(files):
        args = ["replay-gen", path]
        if dump:
            args.append("%s.%d" % (dump, i))
        p = ctx.run(binary, args, timeout=3000)
        c, st = ctx.harness_output(p)
        cands += c
        for k, v in st.items():
            if isinstance(v, (int, float)):
                tot[k] = tot.get(k, 0) + v
            elif isinstance(v, dict):
                d = tot.setdefault(k, {})
                for kk, vv in v.items():
                    d[kk] = d.get(kk, 0) + vv
    if tot.get("cases", 0) == 0:
        raise Machinery("harness replayed no cases")
    return cands, tot


def selftest_corrupt(ctx, module, cfg, kind, records, mutate, what):
    """Binding self-test: a corrupted copy of one accepted record must be rejected."""
    import copy
    rec = None
    for r in records:
        if r.get("obs", {}).get("outcome") == "ok":
            rec = copy.deepcopy(r)
            break
    if rec is None:
        raise Machinery("selftest: no accepted record to corrupt")
    mutate(rec)
    rej = tlc_judge(ctx, module, cfg, kind, [rec], label="selftest %s" % what)
    if not rej:
        raise Machinery("selftest: corrupted record (%s) was accepted - the validator constrains nothing" % what)


def val_candidates(ctx, cands, rerun, module, cfg, kind, limit=40, fname="iss_obs.ndjson"):
    """Validation-direction candidates (records TLC rejected): every distinct signature is re-run
    in a fresh process (rerun(replay_path, out_path) must write the new observation record(s)),
    all re-observations are judged by ONE TLC run, and only the still-rejected ones are handed
    to ctx.candidates as reproduced."""
    seen = {}
    for c in cands:
        seen.setdefault(json.dumps(c.get("sig", {}), sort_keys=True), c)
    todo = list(seen.items())[:limit]
    if not todo:
        return
    recs, owner = [], []
    for k, c in todo:
        tmp = ctx.path("cand_%d.json" % len(owner))
        with open(tmp, "w") as f:
            json.dump({"sig": c.get("sig", {}), "case": c.get("case", {})}, f)
        out = ctx.path("cand_%d.ndjson" % len(owner))
        rerun(tmp, out)
        for r in read_ndjson(out):
            if kind == "mixed" and "kind" in c.get("case", {}):
                r["kind"] = c["case"]["kind"]
            recs.append(r)
            owner.append(k)
    again = set()
    if recs:
        for (i, bad, sbad) in tlc_judge(ctx, module, cfg, kind, recs, fname=fname, label="re-judge %d re-run candidates" % len(recs)):
            again.add(owner[i])
    ctx.candidates(None, [c for _, c in todo], limit=limit,
                   reproduce=lambda path, body: json.dumps(body.get("sig", {}), sort_keys=True) in again)
