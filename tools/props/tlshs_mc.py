"""U1 of the TLS handshake checks: TLC model-checks the client/server/network machine
TLSHandshakeMC.tla (design level) in the mode of the property, with reachability witnesses as a
vacuity guard, and its liveness properties.  A counterexample here is a prediction about the
design, never a verdict about the code: it is reported as a note and the run goes on to the real
code (DESIGN.md 3); an unreached witness or a TLC failure is a machinery problem."""
import re

from vlib import Machinery

# mode -> (adversary budget quick, thorough, liveness budget)
BUDGET = {"C24": (1, 2, 0), "C27": (0, 1, 0), "C31": (1, 2, 0), "C32": (2, 3, 1)}


def check(ctx, prop):
    q, t, live = BUDGET[prop]
    adv = q if ctx.quick else t
    r = ctx.tlc("TLSHandshakeMC", "TLSHandshake_mc.cfg", subst={"MODE": prop, "ADV": adv}, workers=1,
                timeout=3000, expect_ok=False, label="TLSHandshakeMC[%s, adversary budget %d]" % (prop, adv))
    m = re.search(r'<<"UNREACHED", (\{[^}]*\})>>', r.out)
    if m:
        raise Machinery("TLSHandshakeMC[%s]: witness states %s never reached - the invariants are vacuous" % (prop, m.group(1)))
    if r.violated:
        ctx.note("TLSHandshakeMC[%s]: %s violated in the model - design-level prediction, judged only through the real code" % (prop, r.violated))
    elif r.rc != 0:
        raise Machinery("TLC failed on TLSHandshakeMC[%s]:\n%s" % (prop, "\n".join(r.out.splitlines()[-30:])))
    if r.distinct < 500:
        raise Machinery("TLSHandshakeMC[%s]: only %d states - model not exercised" % (prop, r.distinct))
    if ctx.quick and prop != "C32":
        return      # liveness of the machine is checked by the quick tier of C32 and by every thorough tier
    r2 = ctx.tlc("TLSHandshakeMC", "TLSHandshake_live.cfg", subst={"MODE": prop, "ADV": live},
                 timeout=3000, expect_ok=False, label="TLSHandshakeMC liveness[%s, adversary budget %d]" % (prop, live))
    if r2.violated:
        ctx.note("TLSHandshakeMC[%s]: liveness property violated in the model (%s) - design-level prediction" % (prop, r2.violated))
    elif r2.rc != 0:
        raise Machinery("TLC failed on TLSHandshakeMC liveness[%s]:\n%s" % (prop, "\n".join(r2.out.splitlines()[-30:])))
