"""C08 - CertPool behaves as a fingerprint-keyed ordered set
(CertPool.tla, CertPoolGen.tla, Trace_CertPool.tla, Trace_CertPoolParents.tla; harness cmd/c08)."""
import json
import os
import re

import pkvlib
from vlib import read_ndjson, write_ndjson, Machinery

META = {
    "technique": "TLA+ pool machine (CertPool.tla): TLC explores every reachable state of three pool slots exhaustively and "
                 "emits every operation from every state with the demanded observer results, replayed on real x509.CertPool "
                 "objects; recorded random histories and parent lookups are validated by TLC",
    "text": "CertPool.tla defines a pool as a duplicate-free sequence of abstract certificates with pure step functions "
            "(AddCert, AppendCertsFromPEM over block kinds certificate / other type / unparseable / garbage, Sum into a new "
            "pool, nil pools) and observers (Size, Contains, Covers, Certificates, Subjects), plus ParentsOk for the "
            "parent-lookup clause. CertPoolGen.tla is model-checked by TLC (no duplicates; pools only grow by appending) over a "
            "universe with shared subjects, shared keys/key ids and a re-issued certificate; for every reachable state a "
            "shortest history and every enabled operation with the demanded post-state observations is replayed on real pools "
            "(certificates made with the standard library and parsed by zcrypto, fresh parse per use). Every distinct (pool, "
            "child, returned indices) of findVerifiedParents is judged by TLC, and seeded random long histories recorded "
            "from real pools are validated as traces of the same step functions.",
    "note": "Trusted: TLC, Go standard library (certificate creation, PEM encoding), lib/pki; a build-tagged export of "
            "findVerifiedParents (x509/verif_pkiverify.go). Left open: CERTIFICATE blocks carrying PEM headers, the boolean "
            "result of AppendCertsFromPEM, operations on a nil receiver other than Sum/Size/Contains, concurrency.",
}


def run(ctx):
    binary = ctx.gobuild("c08")
    ctx.specfile("x")
    uni = ctx.specfile("c08_universe.ndjson")

    # (cfg, certificates, depth bound): CertPool_full explores the whole state space of the universe (bound not
    # binding, one visit per pool state), CertPool_gen everything within the depth bound
    configs = [("gen", 3, 3)] if ctx.quick else [("full", 3, 99), ("gen", 4, 4), ("gen", 5, 3)]

    def gen_job(k, cfg, nc, depth):
        def job():
            r = pkvlib.tlc(ctx, "CertPoolGen", "CertPool_%s.cfg" % cfg, workers=max(2, ctx.workers // 2), timeout=6000,
                           subst={"NC": nc, "MAXDEPTH": depth, "OUTU": "c08_universe_%d.ndjson" % k},
                           label="CertPoolGen nc=%d depth<=%d" % (nc, depth))
            lines = [l for l in r.out.splitlines() if l.startswith('"{')]
            if not lines:
                raise Machinery("generator produced no states")
            if len(lines) != r.distinct:
                raise Machinery("generator printed %d states, TLC reports %d distinct" % (len(lines), r.distinct))
            path = ctx.path("c08_states_%d.txt" % k)
            with open(path, "w") as f:
                f.write("\n".join(lines) + "\n")
            par = ctx.specfile("c08_parents_%d.ndjson" % k)
            p = ctx.run(binary, ["replay-gen", ctx.specfile("c08_universe_%d.ndjson" % k), path, par], timeout=3000)
            cands, st = ctx.harness_output(p)
            if st.get("states") != len(lines) or not st.get("steps"):
                raise Machinery("harness replayed %s states / %s steps" % (st.get("states"), st.get("steps")))
            pj = judge_parents(ctx, par, "parents nc=%d" % nc)
            sample = json.loads(json.loads(lines[len(lines) // 2]))
            sample["steps"] = sample["steps"][:1]
            return {"states": len(lines), "steps": st["steps"], "cands": cands, "parents": pj, "sample": sample,
                    "universe": read_ndjson(ctx.specfile("c08_universe_%d.ndjson" % k))}
        return job

    def trace_job():
        ntr, ln = (100, 40) if ctx.quick else (2500, 80)
        out = ctx.path("c08_rec.ndjson")
        u = ctx.specfile("c08_universe_0.ndjson")   # written by the first generator run (always the whole universe)
        ctx.run(binary, ["record", u, out, str(ntr), str(ln)])
        events = read_ndjson(out)
        # trace_validate is sequential (-workers 1) and uses a fixed file name: run it alone in this job
        acc, rejects = ctx.trace_validate("Trace_CertPool", "CertPool_trace.cfg", "certpool_trace.ndjson", events, timeout=3000)
        return {"events": events, "acc": acc, "rejects": rejects, "universe": read_ndjson(u)}

    jobs = [gen_job(k, cfg, nc, d) for k, (cfg, nc, d) in enumerate(configs)]
    results = pkvlib.par(ctx, jobs)
    tr = trace_job()   # not in parallel with the others: ctx.trace_validate calls ctx.tlc directly

    cands, pc = [], []
    for r in results:
        cands += r["cands"]
        ctx.cov["evaluations"] += r["steps"]
        ctx.cov["distinct_nontrivial"] += r["steps"]
        ctx.cov["traces_validated_against_impl"] += r["states"]
        ctx.cov["pool_states"] = ctx.cov.get("pool_states", 0) + r["states"]
        pj = r["parents"]
        ctx.cov["parent_lookups_judged"] = ctx.cov.get("parent_lookups_judged", 0) + pj["n"]
        ctx.cov["evaluations"] += pj["n"]
        if pj["nonempty"] == 0:
            raise Machinery("vacuous: no parent lookup returned a parent")
        for o in pj["rejects"]:
            pc.append({"sig": {"kind": "parent-lookup", "child": o["child"]},
                       "what": "findVerifiedParents(%s) on pool %s returned indices %s: not all are members whose signature over the child verifies"
                               % (o["child"], o["pool"], o["idxs"]),
                       "case": {"universe": r["universe"], "trace": True,
                                # the lookups this child object went through before, then the failing one: the
                                # lookup writes to its argument, so its history is part of the input
                                "events": [e for pool in o.get("prior", []) + [o["pool"]]
                                           for e in ([{"ev": "reset"}] + [{"ev": "add", "p": 1, "c": c} for c in pool] +
                                                     [{"ev": "parents", "p": 1, "child": o["child"], "idxs": []}])]}})
        if pj["drift"]:
            ctx.note("MODEL-DRIFT property=C08: %d of %d parent lookups differ from the B layer's prediction (first: %s)"
                     % (len(pj["drift"]), pj["n"], json.dumps(pj["drift"][0])))
        if not ctx.cov["samples"]:
            ctx.add_samples([r["sample"]], n=1)
    ctx.cov["exhaustive"] = True
    ctx.cov["rule"] = ("evaluations = (reachable pool state, operation) pairs emitted by TLC from CertPoolGen.tla and replayed "
                       "on real pools with every observer compared, plus parent lookups and recorded trace events judged by "
                       "TLC; every such pair is counted as non-trivial (each is a distinct abstract state x operation; "
                       "duplicates, shared subjects and shared key ids are part of every universe)")
    ctx.candidates(binary, cands)

    ctx.cov["traces_validated_against_impl"] += tr["acc"]
    ctx.cov["evaluations"] += len(tr["events"])
    ctx.cov["trace_events"] = len(tr["events"])
    for rej in tr["rejects"]:
        last = rej[-1]
        pc.append({"sig": {"kind": "trace-rejected", "event": last.get("ev")},
                   "what": "recorded history rejected by Trace_CertPool at %s" % json.dumps(last),
                   "case": {"universe": tr["universe"], "events": rej, "trace": True}})
    ctx.candidates(binary, pc, reproduce=lambda path, body: reproduce_trace(ctx, binary, path))
    if ctx.thorough:
        selftest(ctx, tr["events"])


def judge_parents(ctx, path, label):
    r = pkvlib.tlc(ctx, "Trace_CertPoolParents", "CertPool_parents.cfg", subst={"FO": os.path.basename(path)}, workers=1,
                   timeout=3000, label="judge " + label)
    m = re.search(r'<<\s*"JUDGED",\s*(\d+),\s*(\d+)\s*>>', r.out)
    if not m:
        raise Machinery("judge %s printed no summary:\n%s" % (label, "\n".join(r.out.splitlines()[-20:])))
    obs = read_ndjson(path)
    rej = [obs[int(i) - 1] for i in re.findall(r'<<\s*"REJECT",\s*(\d+)\s*>>', r.out)]
    drift = [obs[int(i) - 1] for i in re.findall(r'<<\s*"DRIFT",\s*(\d+)\s*>>', r.out)]
    return {"n": int(m.group(1)), "nonempty": int(m.group(2)), "rejects": rej, "drift": drift}


def reproduce_trace(ctx, binary, path):
    out = ctx.path("c08_one.ndjson")
    ctx.run(binary, ["record-one", path, out])
    ev = read_ndjson(out)
    acc, rej = ctx.trace_validate("Trace_CertPool", "CertPool_trace.cfg", "certpool_trace.ndjson", ev, max_rejects=1)
    return len(rej) > 0


def selftest(ctx, events):
    """Binding self-test: a corrupted observation and a dropped operation must both be rejected."""
    import copy
    ev = copy.deepcopy(events[:3000])
    idx = [i for i, e in enumerate(ev) if e["ev"] == "obs" and e["size"] >= 2]
    if not idx:
        raise Machinery("selftest: no observation of a pool with two certificates")
    i = idx[len(idx) // 2]
    bad = copy.deepcopy(ev)
    bad[i]["certs"] = list(reversed(bad[i]["certs"]))
    _, rej = ctx.trace_validate("Trace_CertPool", "CertPool_trace.cfg", "certpool_trace.ndjson", bad, max_rejects=1)
    if not rej:
        raise Machinery("selftest: an observation with reversed order was accepted - the trace spec constrains nothing")
    adds = [k for k, e in enumerate(ev) if e["ev"] == "add"]
    dropped = False
    for k in adds[:60]:
        _, rej = ctx.trace_validate("Trace_CertPool", "CertPool_trace.cfg", "certpool_trace.ndjson", ev[:k] + ev[k + 1:],
                                    max_rejects=1)
        if rej:
            dropped = True
            break
    if not dropped:
        raise Machinery("selftest: dropping AddCert events was never noticed")
    ctx.note("binding self-test passed (reordered observation and dropped AddCert rejected)")


def replay(ctx, path):
    binary = ctx.gobuild("c08")
    body = json.load(open(path))
    if body.get("case", {}).get("trace"):
        again = reproduce_trace(ctx, binary, path)
    else:
        again = ctx.run(binary, ["replay", path], ok_codes=(0, 1)).returncode == 1
    print("REPRODUCED" if again else "not reproduced")
    return 1 if again else 0
