"""C04 - certificate issuance round-trips through parsing (Issuance.tla: Expected; IssuanceGen.tla;
Trace_Issuance.tla; harness cmd/c04, lib/iss)."""
import json
import os

from vlib import Machinery, read_ndjson
import props.iss_common as ic

META = {
    "technique": "TLA+ transcription of the issuance field map (Issuance.tla, operator Expected): TLC enumerates templates over boundary classes (exhaustive inside the interacting groups, all value pairs of every two fields) together with the Expected parsed-field record; each is run through the real CreateCertificate -> ParseCertificate -> CheckSignatureFrom and compared; rapid-generated templates run on the real code are logged and judged by TLC evaluating Expected on the logged template; crypto/x509 parses the same DER as an independent observer",
    "text": "The specification decides, per template field, what the parsed certificate must report: the MaxPathLen/MaxPathLenZero rule, SKID/AKID, the 4- vs 16-byte IPv4 rule, every name-constraint kind, ExtraExtensions overriding generated extensions, requested-algorithm domain per key type, validity to the second across the UTCTime/GeneralizedTime boundary. TLC enumerates the abstract template space (bounded-exhaustive per interacting group + pairwise) and emits the Expected record; the Go harness only concretises, runs the real code, projects and compares for equality (generic Judge). In the other direction 10^3-10^4 random templates are judged by TLC. Exhaustive over the abstract classes, sampled inside each class - the right level for a pure function with a rich case analysis.",
    "note": "Trusted: TLC, the Go toolchain, the standard library (crypto/*, encoding/asn1, crypto/x509 as second observer and to build parent certificates). Left open (both readings allowed): AuthorityKeyId of an issued certificate (template's value vs parent's SubjectKeyId - the doc comment and the code differ), CheckSignatureFrom refusing a parent that is no CA, requested algorithms outside the signer's key family (error or a verifying certificate). Names are compared per attribute as multisets (Name<->RDN proper is C22). Template Min/Max of name-constraint subtrees, URI/otherName SANs and GivenName/Surname are outside the domain (the builder does not emit them).",
}


def sig_for(dirn, observer, t, bad, o=None):
    err = (o or {}).get("err") or ""
    if bad == ["outcome"]:
        return {"obj": "cert", "dir": dirn, "observer": observer, "fields": "outcome", "pad": "", "signer": "", "parent": "",
                "nc16": any(len(n["ip"]) == 16 and len(n["mask"]) == 4 for n in t["pIP"] + t["xIP"]),
                "stage": err.split(":")[0] if (o or {}).get("outcome") == "error" and ":" in err else ""}
    return {"obj": "cert", "dir": dirn, "observer": observer, "fields": ",".join(bad),
            "nc16": any(len(n["ip"]) == 16 and len(n["mask"]) == 4 for n in t["pIP"] + t["xIP"]),
            "stage": err.split(":")[0] if (o or {}).get("outcome") == "error" and ":" in err else "",
            "pad": ic.pad(t["sigAlg"]), "signer": ic.family(t["signerKey"]), "parent": t["parent"]["kind"]}


def reproduce_val(ctx, binary, path):
    out = ctx.path("one.ndjson")
    ctx.run(binary, ["record-one", path, out])
    rej = ic.tlc_judge(ctx, "Trace_Issuance", "Issuance_trace.cfg", "cert", read_ndjson(out), label="re-judge one record")
    return len(rej) > 0


def run(ctx):
    quick = ctx.quick
    binary = ctx.gobuild("c04")

    # U2: TLC enumerates templates + Expected; replay on the real code.
    files, total = [], 0
    path, n = ic.gen_cases(ctx, "IssuanceGen", "Issuance_gen.cfg", {"GROUP": "all", "PART": 0, "PARTS": 1},
                           "cases_all.ndjson", "IssuanceGen groups+singles")
    files.append(path)
    total += n
    with open(path) as f:
        first = json.loads(f.readline())
    ctx.add_samples([{"template": first["t"], "expected_allowed": first["exp"]["allowed"]}], n=1)
    if not quick:
        parts = 4
        for k in range(parts):
            path, n = ic.gen_cases(ctx, "IssuanceGen", "Issuance_gen.cfg", {"GROUP": "pairs", "PART": k, "PARTS": parts},
                                   "cases_pairs%d.ndjson" % k, "IssuanceGen pairs %d/%d" % (k + 1, parts))
            files.append(path)
            total += n
    cands, st = ic.run_gen_replay(ctx, binary, files)
    if st.get("cases") != total:
        raise Machinery("harness replayed %s of %d generated cases" % (st.get("cases"), total))
    if st.get("std_parsed", 0) == 0:
        raise Machinery("the standard-library observer never parsed a certificate")
    ctx.cov["evaluations"] += total
    ctx.cov["distinct_nontrivial"] += st.get("nontrivial", 0)
    ctx.cov["traces_validated_against_impl"] += total
    ctx.cov["exhaustive"] = True
    ctx.cov["gen_cases"] = total
    ctx.cov["std_observer_parsed"] = st.get("std_parsed", 0)
    ctx.cov["rejected_by_create_or_parse"] = st.get("rejected_by_create_or_parse", 0)
    ctx.cov["rule"] = ("TLC-enumerated templates (IssuanceGen.tla): every value of every field, exhaustive products inside the "
                       "basic-constraints / SAN / name-constraint / extra-extension / key x algorithm / key-id / validity / name "
                       "groups%s, each with the Expected record; non-trivial = the template sets at least one extension-bearing "
                       "field, a raw subject or a requested algorithm; plus rapid-generated templates judged by TLC"
                       % ("" if quick else ", and all value pairs of every two fields"))
    ctx.candidates(binary, cands)

    # U3: rapid templates on the real code, judged by TLC.
    nrec = 1200 if quick else 12000
    out = ctx.path("rec.ndjson")
    p = ctx.run(binary, ["record", out, str(nrec)], timeout=3000)
    _, st2 = ctx.harness_output(p)
    recs = read_ndjson(out)
    if len(recs) != nrec:
        raise Machinery("recorded %d of %d templates" % (len(recs), nrec))
    oks = sum(1 for r in recs if r["obs"]["outcome"] == "ok")
    if oks < nrec // 2:
        raise Machinery("only %d of %d random templates were accepted - generator outside the domain" % (oks, nrec))
    rej = []
    chunk = 3000
    for a in range(0, len(recs), chunk):
        part = recs[a:a + chunk]
        for (i, bad, sbad) in ic.tlc_judge(ctx, "Trace_Issuance", "Issuance_trace.cfg", "cert", part,
                                           label="Trace_Issuance cert [%d records]" % len(part)):
            rej.append((a + i, bad, sbad))
    ctx.cov["evaluations"] += len(recs)
    ctx.cov["distinct_nontrivial"] += st2.get("nontrivial", 0)
    ctx.cov["traces_validated_against_impl"] += len(recs) - len(rej)
    ctx.cov["random_templates_judged"] = len(recs)
    vc = []
    for (i, bad, sbad) in rej:
        t = recs[i]["t"]
        if bad:
            vc.append({"sig": sig_for("val", "zcrypto", t, bad, recs[i]["obs"]),
                       "what": "recorded CreateCertificate/ParseCertificate observation rejected by Expected in %s (err=%r)" % (bad, recs[i]["obs"].get("err")),
                       "case": {"t": t, "obs": recs[i]["obs"], "observer": "zcrypto"}})
        if sbad:
            vc.append({"sig": sig_for("val", "stdlib", t, sbad),
                       "what": "crypto/x509's view of the created certificate rejected by Expected in %s" % sbad,
                       "case": {"t": t, "obs": recs[i]["std"], "observer": "stdlib"}})
    ic.val_candidates(ctx, vc, lambda rp, out: ctx.run(binary, ["record-one", rp, out]), "Trace_Issuance", "Issuance_trace.cfg", "cert")

    if not quick:
        def corrupt(rec):
            rec["obs"]["val"]["serial"] = rec["obs"]["val"]["serial"] + "00"
        ic.selftest_corrupt(ctx, "Trace_Issuance", "Issuance_trace.cfg", "cert", recs, corrupt, "serial changed")

        def corrupt2(rec):
            rec["obs"]["val"]["sigRaw"] = "fail"
        ic.selftest_corrupt(ctx, "Trace_Issuance", "Issuance_trace.cfg", "cert", recs, corrupt2, "signature failure")
        ctx.note("binding self-test passed (corrupted observations rejected)")


def replay(ctx, path):
    binary = ctx.gobuild("c04")
    body = json.load(open(path))
    if body.get("case", {}).get("exp"):
        again = ctx.run(binary, ["replay", path], ok_codes=(0, 1)).returncode == 1
    else:
        again = reproduce_val(ctx, binary, path)
    print("REPRODUCED" if again else "not reproduced")
    return 1 if again else 0
