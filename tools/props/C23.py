"""C23 - the RSA fork computes what standard RSA computes (RSAIdeal.tla, RSAIdealGen.tla,
Trace_RSAIdeal.tla; harness cmd/c23)."""
import concurrent.futures
import json
import os
import shutil

from vlib import read_ndjson, Machinery

META = {
    "technique": "TLA+ ideal-functionality specification of RSA encryption/signature schemes: TLC enumerates abstract producer/mutation/consumer runs mixing zcrypto's rsa and crypto/rsa with the allowed outcome sets, the runs are executed with real keys of every key class on both implementations, and seeded random runs recorded from both are validated by TLC against the same operators",
    "text": "RSAIdeal.tla treats the RSA permutation, hashes and MGF as uninterpreted and specifies what the padding schemes own: RFC 8017 size feasibility, which (key, hash, label/digest, salt length) a consumer binds, outcome sets for modified ciphertexts/signatures, and totality on malformed public keys - independently of the implementation label. RSAIdealGen.tla lets TLC enumerate every producer x mutation x consumer run per key class (size x prime count x precomputation x exponent class); each run is executed with real keys on zcrypto (Z) and on the standard library (S), so Z-made objects are consumed by S and vice versa and both must agree where the prediction is a set. Trace_RSAIdeal.tla judges random runs with wider parameters. Differential at the binding: numeric correctness is sampled per key class, not proved.",
    "note": "Trusted: TLC, Go's crypto/rsa and math/big (oracle for the primitives), the key constructor of the harness (checked by zcrypto's and crypto/rsa's Validate and by re-deriving the class from the real key). Keys below 1024 bits need GODEBUG rsa1024min=0 (set in the harness). The standard library takes part only where its documented limits admit the key (public exponent < 2^31): for larger exponents the runs are zcrypto-only round trips. Malformed keys: the statement's kinds (nil/zero/negative N or E) must yield an error; E=1 and tiny moduli only must not panic. Wrong-length ciphertexts (one octet dropped/prepended) may be rejected or processed; agreement of the two implementations is not demanded there.",
}

CACHE = "/var/tmp/verif-cache"


def key_pool(ctx, binary, sizes, primes):
    """Prime pool for the key classes: generated once per (seed, sizes, primes) and cached in
    /var/tmp/verif-cache (an optimisation only: regenerated when missing, every prime and every
    constructed key is re-validated by the harness when it is loaded)."""
    name = "c23-keys-v2-s%d-%s-%s.json" % (ctx.seed, "_".join(map(str, sizes)), "_".join(map(str, primes)))
    local = ctx.path("keys.json")
    cached = os.path.join(CACHE, name)
    if os.path.exists(cached):
        shutil.copy(cached, local)
        try:
            json.load(open(local))
            return local
        except ValueError:
            pass
    ctx.run(binary, ["keys", local, ",".join(map(str, sizes)), ",".join(map(str, primes))], timeout=3000)
    try:
        os.makedirs(CACHE, exist_ok=True)
        tmp = cached + ".%d.tmp" % os.getpid()
        shutil.copy(local, tmp)
        os.replace(tmp, cached)
    except OSError:
        pass
    return local


def tla_set(items):
    return "{" + ",".join(json.dumps(i) if isinstance(i, str) else str(i) for i in items) + "}"


def generate(ctx, sizes, primes, exps, hashes, cover, out):
    r = ctx.tlc("RSAIdealGen", "RSAIdeal_gen.cfg", timeout=3000,
                subst={"SIZES": tla_set(sizes), "PRIMES": tla_set(primes), "PRES": tla_set(["pre", "nopre"]),
                       "EXPS": tla_set(exps), "HASHES": tla_set(hashes), "COVER": cover},
                label="RSAIdealGen sizes=%s cover=%s" % (sizes, cover))
    lines = [l for l in r.out.splitlines() if l.startswith('"{')]
    if not lines:
        raise Machinery("generator produced no runs:\n" + r.out[-1500:])
    with open(out, "a") as f:
        f.write("\n".join(lines) + "\n")
    return [json.loads(json.loads(l)) for l in lines]


def run(ctx):
    quick = ctx.quick
    binary = ctx.gobuild("c23")
    # sizes: byte-aligned ones and boundary classes (modulus length 1, 3, 6 mod 8: the PSS encoding is one
    # octet shorter than the modulus / the leading octet is partial)
    if quick:
        sizes, primes = [512, 513, 1024, 1025, 1030, 2048], [2, 3, 5]
    else:
        sizes, primes = [512, 513, 1024, 1025, 1027, 1030, 2048, 2049, 3072, 4096], [2, 3, 4, 5]
    keys = key_pool(ctx, binary, sizes, primes)

    # U2: TLC enumerates the abstract runs with the outcome sets of the ideal functionality.
    runs_file = ctx.path("runs.ndjson")
    open(runs_file, "w").close()
    if quick:
        runs = generate(ctx, sizes, primes, ["e65537", "r31", "rbig"], ["sha1", "sha256"], "oa", runs_file)
    else:
        allexp = ["e3", "e65537", "r31", "r40", "rbig"]
        runs = generate(ctx, [512, 513, 1024, 1025, 2048], primes, allexp, ["sha1", "sha256", "sha512"], "full", runs_file)
        runs += generate(ctx, [1027, 1030, 2049, 3072, 4096], primes, allexp, ["sha256", "sha512"], "oa", runs_file)
    ops = set(s["op"] for r in runs for s in r["steps"])
    need = {"EncPKCS1", "EncOAEP", "SignPKCS1", "SignPSS", "ForgeEnc", "ForgeSig", "ForgePSS", "ForgeOAEP", "Mutate", "DecPKCS1", "DecSessionKey", "DecOAEP", "VerPKCS1", "VerPSS"}
    if not need <= ops or not any(s["bad"] for r in runs for s in r["steps"]):
        raise Machinery("vacuous generation: operations %s never occur" % sorted(need - ops))
    if not any(s["impl"] == "S" for r in runs for s in r["steps"]):
        raise Machinery("vacuous generation: the standard library never takes part")
    nontriv = 0
    for r in runs:
        st = r["steps"]
        if any(s["op"] == "Mutate" or s["bad"] or s["exp"] == ["error"] or s["key"] == "other" or s["digest"] == "other"
               or (s["exp"] not in (["ok"], ["value"], ["accept"], ["key"])) for s in st):
            nontriv += 1
    ctx.add_samples([runs[len(runs) // 3]], n=1)

    # replay on both implementations, sharded over worker processes
    nsh = max(1, min(ctx.workers, 16))
    with concurrent.futures.ThreadPoolExecutor(max_workers=nsh) as ex:
        futs = [ex.submit(ctx.run, binary, ["run", keys, runs_file, str(i), str(nsh)], 6000) for i in range(nsh)]
        procs = [f.result() for f in futs]
    cands, tot = [], {"runs": 0, "steps": 0, "failed": 0, "z_only_runs": 0}
    for p in procs:
        c, st = ctx.harness_output(p)
        cands += c
        for k in tot:
            tot[k] += st.get(k, 0)
    if tot["runs"] != len(runs):
        raise Machinery("harness executed %d of %d runs" % (tot["runs"], len(runs)))
    ctx.cov["evaluations"] += tot["steps"]
    ctx.cov["traces_validated_against_impl"] += tot["runs"]
    ctx.cov["distinct_nontrivial"] += nontriv
    ctx.cov["exhaustive"] = True
    ctx.cov["z_only_runs"] = tot["z_only_runs"]
    ctx.cov["key_classes"] = len(set(json.dumps(r["kc"], sort_keys=True) for r in runs))
    ctx.cov["rule"] = ("every abstract run TLC generates from RSAIdealGen.tla (producer variant x mutation x consumer variant, "
                       "consumed by Z and by S) for every selected key class, executed with real keys; plus the malformed-public-key "
                       "steps; non-trivial = the run has a mutation, a deviating consumer parameter, a wrong key, a failing producer, "
                       "a set-valued prediction or a malformed key; plus seeded random runs validated by TLC (Trace_RSAIdeal.tla)")
    ctx.note("%d runs / %d executed steps on %d key classes; %d runs are zcrypto-only (exponent beyond crypto/rsa's documented 31-bit limit: S side skipped)"
             % (tot["runs"], tot["steps"], ctx.cov["key_classes"], tot["z_only_runs"]))
    ctx.candidates(binary, cands)

    # U3: seeded random runs with wider parameters, judged by TLC
    nrand = 400 if quick else 4000
    out = ctx.path("rsa_rec.ndjson")
    ctx.run(binary, ["record", keys, out, str(nrand)], timeout=6000)
    events = read_ndjson(out)
    metas = read_ndjson(out + ".runs")
    # number the runs so that a rejected trace can be mapped back to its key material
    rid = -1
    for e in events:
        if e["ev"] == "reset":
            rid += 1
            e["id"] = rid
    acc, rejects = ctx.trace_validate("Trace_RSAIdeal", "RSAIdeal_trace.cfg", "rsa_trace.ndjson", events, timeout=3000)
    ctx.cov["traces_validated_against_impl"] += acc
    ctx.cov["evaluations"] += len(events)
    ctx.cov["trace_events"] = len(events)
    tc = []
    for rej in rejects:
        meta = metas[rej[0]["id"]]
        last = rej[-1]
        sig = {"kind": "trace-rejected", "op": last.get("op"), "impl": last.get("impl"), "got": last.get("out"),
               "primes": meta["random"]["kc"]["primes"], "pre": meta["random"]["kc"]["pre"], "eclass": meta["random"]["kc"]["exp"]}
        tc.append({"sig": sig, "what": "recorded run rejected by Trace_RSAIdeal at %s" % json.dumps(last)[:300], "case": meta})
    ctx.candidates(binary, tc, reproduce=lambda path, body: reproduce_trace(ctx, binary, path))

    if not quick:
        selftest(ctx, events)


def reproduce_trace(ctx, binary, path):
    out = ctx.path("one.ndjson")
    ctx.run(binary, ["record-one", path, out])
    ev = read_ndjson(out)
    acc, rej = ctx.trace_validate("Trace_RSAIdeal", "RSAIdeal_trace.cfg", "rsa_trace.ndjson", ev)
    return len(rej) > 0


def selftest(ctx, events):
    """Binding self-test: a corrupted outcome and a dropped producer must both be rejected."""
    import copy
    ev = copy.deepcopy(events[:1500])
    idx = [i for i, e in enumerate(ev) if e["ev"] == "consume" and e["out"] == "accept"]
    if not idx:
        raise Machinery("selftest: no accepting verification in the recorded prefix")
    bad = copy.deepcopy(ev)
    bad[idx[len(idx) // 2]]["out"] = "reject"
    _, rej = ctx.trace_validate("Trace_RSAIdeal", "RSAIdeal_trace.cfg", "rsa_trace.ndjson", bad, max_rejects=1)
    if not rej:
        raise Machinery("selftest: a corrupted verification outcome was accepted - the trace spec constrains nothing")
    j = [i for i, e in enumerate(ev) if e["ev"] == "produce" and e["out"] == "ok"]
    cand = ev[:j[3]] + ev[j[3] + 1:]
    _, rej = ctx.trace_validate("Trace_RSAIdeal", "RSAIdeal_trace.cfg", "rsa_trace.ndjson", cand, max_rejects=1)
    if not rej:
        raise Machinery("selftest: a dropped producer event was not noticed")
    ctx.note("binding self-test passed (corrupted outcome and dropped producer rejected)")


def replay(ctx, path):
    binary = ctx.gobuild("c23")
    body = json.load(open(path))
    if "random" in body.get("case", {}):
        again = reproduce_trace(ctx, binary, path)
    else:
        again = ctx.run(binary, ["replay", path], ok_codes=(0, 1)).returncode == 1
    print("REPRODUCED" if again else "not reproduced")
    return 1 if again else 0
