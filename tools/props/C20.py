"""C20 - permissive parsing is a conservative extension of strict parsing (DER.tla / DERGen.tla for the
grammar-level lemma and the C19 corpus, Trace_Perm.tla for the observations; harness cmd/c20)."""
import json
import re

from vlib import Machinery, read_ndjson, write_ndjson
from props import derlib
from props import C19

META = {
    "technique": "TLA+: the permissive header / INTEGER grammar of DER.tla is model-checked to extend the strict one on every enumerated encoding (DERGen.tla, invariant SpecPermExtends); the TLC-generated C19 corpus, seeded mutants of struct encodings and of certificates are decoded by the real code in both modes and TLC (Trace_Perm.tla) holds strict-accept => permissive-accept with equal extent and value",
    "text": "Three corpora: (A) every TLC-enumerated short encoding of DERGen.tla fed to the encoding/asn1 targets of C19, (B) eight struct target types (pkix and synthetic, all tagging options) with seeded dertree mutations near the accept boundary (non-minimal lengths and integers, string and time shapes, retagging, duplication), (C) x509.ParseCertificate on generated and repository certificates and their seeded mutants including mutations inside extension values. Both modes run in the same process; outcome, consumed bytes and a digest of the decoded value (JSON + raw fields for certificates) are logged and judged by TLC. The relation is simple; the strength lies in the corpora being driven to both sides of every permissive relaxation (TLC reports how many records were strict-accepted and how many were accepted only permissively).",
    "note": "Trusted: TLC, Go toolchain, encoding/json and sha256 for the projection (a difference invisible in the JSON encoding and raw fields of Certificate is not seen). Inputs are sampled around the seeds (corpora B, C); corpus A is exhaustive within the C19 bounds. harness/lib/dertree and lib/inputs (C01) are reused for seeds and mutation operators.",
}


def run(ctx):
    binary = ctx.gobuild("c20")
    # corpus A + design-level lemma (SpecPermExtends is an invariant of the generator run)
    params = dict(C19.QUICK)
    if ctx.quick:       # the quick corpus A is a reduced C19 domain (C19 itself runs the larger one)
        params.update(INT_FULL=1, INT_MAX=2, INT_LONG=9, OID_FULL=1, OID_MAX=2, OID_LONG=3, BITS_FULL=1, BITS_MAX=2,
                      LEN_FULL=2, LEN_MAX=3, LEN_SMALL=5, TAG_FULL=2, TAG_MAX=3)
    else:       # ~110 k states; corpus A x asn1 targets stays below ~10^6 observations (TLC reads them as one NDJSON file)
        params.update(INT_FULL=2, INT_MAX=3, OID_FULL=1, OID_MAX=3, BITS_FULL=1, BITS_MAX=3, LEN_FULL=2, LEN_MAX=4,
                      LEN_SMALL=7, TAG_FULL=2, TAG_MAX=4)
    path, ncases, r = C19.gen(ctx, C19.KINDS, params, "DERGen (C19 corpus)")
    files = []
    out = ctx.path("perm_der.ndjson")
    p = ctx.run(binary, ["der-cases", path, out, "1"], timeout=3000)
    files.append(out)
    out = ctx.path("perm_struct.ndjson")
    ctx.run(binary, ["structs", out, str(150 if ctx.quick else 3000)], timeout=3000)
    files.append(out)
    out = ctx.path("perm_struct_sweep.ndjson")
    ctx.run(binary, ["sweep-structs", out, "0"], timeout=3000)
    files.append(out)
    out = ctx.path("perm_cert.ndjson")
    ctx.run(binary, ["certs", out, str(1000 if ctx.quick else 20000)], timeout=3000)
    files.append(out)
    # systematic: every node of the seed certificates x every relaxation-type operator
    out = ctx.path("perm_cert_sweep.ndjson")
    ctx.run(binary, ["sweep", out, "10" if ctx.quick else "0"], timeout=3000)
    files.append(out)

    recs, inputs = [], []
    for f in files:
        recs += read_ndjson(f)
        inputs.append(f + ".in")
    rejected, counts = judge(ctx, recs)
    for src in ("der", "struct", "cert"):
        n, sok, relaxed = counts.get(src, (0, 0, 0))
        ctx.log("%s: %d observations, %d strict-accepted, %d accepted only permissively" % (src, n, sok, relaxed))
        if n == 0 or sok == 0 or relaxed == 0:
            raise Machinery("vacuous corpus %s: %d observations, %d strict-accepted, %d relaxed" % (src, n, sok, relaxed))
        ctx.cov["distinct_nontrivial"] += sok
    ctx.cov["evaluations"] += len(recs)
    ctx.cov["traces_validated_against_impl"] += len(recs) - len(rejected)
    ctx.cov["exhaustive"] = False
    ctx.cov["counts"] = {k: {"observations": v[0], "strict_accepted": v[1], "only_permissive": v[2]} for k, v in counts.items()}
    ctx.cov["rule"] = ("one observation = one input decoded by one entry point in both modes; non-trivial = the strict mode "
                       "accepted (antecedent of the implication true); corpus A = all DERGen.tla cases x encoding/asn1 targets, "
                       "B = struct targets x seeded mutants, C = ParseCertificate x seeds and seeded mutants")
    ctx.add_samples([recs[len(recs) // 3], recs[-1]], n=2)

    if rejected:
        side = []
        for f in inputs:
            side += read_ndjson(f)
        if len(side) != len(recs):
            raise Machinery("input side files out of step with the observations")
        cands = []
        for i, what, parts in rejected:
            r, s = recs[i - 1], side[i - 1]
            # one candidate per differing part of the value: each part is a different place in the
            # parser, judged (and matched against known findings) separately
            for part in (parts.split(",") if parts else [""]):
                sig = {"src": r["src"], "target": r["target"], "what": what, "part": part}
                cands.append({"sig": sig, "what": "%s on %s: strict accepts (%d bytes) but permissive: %s %s" %
                              (r["target"], r["id"], r["s_n"], what, part),
                              "case": {"src": r["src"], "id": r["id"], "target": r["target"], "in": s["in"], "part": part}})
        ctx.candidates(binary, cands, reproduce=lambda path, body: reproduce(ctx, binary, path))

    if ctx.thorough:
        selftest(ctx, recs)


def judge(ctx, recs, label=None):
    write_ndjson(ctx.specfile("perm_obs.ndjson"), recs)
    r = ctx.tlc("Trace_Perm", "Perm_judge.cfg", workers=1, timeout=3000, label=label or "Trace_Perm[%d obs]" % len(recs))
    try:
        rej = derlib.rejects(r.out, 2)
    except ValueError as e:
        raise Machinery(str(e))
    counts = {m.group(1): (int(m.group(2)), int(m.group(3)), int(m.group(4)))
              for m in re.finditer(r'<<"COUNTS", "(\w+)", (\d+), (\d+), (\d+)>>', r.out)}
    if label is None and sum(v[0] for v in counts.values()) != len(recs):
        raise Machinery("Trace_Perm counted %s records of %d" % (counts, len(recs)))
    return rej, counts


def reproduce(ctx, binary, path):
    out = ctx.path("one.ndjson")
    ctx.run(binary, ["one", path, out])
    rej, _ = judge(ctx, read_ndjson(out), label="Trace_Perm[replay]")
    part = json.load(open(path)).get("case", {}).get("part", "")
    return any(part == "" or part in parts.split(",") for _, _, parts in rej)


def selftest(ctx, recs):
    import copy
    good = [r for r in recs if r["s_ok"]][:60]
    bad = []
    for k, r in enumerate(good):
        x = copy.deepcopy(r)
        if k % 3 == 0:
            x["p_ok"] = False
        elif k % 3 == 1:
            x["p_n"] += 1
        else:
            x["p_dig"] = "0" + x["p_dig"][1:] if x["p_dig"][0] != "0" else "1" + x["p_dig"][1:]
        bad.append(x)
    rej, _ = judge(ctx, bad, label="Trace_Perm[selftest]")
    if len(rej) != len(bad):
        raise Machinery("selftest: %d of %d corrupted observations accepted" % (len(bad) - len(rej), len(bad)))
    ctx.note("binding self-test passed (%d corrupted observations rejected)" % len(bad))


def replay(ctx, path):
    import os
    path = os.path.abspath(path)
    binary = ctx.gobuild("c20")
    again = reproduce(ctx, binary, path)
    print("REPRODUCED" if again else "not reproduced")
    return 1 if again else 0
