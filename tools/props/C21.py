"""C21 - cryptobyte builders and readers are exact inverses (CryptoByte.tla, CryptoByteGen.tla,
Trace_CryptoByte.tla over DER.tla; harness cmd/c21)."""
import json
import re

from vlib import Machinery, read_ndjson, write_ndjson
from props import derlib

META = {
    "technique": "TLA+ Builder/String machines (CryptoByte.tla over DER.tla): TLC explores every write program within bounds, checks the inverse and optional-reader properties on the specification, emits each program with the demanded bytes and per-read results; programs are replayed call by call on cryptobyte.Builder/String; seeded random long programs recorded from the real code are judged by TLC",
    "text": "CryptoByte.tla gives one pure step operator per Builder call (fixed-width integers, length-prefixed children of width 1-4, ASN.1 children with DER length back-patching, ASN.1 INTEGER/ENUM/BOOLEAN/OID/OCTET/BIT STRING/GeneralizedTime/NULL items, sticky error) and per String call (matching readers, ReadOptionalASN1, ReadOptionalASN1Integer/OctetString/Boolean, SkipOptionalASN1, PeekASN1Tag). TLC enumerates all well-nested write programs over two item menus, proves on the specification that the matching read program returns the written values and leaves nothing (InverseOK) and that absent optional probes change nothing (OptionalOK), and prints the expected bytes and results; the Go harness executes the same calls on the real code and compares ok/value/remaining length after every call. Bounded-exhaustive plus TLC-judged random programs, adequate for a small deterministic pair of machines.",
    "note": "Trusted: TLC, Go toolchain, math/big and time for concretisation (re-derived and compared). The state of a String after a failed read is not specified by the statement and is not compared. Fixed-size builders, Unwrite, SetError, AddValue and MarshalASN1 are not modelled. ReadBytes(…, 0) on a nil String (reports failure upstream too) is treated as a no-op by the harness.",
}

SIZES = "{0,1,127,128,254,255,256}"
QUICK = dict(MENUS='{"small","large","bounds"}', S_ITEMS=3, S_DEPTH=2, L_ITEMS=1, L_DEPTH=1, B_SIZES=SIZES, B_BIG="{65535,65536}")
THOROUGH = [dict(MENUS='{"small"}', S_ITEMS=3, S_DEPTH=3, L_ITEMS=0, L_DEPTH=0, B_SIZES="{}", B_BIG="{}"),
            dict(MENUS='{"large","bounds"}', S_ITEMS=0, S_DEPTH=0, L_ITEMS=2, L_DEPTH=1,
                 B_SIZES="{0,1,126,127,128,129,254,255,256,257}", B_BIG="{65534,65535,65536,65537}")]


def run(ctx):
    binary = ctx.gobuild("c21")
    cands = []
    total = nontriv = reads = optp = errp = 0
    for k, params in enumerate([QUICK] if ctx.quick else THOROUGH):
        label = "CryptoByteGen %s" % json.dumps(params, sort_keys=True)
        r = ctx.tlc("CryptoByteGen", "CryptoByte_gen.cfg", subst=params, timeout=3000, label=label)
        path = ctx.path("programs%d.ndjson" % k)
        n = derlib.tla_records_to_file(r.out, path)
        if n == 0:
            raise Machinery("generator produced no programs")
        p = ctx.run(binary, ["replay-gen", path], timeout=3000)
        c, st = ctx.harness_output(p)
        if st.get("programs") != n:
            raise Machinery("harness replayed %s of %d programs" % (st.get("programs"), n))
        optp += st.get("optional_present", 0)
        errp += st.get("error_programs", 0)
        cands += c
        total += n
        nontriv += st.get("nontrivial", 0)
        reads += st.get("reads", 0)
        with open(path) as f:
            for i, line in enumerate(f):
                if i == 1234:
                    rec = json.loads(line)
                    ctx.add_samples([{"w": rec["w"], "bytes": rec["bytes"], "r1": rec["r1"], "o1": rec["o1"]}], n=2)
    if optp == 0 or errp == 0:
        raise Machinery("vacuous: %d present optional elements, %d builder-error programs generated" % (optp, errp))
    ctx.cov["evaluations"] += reads
    ctx.cov["distinct_nontrivial"] += nontriv
    ctx.cov["traces_validated_against_impl"] += total
    ctx.cov["exhaustive"] = True
    ctx.cov["rule"] = ("every complete well-nested write program over the item menus of CryptoByteGen.tla within the item / "
                       "nesting bounds (a TLC state each), replayed with the matching and the optional-reader read program; "
                       "evaluations = read calls compared; non-trivial = nesting, long-form ASN.1 length, a present optional "
                       "element or a builder error; plus seeded random long programs judged by TLC")
    ctx.candidates(binary, cands)
    verdicted = {sigkey(c["sig"]) for c in cands}

    # U3: random long programs on the real code, judged by TLC
    nprog = 300 if ctx.quick else 3000
    out = ctx.path("cb_rec.ndjson")
    ctx.run(binary, ["record", out, str(nprog)], timeout=1200)
    recs = read_ndjson(out)
    rejected = judge(ctx, recs)
    ctx.cov["evaluations"] += sum(len(r["o"]) for r in recs)
    ctx.cov["traces_validated_against_impl"] += len(recs) - len(rejected)
    ctx.cov["random_programs_judged_by_tlc"] = len(recs)
    tc = []
    for i, stage, op, field, wok, wp in rejected:
        r = recs[i - 1]
        # same signature shape as the harness gives to disagreements on generated programs
        sig = {"stage": stage, "op": op, "field": field, "want_ok": wok == "TRUE", "present": wp == "1", "arg": ""}
        if sigkey(sig) in verdicted:
            continue        # same call / same kind of disagreement already replayed and reported above
        tc.append({"sig": sig, "what": "TLC (Trace_CryptoByte) rejects the recorded program: %s %s %s" % (stage, op, field),
                   "case": {"w": r["w"], "r": r["r"], "obs": True}})
    ctx.candidates(binary, tc, reproduce=lambda path, body: reproduce_obs(ctx, binary, path))
    if not ctx.quick:
        selftest(ctx, recs)


def judge(ctx, recs, label=None):
    write_ndjson(ctx.specfile("cb_obs.ndjson"), recs)
    r = ctx.tlc("Trace_CryptoByte", "CryptoByte_judge.cfg", timeout=3000,
                label=label or "Trace_CryptoByte[%d programs]" % len(recs))
    if r.distinct != max(1, len(recs)):
        raise Machinery("Trace_CryptoByte visited %d states for %d programs" % (r.distinct, len(recs)))
    try:
        return derlib.rejects(r.out, 5)
    except ValueError as e:
        raise Machinery(str(e))


def sigkey(sig):
    return json.dumps([sig.get(k) for k in ("stage", "op", "field", "want_ok", "present")])


def reproduce_obs(ctx, binary, path):
    out = ctx.path("one.ndjson")
    ctx.run(binary, ["record-one", path, out])
    return len(judge(ctx, read_ndjson(out), label="Trace_CryptoByte[replay]")) > 0


def selftest(ctx, recs):
    """Binding self-test: corrupted observations / bytes must be rejected."""
    import copy
    good = [r for r in recs if not r["err"] and len(r["o"]) >= 3 and all(o[0] for o in r["o"])][:30]
    if not good:
        raise Machinery("selftest: no suitable recorded program")
    bad = []
    for r in good:
        x = copy.deepcopy(r)
        x["o"][len(x["o"]) // 2][4] += 1          # remaining length
        bad.append(x)
        y = copy.deepcopy(r)
        y["bytes"] = y["bytes"] + [0]
        bad.append(y)
        z = copy.deepcopy(r)
        del z["o"][-1]                            # dropped observation
        bad.append(z)
    rej = judge(ctx, bad, label="Trace_CryptoByte[selftest]")
    if len(rej) != len(bad):
        raise Machinery("selftest: %d of %d corrupted programs were accepted" % (len(bad) - len(rej), len(bad)))
    ctx.note("binding self-test passed (%d corrupted records rejected)" % len(bad))


def replay(ctx, path):
    import os
    path = os.path.abspath(path)
    binary = ctx.gobuild("c21")
    body = json.load(open(path))
    if body.get("case", {}).get("obs"):
        again = reproduce_obs(ctx, binary, path)
    else:
        again = ctx.run(binary, ["replay", path], ok_codes=(0, 1)).returncode == 1
    print("REPRODUCED" if again else "not reproduced")
    return 1 if again else 0
