"""C02 - operations on any parsed certificate are total and JSON is deterministic (InputsCert.tla,
InputsCertGen.tla, Trace_InputsCert.tla on top of Inputs.tla; harness cmd/c02, lib/inputs)."""
import collections
import json
import os
import re

from vlib import Machinery, read_ndjson, write_ndjson
from props import C01

META = {
    "technique": "TLA+ model of extension-content shapes x post-parse operation programs enumerated by TLC; one real certificate per shape (standard-library issuance) plus the TLC-enumerated mutated certificates of C01, every accepted one put through every operation program; observations judged by TLC",
    "text": "InputsCert.tla extends the input model by small grammars of valid-but-unusual contents for every extension zcrypto interprets (policies with every mix of CPS / user-notice qualifiers with and without notice references, SAN/IAN general-name kinds, name constraints, AIA, CRL DPs, QC statements, Tor descriptors, CABF organisation id, SCT lists, basic constraints, key ids, key usages, subject forms) and by the post-parse operations with their arguments (JSON twice, CheckSignatureFrom against self / issuer / unrelated / a same-named parent of every key shape, the certificate as a parent of Ed25519/ECDSA/RSA/PSS children, CheckSignature with every algorithm id, VerifyHostname over a host menu, name collection, CertPool and verifier Graph insertion). TLC explores shape x operation-program x outcome as a state machine (invariant: every applied operation completes, JSON identical) and exports the factor sets; the harness issues a real certificate per shape, parses it with zcrypto in both modes and applies every operation program to a fresh copy; the mutated certificates of C01 that the parser accepts go through every operation once. TLC (Trace_InputsCert.tla) judges the logged outcomes. Role P: exhaustive over the abstract shapes, sampled inside.",
    "note": "Trusted: TLC, Go toolchain (recover), the standard library as issuer. Shapes are one extension at a time on an otherwise plain Ed25519 leaf; combinations of unusual extensions are only reached through the mutated corpus. A hanging operation is observed through a 5 s watchdog in a supervised worker and reported as a timeout violation; after three such deaths the operation is no longer applied in that run.",
}

TLC_FIELDS = ("src", "x", "v", "p", "n", "acc", "nprog", "r")
ALL_EXTS = '{"names","policies","san","ian","nc","aia","crldp","qc","tor","cabforg","sctlist","bc","skid","akid","ku","eku","subject"}'


def judge(ctx, recs, nest, depth, label):
    if not recs:
        return []
    fname = "certops_obs_%s.ndjson" % label
    write_ndjson(ctx.specfile(fname), [{k: r[k] for k in TLC_FIELDS} for r in recs])
    r = ctx.tlc("Trace_InputsCert", "InputsCert_trace.cfg", subst={"NEST": nest, "OBSFILE": '"%s"' % fname, "DEPTH": depth},
                workers=1, timeout=3000, label="Trace_InputsCert %s[%d records]" % (label, len(recs)), count=False)
    m = re.search(r'<<"JUDGED", (\d+)>>', r.out)
    if not m or int(m.group(1)) != len(recs):
        raise Machinery("Trace_InputsCert did not judge all %d records" % len(recs))
    return sorted(set((int(m.group(1)) - 1, int(m.group(2)), m.group(3))
                      for m in re.finditer(r'<<"REJECT", (\d+), (\d+), "([\w-]+)">>', r.out)))


def subject_name(rec):
    if rec["src"] == "shape":
        return "%s:%s" % (rec["x"], "".join("[" + ",".join(it) + "]" for it in rec["v"]))
    return "+".join("%s(%s)@%s" % (m["op"], m["a"], m["n"]) for m in rec["p"]) or "unmutated"


def subject_size(rec):
    if rec["src"] == "shape":
        return (0, sum(len(it) for it in rec["v"]), len(rec["v"]), subject_name(rec))
    return (1, len(rec["p"]), 0, subject_name(rec))


def candidates_from(recs, rejects):
    cands = []
    for (i, j, reason) in rejects:
        rec = recs[i]
        if j == 0:
            cands.append({"sig": {"fail": "machinery:" + reason, "subject": subject_name(rec)}, "rec": rec, "w": None})
            continue
        r = rec["r"][j - 1]
        ws = [b for b in rec.get("bad", []) if b["op"] == r["op"] and b["a"] == r["a"]]
        if reason == "json-differs":
            ws = [b for b in ws if b["same"] == "differs"]
            fail, site = "json-differs", ""
        elif reason == "outcome":
            ws = [b for b in ws if b["o"] not in ("ok", "err", "skip", "notrun")]
            if ws:
                b = ws[0]
                fail = ("panic: " + b.get("msg", "")) if b["o"] == "panic" else b["o"]
                site = b.get("site", "")
                if b["o"] == "timeout":
                    site = ""
            else:
                fail, site = "outcome:" + ",".join(r["os"]), ""
        elif reason == "time":
            fail, site = "timeout", ""
        else:
            fail, site = reason, ""
        sig = {"op": r["op"], "arg": r["a"], "fail": fail, "site": site, "src": rec["src"],
               "ext": rec["x"] if rec["src"] == "shape" else "", "subject": subject_name(rec)}
        cands.append({"sig": sig, "rec": rec, "w": ws[0] if ws else None})
    return cands


def select(cands):
    """per (operation, argument, failure, site, source, extension): the smallest subject"""
    best = {}
    count = collections.Counter()
    for c in cands:
        s = c["sig"]
        # the same parent-key defect shows for every subject: do not split it by extension
        ext = s.get("ext", "") if s.get("op") in ("MarshalJSON2", "JsonifyExtensions") else ""
        g = (s.get("op"), s.get("fail"), s.get("site"), ext)
        count[g] += 1
        s["ext"] = ext
        rank = lambda x: (0 if x["w"] is not None else 1, subject_size(x["rec"]), x["sig"].get("arg", ""))
        if g not in best or rank(c) < rank(best[g]):
            best[g] = c
    out = []
    for g, c in sorted(best.items(), key=lambda kv: str(kv[0])):
        c["others"] = count[g]
        out.append(c)
    return out


def case_of(c):
    rec, w = c["rec"], c["w"]
    if w is not None and not w.get("hex") and rec.get("bad"):
        w = dict(w, hex=rec["bad"][w.get("hexof", 0)].get("hex", ""))
    return {"src": rec["src"], "x": rec["x"], "v": rec["v"], "p": rec["p"], "i": rec["i"],
            "seed": (w or {}).get("seed", ""), "hex": (w or {}).get("hex", ""), "prog": (w or {}).get("prog") or []}


def rerun_cases(ctx, binary, cmodel, model, bodies, nest, depth, label):
    recs, owner = [], []
    for n, body in enumerate(bodies):
        path = ctx.path("%s_case_%d.json" % (label, n))
        with open(path, "w") as f:
            json.dump(body, f)
        out = ctx.path("%s_case_%d.ndjson" % (label, n))
        ctx.run(binary, ["one", cmodel, model, path, out], timeout=900)
        for r in read_ndjson(out):
            owner.append(n)
            recs.append(r)
    rej = judge(ctx, recs, nest, depth, label)
    again = [False] * len(bodies)
    for (i, j, reason) in rej:
        n = owner[i]
        sig = bodies[n]["sig"]
        if j == 0 or "op" not in sig:
            again[n] = True
            continue
        r = recs[i]["r"][j - 1]
        if r["op"] == sig["op"] and r["a"] == sig["arg"]:
            again[n] = True
    return again


def run(ctx):
    quick = ctx.quick
    nest = C01.NEST_QUICK
    depth = 1 if quick else 2
    nshards = max(1, ctx.workers)

    # U1 + U2: shapes x operation programs -------------------------------------------------------
    r = ctx.tlc("InputsCertGen", "InputsCert_gen.cfg", subst={"DEPTH": depth, "EXTS": ALL_EXTS, "NEST": nest},
                timeout=3000, label="InputsCertGen depth=%d" % depth)
    cmodel = ctx.specfile("certops_model.json")
    if not os.path.exists(cmodel):
        raise Machinery("TLC did not export the shape / operation model")
    cm = json.load(open(cmodel))
    if cm["nshapes"] == 0 or cm["nprograms"] == 0:
        raise Machinery("empty shape / program model")
    if r.distinct < cm["nshapes"] * cm["nprograms"]:
        raise Machinery("TLC explored fewer states (%d) than shape x program cases (%d)" % (r.distinct, cm["nshapes"] * cm["nprograms"]))
    ctx.cov["shapes"], ctx.cov["op_programs"] = cm["nshapes"], cm["nprograms"]
    ctx.add_samples([cm["shapes"][len(cm["shapes"]) // 2], cm["programs"][len(cm["programs"]) // 2]], n=2)
    # the mutated corpus: C01's programs for kind cert
    lines, progs, _ = C01.generate(ctx, 1 if quick else 2, nest, kinds='{"cert"}', label="InputsGen cert depth=%d" % (1 if quick else 2))
    progfile = ctx.path("programs_cert.ndjson")
    with open(progfile, "w") as f:
        f.write("\n".join(lines) + "\n")
    model = ctx.specfile("inputs_model.json")

    binary = ctx.gobuild("c02")

    def shard(i):
        out = ctx.path("certops_%d.ndjson" % i)
        # wall budget inside the harness (it then stops with what it has); outer timeout = backstop
        budget = 900 if quick else 9000
        p = ctx.run(binary, ["run", cmodel, model, progfile, out, str(i), str(nshards)], timeout=budget + 1800,
                    env={"VERIF_C02_BUDGET_S": str(budget)})
        _, st = ctx.harness_output(p)
        return out, st
    stats = collections.Counter()
    banned = set()
    recs = []
    for out, st in C01.par(ctx, shard, list(range(nshards)), nshards):
        recs += read_ndjson(out)
        for k, v in st.items():
            if isinstance(v, int):
                stats[k] += v
            elif k == "banned":
                banned.update(v)
    ctx.log("harness: %s" % dict(stats))
    incomplete = stats["budget_cut"] > 0
    if incomplete:
        ctx.note("wall budget of the operation stage exhausted in %d shard(s); going on with the observations gathered so far" %
                 stats["budget_cut"])
    if stats["calls_not_run"]:
        ctx.note("%d operations were not applied: %s hung / killed the worker 3 times and was no longer applied" %
                 (stats["calls_not_run"], ", ".join(sorted(banned))))
    if not incomplete and stats["shapes"] != cm["nshapes"]:
        raise Machinery("harness built %d shape certificates, the model has %d shapes" % (stats["shapes"], cm["nshapes"]))
    shapes_acc = sum(1 for r in recs if r["src"] == "shape" and r["acc"] > 0)
    muts_acc = sum(1 for r in recs if r["src"] == "mut" and r["acc"] > 0)
    if shapes_acc < cm["nshapes"] // 2 or muts_acc == 0:
        raise Machinery("vacuous: only %d of %d shape certificates and %d mutated programs were accepted by the parser" %
                        (shapes_acc, cm["nshapes"], muts_acc))
    nops = sum(len(p) for p in cm["programs"])
    evals = sum(r["acc"] * (nops if r["src"] == "shape" else len(cm["ops"]) + 2) for r in recs)
    ctx.cov["evaluations"] += evals
    ctx.cov["distinct_nontrivial"] += shapes_acc + muts_acc
    ctx.cov["shapes_accepted"], ctx.cov["mutated_programs_accepted"] = shapes_acc, muts_acc
    ctx.cov["mutated_inputs"] = stats["mutated_inputs"]
    ctx.cov["exhaustive"] = True
    ctx.cov["rule"] = ("every shape of InputsCert!Shapes (one real certificate each) x every operation program to depth %d, "
                       "in each mode that accepts the certificate, plus every mutation program of Inputs!Programs(cert, %d) x "
                       "certificate seeds accepted by the parser x every operation once; non-trivial = accepted by the parser "
                       "in at least one mode; every observation judged by TLC (Trace_InputsCert.tla)" % (depth, 1 if quick else 2))

    # U3 -----------------------------------------------------------------------------------------------
    rej = judge(ctx, recs, nest, depth, "sum")
    ctx.log("summaries judged: %d, rejected operations: %d" % (len(recs), len(rej)))
    ctx.cov["traces_validated_against_impl"] += len(recs)
    cands = select(candidates_from(recs, rej))
    if len(cands) > 40:
        ctx.note("%d distinct violation signatures; reproducing the first 40" % len(cands))
        cands = cands[:40]
    machinery = [c for c in cands if c["sig"].get("fail", "").startswith("machinery:")]
    if machinery:
        raise Machinery("observations rejected as malformed: %s" % json.dumps(machinery[0]["sig"]))
    bodies = []
    for c in cands:
        sig = dict(c["sig"])
        what = "%s(%s) on the accepted certificate [%s]: %s%s (%d subjects affected)" % (
            sig["op"], sig["arg"], sig["subject"], sig["fail"], (" at " + sig["site"]) if sig["site"] else "", c["others"])
        bodies.append({"sig": sig, "what": what, "case": case_of(c)})
    again = rerun_cases(ctx, binary, cmodel, model, bodies, nest, depth, "repro") if bodies else []
    lookup = {json.dumps(b["sig"], sort_keys=True): ok for b, ok in zip(bodies, again)}
    ctx.candidates(binary, bodies, reproduce=lambda path, body: lookup.get(json.dumps(body["sig"], sort_keys=True), False), limit=80)

    confirmed = set(b["sig"].get("op") for b, ok in zip(bodies, again) if ok)
    if stats["calls_not_run"] and not banned <= confirmed:
        ctx.problem("%d operations were skipped after repeated hangs / worker deaths of %s, but that was not reproduced in a "
                    "fresh process: the run cannot vouch" % (stats["calls_not_run"], ", ".join(sorted(banned - confirmed))))
    if incomplete and ctx.violations == 0:
        ctx.problem("the operation stage was cut by its wall budget and no violation was found: the run cannot vouch")

    if not quick and not incomplete:
        selftest(ctx, recs, nest, depth)


def selftest(ctx, recs, nest, depth):
    import copy
    base = [r for r in recs if r["acc"] > 0 and r["src"] == "shape"][:30]
    if len(base) < 4:
        raise Machinery("selftest: not enough records")
    bad = copy.deepcopy(base)
    bad[0]["r"][0]["os"] = ["panic"]
    bad[1]["r"][0]["same"] = ["differs"]
    bad[2]["r"] = bad[2]["r"][1:]
    bad[3]["nprog"] -= 1
    rej = judge(ctx, bad, nest, depth, "selftest")
    hit = set(x[0] for x in rej)
    # records with genuine (known) findings may be rejected too; the four corrupted ones must be
    missing = [i for i in range(4) if i not in hit]
    if missing:
        raise Machinery("selftest: corrupted observations %s were accepted" % missing)
    ctx.note("binding self-test passed (4 corrupted observations rejected)")


def replay(ctx, path):
    nest = C01.NEST_QUICK
    body = json.load(open(path))
    depth = 2 if any(len(p) > 1 for p in [body["case"].get("prog") or []]) else 1
    ctx.tlc("InputsCertGen", "InputsCert_gen.cfg", subst={"DEPTH": depth, "EXTS": '{"bc"}', "NEST": nest}, timeout=3000,
            label="model export")
    C01.generate(ctx, 1, nest, kinds='{"cert"}', label="model export (cert)")
    binary = ctx.gobuild("c02")
    again = rerun_cases(ctx, binary, ctx.specfile("certops_model.json"), ctx.specfile("inputs_model.json"), [body], nest, depth, "replay")[0]
    print("REPRODUCED" if again else "not reproduced")
    return 1 if again else 0
