"""C07 - Certificate.Verify returns only valid chains and partitions them by date
(PKI.tla, ChainBuilder.tla, ChainBuilderGen.tla, Trace_ChainBuilder.tla; harness cmd/c07)."""
import json
import os
import re
import shutil

import pkvlib
from vlib import read_ndjson, write_ndjson, Machinery

META = {
    "technique": "TLA+ A/B-layer chain-builder specification: TLC enumerates small PKIs x verification options, "
                 "checks the implementation-shaped model against the property layer, and judges every chain the real "
                 "Certificate.Verify / ValidateWithStupidDetail returns (ValidChain, date class, err=nil clause)",
    "text": "PKI.tla defines abstract certificates, Issues, ValidChain, the EKU rule, the CA/path-length rule and validity "
            "windows; ChainBuilder.tla adds the observation predicates (A) and a model of buildChains with its per-call "
            "cache (B). ChainBuilderGen.tla enumerates, at constant level, every 3/4-certificate universe over names x keys x "
            "issuer x signing key x roles and every attribute assignment (version/CA/path length, validity window with "
            "every boundary time +-1 s, EKU x requested usages, key identifiers, key usage, leaf names x requested DNS "
            "name) on fixed topologies (lines, cross-signed roots, key rollover, shared subjects, loops, rejoining "
            "re-issued intermediates, key-id traps); TLC checks B => A on all of them. Each abstract PKI becomes real "
            "certificates (standard library, checked by re-deriving the abstract record from the parsed certificate), the "
            "real Verify is run, and TLC evaluates the A layer on the projected results. Seeded random larger PKIs go the "
            "same way. Bounded-exhaustive plus sampled; soundness and partition only (completeness is not demanded by "
            "the statement).",
    "note": "Trusted: TLC, Go standard library crypto/x509 (certificate creation, signature oracle), lib/pki. Ideal "
            "signatures: distinct abstract keys never verify each other's signatures. Left open: end points of the "
            "validity window (the run must be consistent with one of open/closed), self-issued certificates in the "
            "path-length count (RFC count allowed), raw vs parsed name comparison, name constraints, Entrust SPKI "
            "exemption, system roots.",
}

ALL_TOPOS = ["line3", "line4", "rollover", "shared", "loop", "akidtrap", "badsig"]
BIG_TOPOS = ["cross", "rejoin", "loop5", "rollover4", "line5"]


def tla_set(items):
    return "{" + ", ".join('"%s"' % i for i in items) + "}"


def batches(ctx):
    """(label, subst) of every generator run of this tier."""
    def b(label, modes, names=("N1", "N2"), keys=("K1", "K2"), m=2, ordered=False, topos=(), big=()):
        return (label, {"MODES": tla_set(modes), "NAMES": tla_set(names), "KEYS": tla_set(keys), "M": m,
                        "ORDERED": "TRUE" if ordered else "FALSE", "TOPOS": tla_set(topos), "BIGTOPOS": tla_set(big)})
    if ctx.quick:
        return [
            b("kind", ["kind"], topos=["line3", "line4", "rollover", "shared", "loop", "akidtrap", "badsig"],
              big=["rollover4"]),
            b("window+name", ["window", "name"], topos=["line3", "rollover", "badsig", "shared"]),
            b("eku+ku", ["eku", "ku"], topos=["line3", "rollover", "badsig"]),
            b("keyid", ["keyid"], topos=["line3", "akidtrap"]),
        ]
    return [
        b("name", ["name"], topos=["line3", "badsig"], big=["cross"]),
        b("ku", ["ku"], topos=ALL_TOPOS + ["cross", "rejoin"]),
        b("small topologies", ["kind", "window", "eku", "keyid"], topos=["line3", "rollover", "badsig"]),
    ] + [b("%s %s" % (mode, t), [mode], topos=[t])
         # one batch per (dimension, topology): TLC builds and sorts each case set on one thread
         for t in ["line4", "shared", "loop", "akidtrap"] for mode in ["kind", "window", "eku", "keyid"]
    ] + [b("kind %s" % t, ["kind"], big=[t]) for t in BIG_TOPOS]


def files(ctx, tag):
    return tuple(ctx.specfile("c07_%s_%s.ndjson" % (k, tag)) for k in ("universe", "cases", "obs"))


def judge(ctx, label, tag, timeout=3000):
    """Run Trace_ChainBuilder on the three files of batch `tag`; returns parsed verdict lines."""
    U, C, O = files(ctx, tag)
    # the judge wants the universe as ONE JSON object id -> certificate (pure re-formatting of the ndjson file)
    UM = U[:-len(".ndjson")] + "_map.json"
    with open(UM, "w") as f:
        f.write(json.dumps({c["id"]: c for c in read_ndjson(U)}) + "\n")
    r = pkvlib.tlc(ctx, "Trace_ChainBuilder", "ChainBuilder_judge.cfg", workers=1, timeout=timeout, label="judge " + label,
                   subst={"FU": os.path.basename(UM), "FC": os.path.basename(C), "FO": os.path.basename(O)})
    out = r.out
    res = {"rejects": [], "datebad": {"open": [], "closed": []}, "drift": [], "dateok": None, "judged": None}
    for m in re.finditer(r'<<\s*"REJECT",\s*(\d+),\s*"([^"]*)"\s*>>', out):
        res["rejects"].append((int(m.group(1)), m.group(2)))
    for m in re.finditer(r'<<\s*"DATEREJECT",\s*"(\w+)",\s*(\d+)\s*>>', out):
        res["datebad"][m.group(1)].append(int(m.group(2)))
    for m in re.finditer(r'<<\s*"DRIFT",\s*(\d+)\s*>>', out):
        res["drift"].append(int(m.group(1)))
    m = re.search(r'<<\s*"DATEVERDICT",\s*(TRUE|FALSE),\s*(\{[^}]*\})', out)
    if m:
        res["dateok"] = m.group(1) == "TRUE"
        res["okread"] = set(re.findall(r'"(\w+)"', m.group(2)))
    m = re.search(r'<<\s*"JUDGED",\s*(\d+),\s*(\d+),\s*(\d+)\s*>>', out)
    if m:
        res["judged"] = tuple(int(x) for x in m.groups())
    if res["dateok"] is None or res["judged"] is None:
        raise Machinery("judge %s: TLC printed no verdict:\n%s" % (label, "\n".join(out.splitlines()[-30:])))
    return res


BLOCK = 64   # the harness hands blocks of 64 consecutive cases to one goroutine (cmd/c07 run)
CONTEXT = 2000


def sub_case(universe_by_id, cases, obs_list):
    """Self-contained replay body for some observations: the certificates, cases and times involved, plus
    (as "context") cases that ran before it in the same batch, for defects that need a history of calls
    (state leaking from one Verify call into the next).  The context is dropped from the replay file when
    the call reproduces alone."""
    out_cases, ctx_cases, ids = [], [], []

    def need(c):
        for i in c["certs"] + c["roots"] + c["inters"] + [c["leaf"]]:
            if i not in ids:
                ids.append(i)
    for o in obs_list:
        ci = o["case"] - 1
        c = dict(cases[ci])
        c["times"] = [o["t"]]
        c["drift"] = False
        out_cases.append(c)
        need(c)
    # context: the first block of the batch (where state that survives calls is first created) and up to
    # CONTEXT cases right before the failing one
    ci = obs_list[0]["case"] - 1
    for k in sorted(set(range(0, min(BLOCK, ci))) | set(range(max(0, ci - CONTEXT), ci))):
        c = dict(cases[k])
        c["drift"] = False
        ctx_cases.append(c)
        need(c)
    return {"universe": [universe_by_id[i] for i in ids], "cases": out_cases, "context": ctx_cases,
            "observed": [{k: o[k] for k in ("api", "t", "current", "expired", "never", "err", "panic")} for o in obs_list]}


def process(ctx, binary, label, tag, zero=False):
    """harness run + TLC judgement of the cases of batch `tag` (universe and cases files exist).
    Returns a dict; touches no shared state (may run in a worker thread)."""
    U, C, O = files(ctx, tag)
    p = ctx.run(binary, ["runzero" if zero else "run", U, C, O], timeout=3000,
                env={"VERIF_WORKERS": str(max(1, ctx.workers // 2))})
    _, st = ctx.harness_output(p)
    if not st.get("calls"):
        raise Machinery("%s: harness made no Verify call" % label)
    res = judge(ctx, label, tag)
    if res["judged"][0] != st["calls"]:
        raise Machinery("%s: TLC judged %d observations, harness wrote %d" % (label, res["judged"][0], st["calls"]))
    out = {"label": label, "calls": st["calls"], "chains": res["judged"][1], "nonempty": res["judged"][2],
           "cands": [], "notes": [], "drift": len(res["drift"]), "okread": res["okread"], "datewit": {}}
    if res["rejects"] or res["drift"] or res["datebad"]["open"] or res["datebad"]["closed"]:
        uni = {c["id"]: c for c in read_ndjson(U)}
        cases = read_ndjson(C)
        obs = read_ndjson(O)
        seen = set()
        for i, reason in res["rejects"]:
            o = obs[i - 1]
            sig = {"kind": reason, "api": o["api"]}
            if zero:
                sig["zero_current_time"] = True
            k = json.dumps(sig, sort_keys=True)
            if k in seen:
                continue
            seen.add(k)
            body = sub_case(uni, cases, [o])
            body["zero"] = zero
            cs = cases[o["case"] - 1]
            out["cands"].append({"sig": sig, "case": body,
                                 "what": "%s (%s, case mode %s): leaf %s roots %s intermediates %s t=%s usages %s dns %r "
                                         "returned current=%s expired=%s never=%s err=%s"
                                         % (reason, o["api"], cs["mode"], cs["leaf"], cs["roots"], cs["inters"], o["t"],
                                            cs["usages"], cs["dns"], o["current"], o["expired"], o["never"], o["err"])})
        both = set(res["datebad"]["open"]) & set(res["datebad"]["closed"])
        if both:
            wit = [obs[min(both) - 1]]
            kind = "date-class-wrong-under-every-reading"
            sig = {"kind": kind, "api": wit[0]["api"]}
            if zero:
                sig["zero_current_time"] = True
            body = sub_case(uni, cases, wit)
            body["zero"] = zero
            out["cands"].append({"sig": sig, "case": body, "what": "%s: %s" % (kind, describe_dates(cases, wit))})
        # one witness per end-point convention this batch contradicts: the run as a whole must follow ONE
        # convention (decided in run() over all batches)
        for reading in ("open", "closed"):
            if res["datebad"][reading]:
                o = obs[min(res["datebad"][reading]) - 1]
                out["datewit"][reading] = (sub_case(uni, cases, [o]), describe_dates(cases, [o]), o["api"])
        if res["drift"]:
            o = obs[res["drift"][0] - 1]
            out["notes"].append("MODEL-DRIFT property=C07 %s: %d of %d observations differ from the B layer's prediction "
                                "(first: case %s t=%s current=%s expired=%s never=%s err=%s); the A layer is the judge"
                                % (label, len(res["drift"]), st["calls"], json.dumps(cases[o["case"] - 1]), o["t"],
                                   o["current"], o["expired"], o["never"], o["err"]))
    return out


def describe_dates(cases, wit):
    return "; ".join("leaf %s t=%s current=%s expired=%s never=%s" %
                     (cases[o["case"] - 1]["leaf"], o["t"], o["current"], o["expired"], o["never"]) for o in wit)


CHUNK = 40000


def process_chunked(ctx, binary, label, tag):
    """process() on chunks of at most CHUNK cases, judged in parallel (a TLC judge run is single-threaded)."""
    U, C, O = files(ctx, tag)
    cases = read_ndjson(C)
    if len(cases) <= CHUNK:
        return process(ctx, binary, label, tag)
    jobs = []
    for k in range(0, len(cases), CHUNK):
        sub = "%s_%d" % (tag, k // CHUNK)
        SU, SC, SO = files(ctx, sub)
        shutil.copy(U, SU)
        write_ndjson(SC, cases[k:k + CHUNK])
        jobs.append(lambda sub=sub, k=k: process(ctx, binary, "%s [%d..]" % (label, k), sub))
    parts = pkvlib.par(ctx, jobs)
    out = parts[0]
    for p in parts[1:]:
        for f in ("calls", "chains", "nonempty", "drift"):
            out[f] += p[f]
        out["cands"] += p["cands"]
        out["notes"] += p["notes"]
        out["okread"] &= p["okread"]
        for r, w in p["datewit"].items():
            out["datewit"].setdefault(r, w)
    return out


_replay_n = [0]


def reproduce(ctx, binary, path, body=None):
    body = body or json.load(open(path))
    case = body["case"]

    def attempt(cases):
        _replay_n[0] += 1
        tag = "replay%d" % _replay_n[0]
        U, C, O = files(ctx, tag)
        write_ndjson(U, case["universe"])
        write_ndjson(C, cases)
        ctx.run(binary, ["runzero" if case.get("zero") else "run", U, C, O], timeout=600, env={"VERIF_WORKERS": "1"})
        res = judge(ctx, "replay", tag)
        return bool(res["rejects"]) or not res["dateok"]
    # the failing call alone first; if that is not enough, after the calls that preceded it in its block
    if attempt(case["cases"]):
        if case.get("context") and path and os.path.exists(path):
            used = set()
            for c in case["cases"]:
                used |= set(c["certs"] + c["roots"] + c["inters"] + [c["leaf"]])
            case["context"] = []
            case["universe"] = [u for u in case["universe"] if u["id"] in used]
            with open(path, "w") as f:
                json.dump(body, f, indent=1, sort_keys=True)
        return True
    return bool(case.get("context")) and attempt(case["context"] + case["cases"])


def mc_batches(ctx):
    """(label, names, keys, M) of the model-checking runs of ChainBuilderMC.tla (U1: B => A over every PKI)."""
    if ctx.quick:
        return [("MC M<=2 2x2", ("N1", "N2"), ("K1", "K2"), 2)]
    return [("MC M<=2 3x3", ("N1", "N2", "N3"), ("K1", "K2", "K3"), 2),
            ("MC M<=3 2x2", ("N1", "N2"), ("K1", "K2"), 3)]


def gen_mc(ctx, label, tag, names, keys, m):
    """Model-check B => A on every PKI of the universe; the states TLC printed are the cases to replay."""
    U, C, O = files(ctx, tag)
    r = pkvlib.tlc(ctx, "ChainBuilderMC", "ChainBuilder_mc.cfg", workers=max(2, ctx.workers // 2), timeout=6000,
                   expect_ok=False, label="B=>A " + label,
                   subst={"NAMES": tla_set(names), "KEYS": tla_set(keys), "M": m, "OUTU": os.path.basename(U)})
    if r.violated:
        # a design-level result about the B model, never a verdict about the code; the cases printed so far are
        # still replayed and judged by the A layer
        raise Machinery("ChainBuilderMC %s: the B model violates %s (B layer out of date?):\n%s"
                        % (label, r.violated, "\n".join(r.out.splitlines()[-40:])))
    if r.rc != 0:
        raise Machinery("TLC failed on ChainBuilderMC %s:\n%s" % (label, "\n".join(r.out.splitlines()[-30:])))
    cases = [json.loads(json.loads(l)) for l in r.out.splitlines() if l.startswith('"{')]
    if len(cases) != r.distinct or not cases:
        raise Machinery("ChainBuilderMC %s printed %d states, TLC reports %d distinct" % (label, len(cases), r.distinct))
    nontriv = sum(1 for c in cases if c.pop("nontrivial"))
    bnonempty = sum(1 for c in cases if c.pop("bchains"))
    if bnonempty == 0 or bnonempty == len(cases):
        raise Machinery("ChainBuilderMC %s is vacuous: B returns chains in %d of %d PKIs" % (label, bnonempty, len(cases)))
    write_ndjson(C, cases)
    return len(cases), len(read_ndjson(U)), nontriv, bnonempty


def gen(ctx, label, tag, subst):
    U, C, O = files(ctx, tag)
    subst = dict(subst, OUTU=os.path.basename(U), OUTC=os.path.basename(C))
    r = pkvlib.tlc(ctx, "ChainBuilderGen", "ChainBuilder_gen.cfg", subst=subst, workers=1, timeout=3000,
                   label="gen+B=>A " + label)
    m = re.search(r'<<\s*"GENERATED",\s*(\d+),\s*(\d+),\s*(\d+),\s*(\d+)\s*>>', r.out)
    if not m or int(m.group(1)) == 0:
        raise Machinery("generator %s produced no cases" % label)
    return tuple(int(x) for x in m.groups())


def run(ctx):
    if pkvlib.ONLY:
        ctx.note("restricted development run: PKV_ONLY=%s" % ",".join(pkvlib.ONLY))
    binary = ctx.gobuild("c07")
    ctx.specfile("x")  # copy the specs before any worker thread starts

    def pipeline(k, label, subst, mc=None):
        def job():
            tag = "b%d" % k
            if mc:
                ncases, ncerts, nontriv, bnonempty = gen_mc(ctx, label, tag, *mc)
            else:
                ncases, ncerts, nontriv, bnonempty = gen(ctx, label, tag, subst)
            ctx.log("%s: %d cases over %d certificates, %d non-trivial, B model returns chains in %d" %
                    (label, ncases, ncerts, nontriv, bnonempty))
            out = process_chunked(ctx, binary, label, tag)
            out.update(cases=ncases, nontrivial=nontriv, sample=read_ndjson(files(ctx, tag)[1])[ncases // 2])
            if out["nonempty"] == 0:
                raise Machinery("%s: the real Verify returned no chain in any case (vacuous)" % label)
            return out
        return job

    def random_job(k, n, mx):
        # code -> spec: seeded random larger PKIs
        def job():
            tag = "rnd%d" % k
            U, C, O = files(ctx, tag)
            ctx.run(binary, ["random", U, C, str(n), str(mx)], env={"VERIF_SEED": str(ctx.seed * 1000 + k)})
            out = process(ctx, binary, "random #%d" % k, tag)
            out.update(cases=n, nontrivial=0, sample=None)
            return out
        return job

    def zero_job():
        return zero_time(ctx, binary)

    jobs = [pipeline(100 + k, label, None, mc=(names, keys, m))
            for k, (label, names, keys, m) in enumerate(mc_batches(ctx)) if pkvlib.selected(label)]
    jobs += [pipeline(k, label, subst) for k, (label, subst) in enumerate(batches(ctx)) if pkvlib.selected(label)]
    nrandom = [(0, 1200, 9)] if ctx.quick else [(k, 2500, 12) for k in range(12)]
    if pkvlib.selected("random"):
        jobs += [random_job(k, n, mx) for k, n, mx in nrandom]
    if pkvlib.selected("zero-time"):
        jobs.append(zero_job)
    results = pkvlib.par(ctx, jobs)
    cands = []
    # the run as a whole must follow ONE end-point convention (the zero-time job has its own, local verdict)
    main = [o for o in results if o["label"] != "zero-time"]
    okread = {"open", "closed"}
    for o in main:
        okread &= o["okread"]
    if not okread and not any(c["sig"]["kind"] == "date-class-wrong-under-every-reading" for o in main for c in o["cands"]):
        wo = next(o["datewit"]["open"] for o in main if "open" in o["datewit"])
        wc = next(o["datewit"]["closed"] for o in main if "closed" in o["datewit"])
        body = {"universe": list({u["id"]: u for u in wo[0]["universe"] + wc[0]["universe"]}.values()),
                "cases": wo[0]["cases"] + wc[0]["cases"], "context": [], "zero": False,
                "observed": wo[0]["observed"] + wc[0]["observed"]}
        cands.append({"sig": {"kind": "date-class-inconsistent-end-points", "api": wo[2]}, "case": body,
                      "what": "date-class-inconsistent-end-points: no single end-point convention explains both: %s; %s"
                              % (wo[1], wc[1])})
    for out in results:
        cands += out["cands"]
        for n in out["notes"]:
            ctx.note(n)
        ctx.cov["evaluations"] += out["calls"]
        ctx.cov["traces_validated_against_impl"] += out["calls"]
        ctx.cov["chains_judged"] = ctx.cov.get("chains_judged", 0) + out["chains"]
        ctx.cov["calls_returning_chains"] = ctx.cov.get("calls_returning_chains", 0) + out["nonempty"]
        ctx.cov["cases"] = ctx.cov.get("cases", 0) + out["cases"]
        ctx.cov["distinct_nontrivial"] += out["nontrivial"]
        ctx.cov["model_drift"] = ctx.cov.get("model_drift", 0) + out["drift"]
        if out.get("sample") and not ctx.cov["samples"]:
            ctx.add_samples([out["sample"]], n=1)
    ctx.cov["exhaustive"] = True
    ctx.cov["rule"] = ("cases = abstract PKIs x options enumerated by TLC from ChainBuilderGen.tla (every topology of the "
                       "stated universes, every attribute assignment on the fixed topologies) plus seeded random PKIs; "
                       "evaluations = real Verify/ValidateWithStupidDetail calls whose projected result TLC judged with the "
                       "A layer; non-trivial = some other certificate of the PKI is a candidate parent of the leaf by name "
                       "or by key (counted by TLC)")
    ctx.candidates(binary, cands, reproduce=lambda path, body: reproduce(ctx, binary, path, body))
    if ctx.thorough:
        selftest(ctx, binary)


def zero_time(ctx, binary):
    """VerifyOptions.CurrentTime is documented as 'if zero, the current time is used'.  The verification time of
    such a call is the wall clock; certificates valid from 2020 to 2088 make the result independent of it."""
    import time
    gen(ctx, "zero-time", "zero", {"MODES": '{"zerotime"}', "NAMES": "{}", "KEYS": "{}", "M": 0, "ORDERED": "FALSE",
                                   "TOPOS": '{"line3"}', "BIGTOPOS": "{}"})
    C = files(ctx, "zero")[1]
    cases = read_ndjson(C)
    # the abstract verification time handed to TLC is "now" in seconds after 2020-01-01
    now = int(time.time()) - 1577836800
    for c in cases:
        c["times"] = [now]
    write_ndjson(C, cases)
    out = process(ctx, binary, "zero-time", "zero", zero=True)
    out.update(cases=len(cases), nontrivial=0, sample=None)
    return out


def selftest(ctx, binary):
    """Binding self-test: a corrupted observation must be rejected by the judge."""
    gen(ctx, "selftest", "self", {"MODES": '{"window"}', "NAMES": "{}", "KEYS": "{}", "M": 0, "ORDERED": "FALSE",
                                  "TOPOS": '{"line3"}', "BIGTOPOS": "{}"})
    U, C, O = files(ctx, "self")
    ctx.run(binary, ["run", U, C, O])
    obs = read_ndjson(O)
    idx = [i for i, o in enumerate(obs) if o["current"] and len(o["current"][0]) == 3 and o["api"] == "verify"]
    if not idx:
        raise Machinery("selftest: no current 3-certificate chain observed")
    i = idx[len(idx) // 2]
    # (1) drop the intermediate from a returned chain, (2) move a current chain to expired, (3) claim err = nil
    #     on an observation without current chain
    mut1 = json.loads(json.dumps(obs))
    mut1[i]["current"][0] = [mut1[i]["current"][0][0], mut1[i]["current"][0][2]]
    mut2 = json.loads(json.dumps(obs))
    mut2[i]["expired"] = mut2[i]["current"]
    mut2[i]["current"] = []
    j = [k for k, o in enumerate(obs) if not o["current"] and o["api"] == "verify"]
    mut3 = json.loads(json.dumps(obs))
    mut3[j[0]]["err"] = "nil"
    for name, m, want in (("broken link", mut1, "rejects"), ("wrong bucket", mut2, "date"), ("nil error", mut3, "rejects")):
        write_ndjson(O, m)
        res = judge(ctx, "selftest " + name, "self")
        ok = bool(res["rejects"]) if want == "rejects" else not res["dateok"]
        if not ok:
            raise Machinery("selftest: corrupted observation (%s) was accepted - the judge constrains nothing" % name)
    ctx.note("binding self-test passed (broken link, wrong date bucket, unfounded nil error all rejected)")


def replay(ctx, path):
    binary = ctx.gobuild("c07")
    again = reproduce(ctx, binary, path)
    print("REPRODUCED" if again else "not reproduced")
    return 1 if again else 0
