"""C22 - distinguished names round-trip through RDN sequences (PkixName.tla, PkixNameGen.tla,
Trace_PkixName.tla over ASN1Marshal.tla / DER.tla; harness cmd/c22)."""
import json
import re

from vlib import Machinery, read_ndjson, write_ndjson
from props import derlib

META = {
    "technique": "TLA+ model of pkix.Name <-> RDNSequence <-> DER (PkixName.tla over ASN1Marshal.tla): TLC enumerates Names and arbitrary RDN sequences, checks the round-trip property on the specification and emits ToRDN, the DER bytes, the parsed (SET-ordered) sequence and the refilled fields; each step is replayed on x509/pkix and encoding/asn1; seeded random Names are judged by TLC",
    "text": "ToRDN transcribes Name.ToRDNSequence over exactly the 15 fields it emits (field order, one multi-valued RDN per field, CommonName / SerialNumber only when non-empty), EncRDN is Enc of ASN1Marshal.tla at the type SEQUENCE OF SET OF SEQUENCE {OID, string} (PrintableString / UTF8String selection, DER ordering inside each SET), Fill transcribes FillFromRDNSequence (attribute OID -> field, multi-valued RDNs flattened, unknown OIDs skipped). TLC checks Fill(parse(Enc(ToRDN(n)))) =fields n for every generated Name and prints all intermediate values; the harness compares ToRDNSequence, Marshal, strict Unmarshal, FillFromRDNSequence (values per field, any order) and the conversion back (must equal the parsed sequence, re-marshal to the same DER). Arbitrary RDN sequences (unknown OIDs, repeated and mixed attribute types) exercise the second sentence. Bounded-exhaustive plus TLC-judged random Names.",
    "note": "Trusted: TLC, Go toolchain. ExtraNames, Names, CommonNames / SerialNumbers, GivenName, Surname are not emitted by ToRDNSequence and are outside the first sentence; attribute values that are not strings are skipped by Fill and not generated. Order of values inside one field is not demanded (DER orders the SET).",
}

QUICK = [dict(FAMILIES='{"name1","name","rdn"}', FIELDS="{1,4,6,7,9,15}", MAXPOP=2, MAXRDN=2)]
THOROUGH = [dict(FAMILIES='{"name1","name","rdn"}', FIELDS="{1,2,3,4,6,7,9,10,13,15}", MAXPOP=2, MAXRDN=2),
            dict(FAMILIES='{"name","rdn"}', FIELDS="{1,2,4,9,10,15}", MAXPOP=3, MAXRDN=3)]


def run(ctx):
    binary = ctx.gobuild("c22")
    cands = []
    total = nontriv = 0
    fams = {}
    runs = QUICK if ctx.quick else THOROUGH
    for k, params in enumerate(runs):
        r = ctx.tlc("PkixNameGen", "PkixName_gen.cfg", subst=params, timeout=3000,
                    label="PkixNameGen %s" % json.dumps(params, sort_keys=True))
        path = ctx.path("names%d.ndjson" % k)
        n = derlib.tla_records_to_file(r.out, path)
        if n != r.distinct:
            raise Machinery("generator printed %d cases for %d states" % (n, r.distinct))
        p = ctx.run(binary, ["replay-gen", path], timeout=3000)
        c, st = ctx.harness_output(p)
        if st.get("cases") != n:
            raise Machinery("harness replayed %s of %d cases" % (st.get("cases"), n))
        cands += c
        total += n
        nontriv += st.get("nontrivial", 0)
        for f, v in st.get("families", {}).items():
            fams[f] = fams.get(f, 0) + v
        with open(path) as f:
            for i, line in enumerate(f):
                if i == 99:
                    ctx.add_samples([json.loads(line)], n=2)
    if not fams.get("name") or not fams.get("rdn"):
        raise Machinery("vacuous: families generated %s" % fams)
    ctx.cov["evaluations"] += total
    ctx.cov["distinct_nontrivial"] += nontriv
    ctx.cov["traces_validated_against_impl"] += total
    ctx.cov["exhaustive"] = True
    ctx.cov["families"] = fams
    ctx.cov["rule"] = ("every Name (value sequences from the menu on up to MAXPOP of the selected fields) and every RDN sequence "
                       "(up to MAXRDN RDNs from the attribute menu) of PkixNameGen.tla, a TLC state each; non-trivial = the "
                       "sequence is not empty; plus seeded random Names judged by TLC")
    ctx.candidates(binary, cands)
    verdicted = {(c["sig"]["stage"]) for c in cands}

    nrec = 300 if ctx.quick else 5000
    out = ctx.path("name_rec.ndjson")
    ctx.run(binary, ["record", out, str(nrec)], timeout=1200)
    recs = read_ndjson(out)
    rejected = judge(ctx, recs)
    ctx.cov["evaluations"] += len(recs)
    ctx.cov["traces_validated_against_impl"] += len(recs) - len(rejected)
    ctx.cov["random_names_judged_by_tlc"] = len(recs)
    tc = []
    for i, stage in rejected:
        if stage in verdicted:
            continue
        r = recs[i - 1]
        tc.append({"sig": {"stage": stage, "family": "name", "field": "", "judged": "trace"},
                   "what": "TLC (Trace_PkixName) rejects the recorded round trip at stage %s: %s" % (stage, json.dumps(r)[:700]),
                   "case": {"n": r["n"], "obs": True}})
    ctx.candidates(binary, tc, reproduce=lambda path, body: reproduce_obs(ctx, binary, path))
    if not ctx.quick:
        selftest(ctx, recs)


def judge(ctx, recs, label=None):
    write_ndjson(ctx.specfile("name_obs.ndjson"), recs)
    r = ctx.tlc("Trace_PkixName", "PkixName_judge.cfg", timeout=3000, label=label or "Trace_PkixName[%d names]" % len(recs))
    if r.distinct != max(1, len(recs)):
        raise Machinery("Trace_PkixName visited %d states for %d records" % (r.distinct, len(recs)))
    try:
        return derlib.rejects(r.out, 1)
    except ValueError as e:
        raise Machinery(str(e))


def reproduce_obs(ctx, binary, path):
    out = ctx.path("one.ndjson")
    ctx.run(binary, ["record-one", path, out])
    return len(judge(ctx, read_ndjson(out), label="Trace_PkixName[replay]")) > 0


def selftest(ctx, recs):
    import copy
    good = [r for r in recs if len(r["rdn"]) >= 2][:40]
    bad = []
    for k, r in enumerate(good):
        x = copy.deepcopy(r)
        if k % 4 == 0:
            x["rdn"][0], x["rdn"][1] = x["rdn"][1], x["rdn"][0]
        elif k % 4 == 1:
            x["der"][-1] ^= 1
        elif k % 4 == 2:
            j = [i for i, f in enumerate(x["filled"]) if f][0]
            x["filled"][j] = x["filled"][j] + [[120]]
        else:
            x["back"] = x["back"][:-1]
        bad.append(x)
    rej = judge(ctx, bad, label="Trace_PkixName[selftest]")
    if len(rej) != len(bad):
        raise Machinery("selftest: %d of %d corrupted records accepted" % (len(bad) - len(rej), len(bad)))
    ctx.note("binding self-test passed (%d corrupted records rejected)" % len(bad))


def replay(ctx, path):
    import os
    path = os.path.abspath(path)
    binary = ctx.gobuild("c22")
    body = json.load(open(path))
    if body.get("case", {}).get("obs"):
        again = reproduce_obs(ctx, binary, path)
    else:
        again = ctx.run(binary, ["replay", path], ok_codes=(0, 1)).returncode == 1
    print("REPRODUCED" if again else "not reproduced")
    return 1 if again else 0
