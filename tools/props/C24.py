"""C24 - TLS endpoints interoperate and negotiate correctly (TLSHandshake.tla: Negotiate / Judge24,
TLSHandshakeMC.tla, TLSHandshakeGen.tla, Trace_TLSHandshake.tla; harness cmd/c24, lib/tlsh)."""
import copy
import json

from vlib import Machinery, read_ndjson, write_ndjson
from props import tlshs_common as T

META = {
    "technique": "TLA+ negotiation function (Negotiate: highest shared version, preference rule over usable suites, ALPN, downgrade sentinel, client abort) plus a client/server/network state machine with ideal cryptography model-checked by TLC; TLC enumerates configuration pairs with the demanded outcome, real zcrypto client/server pairs are run on each over an in-memory transport (with a ClientHello-rewriting downgrade adversary), and TLC judges every recorded observation, including seeded random configurations",
    "text": "TLC model-checks the handshake machine (agreement of both ends on version, suite, ALPN, resumption and exporter term; tampering with the hello never completes) for small constants, enumerates version-range x version-range x key-type x preference x suite-list configuration pairs with the outcome Negotiate demands, and the Go harness runs a real zcrypto Client/Server pair on every pair (two connections when resumption is attempted); ConnectionState of both ends, ExportKeyingMaterial equality, an application-data round trip, the sentinel in the captured ServerHello and the client's abort are logged and judged by TLC with the same operators, as are several thousand seeded random configurations. Bounded-exhaustive over the representative table plus sampled, which suits a pure negotiation function with a small case analysis.",
    "note": "Trusted: TLC, the Go toolchain, the standard library (certificates, keys). zcrypto <-> zcrypto only. Suite lists longer than 20 entries are not generated (the AES-GCM/ChaCha reordering is modelled as the insertion sort sort.SliceStable uses up to that length). Where the code may reorder AES-GCM and ChaCha20 suites both orders are allowed; ALPN may follow either side's order; no demand for a TLS 1.1 server's sentinel; TLS 1.3 pairs without a common group are left open. DSS suites and SSLv3 are outside the modelled table.",
}

KIND_WHAT = {
    "suite": "negotiated cipher suite is not one the documented rule allows",
    "version": "negotiated version is not the highest shared one",
    "alpn": "negotiated ALPN protocol is not a first common entry",
    "canary": "downgrade sentinel missing or wrong in the ServerHello random",
    "no-abort-on-sentinel": "client did not abort at the ServerHello carrying the downgrade sentinel",
    "completed-after-downgrade": "client completed although the ClientHello was rewritten in flight",
    "not-completed": "compatible configuration pair did not complete the handshake",
    "one-sided-completion": "only one endpoint completed",
    "disagreement": "endpoints completed with different session parameters / exporter output / broken data path",
    "resumption": "second connection's resumption status differs from (tickets enabled on both sides)",
    "resumed-without-session": "first connection reports a resumption",
    "resumed-disabled-suite": "after the server was reconfigured (same ticket keys) the connection was resumed on a suite that is not in (client's offer and server's current list)",
    "panic-or-hang": "endpoint panicked or did not return",
    "server-completed-without-client-certificate": "server requiring a client certificate completed with a client that has none",
}


def sig_of(facts):
    return {k: facts[k] for k in ("kind", "vers", "down", "auth", "ccert", "resumed", "reconf", "server_restricts_tls13",
                                  "suite_in_server_list", "suite_in_client_offer") if k in facts}


def to_cands(records, rejects):
    cands = []
    for idx, facts in rejects:
        rec = records[idx]
        case = {"id": rec["id"], "c": rec["c"], "s": rec["s1"], "down": rec["down"], "two": rec["second"], "ccert": rec["ccert"],
                "reconf": rec["reconf"], "s2": rec["s"]}
        what = "%s (negotiated per spec: version %s; observed client %s/%s server %s/%s, second=%s%s; errors c=%r s=%r)" % (
            KIND_WHAT.get(facts["kind"], facts["kind"]), facts.get("vers"), rec["obs"]["cvers"], rec["obs"]["csuite"],
            rec["obs"]["svers"], rec["obs"]["ssuite"], rec["second"],
            ", server reconfigured: suites %s -> %s, versions %s-%s -> %s-%s" % (
                rec["s1"]["suites"], rec["s"]["suites"], rec["s1"]["min"], rec["s1"]["max"], rec["s"]["min"], rec["s"]["max"]) if rec["reconf"] else "",
            rec["obs"]["cerr"][:80], rec["obs"]["serr"][:80])
        cands.append({"sig": sig_of(facts), "what": what, "case": case})
    return cands


def run_cases(ctx, binary, cases, tag):
    cpath, opath = ctx.path("cases_%s.ndjson" % tag), ctx.path("obs_%s.ndjson" % tag)
    write_ndjson(cpath, cases)
    p = ctx.run(binary, ["run", cpath, opath], timeout=3000)
    _, st = ctx.harness_output(p)
    recs = read_ndjson(opath)
    if not recs or st.get("connections", 0) != len(recs):
        raise Machinery("harness c24 run produced %d records, announced %s" % (len(recs), st.get("connections")))
    return recs


def selftest_records(records):
    """Binding self-test: copies of accepted records with one logged field corrupted; every one of
    them must be rejected by TLC, otherwise the judge constrains nothing."""
    out = []
    good = [r for r in records if r["obs"]["cdone"] and r["obs"]["sdone"] and r["down"] == 0]
    if len(good) < 4:
        return out
    for k, r in enumerate(good[:: max(1, len(good) // 8)][:8]):
        c = copy.deepcopy(r)
        c["id"] = -(k + 1)
        which = k % 4
        if which == 0:
            c["obs"]["csuite"] = c["obs"]["ssuite"] = 5 if r["obs"]["csuite"] != 5 else 10
        elif which == 1:
            c["obs"]["cvers"] = c["obs"]["svers"] = r["obs"]["cvers"] - 1 if r["obs"]["cvers"] > 10 else 13
        elif which == 2:
            c["obs"]["ekmeq"] = False
        else:
            c["obs"]["sdone"] = False
        out.append(c)
    return out


def run(ctx):
    quick = ctx.quick
    binary = ctx.gobuild("c24")
    T.write_facts(ctx, binary)

    # U1: the handshake machine (design level; agreement / tamper detection / liveness).
    from props import tlshs_mc
    tlshs_mc.check(ctx, "C24")

    # U2: TLC-enumerated configuration pairs with the demanded outcome, run on the real code.
    cases, st = T.generate(ctx, "C24", "c24_cases.ndjson")
    must = sum(1 for c in cases if c["exp"]["mode"] == "must")
    down = sum(1 for c in cases if c["down"] != 0)
    if must == 0 or down == 0:
        raise Machinery("generator produced no must-complete or no downgrade cases (vacuous)")
    ctx.add_samples([cases[len(cases) // 3]], n=1)
    recs = run_cases(ctx, binary, cases, "gen")

    # U3: seeded random configuration pairs.
    nrand = 1200 if quick else 60000
    rpath = ctx.path("random_cases.ndjson")
    ctx.run(binary, ["random", str(nrand), rpath])
    rcases = read_ndjson(rpath)
    for c in rcases:
        c["id"] += 10 ** 6
    rrecs = run_cases(ctx, binary, rcases, "rand")

    allrecs = recs + rrecs
    st_recs = selftest_records(allrecs)
    rejects = T.judge(ctx, "C24", allrecs + st_recs)
    st_rej = {allrecs_i for allrecs_i, _ in rejects if allrecs_i >= len(allrecs)}
    if len(st_rej) != len(st_recs):
        raise Machinery("binding self-test: %d of %d corrupted records were accepted - the judge constrains nothing"
                        % (len(st_recs) - len(st_rej), len(st_recs)))
    rejects = [(i, f) for i, f in rejects if i < len(allrecs)]
    if not st_recs and not rejects:
        raise Machinery("selftest: fewer than 4 completed honest connections and nothing rejected (vacuous)")
    cands = to_cands(allrecs, rejects)

    def runner(cs):
        return run_cases(ctx, binary, cs, "repro")
    ctx.candidates(binary, cands, reproduce=T.BatchReproducer(ctx, "C24", cands, runner))

    # coverage accounting (counted, not judged)
    done = [r for r in allrecs if r["obs"]["cdone"] and r["obs"]["sdone"]]
    cov = {
        "completed": len(done),
        "versions_negotiated": sorted({r["obs"]["cvers"] for r in done}),
        "suites_negotiated": len({r["obs"]["csuite"] for r in done}),
        "resumed": sum(1 for r in done if r["obs"]["cres"]),
        "sentinel_12": sum(1 for r in allrecs if r["obs"]["canary"] == "12"),
        "sentinel_11": sum(1 for r in allrecs if r["obs"]["canary"] == "11"),
        "client_aborts_at_serverhello": sum(1 for r in allrecs if r["down"] and r["obs"]["canary"] in ("11", "12")
                                           and r["obs"]["cread"] == 1 and not r["obs"]["cdone"]),
        "alpn_negotiated": sum(1 for r in done if r["obs"]["calpn"]),
    }
    first = {r["id"]: r for r in allrecs if not r["second"]}
    rc = [r for r in done if r["reconf"]]
    cov["server_reconfigured"] = {
        "connections": sum(1 for r in allrecs if r["reconf"]),
        "resumed": sum(1 for r in rc if r["obs"]["cres"]),
        "full_after_suite_left_server_list": sum(
            1 for r in rc if not r["obs"]["cres"] and r["id"] in first and first[r["id"]]["obs"]["cdone"] and r["s"]["suites"]
            and first[r["id"]]["obs"]["cvers"] == r["obs"]["cvers"] <= 12 and first[r["id"]]["obs"]["csuite"] not in r["s"]["suites"]),
        "full_after_version_change": sum(1 for r in rc if not r["obs"]["cres"] and r["id"] in first and first[r["id"]]["obs"]["cdone"]
                                         and first[r["id"]]["obs"]["cvers"] != r["obs"]["cvers"]),
    }
    for k, v in cov["server_reconfigured"].items():
        if not v:
            raise Machinery("vacuous coverage of server reconfiguration: %s" % cov["server_reconfigured"])
    for k in ("completed", "resumed", "sentinel_12", "sentinel_11", "client_aborts_at_serverhello", "alpn_negotiated"):
        if not cov[k]:
            raise Machinery("vacuous coverage: no observation with %s" % k)
    if cov["versions_negotiated"] != [10, 11, 12, 13] or cov["suites_negotiated"] < 12:
        raise Machinery("vacuous coverage: versions %s, %d suites negotiated" % (cov["versions_negotiated"], cov["suites_negotiated"]))
    ctx.cov["observations"] = cov
    ctx.cov["evaluations"] += len(allrecs)
    ctx.cov["traces_validated_against_impl"] += len(allrecs)
    nontriv = {json.dumps([c["c"], c["s"], c["down"]], sort_keys=True) for c in cases if c["exp"]["mode"] == "must" or c["down"]}
    ctx.cov["distinct_nontrivial"] += len(nontriv) + sum(1 for r in rrecs if r["obs"]["cdone"] and not r["second"])
    ctx.cov["exhaustive"] = not quick
    ctx.cov["rule"] = ("TLC-generated configuration pairs: every client version range x server version range x server key "
                       "type x preference flag x client suite list, with %s server suite lists from the representative "
                       "table, plus ClientHello-downgrade cases; non-trivial = the specification demands completion "
                       "(shared version and usable common suite) or a downgrade adversary is present; plus seeded random "
                       "pairs that completed. Every connection (two per pair when resumption is attempted) is one judged "
                       "observation." % ("one (rotated by the seed)" if quick else "all"))
    ctx.log("C24 observations: %s" % json.dumps(cov))


def replay(ctx, path):
    import os
    path = os.path.abspath(path)
    binary = ctx.gobuild("c24")
    T.write_facts(ctx, binary)
    out = ctx.path("one.ndjson")
    ctx.run(binary, ["run-one", path, out])
    recs = read_ndjson(out)
    body = json.load(open(path))
    rej = T.judge(ctx, "C24", recs)
    again = any(f.get("kind") == body.get("sig", {}).get("kind") for _, f in rej)
    for _, f in rej:
        print("rejected:", json.dumps(f, sort_keys=True))
    print("REPRODUCED" if again else "not reproduced")
    return 1 if again else 0
