"""C17 - the CT scanner processes every log entry exactly once without races
(CTScanner.tla, CTScannerImpl.tla, Trace_CTScanner.tla; harness cmd/c17, lib/ctlog;
hooks /repo/ct/scanner/verif_*.go)."""
import concurrent.futures
import copy
import glob
import hashlib
import json
import os
import re

from vlib import read_ndjson, write_ndjson, Machinery

META = {
    "technique": "TLA+ A/B-layer model of Scan/fetcherJob/matcherJob/ticker: exhaustive TLC safety check of all "
                 "interleavings and server fault patterns for small constants, liveness under fairness, "
                 "TLC-simulated behaviours forced onto the real Scan through a gated fake log and blocking hooks, "
                 "TLC trace validation of hook traces of free-running scans, Go race detector runs of the same "
                 "configurations",
    "text": "CTScannerImpl.tla (one action per critical section of ct/scanner/scanner.go, channels, server that "
            "answers with an error or a non-empty prefix, split read/write of the ++ counters) is model-checked "
            "against the A-layer monitor of CTScanner.tla (each index delivered at most once with index = "
            "position, at return every index of the range delivered and ret = start + |range|) for every "
            "interleaving of small configurations, and for termination under fairness. The real Scan is bound to "
            "the model in both directions: behaviours simulated by TLC (server answer/truncation/error pattern, "
            "enqueue order, matcher completion order) are forced onto the real code over loopback HTTP, and every "
            "execution (scheduled or free-running with seeded faults and perturbation) is recorded through add-only "
            "hooks and accepted or rejected by TLC (Trace_CTScanner.tla: A monitor + B actions). The data-race "
            "clause is predicted by the model (two goroutines whose next steps conflict) and observed by running "
            "the same configurations under the Go race detector with the hooks left nil.",
    "note": "Trusted: TLC, the Go race detector (as the observer of data races; it reports only races that "
            "actually occur in the runs), net/http loopback, the fake log (harness/lib/ctlog) which implements the "
            "server assumption of the statement. Liveness proper is checked on the model only; on the code it is a "
            "120 s watchdog. BatchSize, ParallelFetch, NumWorkers >= 1 and MaximumIndex <= tree size are assumed "
            "(otherwise the log cannot serve the range). Interleavings of the real code are sampled (forced "
            "schedules + perturbation), not enumerated.",
}

TRACE = "ctscan_trace.ndjson"
HOOK_EVENTS = ["sth", "part", "closef", "fwait", "mwait", "range", "fetch", "enq", "deq", "done", "ctr"]


# --------------------------------------------------------------------------------------- TLC side

def model_check(ctx):
    q = ctx.quick
    base = dict(CAPF=1000, CAPJ=100000, LEGACY="FALSE")
    runs = [
        # fetchers 2, matchers 2, log 4, batch 2, <= 2 faults, cert/precert
        dict(STARTS="{0}", SIZES="{4}", MAXIDXS="{0}", BATCHES="{2}", NFS="{2}", NMS="{2}", KPS="{3}", FAULTS=2),
    ]
    if q:
        # start > 0, MaximumIndex set, batch not dividing the range, one fault
        runs.append(dict(STARTS="{1}", SIZES="{5}", MAXIDXS="{4}", BATCHES="{2,3}", NFS="{2}", NMS="{2}", KPS="{4}",
                         FAULTS=1))
    else:
        runs += [
            dict(STARTS="{0,1}", SIZES="{0,4,5}", MAXIDXS="{0,3}", BATCHES="{1,2,3}", NFS="{1,2}", NMS="{1,2}",
                 KPS="{4}", FAULTS=2),
            dict(STARTS="{0}", SIZES="{5}", MAXIDXS="{0}", BATCHES="{2}", NFS="{3}", NMS="{2}", KPS="{4}", FAULTS=2),
            dict(STARTS="{1}", SIZES="{6}", MAXIDXS="{0}", BATCHES="{2}", NFS="{2}", NMS="{3}", KPS="{4}", FAULTS=2),
            dict(STARTS="{0}", SIZES="{4}", MAXIDXS="{0}", BATCHES="{1,3}", NFS="{2}", NMS="{2}", KPS="{2}", FAULTS=3),
            # tiny channels: the design does not depend on the 1000 / 100000 buffers
            dict(STARTS="{0}", SIZES="{5}", MAXIDXS="{0}", BATCHES="{2}", NFS="{2}", NMS="{2}", KPS="{3}", FAULTS=1,
                 CAPF=1, CAPJ=1),
        ]
    for i, sub in enumerate(runs):
        s = dict(base)
        s.update(sub)
        s["INVS"] = "AInv BInv"
        r = ctx.tlc("CTScannerImpl", "CTScanner_mc.cfg", subst=s, timeout=3000, expect_ok=False,
                    label="CTScannerImpl safety #%d" % (i + 1))
        if r.violated:
            ctx.note("B-model violates %s in safety run #%d: design-level prediction, judged only through the "
                     "real code below" % (r.violated, i + 1))
        elif r.rc != 0:
            raise Machinery("TLC failed on CTScannerImpl safety #%d:\n%s" % (i + 1, r.out[-2000:]))
        elif r.distinct < 1000:
            raise Machinery("CTScannerImpl safety #%d explored only %d states (vacuous)" % (i + 1, r.distinct))
    # liveness: termination under fairness, server faults unlimited but transient
    live = dict(base, STARTS="{0}", SIZES="{3}", MAXIDXS="{0}", BATCHES="{2}", NFS="{2}", NMS="{2}", KPS="{3}",
                FAULTS=100)
    if not q:
        live.update(SIZES="{4}", BATCHES="{1,2}")
    r = ctx.tlc("CTScannerImpl", "CTScanner_live.cfg", subst=live, timeout=3000, expect_ok=False,
                label="CTScannerImpl termination")
    if r.violated:
        ctx.note("B-model: termination violated (%s) - prediction only" % r.violated)
    elif r.rc != 0:
        raise Machinery("TLC failed on CTScannerImpl liveness:\n" + r.out[-2000:])
    # counter discipline of the current code (atomic adds / loads since 4fe80e7): must hold in the model
    pred = dict(base, STARTS="{0}", SIZES="{4}", MAXIDXS="{0}", BATCHES="{2}", NFS="{2}", NMS="{2}", KPS="{2}", FAULTS=0,
                INVS="NoSplitRace NoTickerRace CounterExact")
    r = ctx.tlc("CTScannerImpl", "CTScanner_mc.cfg", subst=pred, timeout=3000, expect_ok=False,
                label="CTScannerImpl counter discipline")
    if r.violated:
        ctx.note("model predicts a breach of the counter discipline (%s); judged on the real code by the race "
                 "detector runs" % r.violated)
    elif r.rc != 0:
        raise Machinery("TLC failed on the counter discipline:\n" + r.out[-1500:])
    ctx.cov["model_predictions"] = {"counter_discipline_violated_in_model": r.violated}
    if not q:
        # regression sentinel for the model itself: with the pre-4fe80e7 discipline TLC must find the lost update
        # and both races (that prediction was confirmed by the race detector before the fix)
        found = []
        for inv in ["NoSplitRace", "NoTickerRace", "CounterExact"]:
            s = dict(pred, INVS=inv, LEGACY="TRUE")
            r = ctx.tlc("CTScannerImpl", "CTScanner_mc.cfg", subst=s, timeout=3000, expect_ok=False,
                        label="CTScannerImpl legacy discipline " + inv, count=False)
            if r.violated:
                found.append(inv)
            elif r.rc != 0:
                raise Machinery("TLC failed on legacy prediction %s:\n%s" % (inv, r.out[-1500:]))
        if len(found) != 3:
            raise Machinery("the model no longer finds the split-increment defects (found only %s)" % found)
        ctx.cov["model_predictions"]["legacy_discipline_violations_found"] = found


def simulate(ctx, n_per_worker, workers):
    """Random behaviours of the B model (server answers, enqueue order, completion order)."""
    sub = dict(STARTS="{0,1,3}", SIZES="{1,4,6,9}", MAXIDXS="{0,3}", BATCHES="{1,2,3,5}", NFS="{1,2,3}",
               NMS="{1,2,3}", KPS="{1,2,3,4}", FAULTS=4, CAPF=1000, CAPJ=100000, LEGACY="FALSE",
               HISTKINDS='{"ans", "enq", "proc"}')
    r = ctx.tlc("CTScannerImpl", "CTScanner_sim.cfg", subst=sub, simulate="num=%d" % n_per_worker, depth=600,
                workers=workers, timeout=1500, label="CTScannerImpl simulate")
    return behaviours(ctx, r, 0)


def server_scripts(ctx):
    """Exhaustive: every server script (every sequence of errors / truncated / complete answers with at most
    FAULTS faults, in every global order over the ranges) of a small configuration, by breadth-first search
    with the answers kept in the state."""
    if ctx.quick:
        sub = dict(STARTS="{0}", SIZES="{3}", MAXIDXS="{0}", BATCHES="{2}", NFS="{2}", NMS="{1}", KPS="{3}", FAULTS=1)
    else:
        sub = dict(STARTS="{1}", SIZES="{5}", MAXIDXS="{0}", BATCHES="{2,3}", NFS="{2}", NMS="{1}", KPS="{4}", FAULTS=2)
    sub.update(CAPF=1000, CAPJ=100000, LEGACY="FALSE", HISTKINDS='{"ans"}')
    r = ctx.tlc("CTScannerImpl", "CTScanner_sim.cfg", subst=sub, timeout=3000, label="CTScannerImpl all server scripts")
    return behaviours(ctx, r, 500000)


def behaviours(ctx, r, base):
    seen, cases = set(), []
    for line in r.out.splitlines():
        if not line.startswith('"{'):
            continue
        b = json.loads(json.loads(line))
        k = json.dumps(b, sort_keys=True)
        if k in seen:
            continue
        seen.add(k)
        b["cfg"]["ign"] = False
        cases.append({"cfg": b["cfg"], "ev": b["ev"], "mode": "sched", "rseed": ctx.seed * 1000003 + base + len(cases)})
    if not cases:
        raise Machinery("TLC produced no behaviours")
    return cases


# --------------------------------------------------------------------------------------- running the real code

def run_cases(ctx, binary, cases, tag, parallel):
    """Runs the cases (in `parallel` processes), returns list of traces (each a list of events with the
    originating case attached as tr[0]['_case']) and crash candidates."""
    chunks = [cases[i::parallel] for i in range(parallel)]
    chunks = [c for c in chunks if c]
    traces, crashes = [], []

    def one(i, chunk):
        # exit code 4: a scan hung (watchdog); its trace is in the output, the rest of the chunk is run
        # in a fresh process
        res, rnd = [], 0
        while chunk:
            cin = ctx.path("%s_cases_%d_%d.ndjson" % (tag, i, rnd))
            cout = ctx.path("%s_trace_%d_%d.ndjson" % (tag, i, rnd))
            prog = ctx.path("%s_prog_%d_%d" % (tag, i, rnd))
            write_ndjson(cin, chunk)
            p = ctx.run(binary, ["run", cin, cout], timeout=3000, ok_codes=(0, 2, 4), env={"C17_PROGRESS": prog})
            res.append((i, chunk, cout, prog, p))
            if p.returncode != 4:
                break
            _, st = ctx.harness_output(p)
            chunk = chunk[int(st["hung_at"]) + 1:]
            rnd += 1
            if rnd >= 2:
                if chunk:
                    ctx.note("%d cases not run after 2 hung scans in one chunk" % len(chunk))
                break
        return res

    with concurrent.futures.ThreadPoolExecutor(max_workers=len(chunks) or 1) as ex:
        futs = [ex.submit(one, i, c) for i, c in enumerate(chunks)]
        for i, chunk, cout, prog, p in [r for f in futs for r in f.result()]:
            if p.returncode not in (0, 4):
                # the process died: a panic in a goroutine of the code under test is an observation
                # (the panicking goroutine may belong to an earlier scan of the chunk that had already
                # returned, so the whole chunk is the replay unit)
                if not re.search(r"^(panic:|fatal error:)", p.stderr, re.M):
                    raise Machinery("harness died without a Go panic: rc=%d\n%s" % (p.returncode, p.stderr[-2000:]))
                if "zmap/zcrypto/ct" not in p.stderr:
                    raise Machinery("harness panicked outside the code under test:\n" + p.stderr[-3000:])
                m = re.search(r"^(panic:.*|fatal error:.*)$", p.stderr, re.M)
                crashes.append({"case": {"mode": "chunk", "cases": chunk}, "msg": m.group(1)})
                continue
            evs = read_ndjson(cout)
            cur = None
            for e in evs:
                if e["ev"] == "reset":
                    cur = [e]
                    e["_case"] = chunk[e["case"]]
                    traces.append(cur)
                else:
                    cur.append(e)
            _, st = ctx.harness_output(p)
            for line in p.stdout.splitlines():
                if line.startswith("NOTE "):
                    ctx.cov.setdefault("schedule_notes", []).append(line[5:][:200])
    return traces, crashes


def strip(tr):
    out = []
    for e in tr:
        e = dict(e)
        e.pop("_case", None)
        out.append(e)
    return out


def validate(ctx, traces, level, max_rejects=8):
    """TLC judges the traces. Returns (accepted, [(index_of_trace, failing_event)])."""
    events = []
    for ti, tr in enumerate(traces):
        for k, e in enumerate(strip(tr)):
            if k == 0:
                e["tid"] = ti
            events.append(e)
    if not events:
        return 0, []
    acc, rejects = ctx.trace_validate("Trace_CTScanner", "CTScanner_trace.cfg", TRACE, events,
                                      subst={"LEVEL": level}, max_rejects=max_rejects, timeout=3000)
    bad = []
    for rej in rejects:
        bad.append((rej[0]["tid"], rej[-1]))
    return acc, bad


def case_sig(case, ev):
    """Signature of an A-level rejection: which kind of event the property monitor refused (not the concrete
    indices or configuration)."""
    return {"kind": "trace-rejected", "at": ev.get("ev"),
            "completed": not (ev.get("ev") == "ret" and ev.get("b") == 0)}


def reproduce_case(ctx, binary, path, attempts=3):
    """Fresh process: run the case again, let TLC judge the new trace at level A."""
    body = json.load(open(path))
    if body.get("case", {}).get("mode") == "chunk":        # a crash of the process: run the same cases again
        for k in range(attempts):
            cin = ctx.path("crash_%s_%d.ndjson" % (os.path.basename(path), k))
            write_ndjson(cin, body["case"]["cases"])
            p = ctx.run(binary, ["run", cin, cin + ".out"], timeout=3000, ok_codes=(0, 2, 4))
            if p.returncode == 2 and re.search(r"^(panic:|fatal error:)", p.stderr, re.M) and "zmap/zcrypto/ct" in p.stderr:
                return True
        return False
    for k in range(attempts):
        out = ctx.path("replay_%s_%d.ndjson" % (os.path.basename(path), k))
        p = ctx.run(binary, ["replay", path, out], timeout=600, ok_codes=(0, 2))
        if p.returncode != 0:
            if re.search(r"^(panic:|fatal error:)", p.stderr, re.M) and "zmap/zcrypto/ct" in p.stderr:
                return True
            raise Machinery("replay died: " + p.stderr[-1500:])
        evs = read_ndjson(out)
        _, rej = ctx.trace_validate("Trace_CTScanner", "CTScanner_trace.cfg", TRACE, evs,
                                    subst={"LEVEL": "A"}, max_rejects=1)
        if rej:
            return True
    return False


# --------------------------------------------------------------------------------------- race detector

def race_cases(ctx):
    k5 = ["precert", "unparsable", "cert", "nonfatal", "precert"]
    mk = lambda size, batch, nf, nm, kinds, seed, slow=0, perr=10, pcut=20, start=0: {
        "cfg": {"start": start, "size": size, "maxIdx": 0, "batch": batch, "nf": nf, "nm": nm,
                "kinds": [kinds[i % len(kinds)] for i in range(size)], "po": False, "ign": False},
        "mode": "race", "rseed": seed, "slow": slow, "perr": perr, "pcut": pcut}
    s = ctx.seed
    cases = [mk(40, 5, 3, 3, k5, s), mk(24, 4, 2, 2, ["cert", "precert"], s + 1),
             mk(12, 4, 2, 2, ["cert"], s + 2, slow=1300, perr=0, pcut=0)]   # > 1 s: the ticker fires
    if not ctx.quick:
        import random
        rng = random.Random(ctx.seed)
        for i in range(40):
            size = rng.randint(1, 60)
            cases.append(mk(size, rng.randint(1, 9), rng.randint(1, 4), rng.randint(1, 4),
                            rng.choice([k5, ["cert", "precert"], ["precert"], ["nonfatal", "unparsable"], ["cert"]]),
                            s + 10 + i, perr=rng.choice([0, 10, 25]), pcut=rng.choice([0, 20, 45]),
                            start=rng.randint(0, size)))
        cases.append(mk(30, 3, 3, 3, k5, s + 3, slow=2300))
    return cases


SKIP_FIELDS = {"opts", "logger", "logClient"}


def parse_race_reports(ctx, text):
    """-> list of {"sig":..., "what":...}; a report without a zcrypto frame is a harness race (machinery)."""
    res = []
    for rep in text.split("=================="):
        if "WARNING: DATA RACE" not in rep:
            continue
        acc = []
        for block in re.split(r"\n\s*\n", rep):
            lines = [l for l in block.strip().splitlines() if l.strip()]
            if not lines:
                continue
            m = re.match(r"^(?:WARNING: DATA RACE\s*)?", lines[0])
            head = lines[1] if lines[0].startswith("WARNING") and len(lines) > 1 else lines[0]
            if not re.match(r"^(Previous )?(atomic )?(read|write) at 0x", head, re.I):
                continue
            frames = []
            body = lines[lines.index(head) + 1:]
            for i in range(0, len(body) - 1, 2):
                fn = body[i].strip()
                loc = body[i + 1].strip().split(" ")[0]
                frames.append((fn, loc))
            atomic = any(fn.startswith("sync/atomic.") for fn, _ in frames[:3])
            z = [(fn, loc) for fn, loc in frames if fn.startswith("github.com/zmap/zcrypto/")]
            acc.append({"atomic": atomic, "frames": frames, "z": z[0] if z else None, "head": head.split(" at ")[0]})
        if len(acc) < 2:
            raise Machinery("unparsable race report:\n" + rep[:1500])
        acc = acc[:2]
        if not any(a["z"] for a in acc):
            raise Machinery("race report without a frame of the code under test (harness race?):\n" + rep[:2500])
        sides = []
        for a in acc:
            if not a["z"]:
                sides.append({"fn": "(outside zcrypto) " + a["frames"][0][0], "stmt": "", "fields": set(), "atomic": a["atomic"]})
                continue
            fn, loc = a["z"]
            fn = fn.replace("github.com/zmap/zcrypto/ct/", "").rstrip("()")
            m = re.match(r"github\.com/zmap/zcrypto(?:@[^/]*)?/(.*):(\d+)$", loc)
            stmt = ""
            if m:
                try:
                    src = open(os.path.join(ctx.repo, m.group(1))).read().splitlines()
                    stmt = src[int(m.group(2)) - 1].strip()
                except (OSError, IndexError):
                    pass
            fields = set(re.findall(r"\bs\.(\w+)", stmt)) - SKIP_FIELDS
            sides.append({"fn": fn, "stmt": stmt, "fields": fields, "atomic": a["atomic"], "head": a["head"]})
        plain = [s for s in sides if not s["atomic"]]
        if len(plain) == 2:
            fields = plain[0]["fields"] & plain[1]["fields"] or plain[0]["fields"] | plain[1]["fields"]
            funcs = sorted(s["fn"] for s in sides)
        else:
            fields = plain[0]["fields"] if plain else set()
            funcs = sorted([plain[0]["fn"] if plain else sides[0]["fn"], "atomic"])
        sig = {"kind": "data-race", "field": ",".join(sorted(fields)), "funcs": "|".join(funcs)}
        what = "Go race detector: %s in %s {%s}  <->  %s in %s {%s}" % (
            sides[0].get("head", "access"), sides[0]["fn"], sides[0]["stmt"],
            sides[1].get("head", "access"), sides[1]["fn"], sides[1]["stmt"])
        res.append({"sig": sig, "what": what})
    return res


def run_race(ctx, rbin, cases, tag):
    cin = ctx.path("%s_cases.ndjson" % tag)
    write_ndjson(cin, cases)
    logp = ctx.path("%s_log" % tag)
    for f in glob.glob(logp + ".*"):
        os.remove(f)
    p = ctx.run(rbin, ["race", cin], timeout=3000, ok_codes=(0, 2),
                env={"GORACE": "halt_on_error=0 exitcode=0 log_path=%s" % logp})
    if p.returncode != 0:
        if re.search(r"^(panic:|fatal error:)", p.stderr, re.M) and "zmap/zcrypto/ct" in p.stderr:
            return [{"sig": {"kind": "crash", "mode": "race"}, "what": p.stderr[:300]}]
        raise Machinery("race harness died: " + p.stderr[-2000:])
    text = ""
    for f in glob.glob(logp + ".*"):
        text += open(f, errors="replace").read()
    for line in p.stdout.splitlines():
        if line.startswith("NOTE "):
            ctx.note("race run: " + line[5:])
    return parse_race_reports(ctx, text)


# --------------------------------------------------------------------------------------- the check

def run(ctx):
    quick = ctx.quick
    if os.environ.get("VERIF_DEV_SKIP_MODEL"):      # development aid for mutation trials only
        ctx.note("model checking skipped (VERIF_DEV_SKIP_MODEL)")
    else:
        model_check(ctx)
    binary = ctx.gobuild("c17")

    # U2: TLC-simulated behaviours forced onto the real Scan
    w = 2 if quick else min(8, ctx.workers)
    scripts = server_scripts(ctx)
    ctx.cov["server_scripts_enumerated"] = len(scripts)
    sched = scripts + simulate(ctx, 30 if quick else 400, w)
    # U3 input: free-running scans (seeded configurations, server policies, perturbation)
    nfree = 80 if quick else 2500
    fpath = ctx.path("free_cases.ndjson")
    ctx.run(binary, ["gen-free", fpath, str(nfree)])
    free = read_ndjson(fpath)
    # one long scan so that the ticker goroutine is part of a validated trace
    free.append({"cfg": {"start": 0, "size": 6, "maxIdx": 0, "batch": 2, "nf": 2, "nm": 2, "kinds": ["cert", "precert"] * 3,
                         "po": False, "ign": False}, "mode": "free", "rseed": ctx.seed, "slow": 1250, "perr": 0, "pcut": 0})
    par = 2 if quick else min(8, ctx.workers)
    traces, crashes = run_cases(ctx, binary, sched + free, "run", par)
    nsched = sum(1 for t in traces if t[0]["_case"]["mode"] == "sched")

    # vacuity: every hook event kind, faults and truncations must occur in what TLC judges
    seen = {}
    trunc = errs = ctrs = 0
    for tr in traces:
        for e in tr:
            seen[e["ev"]] = seen.get(e["ev"], 0) + 1
            if e["ev"] == "fetch":
                errs += bool(e["err"])
            if e["ev"] == "ctr" and e["a"] > 0:
                ctrs += 1
    missing = [h for h in HOOK_EVENTS + ["cb", "mc", "ret", "tick"] if not seen.get(h)]
    if not crashes and (missing or not errs or not ctrs):
        raise Machinery("vacuous traces: missing events %s, fetch errors %d, split-counter touches %d" % (missing, errs, ctrs))

    # TLC judges every recorded execution: B actions + A monitor; a B-level rejection is re-judged at level A
    acc, badB = validate(ctx, traces, "B")
    cands = []
    drift = lost = 0
    for ti, ev in badB:
        tr = traces[ti]
        accA, badA = validate(ctx, [tr], "A", max_rejects=1)
        if badA:
            case = tr[0]["_case"]
            cands.append({"sig": case_sig(case, badA[0][1]),
                          "what": "execution of Scan rejected by the A-layer monitor (Trace_CTScanner, level A) at event %s"
                                  % json.dumps({k: v for k, v in badA[0][1].items() if k in ("ev", "id", "a", "b", "err", "pos")}),
                          "case": case})
        elif ev.get("ev") == "counters":
            # the execution satisfies the property layer, but a counter other than certsProcessed ended below the
            # number of entries that incremented it: a lost update, i.e. the data race of the known findings
            # showing its effect in an ordinary build.  The race detector runs below carry the verdict.
            lost += 1
            ctx.note("lost update observed on the real code (no race detector): final counters certs=%d precerts=%d "
                     "unparsable=%d nonfatal=%d in a scan with %d matchers" %
                     (ev["id"], ev["a"], ev["b"], ev["pos"], tr[0]["_case"]["cfg"]["nm"]))
        else:
            drift += 1
            print("MODEL-DRIFT property=C17 trace of case %s leaves the B model at %s but satisfies the A layer" %
                  (json.dumps(tr[0]["_case"]["cfg"])[:160], json.dumps(ev)[:200]), flush=True)
    for c in crashes:
        cands.append({"sig": {"kind": "crash", "msg": re.sub(r"0x[0-9a-f]+|\d+", "N", c["msg"])[:120]},
                      "what": "Scan crashed the process: " + c["msg"], "case": c["case"]})
    nev = sum(len(t) for t in traces)
    ctx.cov["evaluations"] += nev
    ctx.cov["trace_events"] = nev
    ctx.cov["traces_validated_against_impl"] += acc
    ctx.cov["scheduled_behaviours_replayed"] = nsched
    ctx.cov["model_drift_traces"] = drift
    ctx.cov["lost_updates_observed"] = lost
    ctx.cov["event_counts"] = seen
    nontriv = set()
    for tr in traces:
        case = tr[0]["_case"]
        okf = sum(1 for e in tr if e["ev"] == "fetch" and not e["err"] and e["b"] > 0)
        faulty = any(e["ev"] == "fetch" and e["err"] for e in tr) or okf > sum(1 for e in tr if e["ev"] == "range")
        if case["cfg"]["nf"] > 1 and case["cfg"]["nm"] > 1 and faulty:
            nontriv.add(hashlib.sha1(json.dumps({k: case.get(k) for k in ("cfg", "ev", "rseed", "perr", "pcut")},
                                                sort_keys=True).encode()).hexdigest())
    ctx.cov["distinct_nontrivial"] += len(nontriv)
    ctx.cov["exhaustive"] = False
    ctx.cov["rule"] = ("model: every interleaving of the listed small configurations (TLC, exhaustive); code: one trace per "
                       "scan of the real Scanner (TLC-simulated schedules forced through the gated fake log + seeded "
                       "free-running scans), each judged event by event by Trace_CTScanner.tla; non-trivial = at least "
                       "2 fetchers and 2 matchers and at least one transient error or truncated answer (more successful answers than ranges) in the scan, "
                       "distinct by (configuration, schedule or policy seed)")
    if traces:
        mid = traces[len(traces) // 2]
        ctx.add_samples([{"case": mid[0]["_case"], "trace_events": len(mid)}], n=1)

    def rep(path, body):
        return reproduce_case(ctx, binary, path)
    ctx.candidates(binary, cands, reproduce=rep)

    # data-race clause: same kind of configurations under the race detector, hooks nil
    rbin = ctx.gobuild("c17", race=True)
    rcases = race_cases(ctx)
    reports = run_race(ctx, rbin, rcases, "race")
    ctx.cov["race_detector_runs"] = len(rcases)
    ctx.cov["race_reports"] = len(reports)
    ctx.cov["evaluations"] += len(rcases)
    rc = [{"sig": r["sig"], "what": r["what"], "case": {"mode": "race", "cases": rcases}} for r in reports]

    reseen = []          # signatures seen in fresh-process re-runs so far

    def rep_race(path, body):
        want = body["sig"]
        if want in reseen:
            return True
        for k in range(6):
            got = run_race(ctx, rbin, body["case"]["cases"], "rerace%d" % k)
            reseen.extend(g["sig"] for g in got)
            if want in reseen:
                return True
        return False
    ctx.candidates(rbin, rc, reproduce=rep_race)

    if not quick:
        selftest(ctx, traces)


def selftest(ctx, traces):
    """Binding self-test: a corrupted index, a dropped delivery and a duplicated delivery must be rejected."""
    pick = None
    for tr in traces:
        if sum(1 for e in tr if e["ev"] == "deq") >= 3 and tr[-1]["ev"] == "counters":
            pick = strip(tr)
            break
    if pick is None:
        raise Machinery("selftest: no suitable trace")
    idx = [i for i, e in enumerate(pick) if e["ev"] == "deq"]
    variants = {}
    v = copy.deepcopy(pick)
    v[idx[1]]["a"] += 1
    variants["corrupted index"] = v
    variants["dropped delivery"] = pick[:idx[1]] + pick[idx[1] + 1:]
    variants["duplicated delivery"] = pick[:idx[1] + 1] + [pick[idx[1]]] + pick[idx[1] + 1:]
    v = copy.deepcopy(pick)
    for e in v:
        if e["ev"] == "ret":
            e["a"] += 1
    variants["wrong return value"] = v
    for name, v in variants.items():
        _, rej = ctx.trace_validate("Trace_CTScanner", "CTScanner_trace.cfg", TRACE, v, subst={"LEVEL": "A"}, max_rejects=1)
        if not rej:
            raise Machinery("selftest: %s accepted at level A - the trace spec constrains nothing" % name)
    ctx.note("binding self-test passed (corrupted index, dropped / duplicated delivery, wrong return value rejected)")


def replay(ctx, path):
    body = json.load(open(path))
    case = body.get("case", {})
    if case.get("mode") == "race" and "cases" in case:
        rbin = ctx.gobuild("c17", race=True)
        again = False
        for k in range(4):
            got = run_race(ctx, rbin, case["cases"], "rerace%d" % k)
            if any(g["sig"] == body["sig"] for g in got):
                again = True
                break
    else:
        binary = ctx.gobuild("c17")
        again = reproduce_case(ctx, binary, path)
    print("REPRODUCED" if again else "not reproduced")
    return 1 if again else 0
