"""C28 - the client handshake log records what was actually exchanged (TLSHandshake.tla:
Problems28 / SchemeNames; TLSHandshakeGen.tla Cases28; harness cmd/c28, lib/tlsh wire parser)."""
import copy
import json

from vlib import Machinery, read_ndjson, write_ndjson
from props import tlshs_common as T

META = {
    "technique": "TLA+ projection rule (every populated log field equals the same-named field of an independent parse of the captured transcript; logged signature/hash names must be names of the wire code point) evaluated by TLC on observations from real zcrypto handshakes: the negotiation generator's completing configuration pairs (fresh and resumed) and seeded random configurations; raw handshake messages are taken at the transport and, for protected messages, from the readHandshake / writeRecordLocked hooks before zcrypto parses them; secrets are cross-checked against the server's key log and by recomputing the client Finished with a crypto/hmac-only PRF",
    "text": "For every completing configuration pair TLC enumerates (all version ranges x key types x preference x representative suite lists, each also resumed when tickets are on) and for seeded random pairs, the harness captures what the client sent and received, parses it with its own wire parser, projects GetHandshakeLog() to the same flat record, and TLC compares field by field (ClientHello and ServerHello fields and extensions, certificate bytes, ServerKeyExchange parameters, digest, signature bytes and algorithm names, ClientKeyExchange, Finished verify data, session ticket bytes/length/lifetime, master and pre-master secret) including completeness of byte strings. Function-style oracle over sampled and enumerated configurations; suits a projection property.",
    "note": "Trusted: TLC, Go toolchain, the harness' wire parser (lib/tlsh/wire.go) and crypto/* of the standard library. Only populated log parts are compared (the statement's wording); that the main parts are populated at all is a vacuity check of the driver. TLS 1.3 logs carry no Finished/key material, so nothing is compared there. The log's secure_renegotiation flag and DigitalSignature.type/valid are not judged (no wire counterpart with one reading).",
}

CASE_FIELDS = ("id", "c", "s")
MAIN_PARTS = ("ch_random", "sh_random", "cert_leaf", "skx_sig_raw", "skx_curve", "skx_dh_p", "ckx_rsa_epms", "ckx_pub_x", "ckx_dh_yc",
              "fin_client", "fin_server", "st_value", "km_master", "km_premaster", "km_master_finished", "ch_ticket_len",
              "skx_hash_name", "sh_selected_version", "sh_key_share_group", "cert_chain")


def sig_of(f):
    return {k: f[k] for k in ("kind", "field", "cause") if k in f}


def to_cands(records, rejects):
    cands = []
    for idx, facts in rejects:
        rec = records[idx]
        f = facts["field"]
        what = "client handshake log field %s = %r, wire/secret says %r (TLS version %s, suite %s, resumed=%s, cause class %s%s)" % (
            f, rec["log"].get(f, rec["log"].get("ch_sigalg_names") if f == "ch_sigalg_names" else None),
            rec["wire"].get(f, rec["wire"].get("ch_sigalgs") if f == "ch_sigalg_names" else rec["wire"].get("skx_sig_scheme")),
            rec["vers"], rec["suite"], rec["resumed"], facts.get("cause"),
            "; late ClientHello option %s, session cache %s" % (rec["late"], rec["c"]["tickets"]) if rec.get("late") else "")
        case = {"id": rec["id"], "c": rec["c"], "s": rec["s"], "two": rec["second"], "down": 0,
                "scts": rec["scts"], "skip": rec["skip"], "rwh": rec["rwh"], "rws": rec["rws"], "late": rec.get("late", "")}
        cands.append({"sig": sig_of(facts), "what": what, "case": case})
    return cands


def run_cases(ctx, binary, cases, tag):
    cpath, opath = ctx.path("c28_cases_%s.ndjson" % tag), ctx.path("c28_obs_%s.ndjson" % tag)
    write_ndjson(cpath, cases)
    ctx.run(binary, ["run", cpath, opath], timeout=3000)
    recs = read_ndjson(opath)
    if len(recs) < len(cases):
        raise Machinery("harness c28 run produced %d records for %d cases" % (len(recs), len(cases)))
    return recs


def selftest_records(records):
    """copies of records with one log field corrupted / truncated: all must be rejected"""
    out = []
    base = [r for r in records if r["done"] and "km_master" in r["log"] and "sh_random" in r["log"]]
    if not base:
        return out
    r = base[0]
    for k, (field, fn) in enumerate([("sh_random", lambda v: v[:56]), ("km_master", lambda v: "48:" + "00" * 48),
                                     ("ch_suites", lambda v: v[:-1]), ("cert_leaf", lambda v: v[:-1] + ("0" if v[-1] != "0" else "1"))]):
        c = copy.deepcopy(r)
        c["id"] = -(k + 1)
        c["log"][field] = fn(c["log"][field])
        out.append((c, field))
    return out


def run(ctx):
    quick = ctx.quick
    binary = ctx.gobuild("c28")
    T.write_facts(ctx, binary)

    cases, st = T.generate(ctx, "C28", "c28_cases.ndjson")
    if min(st[1:4]) == 0:
        raise Machinery("generator: no resumed / SCT / rewritten-ServerKeyExchange case (vacuous): %s" % st)
    ctx.add_samples([{k: cases[len(cases) // 2][k] for k in ("c", "s", "two")}], n=1)
    recs = run_cases(ctx, binary, cases, "gen")

    nrand = 1500 if quick else 20000
    rpath = ctx.path("c28_random.ndjson")
    ctx.run(binary, ["random", str(nrand), rpath])
    rcases = read_ndjson(rpath)
    for c in rcases:
        c["id"] += 10 ** 6
    rrecs = run_cases(ctx, binary, rcases, "rand")

    allrecs = recs + rrecs
    st_recs = selftest_records(allrecs)
    rejects = T.judge(ctx, "C28", allrecs + [c for c, _ in st_recs])
    for k, (c, field) in enumerate(st_recs):
        if not any(i == len(allrecs) + k and f["field"] == field for i, f in rejects):
            raise Machinery("binding self-test: corrupted log field %s was accepted - the judge constrains nothing" % field)
    rejects = [(i, f) for i, f in rejects if i < len(allrecs)]
    if not st_recs and not rejects:
        raise Machinery("selftest: no completed TLS <= 1.2 record and nothing rejected (vacuous)")
    cands = to_cands(allrecs, rejects)

    def same(facts, sig):
        return facts.get("field") == sig.get("field") and facts.get("cause") == sig.get("cause")
    ctx.candidates(binary, cands, reproduce=T.BatchReproducer(ctx, "C28", cands, lambda cs: run_cases(ctx, binary, cs, "repro"), same=same))

    populated = {}
    for r in allrecs:
        if r["done"]:
            for f in r["log"]:
                populated[f] = populated.get(f, 0) + 1
    missing = [f for f in MAIN_PARTS if not populated.get(f)]
    if missing:
        raise Machinery("vacuous coverage: log parts never populated in a completed handshake: %s" % missing)
    done = [r for r in allrecs if r["done"]]
    scripted = {"sct_lists_logged": sum(1 for r in recs if "sh_scts" in r["log"]),
                "sct_entries_unparsable": sum(1 for r in recs for e in r["log"].get("sh_scts", []) if e[1] == ""),
                "rewritten_skx_logged": sum(1 for r in recs if r["rewritten"] and "skx_sig_name" in r["log"]),
                "rewritten_skx_schemes": len({r["wire"].get("skx_sig_scheme") for r in recs if r["rewritten"] and "skx_sig_name" in r["log"]})}
    if scripted["sct_lists_logged"] < 100 or scripted["sct_entries_unparsable"] < 50 or scripted["rewritten_skx_schemes"] < 20:
        raise Machinery("vacuous coverage of the scripted-peer inputs: %s" % scripted)
    late = {}
    for r in recs:
        if r["late"] and "ch_ticket_ext" in r["log"]:
            k = "%s/%s" % (r["late"], "cache" if r["c"]["tickets"] else "nocache")
            late[k] = late.get(k, 0) + 1
    scripted["late_hello_options_logged"] = late
    scripted["forced_ticket_ext_without_cache_on_wire"] = sum(
        1 for r in recs if r["late"] in ("ticket", "ticket+sct", "ticket-disabled") and (not r["c"]["tickets"] or r["late"] == "ticket-disabled")
        and r["wire"].get("ch_ticket_ext") is True)
    scripted["forced_sct_ext_on_wire"] = sum(1 for r in recs if r["late"] in ("sct", "ticket+sct") and r["wire"].get("ch_scts") is True)
    if len(late) < 8 or not scripted["forced_ticket_ext_without_cache_on_wire"] or not scripted["forced_sct_ext_on_wire"]:
        raise Machinery("vacuous coverage of the late ClientHello options: %s" % scripted)
    cov = {"scripted": scripted, "completed": len(done), "resumed": sum(1 for r in done if r["resumed"]),
           "versions": sorted({r["vers"] for r in done}), "suites": len({r["suite"] for r in done}),
           "fields_compared": sum(len(r["log"]) for r in allrecs), "distinct_fields": len(populated)}
    if cov["versions"] != [10, 11, 12, 13] or not cov["resumed"]:
        raise Machinery("vacuous coverage: %s" % cov)
    ctx.cov["observations"] = cov
    ctx.cov["evaluations"] += cov["fields_compared"]
    ctx.cov["traces_validated_against_impl"] += len(allrecs)
    ctx.cov["distinct_nontrivial"] += len({json.dumps([r["c"], r["s"], r["second"]], sort_keys=True) for r in done})
    ctx.cov["exhaustive"] = False
    ctx.cov["rule"] = ("one observation per client connection: (configuration pair, fresh/resumed); evaluations = log fields compared "
                       "with the wire; non-trivial = the handshake completed (all log parts populated); pairs from the C24 generator "
                       "that must complete, plus seeded random pairs")
    ctx.log("C28 observations: %s" % json.dumps(cov))


def replay(ctx, path):
    import os
    path = os.path.abspath(path)
    binary = ctx.gobuild("c28")
    T.write_facts(ctx, binary)
    out = ctx.path("one.ndjson")
    ctx.run(binary, ["run-one", path, out])
    body = json.load(open(path))
    rej = T.judge(ctx, "C28", read_ndjson(out))
    again = any(f.get("field") == body.get("sig", {}).get("field") and f.get("cause") == body.get("sig", {}).get("cause") for _, f in rej)
    for _, f in rej:
        print("rejected:", json.dumps(f, sort_keys=True))
    print("REPRODUCED" if again else "not reproduced")
    return 1 if again else 0
