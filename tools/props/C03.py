"""C03 - signature verification accepts exactly the genuine signatures (Ideal.tla, IdealGen.tla,
Trace_Ideal.tla; harness cmd/c03)."""
import json
import os
import re
import shutil

from vlib import Machinery, read_ndjson
import props.iss_common as ic

META = {
    "technique": "TLA+ ideal signature functionality (Ideal.tla: a signature is the term sig(k, Eff(alg), m), verification is term equality) with byte-level and algebraic mutation operators on each of the four arguments ((r, s + k*order), (r + order, s), boundary values 0 / order, negative INTEGERs for DSA and ECDSA; s + N and leading-zero variants for RSA; ECDSA (r, n - s) left open as malleability); TLC enumerates algorithm x key type/size x target x mutation, proves accept <=> unmutated on the enumeration, and judges the observations recorded from the real verifiers (CheckSignatureFromKey, Certificate.CheckSignature, rsa.VerifyPKCS1v15/VerifyPSS, dsa.Verify, and the signature value replaced inside library-created certificates, CSRs, CRLs, revocation lists and OCSP responses checked through their own CheckSignature APIs) on real keys; a second machine enumerates object kind x key type x requested algorithm, creates each object with the library and verifies it with its own API",
    "text": "What zcrypto owns in signature verification is the binding of (key, message, algorithm) to the primitive: which hash is applied, which padding is expected, whether the whole signature encoding is consumed. The specification states this as an ideal functionality and TLC enumerates the complete product of algorithms, key types, mutation targets and mutation classes (checking the theorem accept <=> unmutated on it); each abstract case is instantiated at several seeded positions with genuine signatures from the standard library and from zcrypto's own signers, on every verification path. Mutated tuples are additionally shown to the standard library's verifier, so a mutation that is itself valid is never counted. Exhaustive over the abstract cases, sampled over positions, messages and keys.",
    "note": "Trusted: TLC, Go toolchain, the primitives of the standard library (hashes, RSA, ECDSA, Ed25519, DSA) as interpretation of the symbols. Left open (logged, not judged): a change of the algorithm label only where the effective (scheme-from-key, hash, padding) triple is unchanged because the verifier dispatches on the key type. PSS is exercised with salt length = hash length (what the library signs and expects). Keys are fresh per process; replays re-instantiate the abstract case at new positions.",
}

GEN = ("IdealGen", "Ideal_gen.cfg")
TR = ("Trace_Ideal", "Ideal_trace.cfg")


def judge(ctx, kind, recs, label):
    rej = []
    for a in range(0, len(recs), 25000):
        part = recs[a:a + 25000]
        for (i, bad, _) in ic.tlc_judge(ctx, TR[0], TR[1], kind, part, fname="ideal_obs.ndjson", label="%s [%d]" % (label, len(part))):
            rej.append((a + i, bad))
    return rej


def cand_of(r, bad):
    if "obj" in r:
        return {"sig": {"obj": "self", "kind": r["obj"], "fam": ic.family(r["kt"]), "pad": ic.pad(r["alg"]), "what": bad[0]},
                "what": "%s created with %s/%s: %s (sigOK=%s, err=%r)" % (r["obj"], r["kt"], r["alg"], bad[0], r["sigOK"], r.get("err")),
                "case": {"self": {"obj": r["obj"], "kt": r["kt"], "alg": r["alg"]}}}
    c = r["c"]
    return {"sig": {"obj": "verify", "fam": ic.family(c["kt"]), "target": c["target"], "mut": c["mut"] if c["target"] != "alg" else "label",
                    "path": r["path"], "verdict": "accepted" if r["accept"] else "rejected"},
            "what": "%s verification of %s/%s with %s mutated by %s (signer %s, at %s): %s; standard library: %s; err=%r"
                    % (r["path"], c["kt"], c["alg"], c["target"], c["mut"], r["signer"], r.get("where"), bad[0], r["stdAccept"], r.get("err")),
            "case": {"c": c, "signer": r["signer"], "path": r["path"]}}


def run(ctx):
    quick = ctx.quick
    binary = ctx.gobuild("c03")
    for f in ("ideal_cases.ndjson", "ideal_self.ndjson"):
        if os.path.exists(ctx.specfile(f)):
            os.remove(ctx.specfile(f))
    group = "quick" if quick else "thorough"
    r = ctx.tlc(GEN[0], GEN[1], subst={"GROUP": group}, label="IdealGen %s" % group, timeout=1500)
    m = re.search(r'<<"CASES", (\d+), (\d+), (\d+), (\d+)>>', r.out)
    if not m:
        raise Machinery("IdealGen wrote no cases:\n" + r.out[-1500:])
    ncases, njudged, nself, naccepts = map(int, m.groups())
    if ncases == 0 or nself == 0:
        raise Machinery("IdealGen: empty enumeration")
    cases = ctx.path("vcases.ndjson")
    selfc = ctx.path("scases.ndjson")
    shutil.move(ctx.specfile("ideal_cases.ndjson"), cases)
    shutil.move(ctx.specfile("ideal_self.ndjson"), selfc)
    with open(cases) as f:
        lines = f.readlines()
    ctx.add_samples([json.loads(lines[len(lines) // 2])], n=1)

    inst = 3 if quick else 16
    out = ctx.path("vobs.ndjson")
    p = ctx.run(binary, ["verify", cases, out, str(inst)], timeout=3000)
    _, st = ctx.harness_output(p)
    if st.get("cases") != ncases:
        raise Machinery("harness instantiated %s of %d cases" % (st.get("cases"), ncases))
    vrecs = read_ndjson(out)
    out2 = ctx.path("sobs.ndjson")
    p = ctx.run(binary, ["self", selfc, out2], timeout=3000)
    _, st2 = ctx.harness_output(p)
    srecs = read_ndjson(out2)
    if len(srecs) != nself or st2.get("created", 0) == 0:
        raise Machinery("self-signed objects: %s of %d observed, %s created" % (len(srecs), nself, st2.get("created")))
    nrand = 600 if quick else 40000
    out3 = ctx.path("robs.ndjson")
    ctx.run(binary, ["random", out3, str(nrand)], timeout=3000)
    rrecs = read_ndjson(out3)
    if len(rrecs) < nrand // 2:
        raise Machinery("random mutation run produced only %d observations" % len(rrecs))

    allrecs = vrecs + rrecs + srecs
    rej = judge(ctx, "mixed", allrecs, "Trace_Ideal")
    acc = sum(1 for r in vrecs + rrecs if r["accept"])
    if acc == 0 or acc == len(vrecs) + len(rrecs):
        raise Machinery("verification observations are all %s - vacuous" % ("accept" if acc else "reject"))
    ctx.cov["evaluations"] += len(allrecs)
    ctx.cov["distinct_nontrivial"] += njudged + naccepts
    ctx.cov["traces_validated_against_impl"] += len(allrecs) - len(rej)
    ctx.cov["exhaustive"] = True
    ctx.cov["abstract_cases"] = {"verify": ncases, "judged": njudged, "label_only_left_open": ncases - njudged,
                                 "self_signed": nself, "in_acceptance_table": naccepts, "created": st2.get("created")}
    ctx.cov["observations"] = {"enumerated": len(vrecs), "random_multibyte": len(rrecs), "self_signed": len(srecs),
                               "std_also_accepts_mutation": sum(1 for r in vrecs + rrecs if r["stdAccept"] == "yes")}
    ctx.cov["rule"] = ("every (key type, algorithm of its family, target in {none, msg, sig, key, alg}, mutation class) with the verdict "
                       "the ideal functionality allows, instantiated %d times per positional mutation on every verification path and "
                       "signer, signature-only cases also with the signature value replaced inside library-created certificates / CSRs / CRLs / "
                       "revocation lists / OCSP responses; every (object kind, key type, requested algorithm); non-trivial = the case has a single allowed verdict "
                       "(not a label-only change) resp. the pair is in the acceptance table; plus seeded random multi-byte mutations" % inst)
    open_obs = [r for r in vrecs if r["c"]["target"] == "alg" and r["accept"]]
    ctx.note("label-only changes accepted by the verifier (left open, logged): %d observations, e.g. %s"
             % (len(open_obs), json.dumps(open_obs[0]["c"]) if open_obs else "-"))
    cands = [cand_of(allrecs[i], bad) for (i, bad) in rej]
    ic.val_candidates(ctx, cands, lambda rp, o: ctx.run(binary, ["one", rp, o]), TR[0], TR[1], "mixed", fname="ideal_obs.ndjson")

    if not quick:
        import copy
        good = copy.deepcopy(next(r for r in vrecs if r["c"]["target"] == "sig" and not r["accept"]))
        good["accept"] = True
        good["stdAccept"] = "no"
        if not ic.tlc_judge(ctx, TR[0], TR[1], "verify", [good], fname="ideal_obs.ndjson", label="selftest accept"):
            raise Machinery("selftest: an accepted mutated signature was not rejected by the validator")
        gen = copy.deepcopy(next(r for r in vrecs if r["c"]["target"] == "none"))
        gen["accept"] = False
        if not ic.tlc_judge(ctx, TR[0], TR[1], "verify", [gen], fname="ideal_obs.ndjson", label="selftest reject"):
            raise Machinery("selftest: a rejected genuine signature was not rejected by the validator")
        ctx.note("binding self-test passed")


def replay(ctx, path):
    binary = ctx.gobuild("c03")
    out = ctx.path("one.ndjson")
    ctx.run(binary, ["one", path, out])
    again = len(ic.tlc_judge(ctx, TR[0], TR[1], "mixed", read_ndjson(out), fname="ideal_obs.ndjson", label="re-judge")) > 0
    print("REPRODUCED" if again else "not reproduced")
    return 1 if again else 0
