"""C13 - OCSP messages round-trip and bind to the issuer's signature (OCSP.tla, OCSPGen.tla,
Trace_OCSP.tla; harness cmd/c13)."""
import json
import os
import re
import shutil
from vlib import read_ndjson, write_ndjson, Machinery

META = {
    "technique": "TLA+ field map, ideal-signature acceptance rule with delegated responder and fault model "
                 "(OCSP.tla); TLC enumerates templates, signer x embedded-certificate x verifier scenarios, "
                 "faults, requests and multi-response lists with the demanded outcome; every case is run on "
                 "CreateResponse / ParseResponse / ParseResponseForCert / CreateRequest / ParseRequest, every "
                 "single-bit change of every octet of signed responses included; TLC judges random observations",
    "text": "OCSP.tla defines Expected(template) (status, serial, times to the second, reason, issuer hash, "
            "responder name, extensions), the request map as hash terms, acceptance over ideal signatures "
            "(directly under the issuer, or through the first embedded certificate if that is signed by the "
            "issuer), the effect of a fault in each region of the DER (tbsResponseData, signature, algorithm, "
            "embedded certificate's signed part / signature, status, response type; swap / drop of the embedded "
            "certificate; reordering of single responses) and ForCert (first single response with the serial). "
            "OCSPGen.tla makes TLC enumerate the product and write each case with verdict accept / reject / open "
            "and the expected fields. The harness builds a real PKI per key-type pair (P-256, P-384, RSA-2048; "
            "issuer, second CA, delegated responder, forged / self-signed / foreign responder certificates) with "
            "the standard library, runs zcrypto, locates fault regions with its own TLV walk and applies every "
            "one-bit change of every octet of each region (about 4*10^4 tampered parses in the quick tier), "
            "encodes multi-response messages with its own encoder (cross-checked with x/crypto/ocsp) and "
            "compares. Seeded random templates and scenarios are run on the real code and judged by TLC. "
            "Signature primitives are symbols interpreted by the standard library.",
    "note": "Trusted: TLC, Go's crypto/*, encoding/asn1, crypto/x509 (PKI construction), x/crypto/ocsp (only as "
            "a reader of the harness' own multi-response encoding). Left open: acceptance when the issuer signs "
            "directly but embeds a certificate; changes to octets no signature covers and the rule does not use "
            "(NULL algorithm parameters, the embedded certificate's outer algorithm identifier, identifier / "
            "length octets of the enclosing wrappers) - there only the parsed fields are compared; critical "
            "single extensions; nil issuer; more than one single response with a nil certificate; ProducedAt.",
}

FILES = ("ocsp_roundtrip.ndjson", "ocsp_accept.ndjson", "ocsp_fault.ndjson", "ocsp_request.ndjson",
         "ocsp_forcert.ndjson", "ocsp_rid.ndjson")


def run(ctx):
    binary = ctx.gobuild("c13")
    r = ctx.tlc("OCSPGen", "OCSP_gen.cfg", workers=1, timeout=3000, subst={"DEEP": "FALSE" if ctx.quick else "TRUE"},
                label="OCSPGen deep=%s" % (not ctx.quick))
    m = re.search(r'<<"CASES", (\d+), (\d+), (\d+), (\d+), (\d+), (\d+)>>', r.out)
    if not m:
        raise Machinery("OCSPGen printed no case counts")
    counts = [int(x) for x in m.groups()]
    if min(counts) == 0:
        raise Machinery("a case family is empty: %s" % counts)
    d = ctx.path("gen")
    os.makedirs(d, exist_ok=True)
    for f in FILES:
        shutil.move(ctx.specfile(f), os.path.join(d, f))
    p = ctx.run(binary, ["replay-gen", d], timeout=6000)
    cands, st = ctx.harness_output(p)
    fams = ["roundtrip", "accept", "fault", "request", "forcert", "rid"]
    for fam, n in zip(fams, counts):
        if st.get(fam + "_cases") != n:
            raise Machinery("harness ran %s %s cases, TLC generated %d" % (st.get(fam + "_cases"), fam, n))
    by = st.get("fault_parses_by_kind", {})
    for kind in ("tbs", "sig", "alg", "cert_tbs", "cert_sig", "status", "resptype", "headers", "swap", "drop", "reorder"):
        if by.get(kind, 0) == 0:
            raise Machinery("vacuous: no tampered parse of kind %s" % kind)
    total = sum(counts) - counts[2] + st["fault_parses"]
    ctx.cov["evaluations"] += total
    ctx.cov["distinct_nontrivial"] += st["fault_parses"] + counts[0] + counts[4]
    ctx.cov["traces_validated_against_impl"] += sum(counts)
    ctx.cov["cases"] = dict(zip(fams, counts))
    ctx.cov["tampered_parses"] = by
    ctx.cov["exhaustive"] = True
    ctx.cov["rule"] = ("TLC-enumerated cases (OCSPGen.tla): templates (status x reason x serial x issuer hash x times "
                       "x extensions) x {direct, delegated} x key-type pairs; all 36 signer x embedded x verifier "
                       "scenarios x key-type pairs; fault kinds on direct and delegated responses, each region "
                       "fault expanded by the harness to every one-bit change of every octet of the region; "
                       "request options; all lists of up to 3-4 single responses x query serial. Non-trivial = "
                       "tampered parses + round-trip templates + multi-response lists. Plus seeded random "
                       "observations judged by TLC (Trace_OCSP.tla).")
    for f, fam in ((FILES[0], "roundtrip"), (FILES[2], "fault"), (FILES[4], "forcert")):
        lines = read_ndjson(os.path.join(d, f))
        ctx.add_samples([dict(lines[len(lines) // 2], family=fam)], n=3)
    ctx.candidates(binary, cands)

    # U3: seeded random templates / scenarios on the real code, judged by TLC
    out = ctx.path("ocsp_obs.ndjson")
    ctx.run(binary, ["record", out, str(300 if ctx.quick else 15000)], timeout=3000)
    observations = read_ndjson(out)
    rejects = validate(ctx, observations)
    ctx.cov["evaluations"] += len(observations)
    ctx.cov["observations_judged"] = len(observations)
    ctx.cov["traces_validated_against_impl"] += len(observations) - len(rejects)
    if rejects:
        cases = []
        for i, verdict, want in rejects:
            o = observations[i - 1]
            cases.append({"family": "roundtrip", "kt": o["kt"], "sc": o["sc"], "t": o["t"], "want": want,
                          "verdict": verdict, "variant": o["variant"], "idx": 0})
        cf = ctx.path("reject_cases.ndjson")
        write_ndjson(cf, cases)
        p = ctx.run(binary, ["check-cases", cf], timeout=600)
        c, st = ctx.harness_output(p)
        if st.get("disagreements", 0) != len(cases):
            ctx.problem("TLC rejected %d observations but the harness reproduces only %s of them" %
                        (len(cases), st.get("disagreements")))
        ctx.candidates(binary, c)
    if ctx.thorough:
        selftest(ctx, observations)


def validate(ctx, observations):
    write_ndjson(ctx.specfile("ocsp_obs.ndjson"), observations)
    r = ctx.tlc("Trace_OCSP", "OCSP_trace.cfg", workers=1, timeout=3000,
                label="Trace_OCSP[%d observations]" % len(observations))
    m = re.search(r'<<"JUDGED", (\d+)>>', r.out)
    if not m or int(m.group(1)) != len(observations):
        raise Machinery("Trace_OCSP did not judge all observations")
    rej = []
    for m in re.finditer(r'<<"REJECT", (\d+), "(\w+)", ("(?:[^"\\]|\\.)*")>>', r.out):
        rej.append((int(m.group(1)), m.group(2), json.loads(json.loads(m.group(3)))))
    return rej


def selftest(ctx, observations):
    """Binding self-test: a corrupted field, a flipped acceptance and a forged acceptance must be rejected."""
    import copy
    acc = [o for o in observations if o["accepted"]][:2]
    rej = [o for o in observations if not o["accepted"]][:1]
    if len(acc) < 2 or not rej:
        raise Machinery("selftest: not enough observations")
    bad = copy.deepcopy(acc + rej)
    bad[0]["fields"]["thisUpdate"] += 1
    bad[1]["accepted"] = False
    bad[2]["accepted"] = True
    r = validate(ctx, bad)
    if len({i for i, _, _ in r}) != 3:
        raise Machinery("selftest: corrupted observations were accepted - the validator constrains nothing")
    ctx.note("binding self-test passed (corrupted field, dropped acceptance, forged acceptance all rejected)")


def replay(ctx, path):
    binary = ctx.gobuild("c13")
    again = ctx.run(binary, ["replay", path], ok_codes=(0, 1)).returncode == 1
    print("REPRODUCED" if again else "not reproduced")
    return 1 if again else 0
