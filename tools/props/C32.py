"""C32 - TLS endpoints survive arbitrary peer behaviour (TLSHandshakeMC.tla adversary: TypeOK,
ClosedLeadsToReturned, TamperNeverCompletes; TLSHandshake.tla Judge32; TLSHandshakeGen.tla Cases32;
harness cmd/c32, lib/tlsh)."""
import copy
import json

from vlib import Machinery, read_ndjson, write_ndjson
from props import tlshs_common as T
from props import tlshs_mc

META = {
    "category": "model_checking",
    "technique": "TLA+ handshake machine with an adversary owning the network (corrupt, alter, drop, insert, close at every flight; budget 2-3) model-checked by TLC for the outcome invariant (every endpoint stays in {running, done, failed}), 'closed leads to returned' under fairness and 'tampering never completes'; TLC enumerates the concrete fault space (configuration x direction x record index x corruption kind x position class, inserted record kinds, byte streams) and every case is applied by the in-memory transport to a live handshake of two real zcrypto endpoints (or fed to a single endpoint), under recover + watchdog, with GetHandshakeLog()/JSON exercised on the partial handshake; TLC judges the logged outcomes; seeded random multi-kind faults likewise (fault enumeration over a model)",
    "text": "The input space is modelled, not all inputs: TLC proves on the abstract machine that no adversary schedule within the budget leaves an endpoint outside {done, failed} or waiting after the transport closed, then enumerates byte flips (header and body positions), truncations inside a record, closes at message boundaries, drops, duplicates, replaced records, TCP re-segmentation, TLS re-fragmentation and ten kinds of inserted records at every record index of both directions for TLS 1.0-1.3 configurations with and without client certificates, plus random / header+random / mutated-genuine-transcript streams against a lone client or server. The harness executes each on real endpoints, closes the transport when nothing can progress and records done/failed/panic/hang; any panic, any call still blocked 20 s after the close, or a panic while building/encoding the handshake log is a violation. This is the weakest use of the specification (totality over a modelled input space) and is labelled so.",
    "note": "Trusted: TLC, Go toolchain, the watchdog (20 s >= 1000 x handshake latency; a hang must repeat in a fresh process). Inputs outside the enumerated fault classes are only sampled (seeded). Liveness on the real code is bounded by the watchdog; liveness proper is checked on the model only. A panic in a goroutine other than the caller's would crash the harness and be reported as a machinery problem, not as a violation. Also judged, beyond the statement: pure TCP re-segmentation must not break a handshake, and altered/dropped/replaced protected or transcript-covered records must not yield a working connection.",
}

KIND_WHAT = {
    "panic": "endpoint panicked",
    "blocked-after-close": "a call did not return after the transport was closed",
    "handshake-log-panic": "GetHandshakeLog() / its JSON encoding / ConnectionState() panicked or blocked on the partial handshake",
    "tcp-segmentation-broke-handshake": "delivering a record in two TCP segments broke the handshake",
    "honest-run-failed": "the unmodified handshake of this configuration failed",
    "tamper-undetected": "a corrupted / dropped / replaced record still led to a completed, working connection",
}
CASE_FIELDS = ("id", "vers", "suite", "key", "auth", "dir", "idx", "kind", "pos", "mask", "sub", "seed")


def sig_of(f):
    s = {k: f[k] for k in ("kind", "fault", "sub", "dir", "rtype", "vers") if k in f}
    if f.get("fault") == "inject":
        s["transport"] = ["healthy", "write-fails", "eof-after-message", "closed"][f.get("pos", 0)]
        s["blocked"] = sorted(k for k in ("read", "write", "closewrite", "close") if f.get("calls", {}).get(k) == "hang")
    return s


def to_cands(records, rejects):
    cands = []
    for idx, facts in rejects:
        rec = records[idx]
        if rec["kind"] == "inject":
            what = "%s after a genuine %s sent to the %s (TLS 1.%d) while the transport was %s: calls %s" % (
                KIND_WHAT.get(facts["kind"], facts["kind"]), rec["sub"], "client" if rec["dir"] == 1 else "server", rec["vers"] - 10,
                ["healthy", "failing on writes", "at EOF after the message", "closed"][rec["pos"]], json.dumps(rec["calls"]))
            cands.append({"sig": sig_of(facts), "what": what, "case": {k: rec[k] for k in CASE_FIELDS}})
            continue
        side = "client" if (rec["obs"]["cpanic"] or rec["obs"]["chang"]) else "server" if (rec["obs"]["spanic"] or rec["obs"]["shang"]) else "-"
        what = "%s: %s (TLS 1.%d suite %s key %s auth %d; fault %s/%s on direction %d record %d (type %d) pos %d; client err=%r server err=%r; log: %s)" % (
            KIND_WHAT.get(facts["kind"], facts["kind"]), side, rec["vers"] - 10, rec["suite"], rec["key"], rec["auth"], rec["kind"], rec["sub"],
            rec["dir"], rec["idx"], rec["rtype"], rec["pos"], rec["obs"]["cerr"][:100], rec["obs"]["serr"][:100], rec["log_err"][:100])
        cands.append({"sig": sig_of(facts), "what": what, "case": {k: rec[k] for k in CASE_FIELDS}})
    return cands


def run_cases(ctx, binary, cases, tag):
    cpath, opath = ctx.path("c32_cases_%s.ndjson" % tag), ctx.path("c32_obs_%s.ndjson" % tag)
    write_ndjson(cpath, cases)
    ctx.run(binary, ["run", cpath, opath], timeout=6000)
    recs = read_ndjson(opath)
    if len(recs) != len(cases):
        raise Machinery("harness c32 run produced %d records for %d cases" % (len(recs), len(cases)))
    return recs


def selftest_records(records):
    base = [r for r in records if r["fired"] and r["kind"] == "flip" and r["pos"] == 4 and r["rtype"] == 22 and not r["obs"]["cdone"]]
    if not base:
        return []
    a = copy.deepcopy(base[0]); a["id"] = -1; a["obs"]["spanic"] = True
    b = copy.deepcopy(base[0]); b["id"] = -2; b["obs"]["chang"] = True
    c = copy.deepcopy(base[0]); c["id"] = -3; c["obs"]["cdone"] = c["obs"]["sdone"] = c["obs"]["dataok"] = True
    d = copy.deepcopy(base[0]); d["id"] = -4; d["log_ok"] = False
    return [a, b, c, d]


def run(ctx):
    quick = ctx.quick
    binary = ctx.gobuild("c32")
    T.write_facts(ctx, binary)
    tlshs_mc.check(ctx, "C32")

    cases, st = T.generate(ctx, "C32", "c32_cases.ndjson")
    if st[1] == 0:
        raise Machinery("generator: no stream case")
    ctx.add_samples([cases[len(cases) // 2]], n=1)
    recs = run_cases(ctx, binary, cases, "gen")

    nrand = 2000 if quick else 60000
    rpath = ctx.path("c32_random.ndjson")
    ctx.run(binary, ["random", str(nrand), rpath])
    rcases = read_ndjson(rpath)
    for c in rcases:
        c["id"] += 10 ** 6
    rrecs = run_cases(ctx, binary, rcases, "rand")

    allrecs = recs + rrecs
    st_recs = selftest_records(allrecs)
    rejects = T.judge(ctx, "C32", allrecs + st_recs)
    if len([i for i, _ in rejects if i >= len(allrecs)]) != len(st_recs):
        raise Machinery("binding self-test: a corrupted record was accepted - the judge constrains nothing")
    rejects = [(i, f) for i, f in rejects if i < len(allrecs)]
    if not st_recs and not rejects:
        raise Machinery("selftest: no body flip record and nothing rejected (vacuous)")
    cands = to_cands(allrecs, rejects)
    ctx.candidates(binary, cands, reproduce=T.BatchReproducer(ctx, "C32", cands, lambda cs: run_cases(ctx, binary, cs, "repro")))

    fired = {}
    for r in allrecs:
        if r["fired"]:
            k = (r["kind"], r["dir"])
            fired[k] = fired.get(k, 0) + 1
    for kind in ("flip", "trunc", "insert", "split", "refrag", "dup", "drop", "close", "garbage", "stream", "shorten", "lengthen", "zeros"):
        for d in (0, 1):
            if fired.get((kind, d), 0) < 10:
                raise Machinery("fault kind %s in direction %d fired only %d times (vacuous)" % (kind, d, fired.get((kind, d), 0)))
    inj = [r for r in allrecs if r["kind"] == "inject"]
    inj_cov = {"cases": len(inj),
               "keyupdate_answered": sum(1 for r in inj if r["sub"] == "keyupdate1" and r["pos"] == 0 and r["calls"]["answered"] >= 1),
               "hellorequest_answered": sum(1 for r in inj if r["sub"] == "hellorequest" and r["pos"] == 0 and r["calls"]["answered"] >= 1),
               "with_failing_writes": sum(1 for r in inj if r["pos"] == 1 and r["calls"]["write"] == "ret"),
               "calls_returned": sum(1 for r in inj for k in ("read", "write", "closewrite", "close") if r["calls"][k] == "ret")}
    if inj_cov["keyupdate_answered"] < 4 or inj_cov["hellorequest_answered"] < 2 or not inj_cov["with_failing_writes"]:
        raise Machinery("vacuous coverage of the data-phase injections (the injected messages are not accepted as genuine?): %s" % inj_cov)
    outcomes = {"data_phase_injections": inj_cov,
                "failed_client": sum(1 for r in allrecs if r["fired"] and not r["obs"]["cdone"]),
                "failed_server": sum(1 for r in allrecs if r["fired"] and not r["obs"]["sdone"]),
                "survived_benign": sum(1 for r in allrecs if r["fired"] and r["kind"] in ("split", "refrag") and r["obs"]["cdone"] and r["obs"]["sdone"]),
                "record_types_hit": sorted({r["rtype"] for r in allrecs if r["fired"] and r["kind"] != "stream"}),
                "max_case_ms": max(r["millis"] for r in allrecs),
                "faults_fired": sum(fired.values())}
    if not outcomes["failed_client"] or not outcomes["failed_server"] or not outcomes["survived_benign"]:
        raise Machinery("vacuous coverage: %s" % outcomes)
    ctx.cov["observations"] = outcomes
    ctx.cov["evaluations"] += len(allrecs)
    ctx.cov["traces_validated_against_impl"] += len(allrecs)
    ctx.cov["distinct_nontrivial"] += len({json.dumps([r[k] for k in CASE_FIELDS[1:]], sort_keys=True) for r in allrecs if r["fired"]})
    ctx.cov["exhaustive"] = True
    ctx.cov["rule"] = ("fault case = (version, suite, key, client-auth, direction, record index 0..%d, kind, position class / inserted "
                       "record kind) enumerated exhaustively by TLC, plus stream cases and seeded random cases; non-trivial = the "
                       "fault hit an existing record (or a stream was fed)" % (7 if quick else 11))
    ctx.log("C32 observations: %s" % json.dumps(outcomes))


def replay(ctx, path):
    import os
    path = os.path.abspath(path)
    binary = ctx.gobuild("c32")
    T.write_facts(ctx, binary)
    out = ctx.path("one.ndjson")
    ctx.run(binary, ["run-one", path, out], timeout=300)
    body = json.load(open(path))
    rej = T.judge(ctx, "C32", read_ndjson(out))
    again = any(f.get("kind") == body.get("sig", {}).get("kind") for _, f in rej)
    for _, f in rej:
        print("rejected:", json.dumps(f, sort_keys=True))
    print("REPRODUCED" if again else "not reproduced")
    return 1 if again else 0
