"""Helpers shared by the PKI-graph property drivers C10, C11, C12 (group `graph`)."""
import json
import re

from vlib import Machinery, write_ndjson, read_ndjson

# universes of GraphCatalog.tla by size (number of certificates)
SMALL = ["chain3", "dangling", "badsig", "selfx", "samesubj", "rootdang", "nonca4"]            # 3-4 certificates
FIVE = ["twin", "cross", "rollover", "selfx5", "samesubj5", "pathlen", "nonca", "cycle", "diamond"]
FIVE_G = ["twin", "cross", "rollover", "selfx5"]   # the graph-relevant ones (quick tier of C10)
SIX = ["cross6", "pathlen6"]
LINES = ["line10", "line11", "line12"]


def tla_set(names):
    return "{" + ",".join('"%s"' % n for n in names) + "}"


def printed_tuples(out):
    """Lines `<<1, 2, 3>>` printed by PrintT(hist) -> lists of ints."""
    res = []
    for line in out.splitlines():
        if line.startswith("<<") and line.endswith(">>"):
            body = line[2:-2].strip()
            if not body:
                res.append([])
                continue
            if re.fullmatch(r"[\d,\s-]+", body):
                res.append([int(x) for x in body.split(",")])
    return res


def judge(ctx, module, cfg, fname, recs, label=None, timeout=1800, subst=None):
    """Function-style observation validation: write recs to <fname> next to the specs, let the TLC
    module evaluate the A layer on every line; returns [(index0, why-list)] of rejected lines."""
    if not recs:
        raise Machinery("judge %s: no observations (vacuous)" % module)
    write_ndjson(ctx.specfile(fname), recs)
    r = ctx.tlc(module, cfg, workers=1, timeout=timeout, subst=subst,
                label=label or "%s[%d observations]" % (module, len(recs)))
    m = re.search(r'<<"JUDGED", (\d+)>>', r.out)
    if not m or int(m.group(1)) != len(recs):
        raise Machinery("judge %s: TLC did not report all %d observations as judged:\n%s" %
                        (module, len(recs), "\n".join(r.out.splitlines()[-20:])))
    rej = []
    ctx.last_cover = None
    ctx.last_open = 0
    for line in r.out.splitlines():
        if line.startswith('"{'):
            d = json.loads(json.loads(line))
            if "i" in d and "verdict" in d:
                if d["verdict"]:
                    rej.append((int(d["i"]) - 1, sorted(d["verdict"]), d))
                elif d.get("open"):
                    ctx.last_open += 1
                ctx.last_cover = (ctx.last_cover or set()) | set(d.get("cover", []))
            elif "i" in d and "why" in d:
                rej.append((int(d["i"]) - 1, sorted(d["why"]), d))
            elif "i" in d and "open" in d:
                ctx.last_open += 1
            elif "cover" in d:
                ctx.last_cover = set(d["cover"])
    return rej


def load_obs(path):
    return read_ndjson(path)
