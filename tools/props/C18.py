"""C18 - ASN.1 marshalling round-trips and is idempotent (ASN1Marshal.tla, ASN1MarshalGen.tla,
Trace_ASN1Marshal.tla over DER.tla; harness cmd/c18)."""
import json
import re

from vlib import Machinery, read_ndjson, write_ndjson
from props import derlib

META = {
    "technique": "TLA+ value algebra of encoding/asn1 (ASN1Marshal.tla over DER.tla): Enc(type, value) with all field parameters; TLC enumerates struct schemas with values, checks that Enc is injective on every schema of the documented domain and emits each case with the bytes Marshal must produce; Go types are built with reflect.StructOf and marshalled, strictly unmarshalled and re-marshalled; seeded random deeper types are judged by TLC",
    "text": "Enc transcribes the documented encoding of Go values (INTEGER from int64 / *big.Int / Enumerated, BOOLEAN, Flag, strings with the printable/UTF8 selection and ia5/printable/numeric/utf8 overrides, OID, BIT STRING, UTCTime/GeneralizedTime by the year rule and overrides, OCTET STRING, RawValue, nested structs, SEQUENCE OF, SET OF with DER sorting) under optional / default:n / explicit / tag:n / application / private / set / omitempty. Every generated (schema, value) is a TLC state; the harness compares Marshal's bytes with Enc, requires strict Unmarshal to consume everything and return the value (SET OF up to order) and the second Marshal to reproduce the bytes. The documented domain (optional fields distinguishable from what follows) is a predicate of the generator. Bounded-exhaustive over the parameter menu plus TLC-judged random nesting.",
    "note": "Trusted: TLC, Go toolchain, reflect.StructOf, math/big and time for concretisation. Outside the documented domain and not generated: tagged RawValue fields (Marshal ignores their parameters), implicitly tagged GeneralizedTime / non-printable strings without a string-type parameter, non-optional Flag, omitempty without optional, optional *big.Int, RawContent, BMPString / T61String / GeneralString (decode only). Time values carry whole seconds only; for a zone offset with a sub-minute part (not representable as +-hhmm) the round trip is judged on the representable instant (local fields in the zone truncated to minutes, ASN1Marshal.tla ZoneMin), see design_notes/C18.md.",
}

QUICK = dict(MENUS='{"small","large","times"}', S_FIELDS=2, L_FIELDS=1, T_FIELDS=1)
THOROUGH = [dict(MENUS='{"small","times"}', S_FIELDS=3, L_FIELDS=0, T_FIELDS=1),
            dict(MENUS='{"large"}', S_FIELDS=0, L_FIELDS=2, T_FIELDS=0)]


def run(ctx):
    binary = ctx.gobuild("c18")
    cands = []
    total = nontriv = 0
    for k, params in enumerate([QUICK] if ctx.quick else THOROUGH):
        r = ctx.tlc("ASN1MarshalGen", "ASN1Marshal_gen.cfg", subst=params, timeout=3000,
                    label="ASN1MarshalGen %s" % json.dumps(params, sort_keys=True))
        path = ctx.path("cases%d.ndjson" % k)
        n = derlib.tla_records_to_file(r.out, path)
        if n == 0:
            raise Machinery("generator produced no cases")
        ctx.log("%d states, %d cases inside the documented domain" % (r.distinct, n))
        p = ctx.run(binary, ["replay-gen", path], timeout=3000)
        c, st = ctx.harness_output(p)
        if st.get("cases") != n:
            raise Machinery("harness replayed %s of %d cases" % (st.get("cases"), n))
        cands += c
        total += n
        nontriv += st.get("nontrivial", 0)
        with open(path) as f:
            for i, line in enumerate(f):
                if i == 333:
                    ctx.add_samples([json.loads(line)], n=2)
    ctx.cov["evaluations"] += total
    ctx.cov["distinct_nontrivial"] += nontriv
    ctx.cov["traces_validated_against_impl"] += total
    ctx.cov["exhaustive"] = True
    ctx.cov["rule"] = ("every (struct schema, value) over the field menus of ASN1MarshalGen.tla within the field bound and inside the "
                       "documented domain (a TLC state each); non-trivial = some field carries parameters or is composite; plus "
                       "seeded random deeper types judged by TLC")
    ctx.candidates(binary, cands)
    verdicted = {json.dumps(c["sig"], sort_keys=True) for c in cands}

    nrec = 400 if ctx.quick else 6000
    out = ctx.path("asn1_rec.ndjson")
    ctx.run(binary, ["record", out, str(nrec)], timeout=1200)
    recs = read_ndjson(out)
    rejected = judge(ctx, recs)
    ctx.cov["evaluations"] += len(recs)
    ctx.cov["traces_validated_against_impl"] += len(recs) - len(rejected)
    ctx.cov["random_types_judged_by_tlc"] = len(recs)
    tc = []
    for i, stage in rejected:
        r = recs[i - 1]
        # same signature shape as the harness gives to disagreements on generated cases
        sig = {"stage": stage, "error": r.get("errmsg", "") if stage.endswith("-error") else "",
               "explicit_private": r.get("explicit_private", False)}
        if json.dumps(sig, sort_keys=True) in verdicted:
            continue
        tc.append({"sig": sig,
                   "what": "TLC (Trace_ASN1Marshal) rejects the recorded case at stage %s: type %s value %s" %
                           (stage, json.dumps(r["t"])[:500], json.dumps(r["v"])[:300]),
                   "case": {"t": r["t"], "v": r["v"], "obs": True}})
    ctx.candidates(binary, tc, reproduce=lambda path, body: reproduce_obs(ctx, binary, path))
    if not ctx.quick:
        selftest(ctx, recs)


def params_text(p):
    names = []
    if p[0]:
        names.append("optional")
    if p[1]:
        names.append("default")
    if p[3]:
        names.append("explicit")
    if p[4] >= 0:
        names.append("tag")
    if p[5] != "ctx":
        names.append(p[5])
    if p[6]:
        names.append("set")
    if p[7]:
        names.append("omitempty")
    names += [x for x in (p[8], p[9]) if x]
    return ",".join(names)


def judge(ctx, recs, label=None):
    write_ndjson(ctx.specfile("asn1_obs.ndjson"), recs)
    r = ctx.tlc("Trace_ASN1Marshal", "ASN1Marshal_judge.cfg", timeout=3000,
                label=label or "Trace_ASN1Marshal[%d cases]" % len(recs))
    if r.distinct != max(1, len(recs)):
        raise Machinery("Trace_ASN1Marshal visited %d states for %d records" % (r.distinct, len(recs)))
    try:
        return derlib.rejects(r.out, 1)
    except ValueError as e:
        raise Machinery(str(e))


def reproduce_obs(ctx, binary, path):
    out = ctx.path("one.ndjson")
    ctx.run(binary, ["record-one", path, out])
    return len(judge(ctx, read_ndjson(out), label="Trace_ASN1Marshal[replay]")) > 0


def selftest(ctx, recs):
    import copy
    good = [r for r in recs if len(r["enc"]) > 4][:40]
    bad = []
    for k, r in enumerate(good):
        x = copy.deepcopy(r)
        if k % 3 == 0:
            x["enc"][-1] ^= 1
            x["re"][-1] ^= 1
        elif k % 3 == 1:
            x["rest"] = 1
        else:
            x["re"] = x["re"] + [0]
        bad.append(x)
    rej = judge(ctx, bad, label="Trace_ASN1Marshal[selftest]")
    if len(rej) != len(bad):
        raise Machinery("selftest: %d of %d corrupted records accepted" % (len(bad) - len(rej), len(bad)))
    ctx.note("binding self-test passed (%d corrupted records rejected)" % len(bad))


def replay(ctx, path):
    import os
    path = os.path.abspath(path)
    binary = ctx.gobuild("c18")
    body = json.load(open(path))
    if body.get("case", {}).get("obs"):
        again = reproduce_obs(ctx, binary, path)
    else:
        again = ctx.run(binary, ["replay", path], ok_codes=(0, 1)).returncode == 1
    print("REPRODUCED" if again else "not reproduced")
    return 1 if again else 0
