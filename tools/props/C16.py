"""C16 - CT structures serialise canonically and verify soundly
(CTCodec.tla, CTCodecGen.tla, Trace_CTCodec.tla; harness cmd/c16)."""
import json
import os
import re

from vlib import read_ndjson, write_ndjson, Machinery

META = {
    "technique": "TLA+ transcription of the RFC 6962 / TLS presentation layouts and an ideal-signature acceptance "
                 "rule: TLC enumerates abstract values over field length classes and the verification matrix with "
                 "the demanded bytes / verdicts, the real serialisers, deserialisers and verifier of packages ct and "
                 "x509/ct are run on every case, and TLC judges every recorded outcome (also of seeded random values)",
    "text": "CTCodec.tla builds, as byte-chunk sequences, the layouts of DigitallySigned, SCT, MerkleTreeLeaf, chain "
            "arrays and the certificate/precertificate SCT and STH signature inputs. TLC enumerates every combination "
            "of length classes {0, 1, typical, max, max+1} x versions x entry types x algorithm ids (965 cases) with "
            "the demanded bytes or the demanded failure, and object x key type (ECDSA P-256, RSA-2048) x mutation "
            "with the verdict an ideal signature scheme demands; the harness runs zcrypto on each (both packages), "
            "signing with the standard library over the specification's bytes, and TLC judges each outcome record "
            "(fails, or byte-identical to the layout with the reported length and a successful round trip; "
            "accept iff unmutated). Bounded-exhaustive over abstract classes plus sampled random values, which suits a "
            "self-contained codec.",
    "note": "Trusted: TLC, Go crypto/ecdsa, crypto/rsa, crypto/sha256 as the interpretation of the signature symbol. "
            "'Deserialise to the same value' is read against the RFC 6962 layout (canonical TLS presentation "
            "encoding) and against zcrypto's own deserialiser. A serialiser that fails on a representable value is "
            "allowed by the statement (only the verifier clause forces the signature inputs of genuine objects to "
            "serialise). ECDSA signatures with trailing bytes or (r, n-s) are left open. MerkleTreeLeaf and chain "
            "arrays have no serialiser in zcrypto: only 'layout deserialises to the value' is checked for them.",
}

RESULTS = "ctcodec_results.ndjson"
CASES = "ctcodec_cases.ndjson"


def judge(ctx, records, label):
    """TLC evaluates Trace_CTCodec.RecOK on every record; returns the 0-based indices of rejected records."""
    write_ndjson(ctx.specfile(RESULTS), records)
    r = ctx.tlc("Trace_CTCodec", "CTCodec_judge.cfg", workers=1, timeout=3000, label=label)
    m = re.search(r'<<"JUDGED", (\d+)>>', r.out)
    if not m or int(m.group(1)) != len(records):
        raise Machinery("judge did not evaluate all %d records:\n%s" % (len(records), r.out[-1500:]))
    return [int(x) - 1 for x in re.findall(r'<<"REJECT", (\d+)>>', r.out)]


def overlong(val):
    """Names of the fields of an abstract value that exceed what their length prefix can carry."""
    out = []

    def walk(v, prefix):
        if not isinstance(v, dict):
            return
        for k, lim in (("sig", 65535), ("ext", 65535), ("cert", 16777215), ("pre", 16777215)):
            f = v.get(k)
            if isinstance(f, dict) and f.get("n", 0) > lim:
                out.append(prefix + k)
        if isinstance(v.get("ds"), dict):
            walk(v["ds"], "ds.")
    walk(val, "")
    return ",".join(sorted(out))


def classify(rec):
    if rec["op"] == "vseq":
        # first verdict of the history that is not the verdict of its own operation (informational fields written by
        # the harness: muts = "<object>/<mutation>" per step)
        for k, (m, a) in enumerate(zip(rec.get("muts", []), rec["acc"])):
            mut = m.split("/")[-1]
            genuine = mut == "none"
            if mut in ("sig-trailing", "sig-malleable"):
                continue
            if a != genuine:
                return {"kind": "vseq", "key": rec["key"], "step_genuine": genuine, "accepted": a, "first_step": k == 0,
                        "object": m.split("/")[0]}
        return {"kind": "vseq", "key": rec["key"], "step_genuine": None, "accepted": None, "first_step": False, "object": ""}
    if rec["op"] == "verify":
        return {"kind": "verify", "mut": rec["mut"], "accepted": rec["accepted"], "what": rec.get("note", "").split(" ")[0]}
    r = rec["r"]
    if rec["op"] == "deser":
        outcome = "error" if r["err"] else "different-value"
    elif r["err"]:
        outcome = "error"
    elif not r["rt"]:
        outcome = "no-error-no-roundtrip"
    elif not r["eq"] and rec["src"] == "gen":
        outcome = "wrong-bytes"
    else:
        outcome = "wrong-bytes-or-length"
    return {"kind": rec["kind"], "pkg": rec["pkg"], "op": rec["op"], "overlong": overlong(rec["val"]),
            "outcome": outcome, "variant": (rec.get("note") or "").strip().split(" ")[0]}


def describe(rec):
    if rec["op"] == "vseq":
        return ("one ct.SignatureVerifier (key type %s) applied to the operations %s returned the verdicts %s; every "
                "verdict must be that of its own operation (accept iff genuine), independent of the history" %
                (rec["key"], rec.get("muts"), rec["acc"]))
    if rec["op"] == "verify":
        return "verifier %s a %s object (%s), the ideal-signature rule demands the opposite" % (
            "accepted" if rec["accepted"] else "rejected", rec["mut"], rec.get("note", ""))
    return "%s %s/%s outcome %s for value %s is not allowed by CTCodec.tla" % (
        rec["pkg"], rec["kind"], rec["op"], json.dumps(rec["r"]), json.dumps(rec["val"])[:300])


def run(ctx):
    quick = ctx.quick
    # U2: TLC enumerates the cases with the demanded layouts / verdicts
    extra = "{}" if quick else "{2, 255, 256, 257, 65534}"
    # verifier histories: all sequences of <= SEQFULL operations over the whole alphabet (41 operations), longer ones
    # up to SEQRED over the reduced alphabet (10 operations), per key type
    seqfull, seqred = (2, 3) if quick else (3, 4)
    r = ctx.tlc("CTCodecGen", "CTCodec_gen.cfg", subst={"EXTRA": extra, "SEQFULL": seqfull, "SEQRED": seqred},
                workers=1, timeout=3000, label="CTCodecGen")
    m = re.search(r'<<"CASES", (\d+)', r.out)
    cpath = ctx.specfile(CASES)
    if not m or not os.path.exists(cpath):
        raise Machinery("generator wrote no cases:\n" + r.out[-1500:])
    cases = read_ndjson(cpath)
    if len(cases) != int(m.group(1)) or len(cases) < 500:
        raise Machinery("generator: %d cases on file, %s announced" % (len(cases), m.group(1)))

    binary = ctx.gobuild("c16")
    rpath = ctx.path("c16_results.ndjson")
    p = ctx.run(binary, ["replay-gen", cpath, rpath], timeout=3000)
    _, st = ctx.harness_output(p)
    if st.get("cases") != len(cases):
        raise Machinery("harness replayed %s of %d cases" % (st.get("cases"), len(cases)))
    for k in ("ds", "sct", "leaf", "chain", "sigin-sct", "sigin-sth", "verify", "vseq"):
        if not st.get("kinds", {}).get(k):
            raise Machinery("no case of kind %s" % k)
    res = read_ndjson(rpath)
    # U3: seeded random small values, explicit bytes
    nobs = 400 if quick else 6000
    opath = ctx.path("c16_obs.ndjson")
    ctx.run(binary, ["record", opath, str(nobs)])
    obs = read_ndjson(opath)
    # ... and long seeded random operation sequences, each on one shared verifier object
    hpath = ctx.path("c16_hist.ndjson")
    nh, lh = (6, 150) if quick else (60, 400)
    ctx.run(binary, ["record-hist", hpath, cpath, str(nh), str(lh)], timeout=3000)
    hist = read_ndjson(hpath)
    if len(hist) != 2 * nh:
        raise Machinery("expected %d random verifier histories, got %d" % (2 * nh, len(hist)))
    obs += hist
    allrec = res + obs
    vs = [x for x in allrec if x["op"] == "vseq"]
    if not any(len(x["acc"]) >= 2 and x["acc"][-1] and not all(x["acc"]) for x in vs):
        raise Machinery("vacuous verifier histories (no genuine operation accepted after a rejected one)")
    ver = [x for x in res if x["op"] == "verify"]
    if not any(x["accepted"] for x in ver) or not any(not x["accepted"] for x in ver):
        raise Machinery("vacuous verification matrix (no accepted or no rejected signature)")
    if not any(x["op"] == "ser" and not x["r"]["err"] and x["r"]["eq"] for x in res) or \
       not any(x["op"] == "ser" and x["r"]["err"] for x in res):
        raise Machinery("vacuous serialisation results")

    rej = judge(ctx, allrec, "Trace_CTCodec judge [%d records]" % len(allrec))
    cands = []
    for i in rej:
        rec = allrec[i]
        if rec["op"] == "vseq":
            vc = next(c for c in cases if c["kind"] == "vseq" and c["key"] == rec["key"])
            case = {"kind": "vseq", "key": rec["key"], "ops": vc["ops"], "seqs": [rec["seq"]], "want": {"ok": False, "cs": [], "len": -1}}
        elif rec["src"] == "gen":
            case = cases[rec["case"]]
        else:
            case = {"kind": rec["kind"], "val": rec["val"], "want": {"ok": False, "cs": [], "len": -1}, "obs": True}
        cands.append({"sig": classify(rec), "what": describe(rec), "case": case})

    ctx.cov["evaluations"] += len(allrec)
    ctx.cov["cases_generated_by_tlc"] = len(cases)
    ctx.cov["random_observations"] = len(obs)
    ctx.cov["verifier_histories"] = len(vs)
    ctx.cov["verifier_history_steps"] = sum(len(x["seq"]) for x in vs)
    ctx.cov["results_rejected"] = len(rej)
    ctx.cov["traces_validated_against_impl"] += len(allrec) - len(rej)
    nontriv = 0
    for c in cases:
        if c["kind"] == "vseq":
            # a history is non-trivial when a genuine operation follows a non-genuine one
            none = {i + 1 for i, o in enumerate(c["ops"]) if o["mut"] == "none"}
            nontriv += sum(1 for q in c["seqs"] if any(q[k] in none and q[k - 1] not in none for k in range(1, len(q))))
        elif c["kind"] == "verify":
            nontriv += c["mut"] != "none"
        else:
            ns = re.findall(r'"n": ?(\d+)', json.dumps(c["val"]))
            nontriv += any(int(n) in (0, 65535, 65536, 16777215, 16777216) for n in ns)
    ctx.cov["distinct_nontrivial"] += nontriv
    ctx.cov["exhaustive"] = True
    ctx.cov["rule"] = ("every case enumerated by CTCodecGen.tla (field length classes x versions x entry types x algorithm "
                       "ids; object x key type x mutation; every short sequence of verify operations on one verifier object per key "
                       "type), each executed on packages ct and x509/ct and judged by "
                       "Trace_CTCodec.tla, plus seeded random values; non-trivial = some variable-length field is "
                       "empty, maximal or over-long, or the presented object is mutated, or (histories) a genuine operation "
                       "follows a non-genuine one on the same verifier")
    ctx.add_samples([cases[len(cases) // 3], [c for c in cases if c["kind"] == "verify"][3]], n=2)
    ctx.cov["samples"].append({"verifier_history": {k: vs[len(vs) // 2][k] for k in ("key", "muts", "acc")}})

    # reproduction: every distinct candidate is executed again in its own fresh process; TLC then judges all
    # re-recorded outcomes in one run
    state = {"sigs": None}

    def rep(path, body):
        if state["sigs"] is None:
            recs, seen = [], set()
            for k, c in enumerate(cands):
                key = json.dumps(c["sig"], sort_keys=True)
                if key in seen:
                    continue
                seen.add(key)
                rp = ctx.path("c16_rep_%d.json" % k)
                json.dump({"sig": c["sig"], "case": c["case"]}, open(rp, "w"))
                out = ctx.path("c16_rep_%d.ndjson" % k)
                ctx.run(binary, ["replay", rp, out], timeout=600)
                recs += read_ndjson(out)
            bad = judge(ctx, recs, "Trace_CTCodec judge [replays]") if recs else []
            state["sigs"] = {json.dumps(classify(recs[i]), sort_keys=True) for i in bad}
        return json.dumps(body["sig"], sort_keys=True) in state["sigs"]
    ctx.candidates(binary, cands, reproduce=rep)

    if not quick:
        selftest(ctx, res)


def selftest(ctx, res):
    """Binding self-test: corrupted outcome records must be rejected by the judge."""
    import copy
    good_ser = next(x for x in res if x["op"] == "ser" and not x["r"]["err"] and x["r"]["eq"] and x["r"]["rt"])
    good_ver = next(x for x in res if x["op"] == "verify" and x["mut"] == "none" and x["accepted"])
    bad_ver = next(x for x in res if x["op"] == "verify" and x["mut"] == "cert-byte" and not x["accepted"])
    v = []
    a = copy.deepcopy(good_ser); a["r"]["eq"] = False; v.append(a)
    a = copy.deepcopy(good_ser); a["r"]["n"] += 1; v.append(a)
    a = copy.deepcopy(good_ser); a["r"]["rt"] = False; v.append(a)
    a = copy.deepcopy(good_ver); a["accepted"] = False; v.append(a)
    a = copy.deepcopy(bad_ver); a["accepted"] = True; v.append(a)
    hist = next(x for x in res if x["op"] == "vseq" and len(x["acc"]) >= 2 and x["acc"][-1] and not x["acc"][0])
    a = copy.deepcopy(hist); a["acc"][-1] = False; v.append(a)       # genuine operation rejected after a failure
    a = copy.deepcopy(hist); a["acc"][0] = True; v.append(a)         # non-genuine operation accepted
    rej = judge(ctx, v + [good_ser, good_ver, bad_ver, hist], "Trace_CTCodec judge [selftest]")
    if sorted(rej) != [0, 1, 2, 3, 4, 5, 6]:
        raise Machinery("selftest: judge rejected %s, expected exactly the seven corrupted records" % rej)
    ctx.note("binding self-test passed (seven corrupted outcome records rejected, four genuine ones accepted)")


def replay(ctx, path):
    binary = ctx.gobuild("c16")
    body = json.load(open(path))
    out = ctx.path("c16_replay.ndjson")
    ctx.run(binary, ["replay", path, out], timeout=600)
    recs = read_ndjson(out)
    bad = judge(ctx, recs, "Trace_CTCodec judge [replay]")
    again = any(classify(recs[i]) == body["sig"] for i in bad)
    print("REPRODUCED" if again else "not reproduced")
    return 1 if again else 0
