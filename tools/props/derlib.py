"""Helpers shared by the `der` group drivers (C18 C19 C20 C21 C22).

TLC prints generated cases as TLA+ records (PrintT(rec); printing ToJson strings is ~5x
slower in TLC's pretty printer).  tla_records() converts the printed TLA+ values of a TLC
run to Python objects; nothing here judges anything."""
import json
import re

_FIELD = re.compile(r'(\w+) \|->')
_CHUNK = re.compile(r'\n(?=\S)')


def tla_to_json_text(chunk):
    t = _FIELD.sub(r'"\1":', chunk)
    t = t.replace("[", "{").replace("]", "}").replace("<<", "[").replace(">>", "]")
    t = t.replace("TRUE", "true").replace("FALSE", "false")
    return " ".join(t.split())


def tla_records(out):
    """All records printed by PrintT in TLC output `out` (strings must not contain brackets)."""
    res = []
    for chunk in _CHUNK.split(out):
        if chunk.startswith("["):
            res.append(json.loads(tla_to_json_text(chunk)))
    return res


def tla_records_to_file(out, path):
    """Write the printed records of a TLC run as NDJSON; returns the number of records."""
    n = 0
    with open(path, "w") as f:
        for chunk in _CHUNK.split(out):
            if chunk.startswith("["):
                t = tla_to_json_text(chunk)
                json.loads(t)          # must be well-formed
                f.write(t + "\n")
                n += 1
    return n


def set_text(values):
    return "{" + ",".join(str(v) for v in values) + "}"


def strset_text(values):
    return "{" + ",".join('"%s"' % v for v in values) + "}"
