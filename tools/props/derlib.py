"""Helpers shared by the `der` group drivers (C18 C19 C20 C21 C22).

TLC prints generated cases as TLA+ records (PrintT(rec); printing ToJson strings is ~5x
slower in TLC's pretty printer).  tla_records() converts the printed TLA+ values of a TLC
run to Python objects; nothing here judges anything."""
import json
import re

_FIELD = re.compile(r'(\w+) \|->')
_CHUNK = re.compile(r'\n(?=\S)')


def tla_to_json_text(chunk):
    t = _FIELD.sub(r'"\1":', chunk)
    t = t.replace("[", "{").replace("]", "}").replace("<<", "[").replace(">>", "]")
    t = t.replace("TRUE", "true").replace("FALSE", "false")
    return " ".join(t.split())


def tla_records(out):
    """All records printed by PrintT in TLC output `out` (strings must not contain brackets)."""
    res = []
    for chunk in _CHUNK.split(out):
        if chunk.startswith("["):
            res.append(json.loads(tla_to_json_text(chunk)))
    return res


def tla_records_to_file(out, path):
    """Write the printed records of a TLC run as NDJSON; returns the number of records."""
    n = 0
    with open(path, "w") as f:
        for chunk in _CHUNK.split(out):
            if chunk.startswith("["):
                t = tla_to_json_text(chunk)
                json.loads(t)          # must be well-formed
                f.write(t + "\n")
                n += 1
    return n


def set_text(values):
    return "{" + ",".join(str(v) for v in values) + "}"


def strset_text(values):
    return "{" + ",".join('"%s"' % v for v in values) + "}"


def rejects(out, nfields):
    """<<"REJECT", i, f1, ...>> tuples printed by a validator (TLC may wrap long tuples over several
    lines and then pads the brackets with spaces).  Returns a list of tuples (i, f1, ...) of strings;
    set-valued fields come back as the sorted, comma-joined member strings.  Raises ValueError when a
    printed REJECT cannot be parsed (a rejection must never be lost silently)."""
    flat = " ".join(out.split())
    res = []
    n = flat.count('"REJECT"')
    for m in re.finditer(r'<<\s*"REJECT",\s*(.*?)\s*>>', flat):
        body = m.group(1)
        fields = []
        for f in re.finditer(r'\{([^}]*)\}|"([^"]*)"|(TRUE|FALSE)|(-?\d+)', body):
            if f.group(1) is not None:
                fields.append(",".join(sorted(re.findall(r'"([^"]+)"', f.group(1)))))
            elif f.group(2) is not None:
                fields.append(f.group(2))
            elif f.group(3) is not None:
                fields.append(f.group(3))
            else:
                fields.append(f.group(4))
        if len(fields) != nfields + 1:
            raise ValueError("unparsable REJECT line: %s" % m.group(0)[:200])
        res.append(tuple([int(fields[0])] + fields[1:]))
    if len(res) != n:
        raise ValueError("%d REJECT markers in the TLC output, %d parsed" % (n, len(res)))
    return sorted(res)
