"""C25 - TLS application data arrives intact or not at all (TLSRecord.tla, TLSRecordMC.tla,
TLSRecordGen.tla, Trace_TLSRecord.tla on top of Terms.tla / TLSKDF.tla; harness cmd/c25, lib/memnet)."""
import copy
import json
from vlib import Machinery, read_ndjson

META = {
    "technique": "TLA+ specification of the protected record stream as an authenticated, sequence-numbered channel with network faults, model-checked by TLC; TLC enumerates every schedule of up to 2 faults (modify / drop / duplicate / reorder) on up to 4 records plus close_notify with the demanded outcome, each replayed on real zcrypto client/server connections for every negotiable (version, suite, key) class over an in-memory store-and-forward transport; seeded random executions with the real fragmentation are validated by TLC as traces; the CBC padding rule and the record formats of every protection class are specified as functions / symbolic terms and compared with extractPadding and halfConn.encrypt/decrypt",
    "text": "The channel (any fragmentation <= 2^14, ideal record protection, receiver accepts exactly the next authentic record, nothing after eof/error) is model-checked for prefix delivery and finality over all interleavings of writes, faults and deliveries. The same pure operators compute, for every fault schedule within the bound, how many bytes may be delivered and how Read may end; each schedule is executed on real connections (faults applied to captured ciphertext records at byte level in nine modification classes, five TCP segmentations, five read sizes) in every cipher class - RC4, CBC with implicit and explicit IV, AEAD with explicit and xored nonce, TLS 1.3 - and (thorough) on every one of the negotiable combinations in both directions. Random executions with dynamic record sizing and 1/n-1 splitting are judged by TLC as traces (record sizes, write partition, delivery bound, end). Padding extraction is enumerated over all tails of <= 4 bytes from the boundary alphabet; record formats are compared byte for byte with RFC terms evaluated by the Go standard library. Bounded-exhaustive over schedules, sampled in byte positions and sizes.",
    "note": "Trusted: TLC, the Go standard library ciphers (term interpretation), the in-memory transport, the hook file (halfConn wrappers). Record protection is modelled as ideal: forging a record without the key is outside the model. ChaCha20-Poly1305 record formats are not compared with an independent implementation (none in the standard library); those suites are covered by the channel checks only. Plaintext lengths of CBC records are known up to the padding (exact per write). Negotiability of a combination is a coverage obligation here (C24 decides it).",
}


def tla_set(items):
    return "{" + ", ".join('"%s"' % i for i in items) + "}"


def run(ctx):
    binary = ctx.gobuild("c25")
    # U1: the channel model
    # (records, faults, start values of the 8-octet sequence number: zero / every carry boundary / end of range)
    runs = [(2, "CarryStarts")] if ctx.quick else [(4, "ZeroStart"), (3, "CarryStarts")]
    for maxrec, starts in runs:
        r = ctx.tlc("TLSRecordMC", "TLSRecord_mc.cfg", subst={"MAXREC": maxrec, "MAXFAULTS": 2, "STARTS": starts}, timeout=6000,
                    label="TLSRecordMC records<=%d faults<=2 %s" % (maxrec, starts))
        if r.distinct < 1000:
            raise Machinery("TLSRecordMC explored only %d states" % r.distinct)

    # U2: schedules, padding, formats, coverage obligation
    r = ctx.tlc("TLSRecordGen", "TLSRecord_gen.cfg",
                subst={"PARTS": tla_set(["sched", "pad", "fmt", "seqfmt", "long", "combos"]), "MAXREC": 4, "MAXFAULTS": 2,
                       "ALLPLANS": "TRUE" if ctx.thorough else "FALSE", "OUT": "rec_"},
                workers=1, timeout=3000, label="TLSRecordGen")
    summ = {}
    for line in r.out.splitlines():
        if line.startswith('"{') and "part" in line:
            d = json.loads(json.loads(line))
            summ[d["part"]] = d
    for part in ("sched", "pad", "fmt", "seqfmt", "long", "combos"):
        if summ.get(part, {}).get("cases", 0) == 0:
            raise Machinery("TLSRecordGen produced no %s cases" % part)
    if summ["sched"]["errors"] == 0 or summ["sched"]["clean"] == 0 or summ["pad"]["good"] == 0 or summ["long"]["errors"] == 0:
        raise Machinery("vacuous case set: %s" % summ)

    p = ctx.run(binary, ["combos", ctx.specfile("rec_combos.ndjson")], timeout=1200)
    _, st = ctx.harness_output(p)
    if st.get("missing") or st.get("extra"):
        ctx.problem("the negotiable (version, suite, key) set differs from TLSRecordGen.tla's coverage obligation: "
                    "missing %s, extra %s (negotiation is C24's subject; C25 cannot vouch for the missing ones)"
                    % (st.get("missing"), st.get("extra")))
    classes = st.get("classes", {})
    for cl in ("stream", "cbc-implicit-iv", "cbc-explicit-iv", "aead-explicit-nonce", "aead-xor-nonce", "tls13"):
        if classes.get(cl, 0) == 0:
            raise Machinery("no negotiable combination of class %s" % cl)
    ctx.cov["negotiable_combinations"] = st.get("negotiable")
    ctx.cov["classes"] = classes

    cands = []
    p = ctx.run(binary, ["pad", ctx.specfile("rec_pad.ndjson")], timeout=1200)
    c, st = ctx.harness_output(p)
    cands += c
    npad = st.get("cases", 0)
    p = ctx.run(binary, ["fmt", ctx.specfile("rec_fmt.ndjson")], timeout=1200)
    c, st = ctx.harness_output(p)
    cands += c
    nfmt = st.get("records", 0)
    # the sequence number on its carry boundaries, function level
    p = ctx.run(binary, ["seqfmt", ctx.specfile("rec_seqfmt.ndjson")], timeout=1200)
    c, st = ctx.harness_output(p)
    cands += c
    nseq = st.get("records", 0)
    if nseq == 0:
        raise Machinery("no sequence-number boundary record was checked")
    # long streams (600 records) with faults at distances around 255 / 256 / 510
    p = ctx.run(binary, ["replay-sched", ctx.specfile("rec_long.ndjson"), "long-quick" if ctx.quick else "long-all"], timeout=6000)
    c, st = ctx.harness_output(p)
    cands += c
    lstats = st.get("stats", {})
    if lstats.get("runs", 0) == 0 or lstats.get("skipped", 0):
        raise Machinery("long-stream schedules: %s" % lstats)
    ctx.cov["long_stream_runs"] = lstats
    ctx.cov["long_stream_runs_per_class"] = st.get("per_class", {})
    ctx.cov["sequence_boundary_records"] = nseq
    p = ctx.run(binary, ["replay-sched", ctx.specfile("rec_sched.ndjson"), "class" if ctx.quick else "all"], timeout=6000)
    c, st = ctx.harness_output(p)
    cands += c
    stats = st.get("stats", {})
    if stats.get("runs", 0) == 0 or stats.get("with_faults", 0) == 0:
        raise Machinery("no schedule was executed")
    deferred = []      # coverage problems are reported after the recorded executions had their say
    if stats.get("skipped", 0) * 10 > stats["runs"]:
        deferred.append("%d of %d schedule runs skipped (the real fragmentation differs from the write plans)"
                        % (stats["skipped"], stats["runs"]))
    if st.get("combos_exercised") != st.get("combos_negotiable"):
        deferred.append("only %s of %s negotiable combinations were exercised" % (st.get("combos_exercised"), st.get("combos_negotiable")))
    if stats.get("delivered_less_than_accepted"):
        ctx.note("MODEL-DRIFT: in %d runs the receiver delivered fewer bytes than the accepted records carry (allowed by the "
                 "property, unexpected for this implementation)" % stats["delivered_less_than_accepted"])
    ctx.cov["schedule_runs"] = stats
    ctx.cov["schedule_runs_per_class"] = st.get("per_class", {})
    ctx.cov["evaluations"] += stats.get("runs", 0) + lstats.get("runs", 0) + npad + nfmt + nseq
    ctx.cov["distinct_nontrivial"] += summ["sched"]["errors"] + summ["pad"]["good"]
    ctx.cov["traces_validated_against_impl"] += stats.get("runs", 0)
    ctx.cov["exhaustive"] = True
    ctx.cov["demanded"] = summ
    ctx.candidates(binary, cands)

    # U3: recorded random executions judged by TLC
    ntr = 300 if ctx.quick else 4000
    out = ctx.path("rec_trace.ndjson")
    p = ctx.run(binary, ["record", out, str(ntr)], timeout=3000)
    _, st = ctx.harness_output(p)
    if st.get("bulk_traces", 0) < 12:
        raise Machinery("the bulk-transfer class (dynamic record sizing on, 32 KiB / 256 KiB writes) was not recorded: %s" % st)
    ctx.cov["bulk_transfer_traces"] = st.get("bulk_traces")
    events = read_ndjson(out)
    specs = {s["id"]: s for s in read_ndjson(out + ".specs")}
    acc, rejects = ctx.trace_validate("Trace_TLSRecord", "TLSRecord_trace.cfg", "rec_trace.ndjson", events, timeout=3000)
    ctx.cov["traces_validated_against_impl"] += acc
    ctx.cov["evaluations"] += len(events)
    ctx.cov["trace_events"] = len(events)
    tc = []
    for rej in rejects:
        spec = specs[rej[0]["id"]]
        last = rej[-1]
        sig = {"kind": "trace-rejected", "class": spec["combo"]["class"], "event": last["ev"],
               "end": last.get("end", ""), "match": last.get("match", ""),
               "faults": sorted(set(f["kind"] for f in (spec.get("faults") or [])))}
        tc.append({"sig": sig,
                   "what": "execution on %#06x/%#06x/%s rejected by Trace_TLSRecord at %s"
                           % (spec["combo"]["ver"], spec["combo"]["suite"], spec["combo"]["key"], json.dumps(last)),
                   "case": {"record": spec}})
    ctx.candidates(binary, tc, reproduce=lambda path, body: reproduce_trace(ctx, binary, path))
    ctx.cov["rule"] = ("schedules = every sequence of <= 2 applicable faults on K <= 4 application records + close_notify "
                       "(TLSRecordGen.tla), %s; padding = all payload tails of <= 4 bytes over {00,01,02,03,0F,10,FF} at the "
                       "boundary lengths; formats = 11 protection classes x 4 record sequences; plus %d seeded random "
                       "executions validated as traces; non-trivial = schedule whose demanded end is an error, padding case "
                       "with valid padding" % ("each run once per cipher class" if ctx.quick else
                                               "each run on every negotiable combination in both directions", ntr))
    ctx.add_samples([{"schedule": "K=2, drop #1 then duplicate #2", "demanded": {"bytes": 0, "ends": ["error"]}}], n=1)
    for d in deferred:
        ctx.problem(d)
    if ctx.thorough:
        selftest(ctx, events)


def reproduce_trace(ctx, binary, path):
    out = ctx.path("one_trace.ndjson")
    ctx.run(binary, ["record-one", path, out])
    ev = read_ndjson(out)
    acc, rej = ctx.trace_validate("Trace_TLSRecord", "TLSRecord_trace.cfg", "rec_trace.ndjson", ev)
    return len(rej) > 0


def selftest(ctx, events):
    """Binding self-test: a corrupted result and a dropped event must both be rejected."""
    ev = copy.deepcopy(events[:1500])
    # cut at a trace boundary
    while ev and ev[-1]["ev"] != "end":
        ev.pop()
    ends = [i for i, e in enumerate(ev) if e["ev"] == "end" and e["end"] == "eof"]
    if not ends:
        raise Machinery("selftest: no clean execution in the recorded prefix")
    bad = copy.deepcopy(ev)
    bad[ends[len(ends) // 2]]["total"] -= 1
    _, rej = ctx.trace_validate("Trace_TLSRecord", "TLSRecord_trace.cfg", "rec_trace.ndjson", bad, max_rejects=1)
    if not rej:
        raise Machinery("selftest: a clean execution that lost one byte was accepted - the trace spec constrains nothing")
    errs = [i for i, e in enumerate(ev) if e["ev"] == "end" and e["end"] == "error"]
    if errs:
        bad = copy.deepcopy(ev)
        bad[errs[len(errs) // 2]]["end"] = "eof"
        _, rej = ctx.trace_validate("Trace_TLSRecord", "TLSRecord_trace.cfg", "rec_trace.ndjson", bad, max_rejects=1)
        if not rej:
            raise Machinery("selftest: a faulted execution reported as clean eof was accepted")
    faults = [i for i, e in enumerate(ev) if e["ev"] == "fault" and e["kind"] in ("modify", "drop")]
    dropped = False
    for i in faults[:40]:
        cand = ev[:i] + ev[i + 1:]
        _, rej = ctx.trace_validate("Trace_TLSRecord", "TLSRecord_trace.cfg", "rec_trace.ndjson", cand, max_rejects=1)
        if rej:
            dropped = True
            break
    if faults and not dropped:
        raise Machinery("selftest: dropping fault events was never noticed")
    ctx.note("binding self-test passed (lost byte, wrong end and dropped fault event rejected)")


def replay(ctx, path):
    binary = ctx.gobuild("c25")
    body = json.load(open(path))
    if body.get("case", {}).get("record"):
        again = reproduce_trace(ctx, binary, path)
    else:
        again = ctx.run(binary, ["replay", path], ok_codes=(0, 1)).returncode == 1
    print("REPRODUCED" if again else "not reproduced")
    return 1 if again else 0
