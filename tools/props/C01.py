"""C01 - parsers of untrusted bytes never panic, hang or over-allocate (Inputs.tla, InputsGen.tla,
Trace_Inputs.tla; harness cmd/c01, lib/inputs, lib/dertree)."""
import collections
import json
import os
import re
import threading
import time
from concurrent.futures import ThreadPoolExecutor

from vlib import Machinery, read_ndjson, write_ndjson

META = {
    "technique": "TLA+ input model (artifact structure trees x mutation operators x parsing mode) enumerated exhaustively by TLC to depth 1/2, every program concretised on real seeds and fed to every entry point of its kind; observations (outcome, time, allocation) judged by TLC against the totality property; seeded byte-level sweep judged the same way",
    "text": "Inputs.tla models 42 artifact kinds (DER: certificate, TBS, CSR, CRL, SPKI, PKCS#1/#8/SEC1 keys, OCSP request/response, names, free values; binary: SCT, DigitallySigned, Merkle tree leaves, chain arrays, CRLSet, Microsoft SST, every TLS handshake message and session state; JSON: OneCRL) as trees of named node classes with the mutation operators applicable to each class; TLC enumerates every mutation program to depth 1 (quick) / the pruned depth-2 product (thorough) as a state machine whose invariant is outcome in {value, error}; the Go harness concretises each program on standard-library-generated seeds of every key type and on the repository's test vectors, runs every entry point of the kind in strict and permissive mode in a memory-limited child process under recover + watchdog + allocation measurement, and TLC (Trace_Inputs.tla) judges every observation: outcome in range, time and allocation bounds, the narrowed predictions (unmutated generated seed => value; truncated DER => error), and that every entry point was run in every mode. Role P of DESIGN.md: exhaustive over the abstract classes, sampled inside each class.",
    "note": "Trusted: TLC, Go toolchain/runtime (recover, runtime/metrics allocation counter, RLIMIT_AS), the standard library and x/crypto/ocsp as seed encoders. Inputs outside the modelled mutation classes are only sampled by the byte-level sweep. Allocation bound is deliberately loose (64*len + 64 MiB). A hang is observed through a 5 s watchdog, not proved absent.",
}

BANNED = set()       # "kind|entry point" pairs the harness stopped feeding after repeated hangs / deaths

NEST_QUICK = '{"10","1000"}'
NEST_THOROUGH = '{"10","1000","100000"}'

TLC_FIELDS = ("k", "p", "sw", "sc", "cut", "n", "len", "g")


def _kinds_of(ctx):
    txt = open(os.path.join(os.path.dirname(os.path.dirname(os.path.dirname(os.path.abspath(__file__)))), "spec", "Inputs.tla")).read()
    return txt


def generate(ctx, depth, nest, kinds=None, label=None):
    """U1+U2: TLC explores the program state machine and exports every program + the model."""
    subst = {"KINDS": kinds or "Kinds", "DEPTH": depth, "NEST": nest}
    cfg = "Inputs_gen.cfg" if kinds else "Inputs_genall.cfg"
    r = ctx.tlc("InputsGen", cfg, subst=subst, timeout=3000, label=label or ("InputsGen depth=%s" % depth))
    lines = sorted(l for l in r.out.splitlines() if l.startswith('"{'))
    if not lines:
        raise Machinery("generator exported no programs")
    counts = collections.Counter()
    progs = []
    for l in lines:
        p = json.loads(json.loads(l))
        progs.append(p)
        counts[p["k"]] += 1
    declared = {}
    for m in re.finditer(r'<<"NPROGRAMS", "(\w+)", (\d+)>>', r.out):
        declared[m.group(1)] = int(m.group(2))
    for k, n in declared.items():
        if counts.get(k, 0) != n:
            raise Machinery("kind %s: state machine reached %d programs, Inputs!Programs has %d" % (k, counts.get(k, 0), n))
    if not declared:
        raise Machinery("generator printed no NPROGRAMS lines")
    return lines, progs, r


def par(ctx, fn, items, workers):
    """run fn(item) for all items on a thread pool, staggering starts (ctx counters are not locked)"""
    res = [None] * len(items)
    errs = []

    def wrap(i):
        time.sleep(0.4 * (i % max(1, workers)))
        try:
            res[i] = fn(items[i])
        except Exception as e:  # collected and re-raised in the caller's thread
            errs.append(e)
    with ThreadPoolExecutor(max_workers=max(1, workers)) as ex:
        list(ex.map(wrap, range(len(items))))
    if errs:
        raise errs[0]
    return res


def run_harness(ctx, binary, model, progfile, sweep_count, nshards, tag, mode="summary", only=None, files_only=False):
    """Run the structured programs and/or the sweep in nshards parallel supervisors."""
    jobs = []
    if progfile:
        for i in range(nshards):
            jobs.append(("run", i))
    if sweep_count:
        for i in range(nshards):
            jobs.append(("sweep", i))
    stats = collections.Counter()
    outs = []

    def one(job):
        kind, i = job
        out = ctx.path("%s_%s_%d.ndjson" % (tag, kind, i))
        if kind == "run":
            args = ["run", model, progfile, out, str(i), str(nshards), mode, only or "-"]
        else:
            args = ["sweep", model, out, str(sweep_count), str(i), str(nshards), mode, only or "-"]
        # the stage has a wall budget inside the harness (it then finishes with what it has); the
        # outer timeout is only the backstop
        budget = 900 if ctx.quick else 9000
        p = ctx.run(binary, args, timeout=budget + 1800, env={"VERIF_C01_BUDGET_S": str(budget)})
        _, st = ctx.harness_output(p)
        return out, st
    for out, st in par(ctx, one, jobs, nshards):
        outs.append(out)
        for k, v in st.items():
            if isinstance(v, int):
                stats[k] += v
            elif k == "banned":
                BANNED.update(v)
    if files_only:
        return outs, stats
    recs = []
    for o in outs:
        recs += read_ndjson(o)
    return recs, stats


def judge(ctx, recs, nest, chunks=1, label="judge"):
    """U3: TLC judges the records; returns list of (record index, group index, reason)."""
    if not recs:
        return []
    chunks = max(1, min(chunks, len(recs)))
    size = (len(recs) + chunks - 1) // chunks
    parts = [(c, recs[c * size:(c + 1) * size]) for c in range(chunks) if recs[c * size:(c + 1) * size]]

    # the order the group members index into: the model export's entry points, sorted (the harness
    # sorts them the same way when it loads the model)
    model = json.load(open(ctx.specfile("inputs_model.json")))
    epsf = ctx.specfile("inputs_eps.json")
    if not os.path.exists(epsf):
        with open(epsf + ".%d.tmp" % threading.get_ident(), "w") as f:
            json.dump({k["k"]: sorted(k["eps"]) for k in model["kinds"]}, f)
        os.replace(f.name, epsf)
    order = {k["k"]: sorted(k["eps"]) for k in model["kinds"]}
    for r in recs:
        if r["eps"] != order.get(r["k"]):
            raise Machinery("harness and model disagree on the entry points of kind %s" % r["k"])

    def one(part):
        c, rs = part
        fname = "inputs_obs_%s_%d.ndjson" % (label, c)
        write_ndjson(ctx.specfile(fname), [{k: r[k] for k in TLC_FIELDS} for r in rs])
        r = ctx.tlc("Trace_Inputs", "Inputs_trace.cfg", subst={"NEST": nest, "OBSFILE": '"%s"' % fname, "EPSFILE": '"inputs_eps.json"'}, workers=1,
                    timeout=3000, label="Trace_Inputs %s[%d records]" % (label, len(rs)), count=False)
        m = re.search(r'<<"JUDGED", (\d+)>>', r.out)
        if not m or int(m.group(1)) != len(rs):
            raise Machinery("Trace_Inputs did not judge all %d records of chunk %d" % (len(rs), c))
        out = []
        for m in re.finditer(r'<<"REJECT", (\d+), (\d+), "([\w-]+)", "([^"]*)">>', r.out):
            out.append((c * size + int(m.group(1)) - 1, int(m.group(2)), m.group(3), m.group(4)))
        return out
    rej = []
    for x in par(ctx, one, parts, min(len(parts), ctx.workers)):
        rej += x
    return sorted(set(rej))


def mutclass(rec):
    if rec["sw"]:
        return "sweep"
    return "+".join("%s(%s)@%s" % (m["op"], m["a"], m["n"]) for m in rec["p"]) or "unmutated"


def candidates_from(recs, rejects):
    """One candidate per rejected (record, group, entry point): signature = entry point +
    input class (region, mutation class) + failure kind (panic message class / timeout / alloc...)."""
    cands = []
    for (i, j, reason, rep) in rejects:
        rec = recs[i]
        if j == 0:
            cands.append({"sig": {"kind": rec["k"], "fail": "machinery:" + reason}, "rec": rec, "ep": "", "mode": ""})
            continue
        g = rec["g"][j - 1]
        for e in g["e"]:
            ep = rec["eps"][e]
            if rep != "*" and rep != ep:
                continue
            bad = [b for b in rec.get("bad", []) if b["ep"] == ep and b["m"] == g["m"]]
            if reason == "outcome":
                if not bad:
                    fail, site = "outcome:" + ",".join(g["os"]), ""
                else:
                    b = bad[0]
                    fail = ("panic: " + b.get("msg", "")) if b["o"] == "panic" else (b["o"] + (": " + b["msg"] if b.get("msg") else ""))
                    site = b.get("site", "")
                    if b["o"] == "timeout":
                        fail, site = "timeout", ""
            elif reason == "time":
                fail, site = "timeout", ""      # same failure kind as a watchdog kill
            else:
                fail, site = reason, ""
            region = "+".join(sorted(rec.get("reg", []))) or ("bytes" if rec["sw"] else "none")
            sig = {"ep": ep, "kind": rec["k"], "fail": fail, "site": site, "region": region, "mut": mutclass(rec)}
            cands.append({"sig": sig, "rec": rec, "ep": ep, "mode": g["m"]})
    return cands


def select(cands):
    """Deduplicate: per (entry point, failure, site) keep the minimal programs, one per region, and
    drop depth-2 programs one of whose mutations alone already shows the same failure."""
    byg = collections.defaultdict(list)
    for c in cands:
        s = c["sig"]
        byg[(s.get("ep"), s.get("fail"), s.get("site"))].append(c)
    out = []
    for g, cs in sorted(byg.items(), key=lambda kv: str(kv[0])):
        singles = set()
        for c in cs:
            if len(c["rec"]["p"]) == 1 and not c["rec"]["sw"]:
                singles.add(json.dumps(c["rec"]["p"][0], sort_keys=True))
        structured = [c for c in cs if not c["rec"]["sw"]]
        pool = structured or cs
        keep = []
        for c in pool:
            p = c["rec"]["p"]
            if len(p) == 2 and any(json.dumps(m, sort_keys=True) in singles for m in p):
                continue
            keep.append(c)
        keep.sort(key=lambda c: (len(c["rec"]["p"]), c["sig"].get("region", ""), c["sig"].get("mut", ""), c["mode"]))
        seen = {}
        for c in keep:
            r = c["sig"].get("region", "")
            if r in seen:
                seen[r]["modes"].add(c["mode"])
                continue
            c["modes"] = {c["mode"]}
            seen[r] = c
            if len(seen) >= 4:
                break
        for c in seen.values():
            c["others"] = len(cs)
            out.append(c)
    return out


def case_of(c, seed):
    rec = c["rec"]
    return {"k": rec["k"], "p": rec["p"], "sw": rec.get("swn", rec["sw"]) if rec["sw"] else 0, "seed": rec["seed"],
            "i": rec["i"], "hex": rec.get("hex", ""), "ep": c["ep"], "mode": c["mode"], "vseed": seed}


def rerun_cases(ctx, binary, model, bodies, nest, label):
    """Re-run each case in a fresh process (c01 one) and let TLC judge all results in one run.
    Returns the list of booleans 'rejected again for the same entry point'."""
    recs, owner = [], []
    for n, body in enumerate(bodies):
        path = ctx.path("%s_case_%d.json" % (label, n))
        with open(path, "w") as f:
            json.dump(body, f)
        out = ctx.path("%s_case_%d.ndjson" % (label, n))
        ctx.run(binary, ["one", model, path, out], timeout=600)
        for r in read_ndjson(out):
            owner.append(n)
            recs.append(r)
    rej = judge(ctx, recs, nest, label=label)
    again = [False] * len(bodies)
    for (i, j, reason, rep) in rej:
        n = owner[i]
        ep = bodies[n]["case"].get("ep")
        if j == 0 or not ep:
            again[n] = True
            continue
        g = recs[i]["g"][j - 1]
        if ep in [recs[i]["eps"][e] for e in g["e"]] and rep in ("*", ep):
            again[n] = True
    return again


def run(ctx):
    quick = ctx.quick
    nest = NEST_QUICK if quick else NEST_THOROUGH
    depth = 1 if quick else 2
    nshards = max(1, ctx.workers)

    # U1 + U2 ------------------------------------------------------------------------------
    lines, progs, r = generate(ctx, depth, nest)
    progfile = ctx.path("programs.ndjson")
    with open(progfile, "w") as f:
        f.write("\n".join(lines) + "\n")
    model = ctx.specfile("inputs_model.json")
    if not os.path.exists(model):
        raise Machinery("TLC did not export the structure model")
    ctx.log("programs: %d (depth %d)" % (len(progs), depth))
    ctx.cov["programs"] = len(progs)
    ctx.add_samples([progs[len(progs) // 3], progs[2 * len(progs) // 3]], n=2)

    binary = ctx.gobuild("c01")
    p = ctx.run(binary, ["seeds", model])
    _, st = ctx.harness_output(p)
    if st.get("seeds_bad", 1) != 0 or st.get("seeds", 0) == 0:
        raise Machinery("seed concretisation check failed:\n" + p.stdout[-2000:])
    ctx.cov["seeds"] = st["seeds"]

    # replay: every program on the real seeds, every entry point, both modes --------------
    sweep = 10000 if quick else 400000
    files, stats = run_harness(ctx, binary, model, progfile, sweep, nshards, "obs", files_only=True)
    ctx.log("harness: %s" % dict(stats))
    if stats["records"] == 0 or stats["summaries"] == 0:
        raise Machinery("harness produced no observations")

    # U3: TLC judges the summaries, one harness output file at a time (bounded memory) -----------
    def judge_file(item):
        idx, path = item
        rs = read_ndjson(path)
        rej = judge(ctx, rs, nest, label="sum%d" % idx)
        st = {"calls": sum(r["n"] * sum(len(g["e"]) for g in r["g"]) for r in rs),
              "applied": set(r["i"] for r in rs if not r["sw"]),
              "structured": sum(r["n"] for r in rs if not r["sw"]), "sweep": sum(r["n"] for r in rs if r["sw"]),
              "summaries": len(rs), "rejected": len(rej)}
        hit = set(x[0] for x in rej)
        smp = [r for i, r in enumerate(rs) if not r["sw"] and r["p"] and i not in hit][:60] if idx == 0 else []
        return st, [rs[i] for i in sorted(hit)], smp
    calls, applied, nstruct, nsweep, nsum, nrej, badrecs, sample = 0, set(), 0, 0, 0, 0, [], []
    for st, bad, smp in par(ctx, judge_file, list(enumerate(files)), ctx.workers):
        calls += st["calls"]
        applied |= st["applied"]
        nstruct, nsweep, nsum, nrej = nstruct + st["structured"], nsweep + st["sweep"], nsum + st["summaries"], nrej + st["rejected"]
        badrecs += bad
        sample = sample or smp
    incomplete = stats["budget_jobs_left"] > 0
    if incomplete:
        ctx.note("wall budget of the replay stage exhausted: %d (program, seed) jobs were not run; going on with the "
                 "candidates gathered so far" % stats["budget_jobs_left"])
    if stats["calls_not_run"]:
        ctx.note("%d calls were not made: %s hung / killed the worker %d times and was no longer fed" %
                 (stats["calls_not_run"], ", ".join(sorted(BANNED)), 3))
    never = [i for i in range(len(progs)) if i not in applied] if not incomplete else []
    if never:
        classes = sorted(set("%s:%s" % (progs[i]["k"], "+".join(m["n"] for m in progs[i]["p"])) for i in never))
        msg = "%d programs applied to no seed (node classes: %s)" % (len(never), ", ".join(classes[:12]))
        if depth == 1:
            raise Machinery("vacuous coverage: " + msg)
        ctx.note(msg)
    ctx.cov["evaluations"] += calls
    ctx.cov["distinct_nontrivial"] += len([i for i in applied if progs[i]["p"]])
    ctx.cov["inputs_structured"], ctx.cov["inputs_sweep"] = nstruct, nsweep
    ctx.cov["worker_deaths"] = stats["worker_deaths"]
    ctx.cov["exhaustive"] = True
    ctx.cov["rule"] = ("every mutation program of Inputs.tla to depth %d (TLC state machine InputsGen) x every seed it "
                       "applies to x every entry point of the kind x {strict, permissive}; non-trivial = a non-empty "
                       "program that applied to at least one real seed; plus %d seeded byte-level sweep inputs; every "
                       "observation judged by TLC (Trace_Inputs.tla)" % (depth, sweep))
    ctx.log("summaries judged: %d, rejected groups: %d" % (nsum, nrej))
    ctx.cov["traces_validated_against_impl"] += nsum
    cands = []
    if badrecs:
        # re-run the rejected programs / sweep seeds input by input and judge each input
        only = {"progs": sorted(set(r["i"] for r in badrecs if not r["sw"])),
                "seeds": sorted(set("%s/%s" % (r["k"], r["seed"]) for r in badrecs if r["sw"]))}
        onlyf = ctx.path("only.json")
        with open(onlyf, "w") as f:
            json.dump(only, f)
        drecs, _ = run_harness(ctx, binary, model, progfile if only["progs"] else None,
                               sweep if only["seeds"] else 0, nshards if only["seeds"] else 1, "detail", mode="detail", only=onlyf)
        drej = judge(ctx, drecs, nest, label="detail")
        ctx.log("inputs re-judged one by one: %d, rejected: %d" % (len(drecs), len(drej)))
        if not drej:
            ctx.note("rejected summaries were not confirmed input by input (conservative summary bound or an unrepeated timeout)")
        cands = select(candidates_from(drecs, drej))
        if len(cands) > 60:
            ctx.note("%d distinct violation signatures; reproducing the first 60" % len(cands))
            cands = cands[:60]

    machinery = [c for c in cands if c["sig"].get("fail", "").startswith("machinery:")]
    if machinery:
        raise Machinery("observations rejected as malformed: %s" % json.dumps(machinery[0]["sig"]))
    narrow_ok = [c for c in cands if c["sig"]["fail"] == "narrow-ok"]
    if narrow_ok:
        # the concretisation check of the seeds: a generated seed its own parser rejects
        raise Machinery("generated seed rejected by a native entry point (seed / model problem): %s seed=%s" %
                        (json.dumps(narrow_ok[0]["sig"]), narrow_ok[0]["rec"]["seed"]))

    # fresh-process reproduction, batched through one TLC run ------------------------------------
    bodies = []
    for c in cands:
        sig = dict(c["sig"])
        modes = sorted(c.get("modes", {c["mode"]}))
        sig["mode"] = "both" if len(modes) > 1 else modes[0]
        what = "%s on %s input [%s] in %s mode: %s%s" % (sig["ep"], sig["kind"], sig["mut"], sig["mode"], sig["fail"],
                                                        (" at " + sig["site"]) if sig["site"] else "")
        bodies.append({"sig": sig, "what": what, "case": case_of(c, ctx.seed)})
    again = rerun_cases(ctx, binary, model, bodies, nest, "repro") if bodies else []
    final = []
    for body, ok in zip(bodies, again):
        if not ok and body["sig"]["fail"] == "timeout":
            ctx.note("timeout not repeated in a fresh process, dropped: %s" % body["what"])
            continue
        body["_again"] = ok
        final.append(body)
    lookup = {json.dumps(b["sig"], sort_keys=True): b["_again"] for b in final}
    ctx.candidates(binary, [{"sig": b["sig"], "what": b["what"], "case": b["case"]} for b in final],
                   reproduce=lambda path, body: lookup.get(json.dumps(body["sig"], sort_keys=True), False), limit=60)

    # calls that were skipped / a stage that was cut short are only acceptable next to a verdict
    banned_eps = set(b.split("|", 1)[1] for b in BANNED)
    confirmed = set(b["sig"]["ep"] for b in final if b["_again"])
    if stats["calls_not_run"] and not banned_eps <= confirmed:
        ctx.problem("%d calls were skipped after repeated hangs / worker deaths of %s, but that was not reproduced in a fresh "
                    "process: the run cannot vouch" % (stats["calls_not_run"], ", ".join(sorted(banned_eps - confirmed))))
    if incomplete and ctx.violations == 0:
        ctx.problem("the replay stage was cut by its wall budget (%d jobs left) and no violation was found: the run cannot vouch" %
                    stats["budget_jobs_left"])

    if not quick and not incomplete:
        selftest(ctx, sample, nest)


def selftest(ctx, recs, nest):
    """Binding self-test: corrupted observations must be rejected by Trace_Inputs."""
    import copy
    base = [r for r in recs if not r["sw"] and r["p"]][:50]
    if len(base) < 5:
        raise Machinery("selftest: not enough records")
    bad = copy.deepcopy(base)
    bad[0]["g"][0]["os"] = ["panic"]              # an outcome outside {ok, err}
    bad[1]["g"][0]["kib"] = 10 ** 7               # over the allocation bound
    bad[2]["g"][0]["ms"] = 6000                   # over the time bound
    bad[3]["g"] = bad[3]["g"][1:]                 # an entry point x mode silently skipped
    bad[4]["p"] = [{"op": "NoSuchOp", "n": bad[4]["p"][0]["n"], "a": "-"}]   # not a program of the model
    rej = judge(ctx, bad, nest, label="selftest")
    hit = set(x[0] for x in rej)
    missing = [i for i in range(5) if i not in hit]
    if missing:
        raise Machinery("selftest: corrupted observations %s were accepted - the validator constrains nothing" % missing)
    if len(hit) != 5:
        raise Machinery("selftest: uncorrupted records were rejected: %s" % sorted(hit))
    ctx.note("binding self-test passed (5 corrupted observations rejected, 45 untouched accepted)")


def replay(ctx, path):
    nest = NEST_THOROUGH
    body = json.load(open(path))
    generate(ctx, 1, nest, kinds='{"%s"}' % body["case"]["k"], label="model export")
    model = ctx.specfile("inputs_model.json")
    binary = ctx.gobuild("c01")
    again = rerun_cases(ctx, binary, model, [body], nest, "replay")[0]
    print("REPRODUCED" if again else "not reproduced")
    return 1 if again else 0
