"""C09 - VerifyHostname follows the documented matching rules
(Hostname.tla, HostnameGen.tla, Trace_Hostname.tla; harness cmd/c09)."""
import json
import os
import re

import pkvlib
from vlib import read_ndjson, write_ndjson, Machinery

META = {
    "technique": "TLA+ transcription of the documented hostname rule (Hostname.tla): TLC enumerates hosts x SAN/CN sets over a "
                 "small alphabet with the demanded accept/reject, replayed on the real VerifyHostname; seeded random longer "
                 "names recorded from the real code are judged by TLC",
    "text": "Hostname.tla defines Verdict(host, certificate) from the statement: optional brackets, IP-literal grammar (IPv4, "
            "IPv6 with '::' and embedded IPv4) with IPv4-mapped equality against IP SANs, otherwise ASCII case folding, one "
            "trailing dot, label-wise comparison with '*' labels, common-name fallback only without a SAN extension. TLC "
            "enumerates every host x every DNS SAN up to the length bound over letters of both cases, '.', '*', the CN/SAN "
            "interaction variants, and hosts over the full alphabet (digits, '-', brackets, ':', non-ASCII bytes, IP literal "
            "tokens; plain, bracketed, with trailing dot) x certificates derived from the host; each case is a real "
            "certificate (SAN bytes verbatim) and the real answer must equal the demanded one. In the other direction TLC "
            "judges seeded random longer hosts and certificates. Bounded-exhaustive plus sampled, for a pure function.",
    "note": "Trusted: TLC, Go standard library (certificate creation; net.ParseIP only as a cross-check of the specification's "
            "own IP-literal grammar: cases where the two differ are dropped, counted and reported, never judged). Left open "
            "(not judged): hosts or patterns with an empty label (\"a..b\", leading dot, empty name), non-ASCII case folding.",
}

SIGMA1 = ["a", "A", "b", ".", "*"]
SIGMA2 = ["a", "A", "b", "1", "-", "*", ".", "[", "]", ":", "<e9>", "<E9>", "xFF",
          "<v4>", "<v4z>", "<m4>", "<m4x>", "<v6>", "<v6l>", "<v6a>", "<v4big>", "<v4s>", "<v4b>"]


def tla_set(items):
    return "{" + ", ".join('"%s"' % i for i in items) + "}"


def batches(ctx):
    def b(label, fams, heads, l1=2, l2=2, l3=1, sigma2=SIGMA2):
        return (label, {"FAMILIES": tla_set(fams), "SIGMA1": tla_set(SIGMA1), "HEADS": tla_set(heads), "L1": l1, "L2": l2,
                        "SIGMA2": tla_set(sigma2), "L3": l3})
    out = []
    if ctx.quick:
        for hs in (["a", "."], ["A", "*"], ["b"]):
            out.append(b("pairs<=3 " + "".join(hs), ["pairs"], hs, l1=3))
        out.append(b("variants+dots", ["variants", "dots"], SIGMA1, l1=2, l2=2))
        q2 = ["a", "A", "1", "*", ".", "[", "]", ":", "<e9>", "<E9>", "xFF", "<v4>", "<v4z>", "<m4>", "<m4x>", "<v6>", "<v6a>"]
        for i in range(0, len(q2), 6):
            out.append(b("alpha<=2 #%d" % (i // 6), ["alpha"], q2[i:i + 6], l3=2, sigma2=q2))
    else:
        for h in SIGMA1:
            out.append(b("pairs<=4 " + h, ["pairs"], [h], l1=4))
        out.append(b("variants", ["variants"], SIGMA1, l1=3, l2=3))
        out.append(b("dots", ["dots"], SIGMA1))
        for i in range(0, len(SIGMA2), 2):
            out.append(b("alpha<=3 #%d" % (i // 2), ["alpha"], SIGMA2[i:i + 2], l3=3))
    return out


def run(ctx):
    if pkvlib.ONLY:
        ctx.note("restricted development run: PKV_ONLY=%s" % ",".join(pkvlib.ONLY))
    binary = ctx.gobuild("c09")
    ctx.specfile("x")

    def pipeline(k, label, subst):
        def job():
            out = ctx.specfile("c09_cases_%d.ndjson" % k)
            r = pkvlib.tlc(ctx, "HostnameGen", "Hostname_gen.cfg", subst=dict(subst, OUT=os.path.basename(out)), workers=1,
                           timeout=3000, label="gen " + label)
            m = re.search(r'<<\s*"GENERATED",\s*(\d+),\s*(\d+),\s*(\d+),\s*(\d+)\s*>>', r.out)
            if not m or int(m.group(1)) == 0:
                raise Machinery("generator %s produced no cases" % label)
            n, acc, rej, opn = (int(x) for x in m.groups())
            paths = set(re.findall(r'"(ip-bracketed|ip|dns-san|common-name)"', r.out[r.out.find('"PATHS"'):]))
            p = ctx.run(binary, ["replay-gen", out], timeout=3000)
            cands, st = ctx.harness_output(p)
            if st.get("cases") != n:
                raise Machinery("%s: harness read %s cases, TLC generated %d" % (label, st.get("cases"), n))
            if st.get("unbuildable"):
                raise Machinery("%s: %d cases could not be concretised: %s" % (label, st["unbuildable"], p.stderr[-500:]))
            sample = None
            if k == 0:
                sample = read_ndjson(out)[n // 3]
            return {"label": label, "n": n, "accept": acc, "reject": rej, "open": opn, "paths": paths, "cands": cands,
                    "st": st, "sample": sample, "stderr": p.stderr}
        return job

    def record_job(k, n):
        def job():
            out = ctx.specfile("c09_obs_%d.ndjson" % k)
            ctx.run(binary, ["record", out, str(n)], env={"VERIF_SEED": str(ctx.seed * 1000 + k)})
            return judge_obs(ctx, out, "random #%d" % k)
        return job

    jobs = [pipeline(k, label, subst) for k, (label, subst) in enumerate(batches(ctx)) if pkvlib.selected(label)]
    nrec = [(0, 2500)] if ctx.quick else [(k, 10000) for k in range(8)]
    jobs += [record_job(k, n) for k, n in nrec if pkvlib.selected("random")]
    results = pkvlib.par(ctx, jobs)
    gens = [r for r in results if "paths" in r]
    recs = [r for r in results if "paths" not in r]

    cands, paths, dropped = [], set(), 0
    for r in gens:
        cands += r["cands"]
        paths |= r["paths"]
        st = r["st"]
        dropped += st.get("dropped_classification", 0)
        ctx.cov["evaluations"] += st.get("judged", 0)
        ctx.cov["distinct_nontrivial"] += st.get("judged_accept", 0)
        ctx.cov["traces_validated_against_impl"] += st.get("judged", 0)
        ctx.cov["cases_generated"] = ctx.cov.get("cases_generated", 0) + r["n"]
        ctx.cov["left_open"] = ctx.cov.get("left_open", 0) + st.get("open", 0)
        for pth, c in (st.get("by_path") or {}).items():
            ctx.cov.setdefault("by_rule", {})
            ctx.cov["by_rule"][pth] = ctx.cov["by_rule"].get(pth, 0) + c
        if r["sample"]:
            ctx.add_samples([r["sample"]], n=1)
    if paths != {"ip", "ip-bracketed", "dns-san", "common-name"} and not pkvlib.ONLY:
        raise Machinery("vacuous: only the rules %s were exercised" % sorted(paths))
    if dropped:
        ctx.note("%d generated cases dropped (not judged): the specification's IP-literal grammar and net.ParseIP "
                 "disagree on the host: %s" % (dropped, " | ".join(r["stderr"].strip()[:300] for r in gens if r["stderr"].strip())[:900]))
        ctx.cov["dropped_classification"] = dropped
    ctx.cov["exhaustive"] = True
    ctx.cov["rule"] = ("evaluations = TLC-generated (host, certificate) cases with a definite verdict replayed on the real "
                       "VerifyHostname plus recorded random observations judged by TLC; non-trivial = cases whose demanded "
                       "verdict is accept (a matching SAN / IP / common name exists), counted from TLC's verdicts")
    ctx.candidates(binary, cands)

    tc = []
    for r in recs:
        tc += r["cands"]
        ctx.cov["evaluations"] += r["judged"]
        ctx.cov["distinct_nontrivial"] += r["accepts"]
        ctx.cov["traces_validated_against_impl"] += r["judged"]
        ctx.cov["left_open"] = ctx.cov.get("left_open", 0) + r["open"]
        if r["classify"]:
            ctx.note("%s: %d observations not judged (IP-literal grammar differs from net.ParseIP), first host %r"
                     % (r["label"], r["classify"], r["first_classify"]))
            ctx.cov["dropped_classification"] = ctx.cov.get("dropped_classification", 0) + r["classify"]
        if r["judged"] == 0 or r["accepts"] == 0:
            raise Machinery("%s: vacuous random observations (judged %d, accepts %d)" % (r["label"], r["judged"], r["accepts"]))
    ctx.candidates(binary, tc, reproduce=lambda path, body: reproduce_obs(ctx, binary, path))
    if ctx.thorough:
        selftest(ctx, binary)


def judge_obs(ctx, path, label):
    r = pkvlib.tlc(ctx, "Trace_Hostname", "Hostname_judge.cfg", subst={"FO": os.path.basename(path)}, workers=1,
                   timeout=3000, label="judge " + label)
    m = re.search(r'<<\s*"JUDGED",\s*(\d+),\s*(\d+),\s*(\d+),\s*(\d+)\s*>>', r.out)
    if not m:
        raise Machinery("judge %s printed no summary:\n%s" % (label, "\n".join(r.out.splitlines()[-20:])))
    n, judged, accepts, opn = (int(x) for x in m.groups())
    obs = None
    cands = []
    seen = set()
    for m in re.finditer(r'<<\s*"REJECT",\s*(\d+),\s*"(\w+)",\s*"([\w-]+)"\s*>>', r.out):
        obs = obs or read_ndjson(path)
        o = obs[int(m.group(1)) - 1]
        got = "panic" if o["panic"] else ("accept" if o["accepted"] else "reject")
        sig = {"path": m.group(3), "want": m.group(2), "got": got, "recorded": True}
        k = json.dumps(sig, sort_keys=True)
        if k in seen:
            continue
        seen.add(k)
        cands.append({"sig": sig, "case": {"host": o["host"], "cert": o["cert"], "recorded": True},
                      "what": "recorded VerifyHostname(%r) = %s rejected by Trace_Hostname: specification demands %s (rule %s), certificate %s"
                              % ("".join(o["host"]), got, m.group(2), m.group(3), json.dumps(o["cert"]))})
    cl = [int(x) for x in re.findall(r'<<\s*"CLASSIFY",\s*(\d+)\s*>>', r.out)]
    first = None
    if cl:
        obs = obs or read_ndjson(path)
        first = "".join(obs[cl[0] - 1]["host"])
    return {"label": label, "n": n, "judged": judged, "accepts": accepts, "open": opn, "cands": cands,
            "classify": len(cl), "first_classify": first}


_n = [0]


def reproduce_obs(ctx, binary, path):
    _n[0] += 1
    out = ctx.specfile("c09_replay_%d.ndjson" % _n[0])
    ctx.run(binary, ["record-one", path, out])
    r = judge_obs(ctx, out, "replay")
    return bool(r["cands"])


def selftest(ctx, binary):
    """Binding self-test: flipping a recorded answer must be rejected by the judge."""
    out = ctx.specfile("c09_obs_self.ndjson")
    ctx.run(binary, ["record", out, "400"])
    obs = read_ndjson(out)
    r0 = judge_obs(ctx, out, "selftest baseline")
    if r0["cands"]:
        return  # already reported above
    flipped = 0
    for o in obs:
        if o["accepted"]:
            o["accepted"] = False
            flipped += 1
            break
    if not flipped:
        raise Machinery("selftest: no accepted observation to corrupt")
    write_ndjson(out, obs)
    r1 = judge_obs(ctx, out, "selftest corrupted")
    if not r1["cands"]:
        raise Machinery("selftest: a corrupted observation was accepted - Trace_Hostname constrains nothing")
    ctx.note("binding self-test passed (flipped answer rejected)")


def replay(ctx, path):
    binary = ctx.gobuild("c09")
    body = json.load(open(path))
    if body.get("case", {}).get("recorded"):
        again = reproduce_obs(ctx, binary, path)
    else:
        again = ctx.run(binary, ["replay", path], ok_codes=(0, 1)).returncode == 1
    print("REPRODUCED" if again else "not reproduced")
    return 1 if again else 0
