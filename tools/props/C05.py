"""C05 - CSRs, legacy CRLs and v2 revocation lists round-trip and self-verify (Issuance.tla:
ExpectedCSR / ExpectedCRL / ExpectedRL; Issuance5Gen.tla; Trace_Issuance.tla; harness cmd/c05)."""
import json
import re

from vlib import Machinery, read_ndjson
import props.iss_common as ic

META = {
    "technique": "TLA+ transcription of the request / CRL / revocation-list field maps (Issuance.tla: ExpectedCSR, ExpectedCRL, ExpectedRL incl. the reason-code rule): TLC enumerates templates (entry lists up to the bound over reason x user-extension classes, serial, number and time boundary classes, issuer variants, every key type x requested algorithm) with the Expected record; each is run through the real Create*/Parse*/verification APIs and compared; rapid-generated templates are logged and judged by TLC; crypto/x509 parses and verifies the same DER as an independent observer",
    "text": "The specification decides what the parsed object must report: subject / SANs / extra extensions of a request (no critical flag), issuer, update times to the second, revoked serials and times, the reason-code rule (nil or zero omitted, non-zero synthesised exactly once, a user-supplied reason extension replaced), CRL number, authority key id, extra extensions, effective signature algorithm, and that the object verifies with its own verification API. TLC enumerates the abstract space and emits Expected; the harness only concretises, runs, projects and compares (generic Judge); 10^3-10^4 random templates per object kind are judged by TLC. Exhaustive over abstract classes, sampled inside.",
    "note": "Trusted: TLC, Go toolchain, standard library (builds the issuer certificates, second parser/verifier). Left open: RevocationList.AuthorityKeyId may be the key id or the raw extension value; templates outside the documented preconditions of CreateRevocationList (no crlSign, no issuer SKID, nil/oversized number, NextUpdate not after ThisUpdate, algorithm outside the key family) may fail or succeed - if they succeed only the signature is judged; entry order is not judged (entries compared as a multiset). CSR Attributes (deprecated) are outside the domain.",
}

TR = ("Trace_Issuance", "Issuance_trace.cfg")
OID = re.compile(r'"(\d+(?:\.\d+)+)"')


def bigarc(t):
    for m in OID.findall(json.dumps(t)):
        if any(int(a) >= 1 << 28 for a in m.split(".")):
            return True
    return False


def feat(kind, t):
    if kind == "csr":
        return {"signer": ic.family(t["key"]), "pad": ic.pad(t["sigAlg"])}
    if kind == "rl":
        return {"signer": ic.family(t["issuer"]["key"]), "pad": ic.pad(t["sigAlg"])}
    return {"signer": ic.family(t["issuer"]["key"]), "pad": "n/a"}


def stage(o):
    err = o.get("err") or ""
    return err.split(":")[0] if o.get("outcome") == "error" and ":" in err else ""


def reproduce_val(ctx, binary, path, kind):
    out = ctx.path("one.ndjson")
    ctx.run(binary, ["record-one", path, out])
    return len(ic.tlc_judge(ctx, TR[0], TR[1], kind, read_ndjson(out), label="re-judge one %s record" % kind)) > 0


def run(ctx):
    quick = ctx.quick
    binary = ctx.gobuild("c05")
    kinds = ("rl", "csr", "crl")
    nrec = {"csr": 500, "crl": 400, "rl": 600} if quick else {"csr": 5000, "crl": 4000, "rl": 8000}

    # U2: one TLC run enumerates the templates of all three object kinds with their Expected records
    import os
    import shutil
    for k in kinds:
        f = ctx.specfile("iss_cases_%s.ndjson" % k)
        if os.path.exists(f):
            os.remove(f)
    group = "c05quick" if quick else "c05"
    r = ctx.tlc("Issuance5Gen", "Issuance_gen.cfg", subst={"GROUP": group, "PART": 0, "PARTS": 1}, label="Issuance5Gen %s" % group,
                timeout=1500)
    m = re.search(r'<<"CASES", (\d+), (\d+), (\d+)>>', r.out)
    if not m:
        raise Machinery("Issuance5Gen wrote no cases:\n" + r.out[-1500:])
    counts = dict(zip(("csr", "rl", "crl"), map(int, m.groups())))
    total_gen = 0
    for kind in kinds:
        n = counts[kind]
        if n == 0:
            raise Machinery("no %s cases generated" % kind)
        path = ctx.path("cases_%s.ndjson" % kind)
        shutil.move(ctx.specfile("iss_cases_%s.ndjson" % kind), path)
        total_gen += n
        if kind == "rl":
            with open(path) as f:
                first = json.loads(f.readline())
            ctx.add_samples([{"revocation_list_template": first["t"], "expected_allowed": first["exp"]["allowed"]}], n=1)
        p = ctx.run(binary, ["replay-gen", kind, path], timeout=3000)
        cands, st = ctx.harness_output(p)
        if st.get("cases") != n:
            raise Machinery("harness replayed %s of %d %s cases" % (st.get("cases"), n, kind))
        if st.get("accepted", 0) == 0 or st.get("std_parsed", 0) == 0:
            raise Machinery("no %s was created / parsed by the second observer: %s" % (kind, st))
        ctx.cov["evaluations"] += n
        ctx.cov["distinct_nontrivial"] += st.get("accepted", 0)
        ctx.cov["traces_validated_against_impl"] += n
        ctx.cov["gen_%s" % kind] = {"cases": n, "accepted": st.get("accepted"), "std_parsed": st.get("std_parsed")}
        ctx.candidates(binary, cands)

    # U3: rapid templates of all three kinds on the real code, judged by TLC (one log, kind per record)
    recs = []
    for kind in kinds:
        out = ctx.path("rec_%s.ndjson" % kind)
        ctx.run(binary, ["record", kind, out, str(nrec[kind])], timeout=3000)
        part = read_ndjson(out)
        if len(part) != nrec[kind]:
            raise Machinery("recorded %d of %d %s templates" % (len(part), nrec[kind], kind))
        oks = sum(1 for r in part if r["obs"]["outcome"] == "ok")
        if oks < len(part) // 2:
            raise Machinery("only %d of %d random %s templates were accepted" % (oks, len(part), kind))
        ctx.cov["distinct_nontrivial"] += oks
        ctx.cov["random_%s" % kind] = {"records": len(part), "accepted": oks}
        for r in part:
            r["kind"] = kind
        recs += part
    rej = []
    for a in range(0, len(recs), 3000):
        part = recs[a:a + 3000]
        for (i, bad, sbad) in ic.tlc_judge(ctx, TR[0], TR[1], "mixed", part, label="Trace_Issuance csr/crl/rl [%d records]" % len(part)):
            rej.append((a + i, bad, sbad))
    ctx.cov["evaluations"] += len(recs)
    ctx.cov["traces_validated_against_impl"] += len(recs) - len(rej)
    vc = []
    for (i, bad, sbad) in rej:
        t, kind = recs[i]["t"], recs[i]["kind"]
        for observer, b, o in (("zcrypto", bad, recs[i]["obs"]), ("stdlib", sbad, recs[i]["std"])):
            if not b:
                continue
            sig = {"obj": kind, "dir": "val", "observer": observer, "fields": ",".join(b), "stage": stage(o), "bigarc": bigarc(t)}
            sig.update(feat(kind, t))
            vc.append({"sig": sig, "what": "recorded %s observation (%s) rejected by Expected in %s (err=%r)" % (kind, observer, b, o.get("err")),
                       "case": {"kind": kind, "t": t, "obs": o, "observer": observer}})
    ic.val_candidates(ctx, vc, lambda rp, out: ctx.run(binary, ["record-one", rp, out]), TR[0], TR[1], "mixed")

    if not quick:
        for kind in kinds:
            def corrupt(rec, kind=kind):
                v = rec["obs"]["val"]
                if kind == "csr":
                    v["dns"] = v["dns"] + ["extra.example"]
                else:
                    v["thisUpdate"] = v["thisUpdate"] + 1
            ic.selftest_corrupt(ctx, TR[0], TR[1], kind, [r for r in recs if r["kind"] == kind], corrupt, "%s field changed" % kind)
        ctx.note("binding self-test passed (corrupted observations rejected)")

    ctx.cov["exhaustive"] = True
    ctx.cov["gen_cases"] = total_gen
    ctx.cov["rule"] = ("TLC-enumerated templates (Issuance5Gen.tla): revocation lists over every single entry class (serial x reason x "
                       "user-extension), every entry list up to length %d over reason x user-extension classes, CRL-number / time / "
                       "issuer / extension classes and every key type x requested algorithm; requests over names x raw subject, the SAN "
                       "group x extra extensions, every key type x algorithm; legacy CRLs over entry x time classes and issuers x key "
                       "types; non-trivial = the object was created and parsed (not rejected as outside the domain); plus rapid-generated "
                       "templates judged by TLC" % (2 if quick else 3))


def replay(ctx, path):
    binary = ctx.gobuild("c05")
    body = json.load(open(path))
    case = body.get("case", {})
    if case.get("exp"):
        again = ctx.run(binary, ["replay", path], ok_codes=(0, 1)).returncode == 1
    else:
        again = reproduce_val(ctx, binary, path, case["kind"])
    print("REPRODUCED" if again else "not reproduced")
    return 1 if again else 0
