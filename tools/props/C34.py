"""C34 - concurrent use of a tls.Conn is safe (TLSConn.tla, TLSConnImpl.tla, MC_TLSConn.tla,
Trace_TLSConn.tla; harness cmd/c34).

  U1  TLC checks the implementation-shaped lock model TLSConnImpl (mutual exclusion per lock, lock
      order, predicted race freedom, Close-during-Write as coded, activeCall exact, no stuck goroutine
      once the transport is down) for every program combination of a menu, and the liveness
      properties under per-goroutine weak fairness in a separate configuration.
  U2  TLC -simulate behaviours of the same model are exported as schedules (call starts, transport
      permits, peer sends / closes, deadline expiry).
  U3  each schedule is driven against a real zcrypto tls.Conn over a harness-owned gated transport
      (plain build and -race build); the recorded call/peer events are judged by TLC against the
      A layer (Trace_TLSConn.tla); race reports with a zcrypto/tls frame and calls still blocked
      after the transport went down are the observations for the other two clauses.
"""
import hashlib
import json
import os
import random
import re
import subprocess
import threading
import time

import vlib
from vlib import Machinery, read_ndjson, write_ndjson

META = {
    "technique": "TLA+ lock model of tls.Conn (TLC: exhaustive interleavings of <=3 goroutines x <=3 calls for a menu of programs, liveness under weak fairness); TLC-simulated schedules driven against the real tls.Conn over a gated transport in plain and -race builds; recorded executions validated by TLC against the stream/termination monitor",
    "text": "TLSConnImpl.tla models one action per lock acquisition / atomic operation / blocking transport operation of tls/conn.go (handshakeMutex, in, out, activeCall CAS with the closed bit, handshakeStatus, closeNotify, Close during Write). TLC checks mutual exclusion, lock order, predicted data-race freedom (no two enabled actions with conflicting field accesses and no common lock), deadlock freedom once the transport is down, and netClosed/peerClosed/deadlines-expired ~> AllDone. Behaviours of this model are replayed as gate-release schedules on a real client or server tls.Conn (TLS 1.0/1.2/1.3) talking to a real zcrypto peer; every recorded execution is accepted by TLC only if each direction's bytes arrive as a prefix in order without duplication or holes, successful Writes are delivered, and every started call ended after the transport went down. The same schedules run under the Go race detector with a scheduler that adds no happens-before edges between the goroutines under test. Model checking is exhaustive for the bounded model; the binding to the code is by sampled schedules.",
    "note": "Trusted: TLC, the Go race detector (observer for the data-race clause; it only sees races on executed schedules), the harness transport (reliable, ordered), runtime.Stack goroutine states for quiescence detection. Termination on the real code is bounded by a 20 s watchdog (>= 1000 x call latency) and must repeat in a fresh process. Whether concurrent Writes may interleave at record granularity is left open (observation only). Renegotiation and peer-initiated KeyUpdate are modelled (KeyUpdate) or excluded (renegotiation) but not driven on the real code.",
}

TRACE = "tlsconn_trace.ndjson"
SHAPES = {("client", "1.2"): "ShapeClient12", ("client", "1.3"): "ShapeClient13",
          ("server", "1.2"): "ShapeServer12", ("server", "1.3"): "ShapeServer13",
          ("client", "1.0"): "ShapeClient12", ("server", "1.0"): "ShapeServer12"}
API = ["Read", "Write", "Handshake", "HandshakeContext", "ConnectionState", "SetDeadline", "CloseWrite", "Close"]


# ----------------------------------------------------------------------------- TLC in the background

class BgTLC(threading.Thread):
    """Run a list of TLC jobs (model checking) while the main thread builds and replays.  Uses its
    own metadir/config names; results are folded into the evidence by the main thread."""

    def __init__(self, ctx, jobs):
        super().__init__()
        self.ctx, self.jobs, self.results, self.error = ctx, jobs, [], None

    def run(self):
        try:
            for j in self.jobs:
                self.results.append((j, self.one(j)))
        except Exception as e:  # reported by the main thread
            self.error = e

    def one(self, j):
        ctx = self.ctx
        text = open(os.path.join(vlib.SPEC, "cfg", j["cfg"])).read()
        for k, v in j["subst"].items():
            text = text.replace("${%s}" % k, str(v))
        left = re.findall(r"\$\{(\w+)\}", text)
        if left:
            raise Machinery("cfg %s: unsubstituted placeholders %s" % (j["cfg"], left))
        tag = "bg%d" % j["n"]
        cfgname = "%s_%s" % (tag, j["cfg"])
        with open(os.path.join(ctx.specdir, cfgname), "w") as f:
            f.write(text)
        meta = ctx.path("meta_" + tag)
        cmd = ["timeout", str(j.get("timeout", 900)), "tlc", "-workers", str(j.get("workers", ctx.workers)),
               "-metadir", meta, "-config", cfgname, "-noGenerateSpecTE"]
        if j.get("coverage"):
            cmd += ["-coverage", "1"]
        cmd.append(j["module"] + ".tla")
        t = time.time()
        p = subprocess.run(cmd, cwd=ctx.specdir, stdout=subprocess.PIPE, stderr=subprocess.STDOUT, text=True,
                           errors="replace")
        r = vlib.TLCResult(p.returncode, p.stdout, time.time() - t)
        return r


def fold_counts(ctx, job, r):
    lab = job["label"]
    ctx.log("tlc %s: rc=%d generated=%d distinct=%d depth=%d %.1fs" % (lab, r.rc, r.generated, r.distinct, r.depth, r.wall))
    ctx.cov["states"] += r.distinct
    ctx.cov["transitions"] += r.generated
    ctx.cov["tlc_runs"].append({"run": lab, "rc": r.rc, "generated": r.generated, "distinct": r.distinct,
                                "depth": r.depth, "wall_s": round(r.wall, 2)})
    if r.rc == 124:
        raise Machinery("TLC timeout on %s" % lab)


def fold(ctx, job, r):
    lab = job["label"]
    ctx.log("tlc %s: rc=%d generated=%d distinct=%d depth=%d %.1fs" % (lab, r.rc, r.generated, r.distinct, r.depth, r.wall))
    ctx.cov["states"] += r.distinct
    ctx.cov["transitions"] += r.generated
    ctx.cov["tlc_runs"].append({"run": lab, "rc": r.rc, "generated": r.generated, "distinct": r.distinct,
                                "depth": r.depth, "wall_s": round(r.wall, 2)})
    if r.rc == 124:
        raise Machinery("TLC timeout on %s" % lab)
    exp = job.get("expect_violation")
    if exp:
        if not r.violated:
            raise Machinery("model mutation %s was not caught by any invariant (rc=%d): the B-layer invariants are vacuous" % (lab, r.rc))
        return
    if r.violated:
        # design-level result: a prediction, never a verdict about the code
        ctx.note("B-model counterexample in %s (%s): design-level prediction only%s" %
                 (lab, r.violated, "" if job.get("prediction") else "; the real code is judged by the recorded executions"))
        ctx.bviol = getattr(ctx, "bviol", 0) + 1
        return
    if r.rc != 0:
        raise Machinery("TLC failed on %s (rc=%d):\n%s" % (lab, r.rc, "\n".join(r.out.splitlines()[-30:])))
    if job.get("coverage"):
        # judged over the union of the covered configurations (run(): an action taken in none of them = vacuous)
        ctx.never_taken = getattr(ctx, "never_taken", None)
        nv = set(uncovered_actions(r.out))
        ctx.never_taken = nv if ctx.never_taken is None else (ctx.never_taken & nv)


def uncovered_actions(out):
    """Action names of TLSConnImpl whose coverage count is zero (tlc -coverage 1)."""
    last = {}      # the final report counts (with -coverage 1 TLC also prints interim reports)
    for m in re.finditer(r"<(\w+) line \d+, col \d+ to line \d+, col \d+ of module TLSConnImpl>: (\d+):(\d+)", out):
        last[m.group(1)] = int(m.group(3))
    if "HsLock" not in last:
        raise Machinery("no coverage report found in TLC output")
    return sorted(n for n, total in last.items() if total == 0 and n != "Init")


def wit_jobs(ctx):
    """Directed schedules (U2): one schedule per state in which a behaviour first takes a branch of interest."""
    jobs = []
    base = {"G": "G3", "MAXPEER": "1", "KINDS": '{"d1"}', "WITLEN": "16", "TARGETS": "AllTags", "RENEG": "FALSE",
            "RENEGOK": "FALSE"}
    # (side, ver, programs, record kinds, targets, renegotiation allowed)
    if ctx.quick:
        plan = [("client", "1.2", "ProgsWitQ", '{"d1"}', "AllTags", False),
                ("client", "1.3", "ProgsKuQ", '{"ku","bad"}', "KuTags", False),
                ("client", "1.2", "ProgsRnQ", '{"d1","hr","bad"}', "RnTags", True),
                ("server", "1.2", "ProgsKuQ", '{"bad"}', "BadTags", False)]
    else:
        plan = [("client", "1.2", "ProgsWit", '{"d1","d2"}', "AllTags", False),
                ("client", "1.3", "ProgsWitQ", '{"d1","d2"}', "AllTags", False),
                ("server", "1.2", "ProgsWitQ", '{"d1","d2"}', "AllTags", False),
                ("server", "1.3", "ProgsWitQ", '{"d1","d2"}', "AllTags", False),
                ("client", "1.3", "ProgsKu", '{"d1","ku","kun","bad"}', "KuTags", False),
                ("client", "1.2", "ProgsRn", '{"d1","hr","bad"}', "RnTags", True),
                ("server", "1.2", "ProgsKu", '{"d1","bad"}', "BadTags", False),
                ("server", "1.3", "ProgsKu", '{"d1","bad"}', "BadTags", False)]
    for side, ver, progs, kinds, targets, reneg in plan:
        s = dict(base, PROGS=progs, SHAPE=SHAPES[(side, ver)], KINDS=kinds, TARGETS=targets,
                 MAXPEER="1" if ctx.quick else "2", RENEG="TRUE" if reneg else "FALSE")
        jobs.append({"n": 100 + len(jobs), "label": "directed %s %s %s %s" % (side, ver, progs, targets), "module": "MC_TLSConn",
                     "cfg": "TLSConn_wit.cfg", "subst": s, "side": side, "ver": ver, "reneg": reneg, "timeout": 3000})
    return jobs


def wit_schedules(ctx, job, r, per_tag, rng):
    if r.rc != 0:
        raise Machinery("TLC failed on %s (rc=%d):\n%s" % (job["label"], r.rc, "\n".join(r.out.splitlines()[-30:])))
    by_tag = {}
    for l in r.out.splitlines():
        if l.startswith('"{'):
            s = json.loads(json.loads(l))
            by_tag.setdefault(s["tag"], []).append(s)
    if not by_tag:
        raise Machinery("no directed schedule generated by %s" % job["label"])
    out = []
    for tag in sorted(by_tag):
        c = by_tag[tag]
        c.sort(key=lambda s: json.dumps(s, sort_keys=True))
        rng.shuffle(c)
        out += c[:per_tag]
    ctx.cov.setdefault("directed_branches", {})[job["label"]] = {t: len(v) for t, v in by_tag.items()}
    return out


def mc_jobs(ctx):
    q = ctx.quick
    jobs = []

    def add(label, cfg, **subst):
        s = {"G": "G3", "PROGS": "ProgsQ", "SHAPE": "ShapeClient12", "MAXPEER": "1", "KINDS": '{"d2"}', "MUT": "{}",
             "RENEG": "FALSE", "RENEGOK": "FALSE"}
        extra = {k: subst.pop(k) for k in list(subst) if k in ("expect_violation", "coverage", "timeout", "prediction")}
        s.update(subst)
        if cfg == "TLSConn_live.cfg":
            s.pop("MUT")
        j = {"n": len(jobs) + 1, "label": label, "module": "MC_TLSConn", "cfg": cfg, "subst": s}
        j.update(extra)
        jobs.append(j)

    if q:
        add("safety client12 ProgsQ", "TLSConn_mc.cfg")
        add("safety renegotiation+bad record ProgsRnQ", "TLSConn_mc.cfg", PROGS="ProgsRnQ", RENEG="TRUE", KINDS='{"d1","hr","bad"}')
        add("safety KeyUpdate+bad record ProgsKuQ", "TLSConn_mc.cfg", PROGS="ProgsKuQ", SHAPE="ShapeClient13", KINDS='{"d1","ku","bad"}')
        add("liveness G2", "TLSConn_live.cfg", G="G2", PROGS="ProgsLive2", MAXPEER="1")
    else:
        add("safety client12 ProgsQuick", "TLSConn_mc.cfg", PROGS="ProgsQuick", coverage=True, timeout=3000,
            KINDS='{"d1","d2"}')
        add("safety client13 ProgsMut hs+ku", "TLSConn_mc.cfg", PROGS="ProgsMut", SHAPE="ShapeClient13", MAXPEER="2",
            KINDS='{"d2","hs","ku"}', timeout=3000, coverage=True)
        add("safety server12 ProgsMut", "TLSConn_mc.cfg", PROGS="ProgsMut", SHAPE="ShapeServer12", timeout=3000)
        add("safety server13 ProgsMut", "TLSConn_mc.cfg", PROGS="ProgsMut", SHAPE="ShapeServer13", timeout=3000)
        add("safety renegotiation ProgsRn", "TLSConn_mc.cfg", PROGS="ProgsRn", RENEG="TRUE", KINDS='{"d1","hr"}', MAXPEER="2",
            timeout=3000, coverage=True)
        add("safety HelloRequest refused ProgsRn", "TLSConn_mc.cfg", PROGS="ProgsRn", RENEG="FALSE", KINDS='{"d1","hr"}',
            MAXPEER="2", timeout=3000, coverage=True)
        add("safety KeyUpdate+bad record ProgsKu", "TLSConn_mc.cfg", PROGS="ProgsKu", SHAPE="ShapeClient13", KINDS='{"d1","ku","kun","bad"}',
            MAXPEER="2", timeout=3000)
        add("safety bad record server12 ProgsKu", "TLSConn_mc.cfg", PROGS="ProgsKu", SHAPE="ShapeServer12", KINDS='{"d1","bad"}',
            MAXPEER="2", timeout=3000)
        add("liveness proto", "TLSConn_live.cfg", PROGS="ProgsProto", MAXPEER="1", timeout=3000)
        add("liveness ProgsQ ku", "TLSConn_live.cfg", PROGS="ProgsQ", SHAPE="ShapeClient13", KINDS='{"d2","ku"}', timeout=3000)
        add("liveness renegotiation ProgsRn", "TLSConn_live.cfg", PROGS="ProgsRn", RENEG="TRUE", KINDS='{"d1","hr"}', timeout=3000)
        for m in ("cs_nolock", "cn_in", "wr_vers_early"):
            add("model mutation " + m, "TLSConn_mc.cfg", PROGS="ProgsMut", MUT='{"%s"}' % m, expect_violation=True)
        add("model mutation rn_store_early", "TLSConn_mc.cfg", PROGS="ProgsRn", RENEG="TRUE", KINDS='{"d1","hr"}', MAXPEER="2",
            MUT='{"rn_store_early"}', expect_violation=True)
        add("model mutation ku_nolock", "TLSConn_mc.cfg", PROGS="ProgsKu", SHAPE="ShapeClient13", KINDS='{"d1","ku","kun"}',
            MAXPEER="2", MUT='{"ku_nolock"}', expect_violation=True)
        add("model mutation al_nolock", "TLSConn_mc.cfg", PROGS="ProgsKu", SHAPE="ShapeClient13", KINDS='{"d1","bad"}',
            MAXPEER="2", MUT='{"al_nolock"}', expect_violation=True)
        # a peer that goes through with the renegotiation (no zcrypto peer does): design-level prediction only
        add("prediction: renegotiation accepted by the peer", "TLSConn_mc.cfg", PROGS="ProgsRn", RENEG="TRUE", RENEGOK="TRUE",
            KINDS='{"d1","hr"}', MAXPEER="2", timeout=3000, prediction=True)
    return jobs


# ----------------------------------------------------------------------------- schedules

def gen_schedules(ctx, side, ver, num, genmin, maxpeer=2):
    """U2: behaviours of the B model that run every program to its end, as controllable events."""
    r = ctx.tlc("MC_TLSConn", "TLSConn_sim.cfg",
                subst={"G": "G3", "PROGS": "ProgsGen3", "SHAPE": SHAPES[(side, ver)], "MAXPEER": maxpeer,
                       "KINDS": '{"d1","d2"}', "GENMIN": genmin, "RENEG": "FALSE", "RENEGOK": "FALSE"},
                simulate="num=%d" % num, depth=400, workers=1, timeout=900,
                label="simulate %s %s num=%d genmin=%d" % (side, ver, num, genmin))
    out, seen = [], set()
    for l in r.out.splitlines():
        if not l.startswith('"{'):
            continue
        s = json.loads(json.loads(l))
        k = json.dumps(s, sort_keys=True)
        if k in seen:
            continue
        seen.add(k)
        out.append(s)
    if not out:
        raise Machinery("TLC simulation produced no complete behaviour")
    return out


CALLS = ["Read", "Write", "Write2", "Handshake", "HandshakeCtx", "ConnState", "SetDeadline", "CloseWrite", "Close",
         "VerifyHostname", "OCSPResponse", "SetReadDeadline", "SetWriteDeadline"]
CALLW = [12, 10, 6, 4, 2, 5, 2, 4, 4, 1, 1, 1, 1]


def random_schedule(rng):
    """Seeded random programs and event order (inputs only; nothing here judges a result)."""
    ng = rng.choice([2, 3, 3])
    progs = [[rng.choices(CALLS, CALLW)[0] for _ in range(rng.randint(1, 4))] for _ in range(ng)]
    ev = []
    starts = [g + 1 for g, p in enumerate(progs) for _ in p]
    rng.shuffle(starts)
    early = rng.random() < 0.25      # handshake interleaved with the other starts
    if not early:
        ev += [{"t": "s", "g": starts.pop(0)}]
        ev += [{"t": "w"}, {"t": "r"}, {"t": "w"}, {"t": "r"}]
    nps = 0
    while starts or rng.random() < 0.5:
        x = rng.random()
        if starts and x < 0.35:
            ev.append({"t": "s", "g": starts.pop(0)})
        elif x < 0.60:
            ev.append({"t": "w"})
        elif x < 0.80:
            ev.append({"t": "r"})
        elif x < 0.90 and nps < 4:
            nps += 1
            ev.append({"t": "ps", "k": rng.choice(["d1", "d2"])})
        elif x < 0.94:
            ev.append({"t": "x"})
        elif x < 0.97 and not starts:
            ev.append({"t": "pc", "m": rng.choice(["cn", "abort"])})
        elif x < 0.985:
            ev.append({"t": rng.choice(["ku", "kun", "hr", "bad"])})   # ku: TLS 1.3 only, hr: TLS <= 1.2 only
        elif len(ev) > 60:
            break
    return {"progs": progs, "ev": ev}


def stress_schedule(rng):
    """Free-running schedule (every gate open): a reader, ConnectionState pollers and looping writers, and
    a post-handshake message from the peer while they run."""
    kind = rng.choice(["hr", "hr", "ku"])
    progs = [["Read", "Read", "Read"]]
    for _ in range(rng.choice([1, 2, 2])):
        progs.append(["ConnStateLoop"])
    for _ in range(rng.choice([1, 2, 2])):
        progs.append(["WriteLoop"])
    if rng.random() < 0.3:
        progs.append(["Write", "CloseWrite"] if kind == "ku" else ["Handshake", "Write"])
    ev = [{"t": "s", "g": 1}, {"t": "ps", "k": "d1"}]
    order = list(range(2, len(progs) + 1))
    rng.shuffle(order)
    ev += [{"t": "s", "g": g} for g in order]
    ev += [{"t": kind}]
    if rng.random() < 0.5:
        ev += [{"t": "ps", "k": "d1"}]
    if kind == "ku" and rng.random() < 0.5:
        ev += [{"t": "kun"}, {"t": "ku"}]
    return {"progs": progs, "ev": ev}, kind


def concretise(scheds, first_id, side, ver, mode, seed, tickets=None, rdbuf=6, nodrs=True, reneg=False):
    res = []
    for i, s in enumerate(scheds):
        d = {"id": first_id + i, "progs": s["progs"], "ev": s["ev"], "ver": ver, "side": side, "mode": mode,
             "seed": seed * 1000 + i, "nodrs": nodrs, "tickets": (ver == "1.3") if tickets is None else tickets,
             "rdbuf": rdbuf, "reneg": reneg}
        res.append(d)
    return res


# ----------------------------------------------------------------------------- running the harness

RACE_ENV = {"GORACE": "exitcode=0 halt_on_error=0"}


def run_batch(ctx, binary, scheds, tag, race):
    """Run schedules; a stuck schedule ends the process, the rest continues in a fresh one.
    Returns (events, stderr_text, stats)."""
    spath = ctx.path("sched_%s.ndjson" % tag)
    write_ndjson(spath, scheds)
    events, errs, stats = [], [], {}
    first = 0
    part = 0
    while first < len(scheds):
        part += 1
        opath = ctx.path("events_%s_%d.ndjson" % (tag, part))
        p = ctx.run(binary, ["run", spath, opath, str(first)], timeout=1800, env=RACE_ENV if race else None)
        _, st = ctx.harness_output(p)
        for k, v in st.items():
            if isinstance(v, int) and k != "stopped_at":
                stats[k] = stats.get(k, 0) + v
        events += read_ndjson(opath)
        errs.append(p.stderr)
        stop = st.get("stopped_at", -1)
        if stop < 0:
            break
        first = stop + 1
        if part >= 6:
            # every stuck schedule costs a watchdog period; six observations are enough for a verdict
            ctx.note("batch %s: 6 schedules with stuck calls, remaining %d schedules not run" % (tag, len(scheds) - first))
            break
    return events, "\n".join(errs), stats


FRAME = re.compile(r"^  (\S+)\(\)$")


def parse_races(stderr):
    """[(schedule id, signature, report text)] for every race report; signature None = no zcrypto frame."""
    res = []
    cur = None
    lines = stderr.splitlines()
    i = 0
    while i < len(lines):
        l = lines[i]
        if l.startswith("SCHED "):
            cur = l.split()[1]
        if l.startswith("WARNING: DATA RACE"):
            j = i + 1
            while j < len(lines) and not lines[j].startswith("=================="):
                j += 1
            block = lines[i:j]
            res.append((cur, race_sig(block), "\n".join(block)))
            i = j
        i += 1
    return res


def race_sig(block):
    """Access pair of a race report: for each of the two access stacks the innermost zcrypto function
    and the exported tls.Conn method it was reached from."""
    stacks, cur = [], None
    for l in block:
        if re.match(r"^(Read|Write|Previous read|Previous write|Previous atomic|Atomic) ", l.strip()) and " by " in l:
            cur = []
            stacks.append(cur)
            continue
        if l.startswith("Goroutine ") or l.startswith("Mutex "):
            cur = None
            continue
        m = FRAME.match(l)
        if m and cur is not None:
            cur.append(m.group(1))
    ends = []
    for st in stacks[:2]:
        z = [f for f in st if "github.com/zmap/zcrypto/" in f]
        if not z:
            ends.append(None)
            continue
        inner = z[0].split("github.com/zmap/zcrypto/")[1]
        api = ""
        for f in st:
            m = re.search(r"tls\.\(\*Conn\)\.(\w+)$", f)
            if m and m.group(1) in API:
                api = m.group(1)
        ends.append("%s via %s" % (inner, api or "?"))
    if not any(ends):
        return None
    ends = sorted(e or "(harness)" for e in ends)
    return {"kind": "race", "a": ends[0], "b": ends[-1]}


# ----------------------------------------------------------------------------- verdicts

def split_traces(events):
    tr, cur = [], None
    for e in events:
        if e.get("ev") == "reset":
            cur = [e]
            tr.append(cur)
        elif cur is not None:
            cur.append(e)
    return tr


def stream_sig(rej, sched):
    last = rej[-1]
    opened = {}
    for e in rej:
        if e.get("ev") == "cs":
            opened[(e["g"], e["k"])] = e["call"]
        elif e.get("ev") == "ce":
            opened.pop((e["g"], e["k"]), None)
    if last.get("ev") == "dblw":
        return {"kind": "stream", "at": "overlapping transport writes", "call": "", "side": sched.get("side"),
                "ver": sched.get("ver"), "mode": sched.get("mode")}
    if last.get("ev") == "final" and opened:
        return {"kind": "stuck", "calls": sorted(set(opened.values())), "side": sched.get("side"), "ver": sched.get("ver"),
                "mode": sched.get("mode")}
    at = last.get("ev")
    return {"kind": "stream", "at": at, "call": last.get("call", ""), "side": sched.get("side"), "ver": sched.get("ver"),
            "mode": sched.get("mode")}


def coverage_of(events):
    """Measured coverage of the recorded executions (not an oracle): per trace whether two calls of
    different goroutines overlapped in time, classes seen per call kind, bytes in each direction."""
    overl = 0
    classes = {}
    both = 0
    keys = set()
    for tr in split_traces(events):
        openc = set()
        ov = False
        pr = rd = False
        calls = []
        for e in tr:
            if e["ev"] == "cs":
                if any(g != e["g"] for g, _ in openc):
                    ov = True
                openc.add((e["g"], e["k"]))
            elif e["ev"] == "ce":
                openc.discard((e["g"], e["k"]))
                classes.setdefault(e["call"], set()).add(e["cls"])
                calls.append((e["g"], e["k"], e["call"], e["cls"]))
                if e["call"] == "Read" and e.get("runs"):
                    rd = True
            elif e["ev"] == "pr" and e.get("runs"):
                pr = True
        if ov:
            overl += 1
            keys.add(hashlib.sha1(json.dumps(sorted(calls)).encode()).hexdigest())
        if pr and rd:
            both += 1
    return overl, classes, both, len(keys)


def judge(ctx, binary, binary_race, batches):
    """Trace validation of the recorded events of all batches (A layer, one TLC run) + race reports
    -> candidates.  batches: [(tag, schedules, race_build, events, stderr)]"""
    events, info = [], {}
    for tag, scheds, race, ev, err in batches:
        by_id = {s["id"]: s for s in scheds}
        info[tag] = (by_id, race)
        short = [e for e in ev if e.get("short")]
        if short:
            raise Machinery("undecodable chunk in %s: %s" % (tag, json.dumps(short[0])[:200]))
        for e in ev:
            if e.get("ev") == "reset":
                e["batch"] = tag
        events += ev
    acc, rejects = ctx.trace_validate("Trace_TLSConn", "TLSConn_trace.cfg", TRACE, events, timeout=1800)
    ctx.cov["traces_validated_against_impl"] += acc
    ctx.cov["evaluations"] += len(events)
    cands = []
    for rej in rejects:
        by_id, race = info[rej[0]["batch"]]
        s = by_id[rej[0]["id"]]
        sig = stream_sig(rej, s)
        cands.append({"sig": sig, "what": "%s: execution of schedule %d (%s) rejected by Trace_TLSConn at %s" %
                      (sig["kind"], s["id"], rej[0]["batch"], json.dumps(rej[-1])[:300]),
                      "case": {"schedule": s, "kind": sig["kind"], "race_build": race}})
    for tag, scheds, race, ev, err in batches:
        if not race:
            continue
        by_id = info[tag][0]
        seen = set()
        for sid, sig, text in parse_races(err):
            if sig is None:
                raise Machinery("race report without a zcrypto frame (harness problem) in %s:\n%s" % (tag, text[:3000]))
            k = json.dumps(sig, sort_keys=True)
            if k in seen or sid is None or not sid.isdigit():
                continue
            seen.add(k)
            s = by_id[int(sid)]
            cands.append({"sig": sig, "what": "data race reported by the Go race detector: %s <-> %s (schedule %s, %s)" %
                          (sig["a"], sig["b"], sid, tag), "case": {"schedule": s, "kind": "race", "race_build": True,
                                                                     "report": text[:6000]}})
    # deterministic (strict) schedules first: they reproduce reliably
    cands.sort(key=lambda c: 0 if c["case"]["schedule"].get("mode") == "strict" else 1)
    if cands:
        ctx.candidates(binary, cands, reproduce=lambda path, body: reproduce(ctx, binary, binary_race, body))
    return acc, len(rejects)


def reproduce(ctx, binary, binary_race, body, tries=4):
    """Re-run the schedule of a replay file alone in a fresh process."""
    case = body["case"]
    kind = case["kind"]
    s = case["schedule"]
    path = ctx.path("replay_case.json")
    with open(path, "w") as f:
        json.dump({"sig": body.get("sig", {}), "case": {"schedule": s, "kind": kind}}, f)
    if s.get("mode") != "strict":
        # free-running / stress schedules hit a narrow window only now and then (measured about
        # 1 in 7 for the renegotiation lock-order window): give the fresh-process replay enough
        # attempts that an unreproduced candidate really means "not reproducible"
        tries = max(tries, 24)
    for t in range(tries):
        out = ctx.path("replay_events.ndjson")
        if kind == "race":
            p = ctx.run(binary_race, ["replay", path, out], ok_codes=(0, 1), env=RACE_ENV, timeout=300)
            for _, sig, _ in parse_races(p.stderr):
                if sig == body["sig"]:
                    return True
            continue
        b = binary_race if case.get("race_build") else binary
        p = ctx.run(b, ["replay", path, out], ok_codes=(0, 1), env=RACE_ENV if case.get("race_build") else None, timeout=300)
        if kind == "stuck":
            if p.returncode == 1:
                return True
            continue
        ev = read_ndjson(out)
        _, rej = ctx.trace_validate("Trace_TLSConn", "TLSConn_trace.cfg", TRACE, ev, max_rejects=1)
        if rej and stream_sig(rej[0], s)["kind"] == kind:   # (same kind of rejection: stream / stuck)
            return True
    return False


# ----------------------------------------------------------------------------- main

def run(ctx):
    quick = ctx.quick
    ctx._prepare_spec()
    mcj = mc_jobs(ctx)
    bgs = [BgTLC(ctx, mcj[0::2]), BgTLC(ctx, mcj[1::2])]
    for b in bgs:
        b.start()
    bgw = BgTLC(ctx, wit_jobs(ctx))
    bgw.start()
    try:
        binary = ctx.gobuild("c34")
        p = ctx.run(binary, ["selftest"])
        _, st = ctx.harness_output(p)
        if st.get("selftest_cases", 0) < 100:
            raise Machinery("payload abstraction self test did not run")
        binary_race = ctx.gobuild("c34", race=True)

        # U2: schedules from the B model
        plan = []   # (side, ver, schedules)
        if quick:
            a = gen_schedules(ctx, "client", "1.2", 110, 12)
            plan = [("client", "1.2", a[:70]), ("client", "1.3", a[40:]), ("server", "1.2", a[:25]), ("server", "1.3", a[70:])]
        else:
            for side, ver in (("client", "1.2"), ("client", "1.3"), ("server", "1.2"), ("server", "1.3")):
                ss = []
                for gm, num in ((0, 50), (8, 200), (16, 200)):
                    ss += gen_schedules(ctx, side, ver, num, gm)
                plan.append((side, ver, ss))
            plan.append(("client", "1.0", plan[0][2][:150]))
        nid = 1
        strict, loose = [], []
        # directed schedules
        bgw.join()
        if bgw.error:
            raise Machinery("background TLC (directed schedules): %r" % (bgw.error,))
        rngw = random.Random(ctx.seed)
        ndir = 0
        first_directed = nid
        for j, r in bgw.results:
            fold_counts(ctx, j, r)
            ws = wit_schedules(ctx, j, r, 10 if quick else 40, rngw)
            c = concretise(ws, nid, j["side"], j["ver"], "strict", ctx.seed, reneg=j.get("reneg", False))
            nid += len(c)
            ndir += len(c)
            strict += c
        ctx.cov["directed_schedules"] = ndir
        directed_ids = set(range(first_directed, nid))
        for side, ver, ss in plan:
            c = concretise(ss, nid, side, ver, "strict", ctx.seed)
            nid += len(c)
            strict += c
            c = concretise(ss, nid, side, ver, "loose", ctx.seed, nodrs=False)
            nid += len(c)
            loose += c
        rng = random.Random(ctx.seed)
        nrand = 80 if quick else 1500
        rnd = []
        for i in range(nrand):
            side = rng.choice(["client", "client", "server"])
            ver = rng.choice(["1.2", "1.3", "1.3", "1.0"] if not quick else ["1.2", "1.3"])
            rnd += concretise([random_schedule(rng)], nid, side, ver, rng.choice(["loose", "loose", "strict"]), ctx.seed + i,
                              rdbuf=rng.choice([6, 6, 12, 30]), nodrs=rng.random() < 0.5,
                              reneg=(side == "client" and ver != "1.3" and rng.random() < 0.5))
            nid += 1
        stress = []
        for i in range(30 if quick else 300):
            sc, kind = stress_schedule(rng)
            stress += concretise([sc], nid, "client", "1.3" if kind == "ku" else "1.2", "free", ctx.seed + i,
                                 reneg=(kind == "hr"))
            nid += 1
        ctx.add_samples([{"schedule": strict[len(strict) // 3]}], n=1)

        total_stats = {}
        batches = []

        def go(tag, scheds, race):
            ev, err, st = run_batch(ctx, binary_race if race else binary, scheds, tag, race)
            for k, v in st.items():
                total_stats[k] = total_stats.get(k, 0) + v
            batches.append((tag, scheds, race, ev, err))

        go("strict", strict, False)
        if quick:
            go("strict-race", strict[::2], True)
            go("loose-race", loose[1::3] + rnd + stress, True)
            go("stress", stress, False)
        else:
            go("strict-race", [s for i, s in enumerate(strict) if i % 2 == 0 or s["id"] in directed_ids], True)
            go("loose-race", loose[::2] + rnd + stress, True)
            go("loose", loose[1::2] + rnd + stress, False)
        acc, nrej = judge(ctx, binary, binary_race, batches)
        if not quick and nrej == 0:
            # observation (left open by the statement): did every Write arrive as one contiguous piece?
            r = ctx.tlc("Trace_TLSConn", "TLSConn_trace.cfg", workers=1, expect_ok=False, count=False, timeout=1800,
                        label="Trace_TLSConn atomicity observation")
            na = len(re.findall(r'<<"NONATOMIC", \d+>>', r.out))
            ctx.cov["executions_with_interleaved_writes"] = na
            if na:
                print("MODEL-DRIFT property=C34 %d recorded executions in which two Writes interleaved at record "
                      "granularity (the B model predicts atomic Writes; the statement leaves it open)" % na, flush=True)
        allev = [e for b in batches for e in b[3]]

        # vacuity of the binding
        overl, classes, both, nkeys = coverage_of(allev)
        if total_stats.get("peer_handshakes_ok", 0) < 20:
            raise Machinery("vacuous: fewer than 20 completed handshakes (%s)" % total_stats)
        if total_stats.get("events_applied", 0) < 2 * total_stats.get("events_skipped", 0):
            raise Machinery("vacuous: schedules mostly inapplicable to the real code (%s)" % total_stats)
        for c in ("Read", "Write", "Write2", "Handshake", "ConnState", "SetDeadline", "CloseWrite", "Close"):
            if "ok" not in classes.get(c, set()):
                raise Machinery("vacuous: no successful %s call in any recorded execution" % c)
        if both < 10 or overl < 20:
            raise Machinery("vacuous: %d executions with bytes in both directions, %d with overlapping calls" % (both, overl))
        ctx.cov["distinct_nontrivial"] = nkeys
        ctx.cov["rule"] = ("recorded executions of TLC-simulated and seeded random schedules on a real tls.Conn pair "
                           "(client and server side, TLS 1.2/1.3%s; plain and -race builds); non-trivial = calls of "
                           "different goroutines overlapped in time, counted by distinct multiset of (goroutine, call, result class)"
                           % ("" if quick else "/1.0"))
        ctx.cov["harness"] = total_stats
        ctx.cov["result_classes"] = {k: sorted(v) for k, v in classes.items()}
        ctx.cov["executions_with_bytes_both_ways"] = both
        ctx.cov["exhaustive"] = False

        if not quick:
            selftest(ctx, allev)
    finally:
        bgw.join()
        for b in bgs:
            b.join()
    for b in bgs:
        if b.error:
            raise Machinery("background TLC: %r" % (b.error,))
    done = sorted([jr for b in bgs for jr in b.results], key=lambda jr: jr[0]["n"])
    for j, r in done:
        fold(ctx, j, r)
    if len(done) != len(mcj):
        raise Machinery("background TLC did not run every job")
    if getattr(ctx, "never_taken", None):
        raise Machinery("vacuous model check: actions taken in no covered configuration: %s" % ", ".join(sorted(ctx.never_taken)))
    ctx.assumptions.append("transport reliable and ordered; peer honest (real zcrypto endpoint)")
    ctx.assumptions.append("Go race detector and runtime.Stack goroutine states are trusted observers")


def selftest(ctx, events):
    """Binding self-test: corrupted / dropped / duplicated observations must be rejected."""
    import copy
    trs = [t for t in split_traces(events) if any(e["ev"] == "pr" and e.get("runs") for e in t)
           and any(e["ev"] == "ce" and e["call"] == "Read" and e.get("runs") for e in t)
           and not any(e["ev"] == "pclose" for e in t)
           and any(e["ev"] == "ce" and e["call"] in ("Write", "Write2") and e["cls"] == "ok" for e in t)]
    if not trs:
        raise Machinery("selftest: no recorded execution with data in both directions")
    t = trs[0]

    def rejected(tr, what):
        _, rej = ctx.trace_validate("Trace_TLSConn", "TLSConn_trace.cfg", TRACE, tr, max_rejects=1)
        if not rej:
            raise Machinery("selftest: %s was accepted - the trace specification constrains nothing" % what)

    a = copy.deepcopy(t)
    e = next(e for e in a if e["ev"] == "pr" and e.get("runs"))
    e["runs"][0]["off"] += 1
    rejected(a, "a shifted run at the peer")
    a = copy.deepcopy(t)
    i = next(i for i, e in enumerate(a) if e["ev"] == "ce" and e["call"] == "Read" and e.get("runs"))
    a.insert(i + 1, dict(a[i], k=99))
    a.insert(i, {"ev": "cs", "g": a[i]["g"], "k": 99, "call": "Read", "ts": 0})
    rejected(a, "a Read returning bytes twice")
    a = [e for e in t if not (e["ev"] == "pr")]
    rejected(a, "a successful Write that never arrived")
    i = next(i for i, e in enumerate(t) if e["ev"] == "ce")
    a = t[:i] + t[i + 1:]
    rejected(a, "a call that never ended")
    ctx.note("binding self-test passed (shifted run, duplicated bytes, lost write, unended call all rejected)")


def replay(ctx, path):
    body = json.load(open(path))
    binary = ctx.gobuild("c34")
    binary_race = ctx.gobuild("c34", race=True)
    again = reproduce(ctx, binary, binary_race, body)
    print("REPRODUCED" if again else "not reproduced")
    return 1 if again else 0
