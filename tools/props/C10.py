"""C10 - the PKI graph is determined by its certificate set (Graph.tla, GraphImpl.tla, GraphGen.tla,
Trace_Graph.tla, GraphCatalog.tla; harness cmd/c10, lib/graphobs; hook /repo/verifier/verif_graph.go)."""
import copy
import json

from vlib import Machinery, read_ndjson, write_ndjson
from props import graphlib as gl

META = {
    "technique": "TLA+ A/B-layer specification of verifier.Graph: TLC refinement check of the AddCert/AddRoot model over every insertion order, TLC-enumerated insertion histories replayed on the real graph with every intermediate graph judged by TLC against the A layer, TLC validation of graphs recorded from seeded random PKIs",
    "text": "Graph.tla states the property as a judge over an observed graph (nodes = distinct (subject,key), edges = distinct certificates, roots = certificates added as roots, issuer in the set of verifying nodes with the issuer name and none iff that set is empty, adjacency maps and missing-issuer index consistent with the issuer relation). GraphImpl.tla models AddCert as coded (first verifying node in creation order, missingIssuerNode, fix-up only on node creation) and TLC checks that every reachable state of every insertion order (duplicates, root/non-root re-insertion) of the catalogue universes and of all universes of the 2 names x 2 keys product is accepted by that judge. TLC then enumerates the insertion histories; each is replayed on a real verifier.Graph built from real certificates (Go standard library), the real graph is read through verif-tagged accessors and the public API after every insertion, and TLC judges each distinct observation. Seeded random PKIs of 20-40 certificates are inserted in random order and judged the same way. Bounded-exhaustive over small universes plus sampled large ones, which matches a deterministic data structure whose risk is order dependence.",
    "note": "Trusted: TLC, Go toolchain and crypto/x509 + crypto/ed25519 (used to create certificates and to check the concretisation), the accessor file verif_graph.go, ideal signatures (a certificate verifies under exactly its signing key; the 'several nodes verify' clause is exercised in the model only, with key aliases). AppendFromPEM is not driven. Universes larger than the bounds are sampled.",
}


def gen_histories(ctx, names, productk, maxops, maxdups, dupcard, minnew, label):
    r = ctx.tlc("GraphGen", "Graph_gen.cfg",
                subst={"NAMES": gl.tla_set(names), "PRODUCTK": productk, "MAXOPS": maxops,
                       "MAXDUPS": maxdups, "DUPCARD": dupcard, "MINNEW": minnew}, timeout=3000, label=label)
    hs = gl.printed_tuples(r.out)
    if not hs:
        raise Machinery("generator %s produced no histories" % label)
    return hs


def run(ctx):
    quick = ctx.quick
    # ---- U1: B => A, every insertion order -------------------------------------------------
    names = gl.SMALL + (gl.FIVE_G if quick else gl.FIVE + gl.SIX)
    r = ctx.tlc("GraphImpl", "Graph_mc.cfg", subst={"NAMES": gl.tla_set(names), "PRODUCTK": 2 if quick else 4},
                timeout=3000, expect_ok=False, label="GraphImpl refines Graph (catalogue + product)")
    if r.violated:
        ctx.note("design-level: the B model GraphImpl does not refine the A layer (%s); the verdict comes only "
                 "from the real code below" % r.violated)
    elif r.rc != 0:
        raise Machinery("TLC failed on GraphImpl:\n" + r.out[-2000:])
    if not quick:
        r = ctx.tlc("GraphImpl", "Graph_mc_alias.cfg", subst={"PRODUCTK": 3}, timeout=3000, expect_ok=False,
                    label="GraphImpl refines Graph with key aliases (several verifying nodes)")
        if r.violated:
            ctx.note("design-level: with key aliases the B model leaves the A layer (%s)" % r.violated)
        elif r.rc != 0:
            raise Machinery("TLC failed on GraphImpl/alias:\n" + r.out[-2000:])

    # ---- U2: histories enumerated by TLC, replayed on the real graph ------------------------
    hists = []
    if quick:
        hists += gen_histories(ctx, gl.SMALL + gl.FIVE_G, 2, 5, 1, 4, 5,
                               "GraphGen: universes of <=4 certificates (catalogue + product pairs) every order x root "
                               "flags + 1 re-insertion; 5-certificate universes every order x root flags")
    else:
        hists += gen_histories(ctx, gl.SMALL, 0, 6, 2, 4, 3, "GraphGen small universes, <=6 ops, <=2 re-insertions")
        dup5 = ["rollover", "selfx5"]
        hists += gen_histories(ctx, dup5, 0, 6, 1, 5, 5, "GraphGen rollover + selfx5 (5 certificates), <=6 ops, <=1 re-insertion")
        hists += gen_histories(ctx, [n for n in gl.FIVE if n not in dup5], 0, 5, 0, 0, 5,
                               "GraphGen other 5-certificate universes, every order x root flags")
        hists += gen_histories(ctx, gl.SIX, 0, 6, 0, 0, 6, "GraphGen 6-certificate universes, every order x root flags")
        hists += gen_histories(ctx, [], 3, 4, 1, 3, 2, "GraphGen product universes of <=3, <=4 ops")
    uniq = sorted(set(tuple(h) for h in hists))
    hpath = ctx.path("graph_hists.ndjson")
    with open(hpath, "w") as f:
        for h in uniq:
            f.write(json.dumps(list(h)) + "\n")
    binary = ctx.gobuild("c10")
    catalog = ctx.specfile("graph_catalog.ndjson")
    obs_gen = ctx.path("obs_gen.ndjson")
    p = ctx.run(binary, ["replay-gen", catalog, hpath, obs_gen], timeout=3000)
    _, st = ctx.harness_output(p)
    if st.get("histories", 0) != len(uniq) or st.get("steps", 0) == 0:
        raise Machinery("harness replayed %s of %d histories" % (st.get("histories"), len(uniq)))
    if st.get("fixup_steps", 0) == 0:
        raise Machinery("no replayed insertion exercised the dangling-edge fix-up (vacuous)")
    recs = read_ndjson(obs_gen)

    # ---- U3: random PKIs, random insertion orders -------------------------------------------
    obs_rnd = ctx.path("obs_rnd.ndjson")
    npki = 40 if quick else 400
    p = ctx.run(binary, ["record", obs_rnd, str(npki), "20", "40"], timeout=3000)
    _, st2 = ctx.harness_output(p)
    rnd = read_ndjson(obs_rnd)
    if not rnd:
        raise Machinery("no random observations recorded")
    allrecs = recs + rnd
    rej = gl.judge(ctx, "Trace_Graph", "Graph_judge.cfg", "graph_obs.ndjson", allrecs,
                   label="Trace_Graph judges %d enumerated + %d random observations" % (len(recs), len(rnd)))

    ctx.cov["evaluations"] += st["steps"] + st2.get("steps", 0)
    ctx.cov["distinct_nontrivial"] += len(recs)
    ctx.cov["traces_validated_against_impl"] += len(uniq) + npki
    ctx.cov["exhaustive"] = True
    ctx.cov["histories_replayed"] = len(uniq)
    ctx.cov["fixup_steps"] = st.get("fixup_steps", 0)
    ctx.cov["random_pkis"] = npki
    ctx.cov["rule"] = ("evaluations = insertions performed on real graphs (each followed by a full observation); "
                       "distinct_nontrivial = distinct (certificate set, root set, observed graph) observations of the "
                       "TLC-enumerated histories, each judged by TLC with GraphReasons; histories = every insertion order "
                       "with root flags and bounded re-insertions of the catalogue universes and product universes")
    if uniq:
        ctx.add_samples([{"history_op_codes": list(uniq[len(uniq) // 2])}], n=1)

    cands = []
    for i, why, _ in rej:
        rec = allrecs[i]
        cands.append({"sig": {"kind": "graph-observation-rejected", "why": why},
                      "what": "graph after insertion %d of the history is not a graph of its certificate set: %s"
                              % (rec["step"], ",".join(why)),
                      "case": rec["hist"]})
    ctx.candidates(binary, cands, reproduce=lambda path, body: reproduce(ctx, binary, path))

    if not quick:
        selftest(ctx, recs)


def reproduce(ctx, binary, path):
    out = ctx.path("one_obs.ndjson")
    ctx.run(binary, ["record-one", path, out])
    recs = read_ndjson(out)
    rej = gl.judge(ctx, "Trace_Graph", "Graph_judge.cfg", "graph_obs.ndjson", recs, label="Trace_Graph (replay)")
    return len(rej) > 0


def selftest(ctx, recs):
    """Binding self-test: corrupted observations must be rejected by the judge."""
    pick = [r for r in recs if any(e["issuer"] for e in r["obs"]["edges"]) and r["obs"]["missing"]]
    if not pick:
        raise Machinery("selftest: no observation with both an issuer and a dangling edge")
    base = pick[len(pick) // 2]
    bad = []
    a = copy.deepcopy(base)                      # issuer dropped from an edge
    for e in a["obs"]["edges"]:
        if e["issuer"]:
            e["issuer"] = []
            break
    bad.append(a)
    b = copy.deepcopy(base)                      # stale missing-issuer entry removed
    b["obs"]["missing"] = []
    bad.append(b)
    c = copy.deepcopy(base)                      # root flag flipped
    c["obs"]["edges"][0]["root"] = not c["obs"]["edges"][0]["root"]
    bad.append(c)
    d = copy.deepcopy(base)                      # node lost
    d["obs"]["nodes"] = d["obs"]["nodes"][1:]
    bad.append(d)
    e = copy.deepcopy(base)                      # per-node parentsWithoutIssuer emptied
    e["obs"]["noissuer"] = []
    bad.append(e)
    rej = gl.judge(ctx, "Trace_Graph", "Graph_judge.cfg", "graph_obs.ndjson", bad + [base], label="Trace_Graph self-test")
    got = sorted(i for i, _, _ in rej)
    if got != [0, 1, 2, 3, 4]:
        raise Machinery("selftest: corrupted observations rejected = %s, expected exactly the 5 corrupted ones" % got)
    ctx.note("binding self-test passed (5 corrupted observations rejected, the original accepted)")


def replay(ctx, path):
    binary = ctx.gobuild("c10")
    again = reproduce(ctx, binary, path)
    print("REPRODUCED" if again else "not reproduced")
    return 1 if again else 0
