#!/usr/bin/env python3
"""Run the repository's baseline (guard off) and compare with /root/.vp/BASELINE.json stable_pass."""
import json, subprocess, sys, os
env = dict(os.environ, GOFLAGS="-mod=mod", GOPROXY="off")
env.pop("GOTOOLCHAIN", None); env.pop("GOSUMDB", None)
p = subprocess.run(["go", "test", "-json", "-vet=off", "-count=1", "-timeout", "25m", "./..."], cwd="/repo",
                   env=env, stdout=subprocess.PIPE, stderr=subprocess.DEVNULL, text=True)
passed = set()
for line in p.stdout.splitlines():
    try:
        e = json.loads(line)
    except ValueError:
        continue
    if e.get("Action") == "pass" and e.get("Test"):
        passed.add("%s::%s" % (e["Package"], e["Test"]))
base = set(json.load(open("/root/.vp/BASELINE.json"))["stable_pass"])
missing = sorted(base - passed)
print("passed=%d baseline=%d missing=%d" % (len(passed), len(base), len(missing)))
for m in missing[:30]:
    print("  MISSING", m)
sys.exit(1 if missing else 0)
