#!/usr/bin/env python3
"""Shared runner library for the /verif checks.

Every property check is a python module tools/props/<ID>.py with a function run(ctx).
The module drives three kinds of steps, all through this library:

  ctx.tlc(...)        run TLC on a module of /verif/spec (model checking, case generation,
                      trace / observation validation) in a scratch directory
  ctx.gobuild(cmd)    build /verif/harness/cmd/<cmd> against the *current working tree* of
                      $VERIF_REPO (default /repo) with `-tags verif`
  ctx.candidates(...) turn disagreements between the specification and the real code into
                      replay files, re-run each in a fresh process, match them against
                      /verif/known_findings.json and print VIOLATION / KNOWN-FINDING lines

Exit codes (DESIGN.md section 3): 0 held, 1 violation (reproduced, not a known finding),
2 machinery problem (never a verdict about the code).
"""
import hashlib
import json
import os
import re
import shutil
import subprocess
import sys
import tempfile
import threading
import time

VERIF = os.path.dirname(os.path.dirname(os.path.abspath(__file__)))
SPEC = os.path.join(VERIF, "spec")
HARNESS = os.path.join(VERIF, "harness")


class Machinery(Exception):
    """The machinery could not vouch (exit 2)."""


def normalize_tuples(out):
    """TLC pretty-prints long values over several lines (`<< "REJECT",\n   12,\n   "x" >>`).
    Rewrite every wrapped tuple into the single-line form `<<"REJECT", 12, "x">>` that short
    values are printed in, so that the drivers' line-oriented parsing never silently drops one."""
    if "<< " not in out and "<<\n" not in out:
        return out
    res = []
    i = 0
    n = len(out)
    for m in re.finditer(r"<<\s", out):
        st = m.start()
        if st < i:
            continue  # nested inside a tuple already rewritten
        # scan to the matching >>
        j = st + 2
        depth = 1
        in_str = False
        buf = ["<<"]
        pending_space = False
        while j < n and depth > 0:
            c = out[j]
            if in_str:
                buf.append(c)
                if c == "\\" and j + 1 < n:
                    buf.append(out[j + 1])
                    j += 1
                elif c == '"':
                    in_str = False
            elif c == '"':
                if pending_space and buf[-1] not in ("<<", "[", "(", "{"):
                    buf.append(" ")
                pending_space = False
                in_str = True
                buf.append(c)
            elif c in " \t\r\n":
                pending_space = True
            else:
                if out.startswith("<<", j):
                    tok = "<<"
                    depth += 1
                elif out.startswith(">>", j):
                    tok = ">>"
                    depth -= 1
                else:
                    tok = c
                if pending_space and tok not in (">>", "]", ")", "}", ",") and buf[-1] not in ("<<", "[", "(", "{"):
                    buf.append(" ")
                pending_space = False
                buf.append(tok)
                j += len(tok) - 1
            j += 1
        if depth != 0:
            continue  # unbalanced: leave the text alone
        res.append(out[i:st])
        res.append("".join(buf))
        i = j
    res.append(out[i:])
    return "".join(res)


class TLCResult:
    def __init__(self, rc, out, wall):
        self.rc = rc
        self.raw_out = out
        out = normalize_tuples(out)
        self.out = out
        self.wall = wall
        self.generated = 0
        self.distinct = 0
        self.depth = 0
        m = None
        for m in re.finditer(r"(\d+) states generated, (\d+) distinct states found", out):
            pass
        if m:
            self.generated = int(m.group(1))
            self.distinct = int(m.group(2))
        m = re.search(r"The depth of the complete state graph search is (\d+)", out)
        if m:
            self.depth = int(m.group(1))
        # simulation mode summary
        m = re.search(r"The number of states generated: (\d+)", out)
        if m and not self.generated:
            self.generated = int(m.group(1))
            self.distinct = self.generated
        self.violated = None
        m = re.search(r"Invariant (\S+) is violated", out)
        if m:
            self.violated = m.group(1)
        m = re.search(r"Action property (\S+) is violated", out)
        if m:
            self.violated = m.group(1)
        if "Temporal properties were violated" in out:
            self.violated = self.violated or "<temporal>"
        if re.search(r"Deadlock reached", out):
            self.violated = self.violated or "<deadlock>"
        self.postcondition_failed = "POSTCONDITION" in out and "violated" in out or \
            "postcondition" in out.lower() and "false" in out.lower()
        self.assume_failed = bool(re.search(r"Assumption .* is false", out))
        self.ok = (rc == 0)

    def printed(self):
        """Values printed with PrintT / Print (one per line, TLC's own lines removed)."""
        res = []
        for line in self.out.splitlines():
            if line.startswith('"') or line.startswith("<<") or line.startswith("[") or line.startswith("{"):
                res.append(line)
        return res


class Ctx:
    def __init__(self, pid, tier, seed, replay=None):
        self.pid = pid
        self.tier = tier
        self.seed = seed
        self.replay = replay
        self.repo = os.path.abspath(os.environ.get("VERIF_REPO", "/repo"))
        base = os.environ.get("VERIF_SCRATCH", "/var/tmp")
        os.makedirs(base, exist_ok=True)
        self.scratch = tempfile.mkdtemp(prefix="verif-%s-" % pid, dir=base)
        self.specdir = os.path.join(self.scratch, "spec")
        self.t0 = time.time()
        self.violations = 0
        self.known = 0
        self.problems = []
        self.notes = []
        self.cov = {"states": 0, "transitions": 0, "traces_validated_against_impl": 0,
                    "evaluations": 0, "distinct_nontrivial": 0, "samples": [], "tlc_runs": []}
        self.assumptions = []
        self.level = "model_checking"
        self._binaries = {}
        self._meta = 0
        self._meta_lock = threading.Lock()
        self._spec_ready = False
        self.quick = tier == "quick"
        self.thorough = tier == "thorough"
        self.workers = int(os.environ.get("VERIF_WORKERS", str(os.cpu_count() or 4)))

    # ------------------------------------------------------------------ helpers
    def log(self, *a):
        print("[%s %6.1fs]" % (self.pid, time.time() - self.t0), *a, flush=True)

    def note(self, s):
        self.notes.append(s)
        self.log(s)

    def problem(self, s):
        self.problems.append(s)
        self.log("MACHINERY-PROBLEM:", s)

    def path(self, *a):
        return os.path.join(self.scratch, *a)

    def cleanup(self):
        if os.environ.get("VERIF_KEEP"):
            self.log("scratch kept:", self.scratch)
            return
        shutil.rmtree(self.scratch, ignore_errors=True)

    # ------------------------------------------------------------------ TLC
    def _prepare_spec(self):
        if self._spec_ready:
            return
        os.makedirs(self.specdir, exist_ok=True)
        for f in os.listdir(SPEC):
            if f.endswith(".tla"):
                shutil.copy(os.path.join(SPEC, f), self.specdir)
        self._spec_ready = True

    def specfile(self, name):
        """Path of a data file (ndjson trace, generated cases) next to the specs in scratch."""
        self._prepare_spec()
        return os.path.join(self.specdir, name)

    def tlc(self, module, cfg, subst=None, workers=None, simulate=None, depth=None,
            timeout=600, deadlock=None, coverage=False, expect_ok=True, count=True,
            dfs=False, xss=True, label=None, extra=None):
        """Run TLC on spec/<module>.tla with spec/cfg/<cfg> (placeholders ${K} replaced from subst).

        expect_ok: a non-zero TLC exit is a machinery problem (Machinery raised) unless the
        caller says it wants to inspect the result itself (expect_ok=False).
        """
        self._prepare_spec()
        text = open(os.path.join(SPEC, "cfg", cfg)).read()
        for k, v in (subst or {}).items():
            text = text.replace("${%s}" % k, str(v))
        left = re.findall(r"\$\{(\w+)\}", text)
        if left:
            raise Machinery("cfg %s: unsubstituted placeholders %s" % (cfg, left))
        with self._meta_lock:   # drivers may run several TLC jobs from threads
            self._meta += 1
            runno = self._meta
        cfgname = "run%d_%s" % (runno, cfg)
        with open(os.path.join(self.specdir, cfgname), "w") as f:
            f.write(text)
        meta = self.path("meta%d" % runno)
        w = workers or self.workers
        cmd = ["timeout", str(timeout), "tlc", "-workers", str(w), "-metadir", meta,
               "-config", cfgname, "-noGenerateSpecTE"]
        if simulate:
            cmd += ["-simulate", simulate]
            cmd += ["-seed", str(self.seed)]
        if depth:
            cmd += ["-depth", str(depth)]
        if deadlock is False:
            cmd += ["-deadlock"]
        if coverage:
            cmd += ["-coverage", "1"]
        if extra:
            cmd += list(extra)
        cmd.append(module + ".tla")
        env = dict(os.environ)
        jto = []
        if xss:
            jto.append("-Xss256m")
        if dfs:
            jto.append("-Dtlc2.tool.queue.IStateQueue=StateDeque")
        jto.append("-Dtlc2.tool.fp.FPSet.impl=tlc2.tool.fp.OffHeapDiskFPSet") if False else None
        if jto:
            env["JAVA_TOOL_OPTIONS"] = " ".join(jto)
        t = time.time()
        p = subprocess.run(cmd, cwd=self.specdir, env=env, stdout=subprocess.PIPE,
                           stderr=subprocess.STDOUT, text=True, errors="replace")
        r = TLCResult(p.returncode, p.stdout, time.time() - t)
        shutil.rmtree(meta, ignore_errors=True)
        lab = label or ("%s/%s" % (module, cfg))
        self.log("tlc %s: rc=%d generated=%d distinct=%d depth=%d %.1fs" %
                 (lab, r.rc, r.generated, r.distinct, r.depth, r.wall))
        if count:
            self.cov["states"] += r.distinct
            self.cov["transitions"] += r.generated
            self.cov["tlc_runs"].append({"run": lab, "rc": r.rc, "generated": r.generated,
                                         "distinct": r.distinct, "depth": r.depth,
                                         "wall_s": round(r.wall, 2)})
        if p.returncode == 124:
            raise Machinery("TLC timeout (%ss) on %s" % (timeout, lab))
        if expect_ok and p.returncode != 0:
            tail = "\n".join(r.out.splitlines()[-40:])
            raise Machinery("TLC failed on %s (rc=%d):\n%s" % (lab, p.returncode, tail))
        return r

    # ------------------------------------------------------------------ Go
    def goenv(self):
        env = dict(os.environ)
        env["GOFLAGS"] = "-mod=mod"
        env["GOPROXY"] = "off"
        # measured in this sandbox: GOTOOLCHAIN=local and GOSUMDB=off both break the
        # offline switch to the go1.25.0 toolchain that /repo/go.mod requires.
        env.pop("GOTOOLCHAIN", None)
        env.pop("GOSUMDB", None)
        env.setdefault("GOCACHE", os.path.expanduser("~/.cache/go-build"))
        return env

    def _harness_copy(self):
        dst = self.path("harness")
        if os.path.isdir(dst):
            return dst
        shutil.copytree(HARNESS, dst, ignore=shutil.ignore_patterns("go.mod", "go.sum", "*.test"))
        write_harness_gomod(dst, self.repo)
        return dst

    def gobuild(self, cmd, race=False):
        key = (cmd, race)
        if key in self._binaries:
            return self._binaries[key]
        h = self._harness_copy()
        out = self.path("bin-%s%s" % (cmd, "-race" if race else ""))
        args = ["go", "build", "-trimpath", "-tags", "verif", "-o", out]
        if race:
            args.append("-race")
        args.append("./cmd/" + cmd)
        t = time.time()
        p = subprocess.run(args, cwd=h, env=self.goenv(), stdout=subprocess.PIPE,
                           stderr=subprocess.STDOUT, text=True)
        if p.returncode != 0:
            raise Machinery("go build %s failed:\n%s" % (cmd, p.stdout[-4000:]))
        self.log("go build %s%s %.1fs" % (cmd, " -race" if race else "", time.time() - t))
        self._binaries[key] = out
        return out

    def run(self, binary, args, timeout=600, stdin=None, env=None, ok_codes=(0,), cwd=None):
        e = dict(os.environ)
        e["VERIF_SEED"] = str(self.seed)
        e["VERIF_TIER"] = self.tier
        e["VERIF_REPO"] = self.repo
        if env:
            e.update(env)
        t = time.time()
        try:
            p = subprocess.run([binary] + list(args), cwd=cwd or self.scratch, env=e, input=stdin,
                               stdout=subprocess.PIPE, stderr=subprocess.PIPE, text=True,
                               errors="replace", timeout=timeout)
        except subprocess.TimeoutExpired:
            raise Machinery("harness %s %s timed out after %ss" % (os.path.basename(binary), args, timeout))
        self.log("run %s %s: rc=%d %.1fs" % (os.path.basename(binary), " ".join(map(str, args))[:80],
                                               p.returncode, time.time() - t))
        if p.returncode not in ok_codes:
            raise Machinery("harness %s %s rc=%d\nstdout: %s\nstderr: %s" %
                            (os.path.basename(binary), args, p.returncode, p.stdout[-3000:], p.stderr[-3000:]))
        return p

    # ------------------------------------------------------------------ verdicts
    def candidates(self, binary, cands, replay_args=("replay",), limit=40, timeout=120, reproduce=None):
        """cands: list of {"sig": {...}, "what": str, "case": {...}} produced by the harness
        (lines of its stdout / a file).  Each distinct signature is replayed in a fresh process
        (`<binary> replay <file>`: exit 1 = reproduced, 0 = not reproduced)."""
        seen = {}
        for c in cands:
            k = json.dumps(c.get("sig", {}), sort_keys=True)
            seen.setdefault(k, c)
        if len(seen) > limit:
            self.note("%d distinct violation signatures; replaying the first %d" % (len(seen), limit))
        kf = load_known(self.pid)
        rdir = os.path.join(VERIF, "replays", self.pid)
        for k, c in list(seen.items())[:limit]:
            os.makedirs(rdir, exist_ok=True)
            body = {"property": self.pid, "sig": c.get("sig", {}), "what": c.get("what", ""),
                    "case": c.get("case", {})}
            h = hashlib.sha1(json.dumps(body, sort_keys=True).encode()).hexdigest()[:12]
            path = os.path.join(rdir, h + ".json")
            with open(path, "w") as f:
                json.dump(body, f, indent=1, sort_keys=True)
            try:
                if reproduce is not None:
                    again = reproduce(path, body)
                else:
                    p = self.run(binary, list(replay_args) + [path], timeout=timeout, ok_codes=(0, 1))
                    again = p.returncode == 1
            except Machinery as e:
                self.problem("replay of %s failed: %s" % (path, e))
                continue
            if not again:
                self.problem("candidate not reproduced in a fresh process: %s (%s)" % (path, c.get("what")))
                continue
            self.verdict(body, path)

    def verdict(self, body, path):
        """A reproduced A-layer disagreement of the real code."""
        kf = load_known(self.pid)
        m = match_known(kf, body)
        if m is not None:
            self.known += 1
            print("KNOWN-FINDING: property=%s %s [%s]" % (self.pid, m.get("what", ""), m.get("id", "")), flush=True)
            try:
                os.remove(path)
            except OSError:
                pass
            return
        self.violations += 1
        print("VIOLATION property=%s replay=%s" % (self.pid, path), flush=True)
        print("  what: %s" % body.get("what", ""), flush=True)
        print("  sig:  %s" % json.dumps(body.get("sig", {}), sort_keys=True), flush=True)

    def harness_output(self, p):
        """Split a harness' stdout into candidates (CAND lines) and stats (STAT lines)."""
        cands, stats = [], {}
        for line in p.stdout.splitlines():
            if line.startswith("CAND "):
                cands.append(json.loads(line[5:]))
            elif line.startswith("STAT "):
                name, _, val = line[5:].partition(" ")
                try:
                    stats[name] = json.loads(val)
                except ValueError:
                    stats[name] = val
        return cands, stats

    def trace_validate(self, module, cfg, fname, events, reset_ev="reset", max_rejects=8,
                       timeout=600, subst=None, dfs=False):
        """Batch trace validation (U3).  events: list of dicts, traces separated by events whose
        "ev" is reset_ev.  The trace spec keeps a high-water mark of the consumed line in TLC
        register 1 and prints <<"HWM", n>> when the postcondition fails.  Returns
        (accepted_traces, rejects) where each reject is the list of events of the rejected trace
        up to and including the line TLC could not consume.  After a rejection the rejected trace
        is removed and validation continues with the rest, so one failure does not hide others."""
        rejects = []
        accepted = 0
        events = list(events)
        for _ in range(max_rejects + 1):
            if not events:
                break
            write_ndjson(self.specfile(fname), events)
            r = self.tlc(module, cfg, workers=1, timeout=timeout, expect_ok=False, subst=subst, dfs=dfs,
                         label="%s/%s[%d events]" % (module, cfg, len(events)))
            ntr = sum(1 for e in events if e.get("ev") == reset_ev)
            if r.rc == 0:
                accepted += ntr
                break
            m = re.search(r'<<"HWM", (\d+)>>', r.out)
            if not m:
                tail = "\n".join(r.out.splitlines()[-30:])
                raise Machinery("trace validation %s failed without a high-water mark:\n%s" % (module, tail))
            hwm = int(m.group(1))       # 1-based line that could not be consumed
            if hwm > len(events):
                raise Machinery("trace validation %s: HWM %d beyond trace" % (module, hwm))
            start = hwm - 1
            while start > 0 and events[start].get("ev") != reset_ev:
                start -= 1
            end = hwm
            while end < len(events) and events[end].get("ev") != reset_ev:
                end += 1
            rejects.append(events[start:hwm])
            accepted += sum(1 for e in events[:start] if e.get("ev") == reset_ev)
            events = events[end:]
        else:
            self.note("more than %d rejected traces; remaining traces not examined" % max_rejects)
        return accepted, rejects

    def add_samples(self, items, n=3):
        for it in items:
            if len(self.cov["samples"]) >= n:
                break
            self.cov["samples"].append(it)

    # ------------------------------------------------------------------ evidence
    def write_evidence(self):
        cov = dict(self.cov)
        if not cov["samples"]:
            cov["samples"] = ["(no sample recorded)"]
        cov.setdefault("rule", "")
        if cov.get("states", 0) < 1 or cov.get("transitions", 0) < 1:
            # constant-level TLC evaluation only (ASSUME / case export): TLC reports no state graph,
            # the generic counts (evaluations, distinct_nontrivial) carry the coverage instead
            cov["tlc_states_reported"] = cov.pop("states", 0)
            cov["tlc_transitions_reported"] = cov.pop("transitions", 0)
        if self.notes:
            cov["notes"] = self.notes
        if self.problems:
            cov["machinery_problems"] = self.problems
        cov["known_findings_reported"] = self.known
        ev = {"property_id": self.pid, "tier": self.tier, "seed": self.seed, "level": self.level,
              "coverage": cov, "assumptions": self.assumptions,
              "wall_s": round(time.time() - self.t0, 2), "violations": self.violations}
        if self.repo != "/repo":
            return  # evidence is only written for runs against /repo itself
        os.makedirs(os.path.join(VERIF, "evidence"), exist_ok=True)
        tmp = os.path.join(VERIF, "evidence", ".%s.json.tmp" % self.pid)
        with open(tmp, "w") as f:
            json.dump(ev, f, indent=1)
        os.replace(tmp, os.path.join(VERIF, "evidence", "%s.json" % self.pid))


def write_harness_gomod(dst, repo):
    """go.mod of the harness = /repo/go.mod's require blocks verbatim + replace => repo."""
    src = open(os.path.join(repo, "go.mod")).read()
    reqs = re.findall(r"^require \((.*?)^\)", src, re.S | re.M)
    gover = re.search(r"^go (\S+)", src, re.M).group(1)
    lines = ["module verifharness", "", "go " + gover, ""]
    lines.append("require github.com/zmap/zcrypto v0.0.0")
    lines.append("require pgregory.net/rapid v1.3.0")
    lines.append("require github.com/anishathalye/porcupine v1.3.0")
    for r in reqs:
        lines.append("require (" + r + ")")
    lines.append("")
    lines.append("replace github.com/zmap/zcrypto => " + repo)
    with open(os.path.join(dst, "go.mod"), "w") as f:
        f.write("\n".join(lines) + "\n")
    gosum = open(os.path.join(repo, "go.sum")).read()
    extra = os.path.join(HARNESS, "go.sum.extra")
    if os.path.exists(extra):
        gosum += open(extra).read()
    with open(os.path.join(dst, "go.sum"), "w") as f:
        f.write(gosum)


_known_cache = None


def load_known(pid):
    """Open known findings of a property: known_findings.json (aggregate, committed) plus the
    per-property source files known_findings.d/<pid>.json it is generated from."""
    global _known_cache
    if _known_cache is None:
        items = {}
        p = os.path.join(VERIF, "known_findings.json")
        if os.path.exists(p):
            for f in json.load(open(p)).get("findings", []):
                items[f.get("id")] = f
        d = os.path.join(VERIF, "known_findings.d")
        if os.path.isdir(d):
            for fn in sorted(os.listdir(d)):
                if fn.endswith(".json"):
                    for f in json.load(open(os.path.join(d, fn))).get("findings", []):
                        items[f.get("id")] = f
        _known_cache = list(items.values())
    return [f for f in _known_cache if f.get("property") == pid and f.get("status") == "open"]


def match_known(kf, body):
    sig = body.get("sig", {})
    for f in kf:
        m = f.get("match", {})
        if m and all(sig.get(k) == v for k, v in m.items()):
            return f
    return None


def read_ndjson(path):
    res = []
    with open(path) as f:
        for line in f:
            line = line.strip()
            if line:
                res.append(json.loads(line))
    return res


def write_ndjson(path, items):
    with open(path, "w") as f:
        for it in items:
            f.write(json.dumps(it, sort_keys=True) + "\n")


def main(argv):
    import argparse
    import importlib
    ap = argparse.ArgumentParser()
    ap.add_argument("pid")
    ap.add_argument("--tier", default=os.environ.get("VERIF_TIER", "quick"))
    ap.add_argument("--replay", default=None)
    a = ap.parse_args(argv)
    tier = a.tier if a.tier in ("quick", "thorough") else "quick"
    try:
        seed = int(os.environ.get("VERIF_SEED", "1"))
    except ValueError:
        seed = 1
    seed = seed % (2 ** 31 - 1) or 1
    sys.path.insert(0, os.path.join(VERIF, "tools"))
    ctx = Ctx(a.pid, tier, seed, a.replay)
    rc = 2
    try:
        mod = importlib.import_module("props." + a.pid)
        if a.replay:
            rc = mod.replay(ctx, a.replay)
            return rc
        mod.run(ctx)
        if ctx.violations:
            rc = 1
        elif ctx.problems:
            rc = 2
        else:
            rc = 0
    except Machinery as e:
        ctx.problem(str(e))
        rc = 1 if ctx.violations else 2
    except Exception as e:  # a bug in the machinery is never a verdict about the code
        import traceback
        traceback.print_exc()
        ctx.problem("runner exception: %r" % (e,))
        rc = 1 if ctx.violations else 2
    finally:
        if not a.replay:
            try:
                ctx.write_evidence()
            except Exception as e:
                print("evidence write failed: %r" % (e,))
                rc = rc or 2
        ctx.cleanup()
    ctx.log("exit %d (violations=%d known=%d problems=%d)" % (rc, ctx.violations, ctx.known, len(ctx.problems)))
    return rc


if __name__ == "__main__":
    sys.exit(main(sys.argv[1:]))
