package graphobs

import (
	"crypto/sha256"
	stdx509 "crypto/x509"
	"encoding/base64"
	"encoding/hex"
	"encoding/json"
	"math/big"
	"time"

	zasn1 "github.com/zmap/zcrypto/encoding/asn1"
	"github.com/zmap/zcrypto/verifier"
	"github.com/zmap/zcrypto/x509"
	zpkix "github.com/zmap/zcrypto/x509/pkix"
	"github.com/zmap/zcrypto/x509/revocation/google"
	"github.com/zmap/zcrypto/x509/revocation/mozilla"
	"verifharness/lib/obs"
	"verifharness/lib/pki"
)

// Rev is an abstract revocation set (Verifier.tla): for OneCRL blocked = [[subj, key]...] and
// listed = [[issuer name, serial]...]; for a CRLSet blocked = [key...] (as 1-tuples are not used:
// plain strings) and listed = [[issuer key, serial]...].
type Rev struct {
	Has     bool    `json:"has"`
	Blocked []any   `json:"blocked"`
	Listed  [][]any `json:"listed"`
}

func (r *Rev) Norm() {
	if r.Blocked == nil {
		r.Blocked = []any{}
	}
	if r.Listed == nil {
		r.Listed = [][]any{}
	}
}

// VRes is the projected VerificationResult.
type VRes struct {
	Current   [][]string `json:"current"`
	Expired   [][]string `json:"expired"`
	Never     [][]string `json:"never"`
	VAE       [][]string `json:"vae"`
	Parents   []string   `json:"parents"`
	IsExpired bool       `json:"isexpired"`
	Type      string     `json:"type"`
	NameErr   bool       `json:"nameerr"`
	InRev     bool       `json:"inrev"`
	Name      string     `json:"name"`
}

// VObs is the observation judged by VerifyReasons (Verifier.tla).
type VObs struct {
	Certs  []AbsCert  `json:"certs"`
	Start  string     `json:"start"`
	T      int        `json:"t"`
	Name   string     `json:"name"`
	IsRoot bool       `json:"isroot"`
	Walked [][]string `json:"walked"`
	OneCRL Rev        `json:"onecrl"`
	CRLSet Rev        `json:"crlset"`
	Res    VRes       `json:"res"`
	Panic  string     `json:"panic"`
}

func spkiHash(key string) []byte {
	der, err := stdx509.MarshalPKIXPublicKey(pki.Key(key).Public())
	if err != nil {
		obs.Fatal("marshal key %s: %v", key, err)
	}
	h := sha256.Sum256(der)
	return h[:]
}

func zName(id string) *zpkix.Name {
	var rdn zpkix.RDNSequence
	if rest, err := zasn1.Unmarshal(pki.RawName(id), &rdn); err != nil || len(rest) != 0 {
		obs.Fatal("name %s: %v", id, err)
	}
	var n zpkix.Name
	n.FillFromRDNSequence(&rdn)
	return &n
}

func str(v any) string {
	s, ok := v.(string)
	if !ok {
		obs.Fatal("revocation set: expected a string, got %v", v)
	}
	return s
}

func num(v any) int64 {
	switch x := v.(type) {
	case float64:
		return int64(x)
	case int:
		return int64(x)
	}
	obs.Fatal("revocation set: expected a number, got %v", v)
	return 0
}

// ConcreteOneCRL builds the real mozilla.OneCRL of an abstract set (nil when absent).
func ConcreteOneCRL(r Rev) *mozilla.OneCRL {
	if !r.Has {
		return nil
	}
	o := &mozilla.OneCRL{IssuerLists: map[string]*mozilla.IssuerList{}, Blocked: []*mozilla.SubjectAndPublicKey{}}
	for _, b := range r.Blocked {
		t, ok := b.([]any)
		if !ok || len(t) != 2 {
			obs.Fatal("onecrl blocked entry %v", b)
		}
		o.Blocked = append(o.Blocked, &mozilla.SubjectAndPublicKey{RawSubject: pki.RawName(str(t[0])), Subject: zName(str(t[0])), PubKeyHash: spkiHash(str(t[1]))})
	}
	for _, l := range r.Listed {
		n := zName(str(l[0]))
		il := o.IssuerLists[n.String()]
		if il == nil {
			il = &mozilla.IssuerList{Issuer: n}
			o.IssuerLists[n.String()] = il
		}
		il.Entries = append(il.Entries, &mozilla.Entry{Issuer: n, SerialNumber: big.NewInt(num(l[1])), Enabled: true})
	}
	return o
}

// ParsedOneCRL builds the same set through the real parser mozilla.Parse from the JSON wire form
// (issuerName / subject = base64 of the DER name, serialNumber = base64 of the big-endian
// serial, pubKeyHash = base64 of SHA-256 over the SPKI).
func ParsedOneCRL(r Rev) *mozilla.OneCRL {
	if !r.Has {
		return nil
	}
	type rec struct {
		IssuerName   string `json:"issuerName,omitempty"`
		SerialNumber string `json:"serialNumber,omitempty"`
		Subject      string `json:"subject,omitempty"`
		PubKeyHash   string `json:"pubKeyHash,omitempty"`
		Enabled      bool   `json:"enabled"`
	}
	var data []rec
	for _, b := range r.Blocked {
		t, ok := b.([]any)
		if !ok || len(t) != 2 {
			obs.Fatal("onecrl blocked entry %v", b)
		}
		data = append(data, rec{Subject: base64.StdEncoding.EncodeToString(pki.RawName(str(t[0]))),
			PubKeyHash: base64.StdEncoding.EncodeToString(spkiHash(str(t[1]))), Enabled: true})
	}
	for _, l := range r.Listed {
		data = append(data, rec{IssuerName: base64.StdEncoding.EncodeToString(pki.RawName(str(l[0]))),
			SerialNumber: base64.StdEncoding.EncodeToString(big.NewInt(num(l[1])).Bytes()), Enabled: true})
	}
	if data == nil {
		data = []rec{}
	}
	raw, err := json.Marshal(map[string]any{"data": data})
	if err != nil {
		obs.Fatal("onecrl json: %v", err)
	}
	o, err := mozilla.Parse(raw)
	if err != nil {
		obs.Fatal("mozilla.Parse rejects a well-formed OneCRL document: %v", err)
	}
	return o
}

// ConcreteCRLSet builds the real google.CRLSet of an abstract set (nil when absent).
func ConcreteCRLSet(r Rev) *google.CRLSet {
	if !r.Has {
		return nil
	}
	s := &google.CRLSet{IssuerLists: map[string]*google.IssuerList{}, BlockedSPKIs: []string{}}
	for _, b := range r.Blocked {
		s.BlockedSPKIs = append(s.BlockedSPKIs, hex.EncodeToString(spkiHash(str(b))))
	}
	for _, l := range r.Listed {
		h := hex.EncodeToString(spkiHash(str(l[0])))
		il := s.IssuerLists[h]
		if il == nil {
			il = &google.IssuerList{SPKIHash: h}
			s.IssuerLists[h] = il
		}
		il.Entries = append(il.Entries, &google.Entry{SerialNumber: big.NewInt(num(l[1]))})
	}
	s.NumParents = len(s.IssuerLists)
	return s
}

func (p *Pool) chains(cs []x509.CertificateChain) [][]string {
	out := [][]string{}
	for _, c := range cs {
		out = append(out, p.ChainIDs(c))
	}
	return out
}

// VerifyLimit is the watchdog for one Verify call (normal latency well below 10 ms).
const VerifyLimit = 20 * time.Second

// Verify runs Graph.WalkChains and Verifier.Verify on the real graph and projects the result.
func (p *Pool) Verify(b *Builder, start AbsCert, t int, name string, one, set Rev, parsed bool) VObs {
	one.Norm()
	set.Norm()
	o := VObs{Start: start.ID, T: t, Name: name, OneCRL: one, CRLSet: set, Walked: [][]string{},
		Res: VRes{Current: [][]string{}, Expired: [][]string{}, Never: [][]string{}, VAE: [][]string{}, Parents: []string{}}}
	seen := map[string]bool{}
	for _, c := range b.Added {
		o.Certs = append(o.Certs, c)
		seen[c.ID] = true
	}
	if !seen[start.ID] {
		o.Certs = append(o.Certs, start)
	}
	for _, r := range b.Roots {
		if r == start.ID {
			o.IsRoot = true
		}
	}
	real := p.Get(start)
	oneCRL := ConcreteOneCRL(one)
	if parsed {
		oneCRL = ParsedOneCRL(one)
	}
	g := obs.Guard(VerifyLimit, func() {
		o.Walked = p.chains(b.G.WalkChains(real.Cert))
		v := verifier.NewVerifier(b.G, nil)
		res := v.Verify(real.Cert, verifier.VerificationOptions{VerifyTime: pki.At(t), Name: name,
			OneCRL: oneCRL, CRLSet: ConcreteCRLSet(set)})
		r := &o.Res
		r.Current, r.Expired, r.Never = p.chains(res.CurrentChains), p.chains(res.ExpiredChains), p.chains(res.NeverValidChains)
		r.VAE = p.chains(res.ValidAtExpirationChains)
		for _, pc := range res.Parents {
			r.Parents = append(r.Parents, p.ChainIDs(x509.CertificateChain{pc})[0])
		}
		r.IsExpired = res.Expired
		switch res.CertificateType {
		case x509.CertificateTypeLeaf:
			r.Type = "leaf"
		case x509.CertificateTypeIntermediate:
			r.Type = "intermediate"
		case x509.CertificateTypeRoot:
			r.Type = "root"
		case x509.CertificateTypeUnknown:
			r.Type = "unknown"
		default:
			r.Type = "other"
		}
		r.NameErr = res.NameError != nil
		r.InRev = res.InRevocationSet
		r.Name = res.Name
	})
	if g.Timeout {
		o.Panic = "timeout"
	} else {
		o.Panic = g.Panic
	}
	return o
}
