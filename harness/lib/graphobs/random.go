package graphobs

import (
	"fmt"
	"math/rand"
)

// RandomPKI draws a seeded random abstract PKI of n certificates: trees with cross-certificates,
// self-issued rollovers, same-subject different-key CAs, dangling issuers, bad signatures, twins,
// non-CA intermediates and path-length limits.  It only produces inputs; what the graph / walk /
// verifier must do with them is decided by TLC.
func RandomPKI(rng *rand.Rand, prefix string, n int) []AbsCert {
	type node struct{ name, key string }
	var nodes []node
	var certs []AbsCert
	nn, nk := 0, 0
	newName := func() string { nn++; return fmt.Sprintf("%sN%d", prefix, nn) }
	newKey := func() string { nk++; return fmt.Sprintf("%sK%d", prefix, nk) }
	pick := func() node { return nodes[rng.Intn(len(nodes))] }
	var pending []node // issuers named by dangling certificates, possibly created later
	for i := 0; i < n; i++ {
		c := AbsCert{ID: fmt.Sprintf("%sc%d", prefix, i), CA: rng.Intn(10) < 8, PathLen: -1, NB: 0, NA: 1000, Serial: 5000 + i, DNS: []string{}}
		if c.CA && rng.Intn(6) == 0 {
			c.PathLen = rng.Intn(3)
		}
		r := rng.Intn(100)
		switch {
		case len(nodes) == 0 || r < 12: // self-signed, new name or known name with a new key
			nd := node{newName(), newKey()}
			if len(nodes) > 0 && rng.Intn(4) == 0 {
				nd.name = pick().name
			}
			if len(pending) > 0 && rng.Intn(2) == 0 {
				nd = pending[len(pending)-1]
				pending = pending[:len(pending)-1]
			}
			c.Subj, c.Key, c.Iss, c.SKey = nd.name, nd.key, nd.name, nd.key
			c.CA = true
			nodes = append(nodes, nd)
		case r < 60: // new node under an existing one
			is := pick()
			nd := node{newName(), newKey()}
			c.Subj, c.Key, c.Iss, c.SKey = nd.name, nd.key, is.name, is.key
			nodes = append(nodes, nd)
		case r < 72: // cross-certificate: existing (subject, key) certified by another node
			a, b := pick(), pick()
			c.Subj, c.Key, c.Iss, c.SKey = a.name, a.key, b.name, b.key
			c.CA = true
		case r < 80: // dangling issuer (may be created later)
			is := node{newName(), newKey()}
			nd := node{newName(), newKey()}
			c.Subj, c.Key, c.Iss, c.SKey = nd.name, nd.key, is.name, is.key
			nodes = append(nodes, nd)
			pending = append(pending, is)
		case r < 87: // names an existing subject, signed with some other key
			is := pick()
			nd := node{newName(), newKey()}
			c.Subj, c.Key, c.Iss, c.SKey = nd.name, nd.key, is.name, newKey()
			if rng.Intn(2) == 0 {
				c.SKey = pick().key
			}
			nodes = append(nodes, nd)
		case r < 94: // same subject as an existing node, new key (rollover); sometimes self-issued by the old key
			a := pick()
			nd := node{a.name, newKey()}
			is := pick()
			if rng.Intn(2) == 0 {
				is = a
			}
			c.Subj, c.Key, c.Iss, c.SKey = nd.name, nd.key, is.name, is.key
			c.CA = true
			nodes = append(nodes, nd)
		default: // twin of an existing certificate
			if len(certs) == 0 {
				nd := node{newName(), newKey()}
				c.Subj, c.Key, c.Iss, c.SKey = nd.name, nd.key, nd.name, nd.key
				nodes = append(nodes, nd)
			} else {
				t := certs[rng.Intn(len(certs))]
				c.Subj, c.Key, c.Iss, c.SKey, c.CA, c.PathLen = t.Subj, t.Key, t.Iss, t.SKey, t.CA, t.PathLen
			}
		}
		if !c.CA {
			c.PathLen = -1
		}
		certs = append(certs, c)
	}
	return certs
}

// RandomOps: a random insertion order of all certificates with duplicate insertions and
// root / non-root re-insertions.
func RandomOps(rng *rand.Rand, certs []AbsCert) []Op {
	var ops []Op
	for _, i := range rng.Perm(len(certs)) {
		c := certs[i]
		root := false
		if c.Subj == c.Iss && c.Key == c.SKey {
			root = rng.Intn(2) == 0
		} else {
			root = rng.Intn(20) == 0
		}
		ops = append(ops, Op{C: c.ID, Root: root})
	}
	extra := len(certs) / 6
	for i := 0; i < extra; i++ {
		pos := rng.Intn(len(ops) + 1)
		op := Op{C: certs[rng.Intn(len(certs))].ID, Root: rng.Intn(3) == 0}
		ops = append(ops[:pos], append([]Op{op}, ops[pos:]...)...)
	}
	return ops
}

func RandomHistory(rng *rand.Rand, prefix string, n int) History {
	certs := RandomPKI(rng, prefix, n)
	return History{Certs: certs, Ops: RandomOps(rng, certs)}
}
