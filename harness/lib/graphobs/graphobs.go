// Package graphobs is the shared executor/observer of the PKI-graph properties C10, C11, C12:
// it concretises abstract certificates (GraphCatalog.tla records) through harness/lib/pki,
// checks the concretisation by re-deriving the abstract record from the parsed certificate with
// the Go standard library, drives a real verifier.Graph, and projects the graph (through the
// `verif` accessors of /repo/verifier/verif_graph.go and the public API) to the observation
// record that Graph.tla / Walk.tla / Verifier.tla judge.  Nothing here decides what a property
// allows.
package graphobs

import (
	"bytes"
	"crypto/ecdsa"
	"crypto/ed25519"
	"crypto/rsa"
	"crypto/sha256"
	stdx509 "crypto/x509"
	"encoding/hex"
	"encoding/json"
	"fmt"
	"sort"
	"sync"
	"time"

	"github.com/zmap/zcrypto/verifier"
	"github.com/zmap/zcrypto/x509"
	"verifharness/lib/obs"
	"verifharness/lib/pki"
)

// AbsCert is the abstract certificate of GraphCatalog.tla.
type AbsCert struct {
	ID      string   `json:"id"`
	Subj    string   `json:"subj"`
	Key     string   `json:"key"`
	Iss     string   `json:"iss"`
	SKey    string   `json:"skey"`
	CA      bool     `json:"ca"`
	PathLen int      `json:"pathlen"`
	NB      int      `json:"nb"`
	NA      int      `json:"na"`
	Serial  int      `json:"serial"`
	DNS     []string `json:"dns"`
}

func (a AbsCert) PKI() pki.Cert {
	return pki.Cert{ID: a.ID, Subj: a.Subj, Key: a.Key, Iss: a.Iss, SKey: a.SKey, CA: a.CA, BC: a.CA,
		PathLen: a.PathLen, NB: a.NB, NA: a.NA, Serial: a.Serial, DNS: a.DNS}
}

// Pool concretises abstract certificates once and maps real objects back to abstract ids.
type Pool struct {
	mu     sync.Mutex
	byID   map[string]*Real
	byFP   map[string]*Real
	names  map[string]string // raw DER name -> name id
	keys   map[string]string // raw SPKI -> key id
	cache  *pki.Cache
	nameID map[string]bool
	keyID  map[string]bool
}

// Real is a concretised certificate.
type Real struct {
	Abs  AbsCert
	DER  []byte
	Cert *x509.Certificate
}

func NewPool() *Pool {
	return &Pool{byID: map[string]*Real{}, byFP: map[string]*Real{}, names: map[string]string{},
		keys: map[string]string{}, cache: pki.NewCache(), nameID: map[string]bool{}, keyID: map[string]bool{}}
}

func (p *Pool) addName(id string) {
	if !p.nameID[id] {
		p.nameID[id] = true
		p.names[string(pki.RawName(id))] = id
	}
}

func (p *Pool) addKey(id string) {
	if !p.keyID[id] {
		p.keyID[id] = true
		spki, err := stdx509.MarshalPKIXPublicKey(pki.Key(id).Public())
		if err != nil {
			obs.Fatal("marshal key %s: %v", id, err)
		}
		p.keys[string(spki)] = id
	}
}

// stdVerify checks the certificate signature with the standard library only.
func stdVerify(c *stdx509.Certificate, keyID string) bool {
	pub := pki.Key(keyID).Public()
	switch k := pub.(type) {
	case ed25519.PublicKey:
		return c.SignatureAlgorithm == stdx509.PureEd25519 && ed25519.Verify(k, c.RawTBSCertificate, c.Signature)
	case *ecdsa.PublicKey, *rsa.PublicKey:
		return (&stdx509.Certificate{PublicKey: pub}).CheckSignature(c.SignatureAlgorithm, c.RawTBSCertificate, c.Signature) == nil
	}
	return false
}

// Get concretises a (builds DER with the standard library, parses it with zcrypto) and checks
// that the real certificate abstracts back to a (soundness rule 2); a mismatch is a machinery
// problem (exit 3).
func (p *Pool) Get(a AbsCert) *Real {
	p.mu.Lock()
	defer p.mu.Unlock()
	if r, ok := p.byID[a.ID]; ok {
		if fmt.Sprintf("%+v", r.Abs) != fmt.Sprintf("%+v", a) {
			obs.Fatal("two different abstract certificates with id %s", a.ID)
		}
		return r
	}
	if a.DNS == nil {
		a.DNS = []string{}
	}
	p.addName(a.Subj)
	p.addName(a.Iss)
	p.addKey(a.Key)
	p.addKey(a.SKey)
	der := p.cache.Get(a.PKI())
	zc, err := x509.ParseCertificate(der)
	if err != nil {
		obs.Fatal("zcrypto cannot parse concretised certificate %s: %v", a.ID, err)
	}
	sc, err := stdx509.ParseCertificate(der)
	if err != nil {
		obs.Fatal("stdlib cannot parse concretised certificate %s: %v", a.ID, err)
	}
	// abstraction function (standard library view, cross-checked with zcrypto's raw fields)
	spki, _ := stdx509.MarshalPKIXPublicKey(pki.Key(a.Key).Public())
	ok := bytes.Equal(sc.RawSubject, pki.RawName(a.Subj)) && bytes.Equal(sc.RawIssuer, pki.RawName(a.Iss)) &&
		bytes.Equal(sc.RawSubjectPublicKeyInfo, spki) && stdVerify(sc, a.SKey) &&
		(sc.BasicConstraintsValid && sc.IsCA) == a.CA &&
		sc.NotBefore.Equal(pki.At(a.NB)) && sc.NotAfter.Equal(pki.At(a.NA)) &&
		(a.Serial == 0 || sc.SerialNumber.Int64() == int64(a.Serial)) &&
		bytes.Equal(zc.RawSubject, sc.RawSubject) && bytes.Equal(zc.RawIssuer, sc.RawIssuer) &&
		bytes.Equal(zc.RawSubjectPublicKeyInfo, sc.RawSubjectPublicKeyInfo) && bytes.Equal(zc.Raw, der)
	pl := -1
	if sc.BasicConstraintsValid && sc.IsCA && (sc.MaxPathLen > 0 || sc.MaxPathLenZero) {
		pl = sc.MaxPathLen
	}
	ok = ok && pl == a.PathLen && len(sc.DNSNames) == len(a.DNS)
	for i := range a.DNS {
		ok = ok && i < len(sc.DNSNames) && sc.DNSNames[i] == a.DNS[i]
	}
	// other keys of the pool must not verify it (ideal signatures)
	if !ok {
		obs.Fatal("concretisation of %+v does not abstract back", a)
	}
	r := &Real{Abs: a, DER: der, Cert: zc}
	p.byID[a.ID] = r
	p.byFP[string(zc.FingerprintSHA256)] = r
	return r
}

// ByCert maps a real certificate back to its concretisation record (nil if unknown).
func (p *Pool) ByCert(c *x509.Certificate) *Real {
	p.mu.Lock()
	defer p.mu.Unlock()
	if c == nil {
		return nil
	}
	fp := c.FingerprintSHA256
	if fp == nil {
		h := sha256.Sum256(c.Raw)
		fp = h[:]
	}
	return p.byFP[string(fp)]
}

// NodeAbs maps a graph node to <<subj, key>>.
func (p *Pool) NodeAbs(n *verifier.GraphNode) []string {
	p.mu.Lock()
	defer p.mu.Unlock()
	s, ok1 := p.names[string(n.SubjectAndKey.RawSubject)]
	k, ok2 := p.keys[string(n.SubjectAndKey.RawSubjectPublicKeyInfo)]
	if !ok1 || !ok2 {
		obs.Fatal("graph node with unknown subject/key: %x", n.SubjectAndKey.Fingerprint)
	}
	return []string{s, k}
}

func (p *Pool) NameAbs(raw string) string {
	p.mu.Lock()
	defer p.mu.Unlock()
	s, ok := p.names[raw]
	if !ok {
		obs.Fatal("unknown raw name %x", raw)
	}
	return s
}

// ---------------------------------------------------------------- observation of a graph

type Edge struct {
	ID     string   `json:"id"`
	Child  []string `json:"child"`
	Issuer []string `json:"issuer"`
	Root   bool     `json:"root"`
	Found  bool     `json:"found"`
	IsRoot bool     `json:"isroot"`
}

type Adj struct {
	Node  []string `json:"node"`
	Other []string `json:"other"`
	Edges []string `json:"edges"`
}

type NoIssuer struct {
	Node  []string `json:"node"`
	Edges []string `json:"edges"`
}

type Missing struct {
	Name  string   `json:"name"`
	Edges []string `json:"edges"`
}

// Obs is the observation record judged by GraphReasons (Graph.tla).
type Obs struct {
	Certs    []AbsCert  `json:"certs"`
	Roots    []string   `json:"roots"`
	Nodes    [][]string `json:"nodes"`
	NodeIdx  [][]string `json:"nodeidx"`
	Edges    []Edge     `json:"edges"`
	Parents  []Adj      `json:"parents"`
	Children []Adj      `json:"children"`
	Missing  []Missing  `json:"missing"`
	NoIssuer []NoIssuer `json:"noissuer"`
	FindNode []bool     `json:"findnode"`
	Panic    string     `json:"panic"`
}

func nodeLess(a, b []string) bool {
	if a[0] != b[0] {
		return a[0] < b[0]
	}
	return a[1] < b[1]
}

func (p *Pool) edgeIDs(es []*verifier.GraphEdge) []string {
	out := make([]string, 0, len(es))
	for _, e := range es {
		r := p.ByCert(e.Certificate)
		if r == nil {
			obs.Fatal("edge with unknown certificate")
		}
		out = append(out, r.Abs.ID)
	}
	sort.Strings(out)
	return out
}

// Observe projects the real graph.  added / roots describe the input history (what was inserted).
func (p *Pool) Observe(g *verifier.Graph, added []AbsCert, roots []string) Obs {
	o := Obs{Certs: append([]AbsCert{}, added...), Roots: append([]string{}, roots...), Nodes: [][]string{},
		NodeIdx: [][]string{}, Edges: []Edge{}, Parents: []Adj{}, Children: []Adj{}, Missing: []Missing{}, NoIssuer: []NoIssuer{}, FindNode: []bool{}}
	sort.Slice(o.Certs, func(i, j int) bool { return o.Certs[i].ID < o.Certs[j].ID })
	sort.Strings(o.Roots)
	fpNode := map[string]*verifier.GraphNode{}
	type nf struct {
		abs  []string
		find bool
	}
	var nfs []nf
	for _, n := range g.Nodes() {
		fpNode[string(n.SubjectAndKey.Fingerprint)] = n
		nfs = append(nfs, nf{p.NodeAbs(n), g.FindNode(n.SubjectAndKey.Fingerprint) == n})
	}
	sort.SliceStable(nfs, func(i, j int) bool { return nodeLess(nfs[i].abs, nfs[j].abs) })
	for _, x := range nfs {
		o.Nodes = append(o.Nodes, x.abs)
		o.FindNode = append(o.FindNode, x.find)
	}
	for _, n := range verifier.VerifGraphNodeIndex(g) {
		o.NodeIdx = append(o.NodeIdx, p.NodeAbs(n))
	}
	sort.SliceStable(o.NodeIdx, func(i, j int) bool { return nodeLess(o.NodeIdx[i], o.NodeIdx[j]) })
	for _, e := range g.Edges() {
		r := p.ByCert(e.Certificate)
		if r == nil {
			obs.Fatal("edge with unknown certificate")
		}
		oe := Edge{ID: r.Abs.ID, Issuer: []string{}, Root: verifier.VerifGraphEdgeRoot(e)}
		if c := verifier.VerifGraphEdgeChild(e); c != nil {
			oe.Child = p.NodeAbs(c)
		} else {
			oe.Child = []string{}
		}
		if i := verifier.VerifGraphEdgeIssuer(e); i != nil {
			oe.Issuer = p.NodeAbs(i)
		}
		oe.Found = g.FindEdge(e.Certificate.FingerprintSHA256) == e
		oe.IsRoot = g.IsRoot(e.Certificate)
		o.Edges = append(o.Edges, oe)
	}
	sort.SliceStable(o.Edges, func(i, j int) bool { return o.Edges[i].ID < o.Edges[j].ID })
	adj := func(n *verifier.GraphNode, m map[string][]*verifier.GraphEdge) []Adj {
		var out []Adj
		for k, es := range m {
			other := fpNode[k]
			var oa []string
			if other == nil {
				oa = []string{"?", hex.EncodeToString([]byte(k))[:8]}
			} else {
				oa = p.NodeAbs(other)
			}
			out = append(out, Adj{Node: p.NodeAbs(n), Other: oa, Edges: p.edgeIDs(es)})
		}
		return out
	}
	for _, n := range g.Nodes() {
		o.Parents = append(o.Parents, adj(n, verifier.VerifGraphNodeParents(n))...)
		o.Children = append(o.Children, adj(n, verifier.VerifGraphNodeChildren(n))...)
		if es := verifier.VerifGraphNodeParentsWithoutIssuer(n); len(es) > 0 {
			o.NoIssuer = append(o.NoIssuer, NoIssuer{Node: p.NodeAbs(n), Edges: p.edgeIDs(es)})
		}
	}
	sort.SliceStable(o.NoIssuer, func(i, j int) bool { return nodeLess(o.NoIssuer[i].Node, o.NoIssuer[j].Node) })
	adjLess := func(s []Adj) func(i, j int) bool {
		return func(i, j int) bool {
			if !(s[i].Node[0] == s[j].Node[0] && s[i].Node[1] == s[j].Node[1]) {
				return nodeLess(s[i].Node, s[j].Node)
			}
			return nodeLess(s[i].Other, s[j].Other)
		}
	}
	sort.SliceStable(o.Parents, adjLess(o.Parents))
	sort.SliceStable(o.Children, adjLess(o.Children))
	for k, es := range verifier.VerifGraphMissingIssuer(g) {
		o.Missing = append(o.Missing, Missing{Name: p.NameAbs(k), Edges: p.edgeIDs(es)})
	}
	sort.SliceStable(o.Missing, func(i, j int) bool { return o.Missing[i].Name < o.Missing[j].Name })
	return o
}

// Key is a canonical hash of an observation (for de-duplication before TLC judges them).
func Key(v any) string {
	b, err := json.Marshal(v)
	if err != nil {
		obs.Fatal("marshal: %v", err)
	}
	h := sha256.Sum256(b)
	return hex.EncodeToString(h[:12])
}

// ---------------------------------------------------------------- histories

// Op is one insertion.
type Op struct {
	C    string `json:"c"`
	Root bool   `json:"root"`
}

// History is a self-contained insertion history (replay-file "case").
type History struct {
	Certs []AbsCert `json:"certs"`
	Ops   []Op      `json:"ops"`
}

// Builder replays a history on a fresh real graph.
type Builder struct {
	P     *Pool
	G     *verifier.Graph
	Added []AbsCert
	Roots []string
	seen  map[string]bool
	rseen map[string]bool
}

func NewBuilder(p *Pool) *Builder {
	return &Builder{P: p, G: verifier.NewGraph(), seen: map[string]bool{}, rseen: map[string]bool{}}
}

// Apply performs one insertion; returns the panic text if the call panicked.
func (b *Builder) Apply(a AbsCert, root bool) string {
	r := b.P.Get(a)
	o := obs.Guard(obsLimit, func() {
		if root {
			b.G.AddRoot(r.Cert)
		} else {
			b.G.AddCert(r.Cert)
		}
	})
	if !b.seen[a.ID] {
		b.seen[a.ID] = true
		b.Added = append(b.Added, a)
	}
	if root && !b.rseen[a.ID] {
		b.rseen[a.ID] = true
		b.Roots = append(b.Roots, a.ID)
	}
	if o.Timeout {
		return "timeout"
	}
	return o.Panic
}

func (b *Builder) Observe() Obs { return b.P.Observe(b.G, b.Added, b.Roots) }

const obsLimit = 60 * time.Second // watchdog for a call that normally takes < 1 ms
