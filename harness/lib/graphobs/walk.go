package graphobs

import (
	"sort"
	"strings"
	"sync/atomic"
	"time"

	"github.com/zmap/zcrypto/verifier"
	"github.com/zmap/zcrypto/x509"
	"verifharness/lib/obs"
)

// WEdge is a walk-graph edge record of Walk.tla.
type WEdge struct {
	ID         string   `json:"id"`
	Child      []string `json:"child"`
	Issuer     []string `json:"issuer"`
	Root       bool     `json:"root"`
	CA         bool     `json:"ca"`
	PathLen    int      `json:"pathlen"`
	SelfIssued bool     `json:"selfissued"`
}

// WStart describes the start certificate of a walk.
type WStart struct {
	ID         string   `json:"id"`
	Child      []string `json:"child"`
	Iss        string   `json:"iss"`
	SKey       string   `json:"skey"`
	CA         bool     `json:"ca"`
	PathLen    int      `json:"pathlen"`
	SelfIssued bool     `json:"selfissued"`
	InGraph    bool     `json:"ingraph"`
}

// WalkObs is the observation judged by WalkObsJudge (Walk.tla).
type WalkObs struct {
	Edges  []WEdge    `json:"edges"`
	Nodes  [][]string `json:"nodes"`
	Start  WStart     `json:"start"`
	Chains [][]string `json:"chains"`
	Closed bool       `json:"closed"`
	Panic  string     `json:"panic"`
}

// certAttrs re-derives (ca, pathlen) from the parsed certificate the walker sees.
func certAttrs(c *x509.Certificate) (bool, int) {
	ca := c.BasicConstraintsValid && c.IsCA
	pl := -1
	if c.BasicConstraintsValid && c.MaxPathLen >= 0 {
		pl = c.MaxPathLen
	}
	return ca, pl
}

// WalkGraph projects the real graph to walk edge records (issuer/child/root through the verif
// accessors, certificate attributes from the parsed certificate).
func (p *Pool) WalkGraph(g *verifier.Graph) ([]WEdge, [][]string) {
	edges := []WEdge{}
	for _, e := range g.Edges() {
		r := p.ByCert(e.Certificate)
		if r == nil {
			obs.Fatal("edge with unknown certificate")
		}
		ca, pl := certAttrs(e.Certificate)
		if ca != r.Abs.CA || pl != r.Abs.PathLen {
			obs.Fatal("certificate %s: parsed attributes (ca=%v pathlen=%d) differ from the abstract record", r.Abs.ID, ca, pl)
		}
		w := WEdge{ID: r.Abs.ID, Issuer: []string{}, Root: verifier.VerifGraphEdgeRoot(e), CA: ca, PathLen: pl,
			SelfIssued: r.Abs.Subj == r.Abs.Iss}
		w.Child = p.NodeAbs(verifier.VerifGraphEdgeChild(e))
		if i := verifier.VerifGraphEdgeIssuer(e); i != nil {
			w.Issuer = p.NodeAbs(i)
		}
		edges = append(edges, w)
	}
	sort.Slice(edges, func(i, j int) bool { return edges[i].ID < edges[j].ID })
	nodes := [][]string{}
	for _, n := range g.Nodes() {
		nodes = append(nodes, p.NodeAbs(n))
	}
	sort.Slice(nodes, func(i, j int) bool { return nodeLess(nodes[i], nodes[j]) })
	return edges, nodes
}

func (p *Pool) StartOf(a AbsCert, inGraph bool) WStart {
	return WStart{ID: a.ID, Child: []string{a.Subj, a.Key}, Iss: a.Iss, SKey: a.SKey, CA: a.CA, PathLen: a.PathLen,
		SelfIssued: a.Subj == a.Iss, InGraph: inGraph}
}

// ChainIDs maps a returned chain to abstract certificate ids ("?" for an unknown certificate).
func (p *Pool) ChainIDs(ch x509.CertificateChain) []string {
	out := make([]string, 0, len(ch))
	for _, c := range ch {
		if r := p.ByCert(c); r != nil {
			out = append(out, r.Abs.ID)
		} else {
			out = append(out, "?")
		}
	}
	return out
}

func sortChains(cs [][]string) {
	sort.Slice(cs, func(i, j int) bool { return strings.Join(cs[i], ",") < strings.Join(cs[j], ",") })
}

// WalkLimit is the watchdog for one walk; the consumer gives up waiting for close after half of
// it.  Normal latency of a walk on these graphs is 10-500 microseconds, so 3 s is > 1000 x.
const WalkLimit = 6 * time.Second

// Timeouts counts walks that ran into the watchdog; after a few the harness stops issuing
// further asynchronous walks (each would cost the full watchdog time) - what was observed is
// judged, and a timeout only counts when it repeats in a fresh process.
var Timeouts atomic.Int32

// SyncWalk runs Graph.WalkChains.
func (p *Pool) SyncWalk(g *verifier.Graph, c *x509.Certificate) (chains [][]string, closed bool, pan string) {
	chains = [][]string{}
	var res []x509.CertificateChain
	o := obs.Guard(WalkLimit, func() { res = g.WalkChains(c) })
	if o.Timeout {
		Timeouts.Add(1)
		return chains, false, ""
	}
	for _, ch := range res {
		chains = append(chains, p.ChainIDs(ch))
	}
	sortChains(chains)
	return chains, true, o.Panic
}

// AsyncWalk runs Graph.WalkChainsAsync with channel size k (0 = default) and a paced consumer.
// closed reports whether the channel was closed once the consumer had drained it.
func (p *Pool) AsyncWalk(g *verifier.Graph, c *x509.Certificate, k int, lazy bool) (chains [][]string, closed bool, pan string) {
	chains = [][]string{}
	var res []x509.CertificateChain
	o := obs.Guard(WalkLimit, func() {
		ch := g.WalkChainsAsync(c, verifier.WalkOptions{ChannelSize: k})
		deadline := time.After(WalkLimit / 2)
		for {
			if lazy {
				time.Sleep(150 * time.Microsecond)
			}
			select {
			case chain, ok := <-ch:
				if !ok {
					closed = true
					return
				}
				res = append(res, chain)
			case <-deadline:
				return
			}
		}
	})
	for _, ch := range res {
		chains = append(chains, p.ChainIDs(ch))
	}
	sortChains(chains)
	if !closed || o.Timeout {
		Timeouts.Add(1)
	}
	return chains, closed && !o.Timeout, o.Panic
}
