// Package der binds the decoder classes of spec/DER.tla to the real decoders of
// zcrypto's two ASN.1 codecs (encoding/asn1 and cryptobyte).  It only *runs* the real
// code and projects results to the abstract observations of the specification
// (sign/magnitude, arcs, bit string, time fields, header fields, consumed bytes, the
// re-encoding produced by the same library).  It never decides what is acceptable:
// expected verdicts come from TLC (DERGen.tla) or the observations go to TLC
// (Trace_DER.tla).
package der

import (
	"fmt"
	"math/big"
	"time"

	"github.com/zmap/zcrypto/cryptobyte"
	cbasn1 "github.com/zmap/zcrypto/cryptobyte/asn1"
	"github.com/zmap/zcrypto/encoding/asn1"
)

// Value is the abstract decoded value (the fields used depend on the kind).
type Value struct {
	Sign  int     `json:"sign"`  // int
	Mag   []int   `json:"mag"`   // int: big-endian magnitude, no leading zeros
	Bv    bool    `json:"bv"`    // bool
	Arcs  []int64 `json:"arcs"`  // oid
	Bytes []int   `json:"bytes"` // bits
	Bl    int     `json:"bl"`    // bits: bit length
	T     []int   `json:"t"`     // time: Y M D h m s offset-seconds
	Class int     `json:"class"` // hdr
	Cons  bool    `json:"cons"`  // hdr
	Tag   int64   `json:"tag"`   // hdr
	Clen  int     `json:"clen"`  // hdr: content length
}

// Obs is what one real decoder did with one input.
type Obs struct {
	Acc   bool   // accepted
	N     int    // bytes consumed
	Val   Value  // decoded value (projection)
	Re    []byte // the decoded value re-encoded with the same library
	ReErr string // re-encoding failed
	Panic string // the decoder panicked
}

// Target is one real decoder entry point.
type Target struct {
	Name    string // e.g. "asn1.int64", "cb.oid"
	Kind    string // int bool oid bits time hdr
	Cls     string // decoder class of DER.tla
	TagByte byte   // identifier octet this reader expects (patched into b[0]); 0 = leave
	Run     func(in []byte) Obs
	NoRe    bool // the library has no encoder for this type (no re-encoding to compare)
}

// Class orders of DERGen.tla (vs vectors).
var ClassSeq = map[string][]string{
	"int":  {"S8", "S16", "S32", "S64", "U8", "U16", "U32", "U64", "BIG"},
	"oid":  {"A31", "A28"},
	"bits": {"BITS", "BYTES"},
	"hdr":  {"ANY31", "LOW"},
}

func ClassIndex(kind, cls string) int {
	for i, c := range ClassSeq[kind] {
		if c == cls {
			return i
		}
	}
	return -1
}

// SetPermissive switches encoding/asn1's global mode (cryptobyte has no such mode).
func SetPermissive(on bool) { asn1.AllowPermissiveParsing = on }

func Ints(b []byte) []int {
	r := make([]int, len(b))
	for i, x := range b {
		r[i] = int(x)
	}
	return r
}

func Bytes(v []int) []byte {
	r := make([]byte, len(v))
	for i, x := range v {
		r[i] = byte(x)
	}
	return r
}

func bigVal(n *big.Int) Value { return Value{Sign: n.Sign(), Mag: Ints(n.Bytes())} }

func timeVal(t time.Time) Value {
	y, mo, d := t.Date()
	h, mi, s := t.Clock()
	_, off := t.Zone()
	return Value{T: []int{y, int(mo), d, h, mi, s, off}}
}

func oidVal(o asn1.ObjectIdentifier) Value {
	a := make([]int64, len(o))
	for i, x := range o {
		a[i] = int64(x)
	}
	return Value{Arcs: a}
}

func guard(f func() Obs) (o Obs) {
	defer func() {
		if r := recover(); r != nil {
			o = Obs{Panic: fmt.Sprintf("%v", r)}
		}
	}()
	return f()
}

// ---------------------------------------------------------------- encoding/asn1

// asn1Run unmarshals into a fresh *T, projects with val and re-marshals with re.
func asn1Run[T any](in []byte, params string, val func(T) Value, re func(T) ([]byte, error)) Obs {
	return guard(func() Obs {
		var x T
		rest, err := asn1.UnmarshalWithParams(in, &x, params)
		if err != nil {
			return Obs{}
		}
		o := Obs{Acc: true, N: len(in) - len(rest), Val: val(x)}
		b, err := re(x)
		if err != nil {
			o.ReErr = err.Error()
		}
		o.Re = b
		return o
	})
}

func marshal[T any](x T) ([]byte, error) { return asn1.Marshal(x) }

// anyRun unmarshals into interface{} and expects the dynamic type T.
func anyRun[T any](in []byte, val func(T) Value, re func(T) ([]byte, error)) Obs {
	return guard(func() Obs {
		var x interface{}
		rest, err := asn1.Unmarshal(in, &x)
		if err != nil {
			return Obs{}
		}
		v, ok := x.(T)
		if !ok {
			return Obs{Acc: true, N: len(in) - len(rest), ReErr: fmt.Sprintf("dynamic type %T", x)}
		}
		o := Obs{Acc: true, N: len(in) - len(rest), Val: val(v)}
		b, err := re(v)
		if err != nil {
			o.ReErr = err.Error()
		}
		o.Re = b
		return o
	})
}

// ---------------------------------------------------------------- cryptobyte

func cbRun(in []byte, read func(s *cryptobyte.String) (bool, Value, func(b *cryptobyte.Builder))) Obs {
	return guard(func() Obs {
		s := cryptobyte.String(in)
		ok, v, w := read(&s)
		if !ok {
			return Obs{}
		}
		o := Obs{Acc: true, N: len(in) - len(s), Val: v}
		var b cryptobyte.Builder
		w(&b)
		out, err := b.Bytes()
		if err != nil {
			o.ReErr = err.Error()
		}
		o.Re = out
		return o
	})
}

func cbInt[T int8 | int16 | int32 | int64 | int](in []byte) Obs {
	return cbRun(in, func(s *cryptobyte.String) (bool, Value, func(*cryptobyte.Builder)) {
		var x T
		ok := s.ReadASN1Integer(&x)
		return ok, bigVal(big.NewInt(int64(x))), func(b *cryptobyte.Builder) { b.AddASN1Int64(int64(x)) }
	})
}

func cbUint[T uint8 | uint16 | uint32 | uint64 | uint](in []byte) Obs {
	return cbRun(in, func(s *cryptobyte.String) (bool, Value, func(*cryptobyte.Builder)) {
		var x T
		ok := s.ReadASN1Integer(&x)
		return ok, bigVal(new(big.Int).SetUint64(uint64(x))), func(b *cryptobyte.Builder) { b.AddASN1Uint64(uint64(x)) }
	})
}

const ctxTag2 = 0x82 // [2] IMPLICIT, primitive

var all = []Target{
	// INTEGER
	{"asn1.int", "int", "S64", 0, func(in []byte) Obs {
		return asn1Run(in, "", func(x int) Value { return bigVal(big.NewInt(int64(x))) }, marshal[int])
	}, false},
	{"asn1.int32", "int", "S32", 0, func(in []byte) Obs {
		return asn1Run(in, "", func(x int32) Value { return bigVal(big.NewInt(int64(x))) }, marshal[int32])
	}, false},
	{"asn1.int64", "int", "S64", 0, func(in []byte) Obs {
		return asn1Run(in, "", func(x int64) Value { return bigVal(big.NewInt(x)) }, marshal[int64])
	}, false},
	{"asn1.big", "int", "BIG", 0, func(in []byte) Obs {
		return asn1Run(in, "", func(x *big.Int) Value { return bigVal(x) }, marshal[*big.Int])
	}, false},
	{"asn1.enum", "int", "S32", 0x0a, func(in []byte) Obs {
		return asn1Run(in, "", func(x asn1.Enumerated) Value { return bigVal(big.NewInt(int64(x))) }, marshal[asn1.Enumerated])
	}, false},
	{"asn1.any-int", "int", "S64", 0, func(in []byte) Obs {
		return anyRun(in, func(x int64) Value { return bigVal(big.NewInt(x)) }, marshal[int64])
	}, false},
	{"asn1.int-tag2", "int", "S64", ctxTag2, func(in []byte) Obs {
		return asn1Run(in, "tag:2", func(x int64) Value { return bigVal(big.NewInt(x)) },
			func(x int64) ([]byte, error) { return asn1.MarshalWithParams(x, "tag:2") })
	}, false},
	{"cb.int8", "int", "S8", 0, cbInt[int8], false},
	{"cb.int16", "int", "S16", 0, cbInt[int16], false},
	{"cb.int32", "int", "S32", 0, cbInt[int32], false},
	{"cb.int64", "int", "S64", 0, cbInt[int64], false},
	{"cb.int", "int", "S64", 0, cbInt[int], false},
	{"cb.uint8", "int", "U8", 0, cbUint[uint8], false},
	{"cb.uint16", "int", "U16", 0, cbUint[uint16], false},
	{"cb.uint32", "int", "U32", 0, cbUint[uint32], false},
	{"cb.uint64", "int", "U64", 0, cbUint[uint64], false},
	{"cb.uint", "int", "U64", 0, cbUint[uint], false},
	{"cb.big", "int", "BIG", 0, func(in []byte) Obs {
		return cbRun(in, func(s *cryptobyte.String) (bool, Value, func(*cryptobyte.Builder)) {
			x := new(big.Int)
			ok := s.ReadASN1Integer(x)
			return ok, bigVal(x), func(b *cryptobyte.Builder) { b.AddASN1BigInt(x) }
		})
	}, false},
	{"cb.int64tag", "int", "S64", ctxTag2, func(in []byte) Obs {
		return cbRun(in, func(s *cryptobyte.String) (bool, Value, func(*cryptobyte.Builder)) {
			var x int64
			ok := s.ReadASN1Int64WithTag(&x, cbasn1.Tag(ctxTag2))
			return ok, bigVal(big.NewInt(x)), func(b *cryptobyte.Builder) { b.AddASN1Int64WithTag(x, cbasn1.Tag(ctxTag2)) }
		})
	}, false},
	{"cb.enum", "int", "S64", 0x0a, func(in []byte) Obs {
		return cbRun(in, func(s *cryptobyte.String) (bool, Value, func(*cryptobyte.Builder)) {
			var x int
			ok := s.ReadASN1Enum(&x)
			return ok, bigVal(big.NewInt(int64(x))), func(b *cryptobyte.Builder) { b.AddASN1Enum(int64(x)) }
		})
	}, false},

	// BOOLEAN
	{"asn1.bool", "bool", "", 0, func(in []byte) Obs {
		return asn1Run(in, "", func(x bool) Value { return Value{Bv: x} }, marshal[bool])
	}, false},
	{"cb.bool", "bool", "", 0, func(in []byte) Obs {
		return cbRun(in, func(s *cryptobyte.String) (bool, Value, func(*cryptobyte.Builder)) {
			var x bool
			ok := s.ReadASN1Boolean(&x)
			return ok, Value{Bv: x}, func(b *cryptobyte.Builder) { b.AddASN1Boolean(x) }
		})
	}, false},

	// OBJECT IDENTIFIER
	{"asn1.oid", "oid", "A31", 0, func(in []byte) Obs {
		return asn1Run(in, "", oidVal, marshal[asn1.ObjectIdentifier])
	}, false},
	{"asn1.any-oid", "oid", "A31", 0, func(in []byte) Obs {
		return anyRun(in, oidVal, marshal[asn1.ObjectIdentifier])
	}, false},
	{"cb.oid", "oid", "A28", 0, func(in []byte) Obs {
		return cbRun(in, func(s *cryptobyte.String) (bool, Value, func(*cryptobyte.Builder)) {
			var x asn1.ObjectIdentifier
			ok := s.ReadASN1ObjectIdentifier(&x)
			return ok, oidVal(x), func(b *cryptobyte.Builder) { b.AddASN1ObjectIdentifier(x) }
		})
	}, false},

	// BIT STRING
	{"asn1.bits", "bits", "BITS", 0, func(in []byte) Obs {
		return asn1Run(in, "", func(x asn1.BitString) Value { return Value{Bytes: Ints(x.Bytes), Bl: x.BitLength} }, marshal[asn1.BitString])
	}, false},
	{"asn1.any-bits", "bits", "BITS", 0, func(in []byte) Obs {
		return anyRun(in, func(x asn1.BitString) Value { return Value{Bytes: Ints(x.Bytes), Bl: x.BitLength} }, marshal[asn1.BitString])
	}, false},
	{"cb.bits", "bits", "BITS", 0, func(in []byte) Obs {
		return cbRun(in, func(s *cryptobyte.String) (bool, Value, func(*cryptobyte.Builder)) {
			var x asn1.BitString
			ok := s.ReadASN1BitString(&x)
			// cryptobyte has no dedicated builder for partial bytes; Builder.MarshalASN1 is
			// the library's own way to write an asn1.BitString.
			return ok, Value{Bytes: Ints(x.Bytes), Bl: x.BitLength}, func(b *cryptobyte.Builder) { b.MarshalASN1(x) }
		})
	}, false},
	{"cb.bitsbytes", "bits", "BYTES", 0, func(in []byte) Obs {
		return cbRun(in, func(s *cryptobyte.String) (bool, Value, func(*cryptobyte.Builder)) {
			var x []byte
			ok := s.ReadASN1BitStringAsBytes(&x)
			return ok, Value{Bytes: Ints(x), Bl: 8 * len(x)}, func(b *cryptobyte.Builder) { b.AddASN1BitString(x) }
		})
	}, false},

	// GeneralizedTime
	{"cb.gtime", "time", "", 0, func(in []byte) Obs {
		return cbRun(in, func(s *cryptobyte.String) (bool, Value, func(*cryptobyte.Builder)) {
			var x time.Time
			ok := s.ReadASN1GeneralizedTime(&x)
			return ok, timeVal(x), func(b *cryptobyte.Builder) { b.AddASN1GeneralizedTime(x) }
		})
	}, false},
	{"asn1.gtime", "time", "", 0, func(in []byte) Obs {
		return asn1Run(in, "", timeVal, func(x time.Time) ([]byte, error) { return asn1.MarshalWithParams(x, "generalized") })
	}, false},
	{"asn1.any-gtime", "time", "", 0, func(in []byte) Obs {
		return anyRun(in, timeVal, func(x time.Time) ([]byte, error) { return asn1.MarshalWithParams(x, "generalized") })
	}, false},

	{"asn1.gtime-p", "time", "", 0, func(in []byte) Obs {
		return guard(func() Obs {
			var x time.Time
			rest, err := asn1.UnmarshalWithParams(in, &x, "generalized")
			if err != nil {
				return Obs{}
			}
			o := Obs{Acc: true, N: len(in) - len(rest), Val: timeVal(x)}
			b, err := asn1.MarshalWithParams(x, "generalized")
			if err != nil {
				o.ReErr = err.Error()
			}
			o.Re = b
			return o
		})
	}, false},

	// UTCTime
	{"asn1.utctime", "utc", "", 0, func(in []byte) Obs {
		return asn1Run(in, "", timeVal, marshal[time.Time])
	}, false},
	{"asn1.utctime-p", "utc", "", 0, func(in []byte) Obs {
		return asn1Run(in, "utc", timeVal, func(x time.Time) ([]byte, error) { return asn1.MarshalWithParams(x, "utc") })
	}, false},
	{"asn1.any-utctime", "utc", "", 0, func(in []byte) Obs {
		return anyRun(in, timeVal, marshal[time.Time])
	}, false},
	{"cb.utctime", "utc", "", 0, func(in []byte) Obs {
		return cbRun(in, func(s *cryptobyte.String) (bool, Value, func(*cryptobyte.Builder)) {
			var x time.Time
			ok := s.ReadASN1UTCTime(&x)
			return ok, timeVal(x), func(b *cryptobyte.Builder) {} // cryptobyte has no UTCTime builder
		})
	}, true},

	// tag / length header
	{"asn1.raw", "hdr", "ANY31", 0, func(in []byte) Obs {
		return asn1Run(in, "", func(x asn1.RawValue) Value {
			return Value{Class: x.Class, Tag: int64(x.Tag), Cons: x.IsCompound, Clen: len(x.Bytes)}
		}, func(x asn1.RawValue) ([]byte, error) {
			return asn1.Marshal(asn1.RawValue{Class: x.Class, Tag: x.Tag, IsCompound: x.IsCompound, Bytes: x.Bytes})
		})
	}, false},
	{"cb.any", "hdr", "LOW", 0, func(in []byte) Obs {
		return cbRun(in, func(s *cryptobyte.String) (bool, Value, func(*cryptobyte.Builder)) {
			var out cryptobyte.String
			var tag cbasn1.Tag
			ok := s.ReadAnyASN1(&out, &tag)
			return ok, Value{Class: int(tag >> 6), Tag: int64(tag & 0x1f), Cons: tag&0x20 != 0, Clen: len(out)},
				func(b *cryptobyte.Builder) { b.AddASN1(tag, func(c *cryptobyte.Builder) { c.AddBytes(out) }) }
		})
	}, false},
	{"cb.anyelem", "hdr", "LOW", 0, func(in []byte) Obs {
		return cbRun(in, func(s *cryptobyte.String) (bool, Value, func(*cryptobyte.Builder)) {
			var out cryptobyte.String
			var tag cbasn1.Tag
			ok := s.ReadAnyASN1Element(&out, &tag)
			var inner cryptobyte.String
			var t2 cbasn1.Tag
			cp := out
			clen := -1
			if ok && cp.ReadAnyASN1(&inner, &t2) {
				clen = len(inner)
			}
			return ok, Value{Class: int(tag >> 6), Tag: int64(tag & 0x1f), Cons: tag&0x20 != 0, Clen: clen},
				func(b *cryptobyte.Builder) { b.AddBytes(out) }
		})
	}, false},
}

// Targets returns the real decoders bound to a kind.
func Targets(kind string) []Target {
	var r []Target
	for _, t := range all {
		if t.Kind == kind {
			r = append(r, t)
		}
	}
	return r
}

// TargetByName finds a target.
func TargetByName(name string) *Target {
	for i := range all {
		if all[i].Name == name {
			return &all[i]
		}
	}
	return nil
}

// Input returns the bytes handed to target t for case bytes b (identifier octet patched
// where the reader expects another tag) followed by fill zero octets.
func Input(t *Target, b []byte, fill int) []byte {
	in := make([]byte, len(b)+fill)
	copy(in, b)
	if t.TagByte != 0 && len(in) > 0 {
		in[0] = t.TagByte
	}
	return in
}
