// Package obs: NDJSON I/O, violation candidates and guarded execution shared by all
// conformance harnesses.  A harness never decides what the property allows: expected
// results come from TLC (generated cases) or observations go back to TLC (validation).
package obs

import (
	"bufio"
	"encoding/json"
	"fmt"
	"os"
	"strconv"
	"sync"
	"time"
)

// Candidate is a disagreement between the specification's demand and the real code.
type Candidate struct {
	Sig  map[string]any `json:"sig"`
	What string         `json:"what"`
	Case any            `json:"case"`
}

var outMu sync.Mutex

// Emit prints a candidate as one JSON line prefixed by "CAND " on stdout.
func Emit(c Candidate) {
	b, err := json.Marshal(c)
	if err != nil {
		panic(err)
	}
	outMu.Lock()
	fmt.Printf("CAND %s\n", b)
	outMu.Unlock()
}

// Stat prints a counter line "STAT name value" collected by the runner into evidence.
func Stat(name string, v any) {
	b, _ := json.Marshal(v)
	outMu.Lock()
	fmt.Printf("STAT %s %s\n", name, b)
	outMu.Unlock()
}

// Seed returns VERIF_SEED (default 1).
func Seed() int64 {
	s, err := strconv.ParseInt(os.Getenv("VERIF_SEED"), 10, 64)
	if err != nil {
		return 1
	}
	return s
}

func Thorough() bool { return os.Getenv("VERIF_TIER") == "thorough" }

// ReadLines calls f for every non-empty line of path.
func ReadLines(path string, f func(line []byte) error) error {
	fh, err := os.Open(path)
	if err != nil {
		return err
	}
	defer fh.Close()
	sc := bufio.NewScanner(fh)
	sc.Buffer(make([]byte, 1<<20), 1<<28)
	for sc.Scan() {
		b := sc.Bytes()
		if len(b) == 0 {
			continue
		}
		if err := f(b); err != nil {
			return err
		}
	}
	return sc.Err()
}

// Writer writes NDJSON.
type Writer struct {
	f *os.File
	w *bufio.Writer
	N int
}

func NewWriter(path string) *Writer {
	f, err := os.Create(path)
	if err != nil {
		Fatal("create %s: %v", path, err)
	}
	return &Writer{f: f, w: bufio.NewWriterSize(f, 1<<20)}
}

func (w *Writer) Write(v any) {
	b, err := json.Marshal(v)
	if err != nil {
		Fatal("marshal: %v", err)
	}
	w.w.Write(b)
	w.w.WriteByte('\n')
	w.N++
}

func (w *Writer) Close() {
	w.w.Flush()
	w.f.Close()
}

// Fatal: harness problem (exit 3) - never a verdict.
func Fatal(format string, a ...any) {
	fmt.Fprintf(os.Stderr, "harness: "+format+"\n", a...)
	os.Exit(3)
}

// ReadReplay loads the "case" member of a replay file into v and returns sig.
func ReadReplay(path string, v any) map[string]any {
	b, err := os.ReadFile(path)
	if err != nil {
		Fatal("read replay: %v", err)
	}
	var r struct {
		Sig  map[string]any  `json:"sig"`
		Case json.RawMessage `json:"case"`
	}
	if err := json.Unmarshal(b, &r); err != nil {
		Fatal("parse replay: %v", err)
	}
	if err := json.Unmarshal(r.Case, v); err != nil {
		Fatal("parse replay case: %v", err)
	}
	return r.Sig
}

// Outcome of a guarded call.
type Outcome struct {
	Panic   string        // non-empty if the call panicked
	Timeout bool          // the call did not return within the limit
	Dur     time.Duration // wall time
}

// Guard runs f under recover and a watchdog.
func Guard(limit time.Duration, f func()) (o Outcome) {
	done := make(chan string, 1)
	t0 := time.Now()
	go func() {
		defer func() {
			if r := recover(); r != nil {
				done <- fmt.Sprintf("%v", r)
				return
			}
			done <- ""
		}()
		f()
	}()
	select {
	case p := <-done:
		o.Panic = p
	case <-time.After(limit):
		o.Timeout = true
	}
	o.Dur = time.Since(t0)
	return
}
