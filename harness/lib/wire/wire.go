// Package wire: conversion between the abstract values of spec/TLSWire.tla (JSON written by TLC)
// and the normalised Go values that tls.VerifMsg.Get/Set use; shared by the C29 and C30 harnesses.
package wire

import (
	"bytes"
	"encoding/json"
	"fmt"
	"sort"
	"strings"
)

// Fields is the abstract value: a JSON object, or [] for a message without fields.
type Fields map[string]json.RawMessage

func (f *Fields) UnmarshalJSON(b []byte) error {
	if bytes.Equal(bytes.TrimSpace(b), []byte("[]")) {
		*f = Fields{}
		return nil
	}
	var m map[string]json.RawMessage
	if err := json.Unmarshal(b, &m); err != nil {
		return err
	}
	*f = m
	return nil
}

func ToBytes(a []int) []byte {
	b := make([]byte, len(a))
	for i, x := range a {
		b[i] = byte(x)
	}
	return b
}

func RawBytes(r json.RawMessage) ([]byte, error) {
	var a []int
	if err := json.Unmarshal(r, &a); err != nil {
		return nil, err
	}
	for _, x := range a {
		if x < 0 || x > 255 {
			return nil, fmt.Errorf("byte %d", x)
		}
	}
	return ToBytes(a), nil
}

func BEUint(b []byte) uint64 {
	var u uint64
	for _, x := range b {
		u = u<<8 | uint64(x)
	}
	return u
}

func RawByteLists(r json.RawMessage) ([][]byte, error) {
	var a [][]int
	if err := json.Unmarshal(r, &a); err != nil {
		return nil, err
	}
	res := make([][]byte, len(a))
	for i := range a {
		res[i] = ToBytes(a[i])
	}
	return res, nil
}

// numeric fields inside nested records
var numericSub = map[string]bool{"group": true, "obfuscatedTicketAge": true}

func RawRecord(r json.RawMessage) (map[string]interface{}, error) {
	var m map[string]json.RawMessage
	if err := json.Unmarshal(r, &m); err != nil {
		return nil, err
	}
	res := map[string]interface{}{}
	for k, v := range m {
		b, err := RawBytes(v)
		if err != nil {
			return nil, err
		}
		if numericSub[k] {
			res[k] = BEUint(b)
		} else {
			res[k] = b
		}
	}
	return res, nil
}

// Concretise converts the abstract field value (JSON from TLC) to the normalised Go form that
// (*tls.VerifMsg).Set/Get use; zero is Get(field) of a fresh message and tells the target type.
func Concretise(zero interface{}, r json.RawMessage) (interface{}, error) {
	switch zero.(type) {
	case bool:
		var b bool
		err := json.Unmarshal(r, &b)
		return b, err
	case uint64:
		b, err := RawBytes(r)
		if err != nil {
			return nil, err
		}
		if len(b) > 8 {
			return nil, fmt.Errorf("integer of %d bytes", len(b))
		}
		return BEUint(b), nil
	case string:
		b, err := RawBytes(r)
		return string(b), err
	case []byte:
		return RawBytes(r)
	case []uint64:
		l, err := RawByteLists(r)
		if err != nil {
			return nil, err
		}
		res := make([]uint64, len(l))
		for i := range l {
			if len(l[i]) != 2 {
				return nil, fmt.Errorf("list item of %d bytes", len(l[i]))
			}
			res[i] = BEUint(l[i])
		}
		return res, nil
	case [][]byte:
		return RawByteLists(r)
	case []string:
		l, err := RawByteLists(r)
		if err != nil {
			return nil, err
		}
		res := make([]string, len(l))
		for i := range l {
			res[i] = string(l[i])
		}
		return res, nil
	case []map[string]interface{}:
		var a []json.RawMessage
		if err := json.Unmarshal(r, &a); err != nil {
			return nil, err
		}
		res := make([]map[string]interface{}, len(a))
		for i := range a {
			m, err := RawRecord(a[i])
			if err != nil {
				return nil, err
			}
			res[i] = m
		}
		return res, nil
	case map[string]interface{}:
		z := zero.(map[string]interface{})
		if _, isCert := z["certs"]; isCert {
			var m map[string]json.RawMessage
			if err := json.Unmarshal(r, &m); err != nil {
				return nil, err
			}
			certs, err := RawByteLists(m["certs"])
			if err != nil {
				return nil, err
			}
			ocsp, err := RawBytes(m["ocsp"])
			if err != nil {
				return nil, err
			}
			scts, err := RawByteLists(m["scts"])
			if err != nil {
				return nil, err
			}
			return map[string]interface{}{"certs": certs, "ocsp": ocsp, "scts": scts,
				"hasOCSP": len(ocsp) > 0, "hasSCTs": len(scts) > 0}, nil
		}
		return RawRecord(r)
	}
	return nil, fmt.Errorf("no conversion to %T", zero)
}

// Canon renders a normalised value so that nil and empty sequences coincide (the abstract
// value is a sequence) and map keys are ordered.
func Canon(v interface{}) string {
	switch x := v.(type) {
	case []byte:
		return fmt.Sprintf("b%x", x)
	case string:
		return fmt.Sprintf("b%x", []byte(x))
	case [][]byte:
		p := make([]string, len(x))
		for i := range x {
			p[i] = Canon(x[i])
		}
		return "[" + strings.Join(p, ",") + "]"
	case []string:
		p := make([]string, len(x))
		for i := range x {
			p[i] = Canon(x[i])
		}
		return "[" + strings.Join(p, ",") + "]"
	case []uint64:
		return fmt.Sprint(x)
	case []map[string]interface{}:
		p := make([]string, len(x))
		for i := range x {
			p[i] = Canon(x[i])
		}
		return "[" + strings.Join(p, ",") + "]"
	case map[string]interface{}:
		var ks []string
		for k := range x {
			ks = append(ks, k)
		}
		sort.Strings(ks)
		p := make([]string, 0, len(ks))
		for _, k := range ks {
			p = append(p, k+":"+Canon(x[k]))
		}
		return "{" + strings.Join(p, ",") + "}"
	}
	return fmt.Sprintf("%v", v)
}
