// Package term evaluates the symbolic byte-string terms of spec/Terms.tla.
//
// The interpretation of the cryptographic symbols is the Go standard library ONLY
// (crypto/hmac, crypto/md5, crypto/sha1, crypto/sha256, crypto/sha512); HKDF is not a
// symbol at all - the specification spells it out in HMAC terms.  Nothing from zcrypto
// (or from x/crypto as vendored by zcrypto) is used here: this package is the oracle side.
package term

import (
	"crypto/aes"
	"crypto/cipher"
	"crypto/des"
	"crypto/hmac"
	"crypto/md5"
	"crypto/rc4"
	"crypto/sha1"
	"crypto/sha256"
	"crypto/sha512"
	"fmt"
	"hash"
)

// T is the uniform term record of Terms.tla.
type T struct {
	Op string `json:"op"`
	A  []T    `json:"a"`
	N  int    `json:"n"`
	S  string `json:"s"`
	B  []int  `json:"b"`
}

// Env binds variable names to byte strings.
type Env map[string][]byte

func hashOf(name string) (func() hash.Hash, error) {
	switch name {
	case "md5":
		return md5.New, nil
	case "sha1":
		return sha1.New, nil
	case "sha256":
		return sha256.New, nil
	case "sha384":
		return sha512.New384, nil
	}
	return nil, fmt.Errorf("term: unknown hash %q", name)
}

// Vars collects the variables of t with their declared lengths (error on conflicting lengths).
func Vars(t *T, into map[string]int) error {
	if t.Op == "var" {
		if l, ok := into[t.S]; ok && l != t.N {
			return fmt.Errorf("term: variable %q used with lengths %d and %d", t.S, l, t.N)
		}
		into[t.S] = t.N
	}
	for i := range t.A {
		if err := Vars(&t.A[i], into); err != nil {
			return err
		}
	}
	return nil
}

// Eval computes the byte string denoted by t.
func Eval(t *T, env Env) ([]byte, error) {
	arg := func(i int) ([]byte, error) {
		if i >= len(t.A) {
			return nil, fmt.Errorf("term: %s lacks operand %d", t.Op, i)
		}
		return Eval(&t.A[i], env)
	}
	switch t.Op {
	case "lit":
		b := make([]byte, len(t.B))
		for i, x := range t.B {
			if x < 0 || x > 255 {
				return nil, fmt.Errorf("term: literal byte %d", x)
			}
			b[i] = byte(x)
		}
		return b, nil
	case "str":
		return []byte(t.S), nil
	case "var":
		v, ok := env[t.S]
		if !ok {
			return nil, fmt.Errorf("term: unbound variable %q", t.S)
		}
		if len(v) != t.N {
			return nil, fmt.Errorf("term: variable %q has %d bytes, declared %d", t.S, len(v), t.N)
		}
		return v, nil
	case "rep":
		if len(t.B) != 1 {
			return nil, fmt.Errorf("term: rep needs one byte")
		}
		b := make([]byte, t.N)
		for i := range b {
			b[i] = byte(t.B[0])
		}
		return b, nil
	case "cat":
		var out []byte
		for i := range t.A {
			x, err := Eval(&t.A[i], env)
			if err != nil {
				return nil, err
			}
			out = append(out, x...)
		}
		if out == nil {
			out = []byte{}
		}
		return out, nil
	case "take", "drop", "last":
		x, err := arg(0)
		if err != nil {
			return nil, err
		}
		n := t.N
		if n > len(x) {
			n = len(x)
		}
		switch t.Op {
		case "take":
			return x[:n], nil
		case "drop":
			return x[n:], nil
		default:
			return x[len(x)-n:], nil
		}
	case "xor":
		x, err := arg(0)
		if err != nil {
			return nil, err
		}
		y, err := arg(1)
		if err != nil {
			return nil, err
		}
		if len(x) != len(y) {
			return nil, fmt.Errorf("term: xor of %d and %d bytes", len(x), len(y))
		}
		out := make([]byte, len(x))
		for i := range x {
			out[i] = x[i] ^ y[i]
		}
		return out, nil
	case "hmac":
		h, err := hashOf(t.S)
		if err != nil {
			return nil, err
		}
		k, err := arg(0)
		if err != nil {
			return nil, err
		}
		m, err := arg(1)
		if err != nil {
			return nil, err
		}
		mac := hmac.New(h, k)
		mac.Write(m)
		return mac.Sum(nil), nil
	case "hash":
		h, err := hashOf(t.S)
		if err != nil {
			return nil, err
		}
		m, err := arg(0)
		if err != nil {
			return nil, err
		}
		d := h()
		d.Write(m)
		return d.Sum(nil), nil
	case "aead":
		if t.S != "aesgcm" || len(t.A) != 4 {
			return nil, fmt.Errorf("term: unsupported AEAD %q", t.S)
		}
		var x [4][]byte
		for i := range x {
			v, err := arg(i)
			if err != nil {
				return nil, err
			}
			x[i] = v
		}
		blk, err := aes.NewCipher(x[0])
		if err != nil {
			return nil, err
		}
		g, err := cipher.NewGCM(blk)
		if err != nil {
			return nil, err
		}
		if len(x[1]) != g.NonceSize() {
			return nil, fmt.Errorf("term: AEAD nonce of %d bytes", len(x[1]))
		}
		return g.Seal(nil, x[1], x[3], x[2]), nil
	case "cbc":
		if len(t.A) != 3 {
			return nil, fmt.Errorf("term: cbc needs key, iv, plaintext")
		}
		key, err := arg(0)
		if err != nil {
			return nil, err
		}
		iv, err := arg(1)
		if err != nil {
			return nil, err
		}
		pt, err := arg(2)
		if err != nil {
			return nil, err
		}
		var blk cipher.Block
		switch t.S {
		case "aes":
			blk, err = aes.NewCipher(key)
		case "3des":
			blk, err = des.NewTripleDESCipher(key)
		default:
			err = fmt.Errorf("term: unsupported block cipher %q", t.S)
		}
		if err != nil {
			return nil, err
		}
		if len(iv) != blk.BlockSize() || len(pt)%blk.BlockSize() != 0 {
			return nil, fmt.Errorf("term: cbc with iv %d bytes, plaintext %d bytes", len(iv), len(pt))
		}
		out := make([]byte, len(pt))
		cipher.NewCBCEncrypter(blk, iv).CryptBlocks(out, pt)
		return out, nil
	case "rc4":
		key, err := arg(0)
		if err != nil {
			return nil, err
		}
		data, err := arg(1)
		if err != nil {
			return nil, err
		}
		c, err := rc4.NewCipher(key)
		if err != nil {
			return nil, err
		}
		skip := make([]byte, t.N)
		c.XORKeyStream(skip, skip)
		out := make([]byte, len(data))
		c.XORKeyStream(out, data)
		return out, nil
	case "u64":
		if t.N < 0 {
			return nil, fmt.Errorf("term: u64(%d)", t.N)
		}
		out := make([]byte, 8)
		v := uint64(t.N)
		for i := 7; i >= 0; i-- {
			out[i] = byte(v)
			v >>= 8
		}
		return out, nil
	case "u8", "u16", "u24", "u32":
		w := map[string]int{"u8": 1, "u16": 2, "u24": 3, "u32": 4}[t.Op]
		if t.N < 0 || (w < 4 && t.N >= 1<<(8*uint(w))) {
			return nil, fmt.Errorf("term: %s(%d) out of range", t.Op, t.N)
		}
		out := make([]byte, w)
		v := t.N
		for i := w - 1; i >= 0; i-- {
			out[i] = byte(v)
			v >>= 8
		}
		return out, nil
	}
	return nil, fmt.Errorf("term: unknown operator %q", t.Op)
}
