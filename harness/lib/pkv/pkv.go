// Package pkv: helpers shared by the harnesses of group pkiverify (c07, c08).
package pkv

import (
	"bytes"
	stdx509 "crypto/x509"
	"fmt"
	"reflect"
	"sort"

	"github.com/zmap/zcrypto/x509"
	"verifharness/lib/pki"
)

var EKUName = map[x509.ExtKeyUsage]string{
	x509.ExtKeyUsageAny: "any", x509.ExtKeyUsageServerAuth: "server", x509.ExtKeyUsageClientAuth: "client",
	x509.ExtKeyUsageCodeSigning: "code", x509.ExtKeyUsageEmailProtection: "email", x509.ExtKeyUsageOcspSigning: "ocsp",
	x509.ExtKeyUsageMicrosoftServerGatedCrypto: "msgc", x509.ExtKeyUsageNetscapeServerGatedCrypto: "nsgc",
	x509.ExtKeyUsageTimeStamping: "time",
}
var EKUValue = func() map[string]x509.ExtKeyUsage {
	m := map[string]x509.ExtKeyUsage{}
	for k, v := range EKUName {
		m[v] = k
	}
	return m
}()

// CheckConcretisation is the abstraction function: it re-derives the abstract record from the real
// certificate (as zcrypto parses it; the signature is checked with the standard library under every
// abstract key of the universe) and returns "" iff it is the abstract certificate a again.
func CheckConcretisation(a pki.Cert, der []byte, keyIDs map[string]bool) string {
	c, err := x509.ParseCertificate(der)
	if err != nil {
		return "zcrypto cannot parse it: " + err.Error()
	}
	ver := a.Ver
	if ver == 0 {
		ver = 3
	}
	if c.Version != ver {
		return fmt.Sprintf("version %d, want %d", c.Version, ver)
	}
	// names: raw bytes are what the verifier links on
	wantIss := pki.RawName(a.Iss)
	if a.CN == "" {
		if !bytes.Equal(c.RawSubject, pki.RawName(a.Subj)) {
			return "raw subject differs"
		}
	} else {
		if c.Subject.CommonName != a.CN || len(c.Subject.OrganizationalUnit) != 1 || c.Subject.OrganizationalUnit[0] != a.Subj {
			return "subject with common-name override differs"
		}
		if a.Iss == a.Subj {
			wantIss = c.RawSubject
		}
	}
	if !bytes.Equal(c.RawIssuer, wantIss) {
		return "raw issuer differs"
	}
	spki, err := stdx509.MarshalPKIXPublicKey(pki.Key(a.Key).Public())
	if err != nil {
		return err.Error()
	}
	if !bytes.Equal(spki, c.RawSubjectPublicKeyInfo) {
		return "subject public key differs"
	}
	// signature: verified with the standard library under exactly the abstract signing key
	std, err := stdx509.ParseCertificate(der)
	if err != nil {
		return "standard library cannot parse it: " + err.Error()
	}
	for k := range keyIDs {
		signer := &stdx509.Certificate{PublicKey: pki.Key(k).Public()}
		err := checkSigStd(signer, std)
		if (err == nil) != (k == a.SKey) {
			return fmt.Sprintf("signature verifies under %s = %v, signing key is %s", k, err == nil, a.SKey)
		}
	}
	if c.SelfSigned != (a.Iss == a.Subj && a.SKey == a.Key) {
		return "SelfSigned flag differs"
	}
	if !c.NotBefore.Equal(pki.At(a.NB)) || !c.NotAfter.Equal(pki.At(a.NA)) {
		return "validity differs"
	}
	if ver < 3 {
		if a.BC || a.CA || len(a.EKU) > 0 || len(a.DNS) > 0 || a.SKID != "" || a.AKID != "" || a.KU != 0 || len(a.IPs) > 0 {
			return "abstract v1/v2 certificate carries extension attributes"
		}
		if len(c.Extensions) != 0 {
			return "v1/v2 certificate has extensions"
		}
		return ""
	}
	if c.BasicConstraintsValid != a.BC || c.IsCA != (a.BC && a.CA) {
		return "basic constraints differ"
	}
	if a.BC && a.CA {
		if c.MaxPathLen != a.PathLen {
			return fmt.Sprintf("path length %d, want %d", c.MaxPathLen, a.PathLen)
		}
	} else if a.PathLen != -1 {
		return "abstract non-CA certificate carries a path length"
	}
	var ekus []string
	for _, u := range c.ExtKeyUsage {
		ekus = append(ekus, EKUName[u])
	}
	for range c.UnknownExtKeyUsage {
		ekus = append(ekus, "unk")
	}
	want := append([]string{}, a.EKU...)
	sort.Strings(ekus)
	sort.Strings(want)
	if !reflect.DeepEqual(ekus, want) && !(len(ekus) == 0 && len(want) == 0) {
		return fmt.Sprintf("eku %v, want %v", ekus, want)
	}
	if a.SKID != "" {
		if !bytes.Equal(c.SubjectKeyId, pki.KeyID(a.SKID)) {
			return "subject key id differs"
		}
	} else {
		// The standard library gives every CA certificate a subject key id derived from its public
		// key when the template has none.  Abstractly "no subject key id" means: none that an
		// authority key id of this universe can refer to (those are pki.KeyID of abstract keys).
		for k := range keyIDs {
			if bytes.Equal(c.SubjectKeyId, pki.KeyID(k)) {
				return "certificate without abstract subject key id carries the key id of " + k
			}
		}
	}
	if (a.AKID == "") != (len(c.AuthorityKeyId) == 0) || a.AKID != "" && !bytes.Equal(c.AuthorityKeyId, pki.KeyID(a.AKID)) {
		return "authority key id differs"
	}
	if int(c.KeyUsage) != a.KU {
		return "key usage differs"
	}
	if !(len(c.DNSNames) == 0 && len(a.DNS) == 0) && !reflect.DeepEqual(c.DNSNames, a.DNS) {
		return "dns names differ"
	}
	return ""
}

func checkSigStd(signer, c *stdx509.Certificate) (err error) {
	defer func() {
		if r := recover(); r != nil {
			err = fmt.Errorf("panic: %v", r)
		}
	}()
	// CheckSignature only needs the signer's PublicKey; key/algorithm mismatch is an error
	return signer.CheckSignature(c.SignatureAlgorithm, c.RawTBSCertificate, c.Signature)
}
