package iss

import (
	"bytes"
	"crypto/rand"
	stdx509 "crypto/x509"
	stdpkix "crypto/x509/pkix"
	stdasn1 "encoding/asn1"
	"errors"
	"fmt"
	"math/big"
	"net"

	zx509 "github.com/zmap/zcrypto/x509"
	zpkix "github.com/zmap/zcrypto/x509/pkix"
)

// C05: certificate requests, legacy CRLs (Certificate.CreateCRL) and v2 revocation lists.

// ---------------------------------------------------------------------------- CSR

type CSRTemplate struct {
	Subject    Name     `json:"subject"`
	RawSubject []Name   `json:"rawSubject"`
	DNS        []string `json:"dns"`
	Emails     []string `json:"emails"`
	IPs        [][]int  `json:"ips"`
	Extras     []Extra  `json:"extras"`
	Key        string   `json:"key"`
	SigAlg     string   `json:"sigAlg"`
}

// Result of running one C05 object through create -> parse -> verify.
type Result struct {
	DER    []byte
	Obs    Obs
	StdObs *Obs
	StdErr error
}

func errObs(stage string, err error) Obs {
	return Obs{Outcome: "error", Err: stage + ": " + err.Error(), Val: map[string]any{}}
}

func extProj(exts []zpkix.Extension, skip map[string]bool) (oids []string, raws []RawExt) {
	oids, raws = []string{}, []RawExt{}
	for _, e := range exts {
		o := e.Id.String()
		oids = append(oids, o)
		if !skip[o] {
			raws = append(raws, RawExt{OID: o, Crit: e.Critical, Hex: Hex(e.Value)})
		}
	}
	return
}

func stdExtProj(exts []stdpkix.Extension, skip map[string]bool) (oids []string, raws []RawExt) {
	oids, raws = []string{}, []RawExt{}
	for _, e := range exts {
		o := e.Id.String()
		oids = append(oids, o)
		if !skip[o] {
			raws = append(raws, RawExt{OID: o, Crit: e.Critical, Hex: Hex(e.Value)})
		}
	}
	return
}

func ipsOf(l []net.IP) [][]int {
	r := [][]int{}
	for _, ip := range l {
		r = append(r, ints(ip))
	}
	return r
}

// stdVerdict maps the standard library's verification result to ok / fail / "" (no verdict:
// algorithm it refuses to use).
func stdVerdict(err error) string {
	var ins stdx509.InsecureAlgorithmError
	switch {
	case err == nil:
		return "ok"
	case errors.As(err, &ins), errors.Is(err, stdx509.ErrUnsupportedAlgorithm):
		return ""
	}
	return "fail"
}

func RunCSR(t CSRTemplate) (*Result, error) {
	k := KeyFor("subj", t.Key)
	zt := &zx509.CertificateRequest{Subject: ZName(t.Subject), DNSNames: DecAll(t.DNS), EmailAddresses: DecAll(t.Emails),
		ExtraExtensions: zExtras(t.Extras), SignatureAlgorithm: SigAlgOf(t.SigAlg)}
	for _, ip := range t.IPs {
		zt.IPAddresses = append(zt.IPAddresses, ipOf(ip))
	}
	if len(t.RawSubject) > 0 {
		zt.RawSubject = StdRDN(t.RawSubject[0])
	}
	der, err := zx509.CreateCertificateRequest(rand.Reader, zt, k.Signer)
	if err != nil {
		return &Result{Obs: errObs("create", err)}, nil
	}
	p, err := zx509.ParseCertificateRequest(der)
	if err != nil {
		return &Result{DER: der, Obs: errObs("parse", err)}, nil
	}
	oids, raws := extProj(p.Extensions, map[string]bool{"2.5.29.17": true})
	val := map[string]any{
		"version": p.Version, "subject": ProjectZName(p.Subject),
		"rawSubjVerbatim": len(zt.RawSubject) > 0 && bytes.Equal(p.RawSubject, zt.RawSubject),
		"dns":             EncAll(ne(p.DNSNames)), "emails": EncAll(ne(p.EmailAddresses)), "ips": ipsOf(p.IPAddresses),
		"extOids": oids, "rawExts": raws,
		"sigAlg": p.SignatureAlgorithm.String(), "pkAlg": pkAlgName(p.PublicKeyAlgorithm),
		"pkMatch": pubMatches(p.PublicKey, k), "sigOK": okFail(p.CheckSignature()),
	}
	r := &Result{DER: der, Obs: Obs{Outcome: "ok", Val: val}}
	if sc, err := stdx509.ParseCertificateRequest(der); err == nil {
		sv := map[string]any{"version": sc.Version, "dns": EncAll(ne(sc.DNSNames)), "emails": EncAll(ne(sc.EmailAddresses)),
			"ips": ipsOf(sc.IPAddresses)}
		if n, err := ProjectRDN(sc.RawSubject); err == nil {
			sv["subject"] = n
		}
		so, sr := stdExtProj(sc.Extensions, map[string]bool{"2.5.29.17": true})
		sv["extOids"], sv["rawExts"] = so, sr
		if sc.SignatureAlgorithm != stdx509.UnknownSignatureAlgorithm {
			sv["sigAlg"] = sc.SignatureAlgorithm.String()
		}
		if v := stdVerdict(sc.CheckSignature()); v != "" {
			sv["sigOK"] = v
		}
		r.StdObs = &Obs{Outcome: "ok", Val: sv}
	} else {
		r.StdErr = err
	}
	return r, nil
}

// ---------------------------------------------------------------------------- issuers

type Issuer struct {
	Subject Name   `json:"subject"`
	SKID    string `json:"skid"`
	Key     string `json:"key"`
	CRLSign bool   `json:"crlSign"`
	CanSign bool   `json:"canSign"`
	// By: empty = the signer is self-signed; one name = the signer is an intermediate / cross-signed
	// CA issued under that (different) name by another key
	By []Name `json:"by"`
}

type builtIssuer struct {
	z   *zx509.Certificate
	std *stdx509.Certificate
	key *Key
}

// buildIssuer: the issuing certificate, created with the standard library and parsed by both.
var issuerCache = map[string]*builtIssuer{}

func buildIssuer(i Issuer) (*builtIssuer, error) {
	ck := canon(i)
	if b, ok := issuerCache[ck]; ok {
		return b, nil
	}
	b, err := buildIssuer1(i)
	if err == nil {
		issuerCache[ck] = b
	}
	return b, err
}

func buildIssuer1(i Issuer) (*builtIssuer, error) {
	k := KeyFor("parent", i.Key)
	var exts []stdpkix.Extension
	if i.CanSign {
		exts = append(exts, stdExt("2.5.29.19", true, must(stdasn1.Marshal(stdBC{true, -1}))))
	}
	ku := 32
	if i.CRLSign {
		ku |= 64
	}
	_, kuv := ExtraValue(Extra{Kind: "ku", N: ku})
	exts = append(exts, stdExt("2.5.29.15", true, kuv))
	if i.SKID != "" {
		exts = append(exts, stdExt("2.5.29.14", false, must(stdasn1.Marshal(UnHex(i.SKID)))))
	}
	tmpl := &stdx509.Certificate{SerialNumber: big.NewInt(2000), RawSubject: StdRDN(i.Subject),
		NotBefore: T2000, NotAfter: T2000.AddDate(60, 0, 0), ExtraExtensions: exts}
	parent, signKey := tmpl, k.StdPriv
	if len(i.By) > 0 {
		parent, signKey = &stdx509.Certificate{RawSubject: StdRDN(i.By[0])}, KeyFor("root", i.Key).StdPriv
	}
	der, err := stdx509.CreateCertificate(rand.Reader, tmpl, parent, k.StdPub, signKey)
	if err != nil {
		return nil, fmt.Errorf("standard library could not create the issuer: %v", err)
	}
	z, err := zx509.ParseCertificate(der)
	if err != nil {
		return nil, fmt.Errorf("zcrypto could not parse the issuer: %v", err)
	}
	s, err := stdx509.ParseCertificate(der)
	if err != nil {
		return nil, err
	}
	if nameCanon(generic(ProjectZName(z.Subject))) != nameCanon(generic(i.Subject.Norm())) || Hex(z.SubjectKeyId) != i.SKID ||
		(z.KeyUsage&zx509.KeyUsageCRLSign != 0) != i.CRLSign || (z.BasicConstraintsValid && z.IsCA) != i.CanSign {
		return nil, fmt.Errorf("issuer %s was not concretised faithfully", canon(i))
	}
	wantIss := i.Subject
	if len(i.By) > 0 {
		wantIss = i.By[0]
	}
	if nameCanon(generic(ProjectZName(z.Issuer))) != nameCanon(generic(wantIss.Norm())) || bytes.Equal(z.RawIssuer, z.RawSubject) != (len(i.By) == 0) {
		return nil, fmt.Errorf("issuer %s: the signer's own issuer name was not concretised faithfully", canon(i))
	}
	return &builtIssuer{z, s, k}, nil
}

func sigResult(err error) string {
	if err == nil {
		return "ok"
	}
	var cv zx509.ConstraintViolationError
	if errors.As(err, &cv) {
		return "constraint"
	}
	return "fail"
}

// keyIDFromAKID decodes an authorityKeyIdentifier extension value with the standard library.
func keyIDFromAKID(v []byte) (string, bool) {
	var a stdAKID
	rest, err := stdasn1.Unmarshal(v, &a)
	if err != nil || len(rest) != 0 {
		return "", false
	}
	return Hex(a.ID), true
}

// ---------------------------------------------------------------------------- revocation list (v2)

type RLEntry struct {
	Serial string  `json:"serial"`
	Time   TimeRec `json:"time"`
	Reason int     `json:"reason"` // -1 = nil
	Extras []Extra `json:"extras"`
}

type RLTemplate struct {
	Entries      []RLEntry `json:"entries"`
	Number       string    `json:"number"` // "" = nil
	NumberOctets int       `json:"numberOctets"`
	ThisUpdate   TimeRec   `json:"thisUpdate"`
	NextUpdate   TimeRec   `json:"nextUpdate"`
	Extras       []Extra   `json:"extras"`
	SigAlg       string    `json:"sigAlg"`
	Issuer       Issuer    `json:"issuer"`
}

const (
	oidReason    = "2.5.29.21"
	oidCRLNumber = "2.5.29.20"
	oidAKID      = "2.5.29.35"
)

type entryObs struct {
	Serial  string   `json:"serial"`
	Time    int      `json:"time"`
	Reason  int      `json:"reason"`
	NReason int      `json:"nReason"`
	Exts    []RawExt `json:"exts"`
}

// derIntOctets: content octets of the DER INTEGER of a non-negative number.
func derIntOctets(n *big.Int) int {
	if n.Sign() == 0 {
		return 1
	}
	return n.BitLen()/8 + 1
}

func RunRL(t RLTemplate) (*Result, error) {
	iss, err := buildIssuer(t.Issuer)
	if err != nil {
		return nil, err
	}
	zt := &zx509.RevocationList{ThisUpdate: t.ThisUpdate.Time(), NextUpdate: t.NextUpdate.Time(),
		ExtraExtensions: zExtras(t.Extras), SignatureAlgorithm: SigAlgOf(t.SigAlg)}
	if t.Number != "" {
		zt.Number = SerialOf(t.Number)
		if derIntOctets(zt.Number) != t.NumberOctets {
			return nil, fmt.Errorf("template numberOctets %d does not describe number %s", t.NumberOctets, t.Number)
		}
	}
	for _, e := range t.Entries {
		rc := zx509.RevokedCertificate{SerialNumber: SerialOf(e.Serial), RevocationTime: e.Time.Time(), ExtraExtensions: zExtras(e.Extras)}
		if e.Reason >= 0 {
			r := e.Reason
			rc.ReasonCode = &r
		}
		zt.RevokedCertificates = append(zt.RevokedCertificates, rc)
	}
	der, err := zx509.CreateRevocationList(rand.Reader, zt, iss.z, iss.key.Signer)
	if err != nil {
		return &Result{Obs: errObs("create", err)}, nil
	}
	p, err := zx509.ParseRevocationList(der)
	if err != nil {
		return &Result{DER: der, Obs: errObs("parse", err)}, nil
	}
	tu, ok1 := SecOf(p.ThisUpdate)
	nu, ok2 := SecOf(p.NextUpdate)
	if !ok1 || !ok2 {
		return nil, errors.New("update times outside the window of the specification")
	}
	ents := []entryObs{}
	for _, rc := range p.RevokedCertificates {
		sec, ok := SecOf(rc.RevocationTime)
		if !ok {
			return nil, errors.New("revocation time outside the window of the specification")
		}
		eo := entryObs{Serial: SerialHex(rc.SerialNumber), Time: sec, Reason: -1, Exts: []RawExt{}}
		if rc.ReasonCode != nil {
			eo.Reason = *rc.ReasonCode
		}
		for _, x := range rc.Extensions {
			if x.Id.String() == oidReason {
				eo.NReason++
			} else {
				eo.Exts = append(eo.Exts, RawExt{OID: x.Id.String(), Crit: x.Critical, Hex: Hex(x.Value)})
			}
		}
		ents = append(ents, eo)
	}
	akid := Hex(p.AuthorityKeyId)
	if id, ok := keyIDFromAKID(p.AuthorityKeyId); ok {
		akid = "wrapped:" + id
	}
	oids, raws := extProj(p.Extensions, map[string]bool{oidAKID: true, oidCRLNumber: true})
	val := map[string]any{"issuer": ProjectZName(p.Issuer), "thisUpdate": tu, "nextUpdate": nu, "number": SerialHex(p.Number),
		"entries": ents, "akid": akid, "extOids": oids, "rawExts": raws, "sigAlg": p.SignatureAlgorithm.String(),
		"sigOK": sigResult(p.CheckSignatureFrom(iss.z)), "issuerIsSignerSubject": bytes.Equal(p.RawIssuer, iss.z.RawSubject)}
	r := &Result{DER: der, Obs: Obs{Outcome: "ok", Val: val}}
	r.StdObs, r.StdErr = stdRLObs(der, iss.std, true)
	return r, nil
}

// stdRLObs: crypto/x509's view of a CRL (independent observer of the bytes).
func stdRLObs(der []byte, issuer *stdx509.Certificate, v2shape bool) (*Obs, error) {
	s, err := stdx509.ParseRevocationList(der)
	if err != nil {
		return nil, err
	}
	sv := map[string]any{}
	if n, err := ProjectRDN(s.RawIssuer); err == nil {
		sv["issuer"] = n
	}
	if x, ok := SecOf(s.ThisUpdate); ok {
		sv["thisUpdate"] = x
	}
	if x, ok := SecOf(s.NextUpdate); ok {
		sv["nextUpdate"] = x
	}
	ents := []any{}
	complete := true
	for _, rc := range s.RevokedCertificateEntries {
		sec, ok := SecOf(rc.RevocationTime)
		if !ok {
			complete = false
			break
		}
		others, nReason, reason := []RawExt{}, 0, -1
		for _, x := range rc.Extensions {
			if x.Id.String() == oidReason {
				nReason++
				var e stdasn1.Enumerated
				if _, err := stdasn1.Unmarshal(x.Value, &e); err == nil {
					reason = int(e)
				}
			} else {
				others = append(others, RawExt{OID: x.Id.String(), Crit: x.Critical, Hex: Hex(x.Value)})
			}
		}
		if v2shape {
			ents = append(ents, entryObs{Serial: SerialHex(rc.SerialNumber), Time: sec, Reason: reason, NReason: nReason, Exts: others})
		} else {
			all := []RawExt{}
			for _, x := range rc.Extensions {
				all = append(all, RawExt{OID: x.Id.String(), Crit: x.Critical, Hex: Hex(x.Value)})
			}
			ents = append(ents, map[string]any{"serial": SerialHex(rc.SerialNumber), "time": sec, "exts": all})
		}
	}
	if complete {
		sv["entries"] = ents
	}
	if v2shape {
		if s.Number != nil {
			sv["number"] = SerialHex(s.Number)
		}
		sv["akid"] = Hex(s.AuthorityKeyId)
		so, sr := stdExtProj(s.Extensions, map[string]bool{oidAKID: true, oidCRLNumber: true})
		sv["extOids"], sv["rawExts"] = so, sr
	} else {
		sv["akid"] = Hex(s.AuthorityKeyId)
	}
	if s.SignatureAlgorithm != stdx509.UnknownSignatureAlgorithm {
		sv["sigAlg"] = s.SignatureAlgorithm.String()
	}
	if issuer != nil {
		// the signature proper, without the standard library's own CA / key-usage policy
		if v := stdVerdict(issuer.CheckSignature(s.SignatureAlgorithm, s.RawTBSRevocationList, s.Signature)); v != "" {
			sv["sigOK"] = v
		}
	}
	return &Obs{Outcome: "ok", Val: sv}, nil
}

// ---------------------------------------------------------------------------- legacy CRL

type CRLEntry struct {
	Serial string  `json:"serial"`
	Time   TimeRec `json:"time"`
	Extras []Extra `json:"extras"`
}

type CRLTemplate struct {
	Entries []CRLEntry `json:"entries"`
	Now     TimeRec    `json:"now"`
	Expiry  TimeRec    `json:"expiry"`
	Issuer  Issuer     `json:"issuer"`
}

func RunCRL(t CRLTemplate) (*Result, error) {
	iss, err := buildIssuer(t.Issuer)
	if err != nil {
		return nil, err
	}
	var revoked []zpkix.RevokedCertificate
	for _, e := range t.Entries {
		revoked = append(revoked, zpkix.RevokedCertificate{SerialNumber: SerialOf(e.Serial), RevocationTime: e.Time.Time(),
			Extensions: zExtras(e.Extras)})
	}
	der, err := iss.z.CreateCRL(rand.Reader, iss.key.Signer, revoked, t.Now.Time(), t.Expiry.Time())
	if err != nil {
		return &Result{Obs: errObs("create", err)}, nil
	}
	p, err := zx509.ParseCRL(der)
	if err != nil {
		return &Result{DER: der, Obs: errObs("parse", err)}, nil
	}
	if p2, err := zx509.ParseDERCRL(der); err != nil || !bytes.Equal(p2.TBSCertList.Raw, p.TBSCertList.Raw) {
		return &Result{DER: der, Obs: errObs("parse", fmt.Errorf("ParseDERCRL disagrees with ParseCRL: %v", err))}, nil
	}
	tu, ok1 := SecOf(p.TBSCertList.ThisUpdate)
	nu, ok2 := SecOf(p.TBSCertList.NextUpdate)
	if !ok1 || !ok2 {
		return nil, errors.New("update times outside the window of the specification")
	}
	var in zpkix.Name
	in.FillFromRDNSequence(&p.TBSCertList.Issuer)
	ents := []any{}
	for _, rc := range p.TBSCertList.RevokedCertificates {
		sec, ok := SecOf(rc.RevocationTime)
		if !ok {
			return nil, errors.New("revocation time outside the window of the specification")
		}
		_, raws := extProj(rc.Extensions, nil)
		ents = append(ents, map[string]any{"serial": SerialHex(rc.SerialNumber), "time": sec, "exts": raws})
	}
	akid := ""
	for _, x := range p.TBSCertList.Extensions {
		if x.Id.String() == oidAKID {
			if id, ok := keyIDFromAKID(x.Value); ok {
				akid = id
			} else {
				akid = "undecodable:" + Hex(x.Value)
			}
		}
	}
	val := map[string]any{"issuer": ProjectZName(in), "thisUpdate": tu, "nextUpdate": nu, "entries": ents, "akid": akid,
		"sigAlg": zx509.GetSignatureAlgorithmFromAI(p.SignatureAlgorithm).String(), "sigOK": okFail(iss.z.CheckCRLSignature(p))}
	r := &Result{DER: der, Obs: Obs{Outcome: "ok", Val: val}}
	r.StdObs, r.StdErr = stdRLObs(der, iss.std, false)
	return r, nil
}

// IssuerFor: a CA certificate (crlSign, SKID) holding a key of the given type, and that key.
func IssuerFor(kt string) (*zx509.Certificate, *Key, error) {
	b, err := buildIssuer(Issuer{Subject: Name{CN: "C03 Issuer " + kt}.Norm(), SKID: "c0c1c2c3", Key: kt, CRLSign: true, CanSign: true})
	if err != nil {
		return nil, nil, err
	}
	return b.z, b.key, nil
}

// CertHolding: a certificate (created by the standard library, parsed by zcrypto) whose subject
// key is k - the way a verifier usually meets a public key.
func CertHolding(k *Key) (*zx509.Certificate, error) {
	tmpl := &stdx509.Certificate{SerialNumber: big.NewInt(3000), RawSubject: StdRDN(Name{CN: "key holder"}),
		NotBefore: T2000, NotAfter: T2000.AddDate(60, 0, 0)}
	der, err := stdx509.CreateCertificate(rand.Reader, tmpl, tmpl, k.StdPub, k.StdPriv)
	if err != nil {
		return nil, err
	}
	return zx509.ParseCertificate(der)
}

// CAHolding: a CA certificate (certSign + crlSign, SKID) created by the standard library and parsed
// by zcrypto whose subject key is k.
func CAHolding(k *Key) (*zx509.Certificate, error) {
	_, ku := ExtraValue(Extra{Kind: "ku", N: 1 | 32 | 64})
	exts := []stdpkix.Extension{stdExt("2.5.29.19", true, must(stdasn1.Marshal(stdBC{true, -1}))), stdExt("2.5.29.15", true, ku),
		stdExt("2.5.29.14", false, must(stdasn1.Marshal([]byte{0xc0, 0xc1, 0xc2})))}
	tmpl := &stdx509.Certificate{SerialNumber: big.NewInt(3001), RawSubject: StdRDN(Name{CN: "CA key holder " + k.Type}),
		NotBefore: T2000, NotAfter: T2000.AddDate(60, 0, 0), ExtraExtensions: exts}
	der, err := stdx509.CreateCertificate(rand.Reader, tmpl, tmpl, k.StdPub, k.StdPriv)
	if err != nil {
		return nil, err
	}
	return zx509.ParseCertificate(der)
}
