package iss

import (
	"encoding/hex"
	"fmt"
	"sort"
	"strings"
	"unicode"

	"pgregory.net/rapid"
)

// Random (rapid) generators of abstract templates: values far outside the handful of boundary
// representatives TLC enumerates.  The harness runs the real code on them and logs
// (template, observation); TLC evaluates Expected on the logged template and judges.

func genText() *rapid.Generator[string] {
	return rapid.OneOf(
		rapid.StringMatching(`[a-zA-Z0-9 .'()+,/:=?-]{0,24}`),
		rapid.StringMatching(`[a-z0-9*&@_"\\<>;#]{1,16}`),
		rapid.StringOfN(rapid.RuneFrom(nil, unicode.Latin, unicode.Cyrillic, unicode.Han, unicode.Sc), 1, 12, -1),
	)
}

func genList(g *rapid.Generator[string], max int) *rapid.Generator[[]string] {
	return rapid.Custom(func(t *rapid.T) []string {
		l := rapid.SliceOfN(g, 0, max).Draw(t, "l")
		r := make([]string, len(l))
		for i, s := range l {
			r[i] = Enc(s)
		}
		sort.Strings(r) // abstract multi-valued attributes are multisets; canonical = sorted
		return r
	})
}

func GenName() *rapid.Generator[Name] {
	return rapid.Custom(func(t *rapid.T) Name {
		txt := genText()
		var n Name
		if rapid.IntRange(0, 9).Draw(t, "hascn") > 0 {
			n.CN = Enc(txt.Draw(t, "cn"))
		}
		if rapid.IntRange(0, 3).Draw(t, "hassn") == 0 {
			n.SN = Enc(rapid.StringMatching(`[A-Z0-9-]{1,12}`).Draw(t, "sn"))
		}
		sparse := func(name string, max int) []string {
			if rapid.IntRange(0, 2).Draw(t, "p"+name) == 0 {
				return genList(txt, max).Draw(t, name)
			}
			return []string{}
		}
		n.C = sparse("c", 2)
		n.O = sparse("o", 3)
		n.OU = sparse("ou", 3)
		n.L = sparse("l", 2)
		n.ST = sparse("st", 2)
		n.Street = sparse("street", 2)
		n.Postal = sparse("postal", 2)
		n.DC = sparse("dc", 3)
		n.Email = sparse("email", 2)
		n.JL = sparse("jl", 1)
		n.JST = sparse("jst", 1)
		n.JC = sparse("jc", 1)
		n.OrgID = sparse("orgid", 1)
		if rapid.IntRange(0, 4).Draw(t, "hasx") == 0 {
			k := rapid.IntRange(1, 2).Draw(t, "nx")
			for i := 0; i < k; i++ {
				n.Extra = append(n.Extra, OidVal{OID: fmt.Sprintf("1.2.3.%d.%d", 4+i, rapid.IntRange(0, 1<<30).Draw(t, "arc")),
					V: Enc(txt.Draw(t, "xv"))})
			}
		}
		return n.Norm()
	})
}

func GenTime() *rapid.Generator[TimeRec] {
	return rapid.Custom(func(t *rapid.T) TimeRec {
		sec := rapid.OneOf(rapid.IntRange(-2100000000, 2100000000), rapid.IntRange(1577923200-3, 1577923200+3),
			rapid.IntRange(-1577836800-3, -1577836800+3)).Draw(t, "sec")
		return TimeRec{Sec: sec, Nsec: rapid.OneOf(rapid.Just(0), rapid.IntRange(0, 999999999)).Draw(t, "nsec"),
			Zone: rapid.OneOf(rapid.Just(0), rapid.IntRange(-720, 840)).Draw(t, "zone")}
	})
}

func genHex(min, max int) *rapid.Generator[string] {
	return rapid.Custom(func(t *rapid.T) string {
		return hex.EncodeToString(rapid.SliceOfN(rapid.Byte(), min, max).Draw(t, "b"))
	})
}

func GenSerial() *rapid.Generator[string] {
	return rapid.Custom(func(t *rapid.T) string {
		b := rapid.SliceOfN(rapid.Byte(), 1, 20).Draw(t, "serial")
		for len(b) > 1 && b[0] == 0 {
			b = b[1:]
		}
		if len(b) == 20 {
			b[0] &= 0x7f
			if b[0] == 0 {
				b[0] = 1
			}
		}
		if len(b) == 1 && b[0] == 0 {
			return "00"
		}
		return hex.EncodeToString(b)
	})
}

func GenOID() *rapid.Generator[string] {
	return rapid.Custom(func(t *rapid.T) string {
		// always below the arcs the library knows: 1.3.6.1.4.1.99999.<random...>
		n := rapid.IntRange(1, 4).Draw(t, "n")
		p := []string{"1.3.6.1.4.1.99999"}
		for i := 0; i < n; i++ {
			p = append(p, fmt.Sprint(rapid.OneOf(rapid.IntRange(0, 200), rapid.IntRange(0, 2147483647)).Draw(t, "arc")))
		}
		return strings.Join(p, ".")
	})
}

func GenIP() *rapid.Generator[[]int] {
	return rapid.Custom(func(t *rapid.T) []int {
		b4 := func() []int {
			r := make([]int, 4)
			for i := range r {
				r[i] = int(rapid.Byte().Draw(t, "b"))
			}
			return r
		}
		switch rapid.IntRange(0, 2).Draw(t, "form") {
		case 0:
			return b4()
		case 1:
			return append([]int{0, 0, 0, 0, 0, 0, 0, 0, 0, 0, 255, 255}, b4()...)
		}
		r := make([]int, 16)
		for i := range r {
			r[i] = int(rapid.Byte().Draw(t, "b"))
		}
		return r
	})
}

func genNet() *rapid.Generator[Net] {
	return rapid.Custom(func(t *rapid.T) Net {
		n := 4
		if rapid.Bool().Draw(t, "v6") {
			n = 16
		}
		ones := rapid.IntRange(0, n*8).Draw(t, "ones")
		ip, mask := make([]int, n), make([]int, n)
		for i := 0; i < n; i++ {
			for b := 0; b < 8; b++ {
				if i*8+b < ones {
					mask[i] |= 0x80 >> uint(b)
				}
			}
			ip[i] = int(rapid.Byte().Draw(t, "ip")) & mask[i]
		}
		if n == 4 && rapid.IntRange(0, 3).Draw(t, "ip16") == 0 {
			// net.IPNet{IP: net.ParseIP("a.b.c.d"), Mask: net.CIDRMask(k, 32)}: 16-byte address, 4-byte mask
			ip = append([]int{0, 0, 0, 0, 0, 0, 0, 0, 0, 0, 255, 255}, ip...)
		}
		return Net{IP: ip, Mask: mask}
	})
}

func genHost() *rapid.Generator[string] {
	return rapid.StringMatching(`(\*\.)?[a-z0-9-]{1,12}(\.[a-z0-9-]{1,10}){0,3}`)
}
func genURL() *rapid.Generator[string] {
	return rapid.StringMatching(`(http|ldap)://[a-z0-9.-]{1,20}(/[a-zA-Z0-9?=&%._-]{0,16})?`)
}
func genEmail() *rapid.Generator[string] {
	return rapid.StringMatching(`[a-z0-9]{1,8}([._+-][a-z0-9]{1,4})?@[a-z0-9]{1,10}\.[a-z]{2,5}`)
}

var ekuPool = []string{"any", "serverAuth", "clientAuth", "codeSigning", "emailProtection", "timeStamping", "ocspSigning"}
var keyPool = []string{"ed25519", "ed25519", "ed25519", "p256", "p224", "p384", "p521", "rsa2048"}

func encList(g *rapid.Generator[string], max int) *rapid.Generator[[]string] {
	return rapid.Custom(func(t *rapid.T) []string {
		if rapid.IntRange(0, 2).Draw(t, "present") != 0 {
			return []string{}
		}
		return EncAll(rapid.SliceOfN(g, 0, max).Draw(t, "l"))
	})
}

// GenExtras: at most one extra per kind (the domain of "override"), plus raw ones with fresh OIDs.
func GenExtras(kinds []string) *rapid.Generator[[]Extra] {
	return rapid.Custom(func(t *rapid.T) []Extra {
		var r []Extra
		if rapid.IntRange(0, 2).Draw(t, "any") != 0 {
			return []Extra{}
		}
		used := map[string]bool{}
		n := rapid.IntRange(1, 3).Draw(t, "n")
		for i := 0; i < n; i++ {
			k := rapid.SampledFrom(append([]string{"raw", "raw"}, kinds...)).Draw(t, "kind")
			if k != "raw" && used[k] {
				continue
			}
			used[k] = true
			e := Extra{Kind: k, Crit: rapid.Bool().Draw(t, "crit"), Strs: []string{}}
			if k == "skid" || k == "akid" || k == "aia" {
				e.Crit = false // crypto/x509 refuses these marked critical; keep the second observer in play
			}
			switch k {
			case "raw":
				e.OID = fmt.Sprintf("1.3.6.1.4.1.99999.77.%d", i)
				e.Hex = genHex(0, 12).Draw(t, "val")
			case "ku":
				e.N = rapid.IntRange(1, 511).Draw(t, "ku")
			case "bc":
				e.B = rapid.Bool().Draw(t, "ca")
				e.N = rapid.IntRange(-1, 6).Draw(t, "pl")
			case "skid", "akid":
				e.Hex = genHex(1, 20).Draw(t, "kid")
			case "eku":
				e.Strs = rapid.SliceOfNDistinct(rapid.SampledFrom(ekuPool), 1, 3, rapid.ID[string]).Draw(t, "ekus")
			case "san", "nc":
				e.Strs = EncAll(rapid.SliceOfN(genHost(), 1, 3).Draw(t, "names"))
			case "aia", "crldp":
				e.Strs = EncAll(rapid.SliceOfN(genURL(), 1, 2).Draw(t, "urls"))
			case "policies":
				e.Strs = rapid.SliceOfNDistinct(GenOID(), 1, 2, rapid.ID[string]).Draw(t, "pols")
			}
			r = append(r, e)
		}
		if r == nil {
			r = []Extra{}
		}
		return r
	})
}

var allGenKinds = []string{"ku", "eku", "bc", "skid", "akid", "aia", "san", "policies", "nc", "crldp"}

// GenCertTemplate: random templates inside the documented domain (and, rarely, a requested
// algorithm outside it).
func GenCertTemplate() *rapid.Generator[CertTemplate] {
	return rapid.Custom(func(t *rapid.T) CertTemplate {
		c := CertTemplate{Serial: GenSerial().Draw(t, "serial"), Subject: GenName().Draw(t, "subject"),
			RawSubject: []Name{}, NB: GenTime().Draw(t, "nb"), NA: GenTime().Draw(t, "na")}
		if rapid.IntRange(0, 5).Draw(t, "raw") == 0 {
			c.RawSubject = []Name{GenName().Draw(t, "rawsubj")}
		}
		c.KU = rapid.OneOf(rapid.Just(0), rapid.IntRange(0, 511)).Draw(t, "ku")
		c.EKUs, c.UEKUs = []string{}, []string{}
		if rapid.IntRange(0, 2).Draw(t, "eku") == 0 {
			c.EKUs = rapid.SliceOfNDistinct(rapid.SampledFrom(ekuPool), 0, 4, rapid.ID[string]).Draw(t, "ekus")
			c.UEKUs = rapid.SliceOfNDistinct(GenOID(), 0, 2, rapid.ID[string]).Draw(t, "uekus")
		}
		c.BC = rapid.Bool().Draw(t, "bc")
		c.CA = rapid.Bool().Draw(t, "ca")
		c.MPL = rapid.OneOf(rapid.IntRange(-1, 2), rapid.IntRange(0, 1000000)).Draw(t, "mpl")
		c.MPLZ = rapid.Bool().Draw(t, "mplz")
		if rapid.Bool().Draw(t, "hasskid") {
			c.SKID = genHex(1, 24).Draw(t, "skid")
		}
		if rapid.Bool().Draw(t, "hasakid") {
			c.AKID = genHex(1, 24).Draw(t, "akid")
		}
		c.OCSP = encList(genURL(), 2).Draw(t, "ocsp")
		c.IURL = encList(genURL(), 2).Draw(t, "iurl")
		c.DNS = encList(genHost(), 4).Draw(t, "dns")
		c.Emails = encList(genEmail(), 2).Draw(t, "emails")
		c.IPs = [][]int{}
		if rapid.IntRange(0, 2).Draw(t, "hasips") == 0 {
			c.IPs = rapid.SliceOfN(GenIP(), 0, 4).Draw(t, "ips")
		}
		c.Policies = []string{}
		if rapid.IntRange(0, 2).Draw(t, "haspol") == 0 {
			c.Policies = rapid.SliceOfNDistinct(GenOID(), 0, 3, rapid.ID[string]).Draw(t, "pols")
		}
		c.CRLDP = encList(genURL(), 2).Draw(t, "crldp")
		c.NCCrit = rapid.Bool().Draw(t, "nccrit")
		c.PDNS, c.XDNS = encList(genHost(), 2).Draw(t, "pdns"), encList(genHost(), 2).Draw(t, "xdns")
		c.PEmail, c.XEmail = encList(genEmail(), 2).Draw(t, "pemail"), encList(genEmail(), 1).Draw(t, "xemail")
		nets := func(l string) []Net {
			if rapid.IntRange(0, 3).Draw(t, "has"+l) != 0 {
				return []Net{}
			}
			return rapid.SliceOfN(genNet(), 0, 2).Draw(t, l)
		}
		c.PIP, c.XIP = nets("pip"), nets("xip")
		dirs := func(l string) []Name {
			if rapid.IntRange(0, 4).Draw(t, "has"+l) != 0 {
				return []Name{}
			}
			return rapid.SliceOfN(GenName(), 0, 2).Draw(t, l)
		}
		c.PDir, c.XDir = dirs("pdir"), dirs("xdir")
		c.Extras = GenExtras(allGenKinds).Draw(t, "extras")
		c.SignerKey = rapid.SampledFrom(keyPool).Draw(t, "signer")
		c.SubjKey = rapid.SampledFrom(keyPool).Draw(t, "subjkey")
		c.SigAlg = "default"
		if rapid.IntRange(0, 3).Draw(t, "reqalg") == 0 {
			fam := map[string][]string{
				"rsa":     {"MD5-RSA", "SHA1-RSA", "SHA256-RSA", "SHA384-RSA", "SHA512-RSA", "SHA256-RSAPSS", "SHA384-RSAPSS", "SHA512-RSAPSS"},
				"ecdsa":   {"ECDSA-SHA1", "ECDSA-SHA256", "ECDSA-SHA384", "ECDSA-SHA512"},
				"ed25519": {"Ed25519"},
			}
			algs := fam[Family(c.SignerKey)]
			if rapid.IntRange(0, 7).Draw(t, "outside") == 0 { // rarely: outside the documented domain
				algs = []string{"SHA256-RSA", "SHA256-RSAPSS", "ECDSA-SHA256", "Ed25519", "DSA-SHA256", "MD2-RSA", "bogus"}
			}
			c.SigAlg = rapid.SampledFrom(algs).Draw(t, "alg")
		}
		if rapid.IntRange(0, 2).Draw(t, "self") == 0 {
			c.Parent = Parent{Kind: "self", Form: "parsed", Subject: Name{}.Norm(), CanSign: true}
		} else {
			// a parent name with at least one attribute (the standard library builds the parent)
			pn := GenName().Draw(t, "pname")
			if pn.CN == "" {
				pn.CN = "Parent"
			}
			c.Parent = Parent{Kind: "issued", Form: rapid.SampledFrom([]string{"parsed", "parsed", "bare"}).Draw(t, "form"),
				Subject: pn, CanSign: rapid.IntRange(0, 3).Draw(t, "cansign") != 0}
			if rapid.Bool().Draw(t, "pskid") {
				c.Parent.SKID = genHex(1, 20).Draw(t, "pskidv")
			}
		}
		return c
	})
}

// ---------------------------------------------------------------------------- C05 generators

func genAlgFor(t *rapid.T, kt string) string {
	if rapid.IntRange(0, 2).Draw(t, "reqalg") != 0 {
		return "default"
	}
	fam := map[string][]string{
		"rsa":     {"MD5-RSA", "SHA1-RSA", "SHA256-RSA", "SHA384-RSA", "SHA512-RSA", "SHA256-RSAPSS", "SHA384-RSAPSS", "SHA512-RSAPSS"},
		"ecdsa":   {"ECDSA-SHA1", "ECDSA-SHA256", "ECDSA-SHA384", "ECDSA-SHA512"},
		"ed25519": {"Ed25519"},
	}
	algs := fam[Family(kt)]
	if rapid.IntRange(0, 7).Draw(t, "outside") == 0 {
		algs = []string{"SHA256-RSA", "SHA256-RSAPSS", "ECDSA-SHA256", "Ed25519", "DSA-SHA256", "MD2-RSA", "bogus"}
	}
	return rapid.SampledFrom(algs).Draw(t, "alg")
}

func GenCSR() *rapid.Generator[CSRTemplate] {
	return rapid.Custom(func(t *rapid.T) CSRTemplate {
		c := CSRTemplate{Subject: GenName().Draw(t, "subject"), RawSubject: []Name{}}
		if rapid.IntRange(0, 4).Draw(t, "raw") == 0 {
			c.RawSubject = []Name{GenName().Draw(t, "rawsubj")}
		}
		c.DNS = encList(genHost(), 4).Draw(t, "dns")
		c.Emails = encList(genEmail(), 2).Draw(t, "emails")
		c.IPs = [][]int{}
		if rapid.IntRange(0, 2).Draw(t, "hasips") == 0 {
			c.IPs = rapid.SliceOfN(GenIP(), 0, 4).Draw(t, "ips")
		}
		c.Extras = GenExtras([]string{"san"}).Draw(t, "extras")
		c.Key = rapid.SampledFrom(keyPool).Draw(t, "key")
		c.SigAlg = genAlgFor(t, c.Key)
		return c
	})
}

func genIssuer(t *rapid.T) Issuer {
	n := GenName().Draw(t, "iname")
	if n.CN == "" {
		n.CN = "CRL Issuer"
	}
	i := Issuer{Subject: n, Key: rapid.SampledFrom(keyPool).Draw(t, "ikey"), CRLSign: true, CanSign: true, SKID: genHex(1, 20).Draw(t, "iskid"), By: []Name{}}
	if rapid.IntRange(0, 2).Draw(t, "intermediate") == 0 {
		// the signer is an intermediate / cross-signed CA: issued under another name
		by := GenName().Draw(t, "by")
		by.CN = "Issuer of " + n.CN
		i.By = []Name{by}
	}
	return i
}

func rawExtras(t *rapid.T, max int, withReason bool) []Extra {
	r := []Extra{}
	if rapid.IntRange(0, 2).Draw(t, "hasx") != 0 {
		return r
	}
	n := rapid.IntRange(1, max).Draw(t, "nx")
	for i := 0; i < n; i++ {
		r = append(r, Extra{Kind: "raw", OID: fmt.Sprintf("1.3.6.1.4.1.99999.88.%d", i), Crit: rapid.Bool().Draw(t, "crit"),
			Hex: genHex(0, 10).Draw(t, "xv"), Strs: []string{}})
	}
	if withReason && rapid.IntRange(0, 2).Draw(t, "userreason") == 0 {
		r = append(r, Extra{Kind: "raw", OID: "2.5.29.21", Hex: fmt.Sprintf("0a01%02x", rapid.IntRange(0, 10).Draw(t, "ur")), Strs: []string{}})
	}
	return r
}

func GenRL() *rapid.Generator[RLTemplate] {
	return rapid.Custom(func(t *rapid.T) RLTemplate {
		c := RLTemplate{Entries: []RLEntry{}, Issuer: genIssuer(t)}
		// mostly inside the documented preconditions; each way of leaving them now and then
		fault := rapid.SampledFrom([]string{"", "", "", "", "", "", "", "", "", "", "", "", "", "", "", "", "", "", "", "", "", "",
			"nocrlsign", "noskid", "noca", "noca", "nonum", "bignum", "unordered"}).Draw(t, "fault")
		switch fault {
		case "nocrlsign":
			c.Issuer.CRLSign = false
		case "noskid":
			c.Issuer.SKID = ""
		case "noca":
			c.Issuer.CanSign = false
		}
		n := rapid.IntRange(0, 5).Draw(t, "n")
		for i := 0; i < n; i++ {
			e := RLEntry{Serial: GenSerial().Draw(t, "serial"), Time: GenTime().Draw(t, "time"),
				Reason: rapid.SampledFrom([]int{-1, -1, 0, 1, 2, 3, 4, 5, 6, 8, 9, 10}).Draw(t, "reason")}
			e.Extras = rawExtras(t, 2, true)
			c.Entries = append(c.Entries, e)
		}
		num := GenSerial().Draw(t, "number")
		c.Number = num
		c.NumberOctets = derIntOctets(SerialOf(num))
		if fault == "nonum" {
			c.Number, c.NumberOctets = "", 0
		}
		if fault == "bignum" {
			c.Number = "ff" + hex.EncodeToString(rapid.SliceOfN(rapid.Byte(), 19, 19).Draw(t, "nb"))
			c.NumberOctets = 21
		}
		c.ThisUpdate = GenTime().Draw(t, "this")
		c.NextUpdate = GenTime().Draw(t, "next")
		if fault != "unordered" && c.NextUpdate.Sec <= c.ThisUpdate.Sec {
			c.ThisUpdate, c.NextUpdate = c.NextUpdate, c.ThisUpdate
			if c.NextUpdate.Sec == c.ThisUpdate.Sec {
				c.NextUpdate.Sec++
			}
		}
		c.Extras = rawExtras(t, 2, false)
		c.SigAlg = genAlgFor(t, c.Issuer.Key)
		return c
	})
}

func GenCRL() *rapid.Generator[CRLTemplate] {
	return rapid.Custom(func(t *rapid.T) CRLTemplate {
		c := CRLTemplate{Entries: []CRLEntry{}, Issuer: genIssuer(t), Now: GenTime().Draw(t, "now"), Expiry: GenTime().Draw(t, "expiry")}
		if rapid.IntRange(0, 3).Draw(t, "noskid") == 0 {
			c.Issuer.SKID = ""
		}
		n := rapid.IntRange(0, 5).Draw(t, "n")
		for i := 0; i < n; i++ {
			c.Entries = append(c.Entries, CRLEntry{Serial: GenSerial().Draw(t, "serial"), Time: GenTime().Draw(t, "time"),
				Extras: rawExtras(t, 2, true)})
		}
		return c
	})
}
