// Package iss binds spec/Issuance.tla to zcrypto's issuance APIs (C04, C05, C06, C03).
//
// It contains only concretisation (abstract template -> real template, real keys), projection
// (parsed object -> the abstract observation record) and the generic conformance relation
// Judge, which mirrors operator BadFields of Issuance.tla and knows nothing about certificates.
// What a template must produce is decided by TLC (operators Expected* of Issuance.tla): either
// TLC emits the Expected record next to the template, or the observation is written to a log
// that TLC judges.
package iss

import (
	"encoding/hex"
	"encoding/json"
	"fmt"
	"sort"
	"strings"
	"time"
)

// T2000 is the time base of Issuance.tla.
var T2000 = time.Date(2000, 1, 1, 0, 0, 0, 0, time.UTC)

// Enc maps text to the TLC-safe representation: printable ASCII as is, anything else (or a
// leading "~") as "~" + hex(bytes).
func Enc(s string) string {
	plain := !strings.HasPrefix(s, "~")
	for i := 0; i < len(s) && plain; i++ {
		if s[i] < 0x20 || s[i] > 0x7e {
			plain = false
		}
	}
	if plain {
		return s
	}
	return "~" + hex.EncodeToString([]byte(s))
}

// Dec is the inverse of Enc.
func Dec(s string) string {
	if strings.HasPrefix(s, "~") {
		b, err := hex.DecodeString(s[1:])
		if err != nil {
			panic("iss.Dec: bad ~hex string " + s)
		}
		return string(b)
	}
	return s
}

func EncAll(ss []string) []string {
	r := make([]string, len(ss))
	for i, s := range ss {
		r[i] = Enc(s)
	}
	return r
}

func DecAll(ss []string) []string {
	r := make([]string, len(ss))
	for i, s := range ss {
		r[i] = Dec(s)
	}
	return r
}

type OidVal struct {
	OID string `json:"oid"`
	V   string `json:"v"`
}

// Name is the abstract distinguished name (NameRec of Issuance.tla).
type Name struct {
	CN     string   `json:"cn"`
	SN     string   `json:"sn"`
	C      []string `json:"c"`
	O      []string `json:"o"`
	OU     []string `json:"ou"`
	L      []string `json:"l"`
	ST     []string `json:"st"`
	Street []string `json:"street"`
	Postal []string `json:"postal"`
	DC     []string `json:"dc"`
	Email  []string `json:"email"`
	JL     []string `json:"jl"`
	JST    []string `json:"jst"`
	JC     []string `json:"jc"`
	OrgID  []string `json:"orgid"`
	Extra  []OidVal `json:"extra"`
}

func ne(s []string) []string {
	if s == nil {
		return []string{}
	}
	return s
}

// Norm replaces nil slices by empty ones (JSON [] instead of null).
func (n Name) Norm() Name {
	n.C, n.O, n.OU, n.L, n.ST, n.Street, n.Postal = ne(n.C), ne(n.O), ne(n.OU), ne(n.L), ne(n.ST), ne(n.Street), ne(n.Postal)
	n.DC, n.Email, n.JL, n.JST, n.JC, n.OrgID = ne(n.DC), ne(n.Email), ne(n.JL), ne(n.JST), ne(n.JC), ne(n.OrgID)
	if n.Extra == nil {
		n.Extra = []OidVal{}
	}
	return n
}

type TimeRec struct {
	Sec  int `json:"sec"`
	Nsec int `json:"nsec"`
	Zone int `json:"zone"` // minutes east of UTC
}

func (t TimeRec) Time() time.Time {
	return T2000.Add(time.Duration(t.Sec)*time.Second + time.Duration(t.Nsec)).
		In(time.FixedZone("z", t.Zone*60))
}

// SecOf projects a parsed time to seconds after T2000 (ok=false if outside 31 bits).
func SecOf(t time.Time) (int, bool) {
	d := t.Unix() - T2000.Unix()
	if d > 2147483647 || d < -2147483648 {
		return 0, false
	}
	return int(d), true
}

type Extra struct {
	Kind string   `json:"kind"`
	Crit bool     `json:"crit"`
	OID  string   `json:"oid"`
	Hex  string   `json:"hex"`
	N    int      `json:"n"`
	B    bool     `json:"b"`
	Strs []string `json:"strs"`
}

type RawExt struct {
	OID  string `json:"oid"`
	Crit bool   `json:"crit"`
	Hex  string `json:"hex"`
}

type Net struct {
	IP   []int `json:"ip"`
	Mask []int `json:"mask"`
}

type Parent struct {
	Kind    string `json:"kind"` // "self" | "issued"
	Form    string `json:"form"` // "parsed" | "bare"
	Subject Name   `json:"subject"`
	SKID    string `json:"skid"`
	CanSign bool   `json:"canSign"`
}

// CertTemplate is the abstract certificate template of Issuance.tla.
type CertTemplate struct {
	Serial     string   `json:"serial"`
	Subject    Name     `json:"subject"`
	RawSubject []Name   `json:"rawSubject"`
	NB         TimeRec  `json:"nb"`
	NA         TimeRec  `json:"na"`
	KU         int      `json:"ku"`
	EKUs       []string `json:"ekus"`
	UEKUs      []string `json:"uekus"`
	BC         bool     `json:"bc"`
	CA         bool     `json:"ca"`
	MPL        int      `json:"mpl"`
	MPLZ       bool     `json:"mplz"`
	SKID       string   `json:"skid"`
	AKID       string   `json:"akid"`
	OCSP       []string `json:"ocsp"`
	IURL       []string `json:"iurl"`
	DNS        []string `json:"dns"`
	Emails     []string `json:"emails"`
	IPs        [][]int  `json:"ips"`
	Policies   []string `json:"policies"`
	CRLDP      []string `json:"crldp"`
	NCCrit     bool     `json:"ncCrit"`
	PDNS       []string `json:"pDNS"`
	XDNS       []string `json:"xDNS"`
	PEmail     []string `json:"pEmail"`
	XEmail     []string `json:"xEmail"`
	PIP        []Net    `json:"pIP"`
	XIP        []Net    `json:"xIP"`
	PDir       []Name   `json:"pDir"`
	XDir       []Name   `json:"xDir"`
	Extras     []Extra  `json:"extras"`
	SigAlg     string   `json:"sigAlg"`
	SignerKey  string   `json:"signerKey"`
	SubjKey    string   `json:"subjKey"`
	Parent     Parent   `json:"parent"`
}

// Expected mirrors the Expected record shape of Issuance.tla.
type Expected struct {
	Outcome   []string                     `json:"outcome"`
	Unordered []string                     `json:"unordered"`
	Names     []string                     `json:"names"`
	NameBags  []string                     `json:"nameBags"`
	Open      []string                     `json:"open"`
	Allowed   map[string][]json.RawMessage `json:"allowed"`
}

// Obs is an observation: outcome + projected field values.
type Obs struct {
	Outcome string         `json:"outcome"`
	Err     string         `json:"err,omitempty"`
	Val     map[string]any `json:"val"`
}

func has(l []string, x string) bool {
	for _, y := range l {
		if x == y {
			return true
		}
	}
	return false
}

// canon re-encodes any JSON-able value canonically (object keys sorted by encoding/json).
func canon(v any) string {
	b, err := json.Marshal(v)
	if err != nil {
		panic(err)
	}
	var x any
	d := json.NewDecoder(strings.NewReader(string(b)))
	d.UseNumber()
	if err := d.Decode(&x); err != nil {
		panic(err)
	}
	b, _ = json.Marshal(x)
	return string(b)
}

func decodeAny(raw []byte) any {
	var x any
	d := json.NewDecoder(strings.NewReader(string(raw)))
	d.UseNumber()
	if err := d.Decode(&x); err != nil {
		panic(fmt.Sprintf("iss: bad JSON %q: %v", raw, err))
	}
	return x
}

// bagCanon: a sequence compared as a multiset = its elements' canonical forms, sorted.
func bagCanon(v any) string {
	l, ok := v.([]any)
	if !ok {
		return canon(v)
	}
	el := make([]string, len(l))
	for i, e := range l {
		el[i] = canon(e)
	}
	sort.Strings(el)
	return "[" + strings.Join(el, ",") + "]"
}

// nameCanon: NameEq of Issuance.tla - every list-valued attribute as a multiset.
func nameCanon(v any) string {
	m, ok := v.(map[string]any)
	if !ok {
		return canon(v)
	}
	keys := make([]string, 0, len(m))
	for k := range m {
		keys = append(keys, k)
	}
	sort.Strings(keys)
	var sb strings.Builder
	sb.WriteString("{")
	for _, k := range keys {
		sb.WriteString(k + ":" + bagCanon(m[k]) + ";")
	}
	sb.WriteString("}")
	return sb.String()
}

func nameBagCanon(v any) string {
	l, ok := v.([]any)
	if !ok {
		return canon(v)
	}
	el := make([]string, len(l))
	for i, e := range l {
		el[i] = nameCanon(e)
	}
	sort.Strings(el)
	return "[" + strings.Join(el, ",") + "]"
}

func generic(v any) any { return decodeAny([]byte(canon(v))) }

// Judge is operator BadFields of Issuance.tla: the names of the fields of the observation that
// are not among the allowed values (nil = conforms).  only != nil restricts the comparison to
// the fields present in the observation (used by the independent standard-library observer,
// which cannot see every field).
func Judge(exp Expected, o Obs, partial bool) []string {
	if !has(exp.Outcome, o.Outcome) {
		return []string{"outcome"}
	}
	if o.Outcome != "ok" {
		return nil
	}
	var bad []string
	for f, allowed := range exp.Allowed {
		if has(exp.Open, f) {
			continue
		}
		ov, present := o.Val[f]
		if !present {
			if partial {
				continue
			}
			bad = append(bad, f)
			continue
		}
		mode := canon
		switch {
		case has(exp.Names, f):
			mode = nameCanon
		case has(exp.NameBags, f):
			mode = nameBagCanon
		case has(exp.Unordered, f):
			mode = bagCanon
		}
		got := mode(generic(ov))
		ok := false
		for _, a := range allowed {
			if mode(decodeAny(a)) == got {
				ok = true
				break
			}
		}
		if !ok {
			bad = append(bad, f)
		}
	}
	sort.Strings(bad)
	return bad
}
