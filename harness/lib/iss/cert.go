package iss

import (
	"bytes"
	"crypto/ecdsa"
	"crypto/ed25519"
	"crypto/rand"
	stdx509 "crypto/x509"
	stdpkix "crypto/x509/pkix"
	stdasn1 "encoding/asn1"
	"encoding/hex"
	"errors"
	"fmt"
	"math/big"
	"net"
	"strconv"
	"strings"

	zasn1 "github.com/zmap/zcrypto/encoding/asn1"
	zrsa "github.com/zmap/zcrypto/rsa"
	zx509 "github.com/zmap/zcrypto/x509"
	zpkix "github.com/zmap/zcrypto/x509/pkix"
)

// ---------------------------------------------------------------------------- small codecs

func ParseOID(s string) []int {
	var r []int
	for _, p := range strings.Split(s, ".") {
		n, err := strconv.Atoi(p)
		if err != nil {
			panic("iss: bad OID " + s)
		}
		r = append(r, n)
	}
	return r
}

func OIDString(o []int) string {
	p := make([]string, len(o))
	for i, n := range o {
		p[i] = strconv.Itoa(n)
	}
	return strings.Join(p, ".")
}

func Hex(b []byte) string { return hex.EncodeToString(b) }
func UnHex(s string) []byte {
	b, err := hex.DecodeString(s)
	if err != nil {
		panic("iss: bad hex " + s)
	}
	return b
}
func hexOrNil(s string) []byte {
	if s == "" {
		return nil
	}
	return UnHex(s)
}

// SerialOf: abstract serial (minimal hex, "00" for zero) -> big.Int; SerialHex is its inverse.
func SerialOf(h string) *big.Int { return new(big.Int).SetBytes(UnHex(h)) }
func SerialHex(n *big.Int) string {
	if n == nil {
		return "nil"
	}
	if n.Sign() == 0 {
		return "00"
	}
	if n.Sign() < 0 {
		return "-" + Hex(n.Bytes())
	}
	return Hex(n.Bytes())
}

func ipOf(b []int) net.IP {
	ip := make(net.IP, len(b))
	for i, x := range b {
		ip[i] = byte(x)
	}
	return ip
}
func ints(b []byte) []int {
	r := make([]int, len(b))
	for i, x := range b {
		r[i] = int(x)
	}
	return r
}

var ekuNames = []struct {
	name string
	z    zx509.ExtKeyUsage
	s    stdx509.ExtKeyUsage
}{
	{"any", zx509.ExtKeyUsageAny, stdx509.ExtKeyUsageAny},
	{"serverAuth", zx509.ExtKeyUsageServerAuth, stdx509.ExtKeyUsageServerAuth},
	{"clientAuth", zx509.ExtKeyUsageClientAuth, stdx509.ExtKeyUsageClientAuth},
	{"codeSigning", zx509.ExtKeyUsageCodeSigning, stdx509.ExtKeyUsageCodeSigning},
	{"emailProtection", zx509.ExtKeyUsageEmailProtection, stdx509.ExtKeyUsageEmailProtection},
	{"timeStamping", zx509.ExtKeyUsageTimeStamping, stdx509.ExtKeyUsageTimeStamping},
	{"ocspSigning", zx509.ExtKeyUsageOcspSigning, stdx509.ExtKeyUsageOCSPSigning},
}

var ekuOIDs = map[string]string{"any": "2.5.29.37.0", "serverAuth": "1.3.6.1.5.5.7.3.1", "clientAuth": "1.3.6.1.5.5.7.3.2",
	"codeSigning": "1.3.6.1.5.5.7.3.3", "emailProtection": "1.3.6.1.5.5.7.3.4", "timeStamping": "1.3.6.1.5.5.7.3.8",
	"ocspSigning": "1.3.6.1.5.5.7.3.9"}

// SigAlgs: x509.SignatureAlgorithm by the name its String() prints.
var SigAlgs = map[string]zx509.SignatureAlgorithm{
	"default": 0, "MD2-RSA": zx509.MD2WithRSA, "MD5-RSA": zx509.MD5WithRSA, "SHA1-RSA": zx509.SHA1WithRSA,
	"SHA256-RSA": zx509.SHA256WithRSA, "SHA384-RSA": zx509.SHA384WithRSA, "SHA512-RSA": zx509.SHA512WithRSA,
	"DSA-SHA1": zx509.DSAWithSHA1, "DSA-SHA256": zx509.DSAWithSHA256, "ECDSA-SHA1": zx509.ECDSAWithSHA1,
	"ECDSA-SHA256": zx509.ECDSAWithSHA256, "ECDSA-SHA384": zx509.ECDSAWithSHA384, "ECDSA-SHA512": zx509.ECDSAWithSHA512,
	"SHA256-RSAPSS": zx509.SHA256WithRSAPSS, "SHA384-RSAPSS": zx509.SHA384WithRSAPSS, "SHA512-RSAPSS": zx509.SHA512WithRSAPSS,
	"Ed25519": zx509.Ed25519Sig,
}

func SigAlgOf(name string) zx509.SignatureAlgorithm {
	if a, ok := SigAlgs[name]; ok {
		return a
	}
	return zx509.SignatureAlgorithm(99) // "bogus": a value the library does not know
}

// ---------------------------------------------------------------------------- names

var nameOIDs = []struct {
	field string
	oid   string
}{
	{"cn", "2.5.4.3"}, {"sn", "2.5.4.5"}, {"c", "2.5.4.6"}, {"o", "2.5.4.10"}, {"ou", "2.5.4.11"}, {"l", "2.5.4.7"},
	{"st", "2.5.4.8"}, {"street", "2.5.4.9"}, {"postal", "2.5.4.17"}, {"dc", "0.9.2342.19200300.100.1.25"},
	{"email", "1.2.840.113549.1.9.1"}, {"jl", "1.3.6.1.4.1.311.60.2.1.1"}, {"jst", "1.3.6.1.4.1.311.60.2.1.2"},
	{"jc", "1.3.6.1.4.1.311.60.2.1.3"}, {"orgid", "2.5.4.97"},
}

// ZName builds the zcrypto pkix.Name of an abstract name.
func ZName(n Name) zpkix.Name {
	z := zpkix.Name{CommonName: Dec(n.CN), SerialNumber: Dec(n.SN), Country: DecAll(n.C), Organization: DecAll(n.O),
		OrganizationalUnit: DecAll(n.OU), Locality: DecAll(n.L), Province: DecAll(n.ST), StreetAddress: DecAll(n.Street),
		PostalCode: DecAll(n.Postal), DomainComponent: DecAll(n.DC), EmailAddress: DecAll(n.Email),
		JurisdictionLocality: DecAll(n.JL), JurisdictionProvince: DecAll(n.JST), JurisdictionCountry: DecAll(n.JC),
		OrganizationIDs: DecAll(n.OrgID)}
	for _, e := range n.Extra {
		z.ExtraNames = append(z.ExtraNames, zpkix.AttributeTypeAndValue{Type: ParseOID(e.OID), Value: Dec(e.V)})
	}
	return z
}

// ProjectZName is the abstraction function for parsed names.
func ProjectZName(z zpkix.Name) Name {
	n := Name{CN: Enc(z.CommonName), SN: Enc(z.SerialNumber), C: EncAll(z.Country), O: EncAll(z.Organization),
		OU: EncAll(z.OrganizationalUnit), L: EncAll(z.Locality), ST: EncAll(z.Province), Street: EncAll(z.StreetAddress),
		Postal: EncAll(z.PostalCode), DC: EncAll(z.DomainComponent), Email: EncAll(z.EmailAddress),
		JL: EncAll(z.JurisdictionLocality), JST: EncAll(z.JurisdictionProvince), JC: EncAll(z.JurisdictionCountry),
		OrgID: EncAll(z.OrganizationIDs)}
	known := map[string]bool{}
	for _, f := range nameOIDs {
		known[f.oid] = true
	}
	for _, a := range z.Names {
		if o := a.Type.String(); !known[o] {
			n.Extra = append(n.Extra, OidVal{OID: o, V: Enc(fmt.Sprint(a.Value))})
		}
	}
	return n.Norm()
}

// StdRDN encodes an abstract name with the standard library only, in the conventional order
// (C, ST, L, ..., CN last), one attribute per RDN - deliberately not zcrypto's own layout, so a
// RawSubject copied verbatim can be told from a re-marshalled Subject.
func StdRDN(n Name) []byte {
	var seq stdpkix.RDNSequence
	add := func(oid string, vals []string) {
		for _, v := range vals {
			seq = append(seq, stdpkix.RelativeDistinguishedNameSET{{Type: ParseOID(oid), Value: Dec(v)}})
		}
	}
	one := func(s string) []string {
		if s == "" {
			return nil
		}
		return []string{s}
	}
	add("2.5.4.6", n.C)
	add("0.9.2342.19200300.100.1.25", n.DC)
	add("1.3.6.1.4.1.311.60.2.1.3", n.JC)
	add("1.3.6.1.4.1.311.60.2.1.2", n.JST)
	add("1.3.6.1.4.1.311.60.2.1.1", n.JL)
	add("2.5.4.8", n.ST)
	add("2.5.4.7", n.L)
	add("2.5.4.17", n.Postal)
	add("2.5.4.9", n.Street)
	add("2.5.4.10", n.O)
	add("2.5.4.11", n.OU)
	add("2.5.4.97", n.OrgID)
	add("2.5.4.5", one(n.SN))
	add("1.2.840.113549.1.9.1", n.Email)
	for _, e := range n.Extra {
		add(e.OID, []string{e.V})
	}
	add("2.5.4.3", one(n.CN))
	b, err := stdasn1.Marshal(seq)
	if err != nil {
		panic(fmt.Sprintf("iss.StdRDN: %v", err))
	}
	return b
}

// ProjectRDN decodes a DER Name with the standard library only (independent observer).
func ProjectRDN(raw []byte) (Name, error) {
	var seq stdpkix.RDNSequence
	rest, err := stdasn1.Unmarshal(raw, &seq)
	if err != nil {
		return Name{}, err
	}
	if len(rest) != 0 {
		return Name{}, errors.New("trailing data after name")
	}
	var n Name
	for _, rdn := range seq {
		for _, a := range rdn {
			v := Enc(fmt.Sprint(a.Value))
			switch a.Type.String() {
			case "2.5.4.3":
				n.CN = v
			case "2.5.4.5":
				n.SN = v
			case "2.5.4.6":
				n.C = append(n.C, v)
			case "2.5.4.10":
				n.O = append(n.O, v)
			case "2.5.4.11":
				n.OU = append(n.OU, v)
			case "2.5.4.7":
				n.L = append(n.L, v)
			case "2.5.4.8":
				n.ST = append(n.ST, v)
			case "2.5.4.9":
				n.Street = append(n.Street, v)
			case "2.5.4.17":
				n.Postal = append(n.Postal, v)
			case "0.9.2342.19200300.100.1.25":
				n.DC = append(n.DC, v)
			case "1.2.840.113549.1.9.1":
				n.Email = append(n.Email, v)
			case "1.3.6.1.4.1.311.60.2.1.1":
				n.JL = append(n.JL, v)
			case "1.3.6.1.4.1.311.60.2.1.2":
				n.JST = append(n.JST, v)
			case "1.3.6.1.4.1.311.60.2.1.3":
				n.JC = append(n.JC, v)
			case "2.5.4.97":
				n.OrgID = append(n.OrgID, v)
			default:
				n.Extra = append(n.Extra, OidVal{OID: a.Type.String(), V: v})
			}
		}
	}
	return n.Norm(), nil
}

// ---------------------------------------------------------------------------- extensions

var genOIDs = map[string]string{"ku": "2.5.29.15", "eku": "2.5.29.37", "bc": "2.5.29.19", "skid": "2.5.29.14",
	"akid": "2.5.29.35", "aia": "1.3.6.1.5.5.7.1.1", "san": "2.5.29.17", "policies": "2.5.29.32", "nc": "2.5.29.30",
	"crldp": "2.5.29.31"}

func isGenOID(o string) bool {
	for _, g := range genOIDs {
		if g == o {
			return true
		}
	}
	return false
}

func must(b []byte, err error) []byte {
	if err != nil {
		panic(err)
	}
	return b
}

func revbits(b byte) byte {
	var r byte
	for i := 0; i < 8; i++ {
		if b&(1<<uint(i)) != 0 {
			r |= 1 << uint(7-i)
		}
	}
	return r
}

type stdBC struct {
	IsCA       bool `asn1:"optional"`
	MaxPathLen int  `asn1:"optional,default:-1"`
}
type stdAKID struct {
	ID []byte `asn1:"optional,tag:0"`
}
type stdAIA struct {
	Method   stdasn1.ObjectIdentifier
	Location stdasn1.RawValue
}
type stdPolicy struct {
	Policy stdasn1.ObjectIdentifier
}
type stdSubtree struct {
	Value stdasn1.RawValue
}
type stdNC struct {
	Permitted []stdSubtree `asn1:"optional,tag:0"`
	Excluded  []stdSubtree `asn1:"optional,tag:1"`
}

// ExtraValue encodes the value of an abstract extra extension with the standard library.
func ExtraValue(e Extra) (oid string, val []byte) {
	if e.Kind == "raw" {
		return e.OID, UnHex(e.Hex)
	}
	oid = genOIDs[e.Kind]
	switch e.Kind {
	case "ku":
		a := []byte{revbits(byte(e.N)), revbits(byte(e.N >> 8))}
		l := 1
		if a[1] != 0 {
			l = 2
		}
		bl := 0
		for i := 0; i < l*8; i++ {
			if a[i/8]&(0x80>>uint(i%8)) != 0 {
				bl = i + 1
			}
		}
		val = must(stdasn1.Marshal(stdasn1.BitString{Bytes: a[:l], BitLength: bl}))
	case "bc":
		val = must(stdasn1.Marshal(stdBC{e.B, e.N}))
	case "skid":
		val = must(stdasn1.Marshal(UnHex(e.Hex)))
	case "akid":
		val = must(stdasn1.Marshal(stdAKID{UnHex(e.Hex)}))
	case "eku":
		var oids []stdasn1.ObjectIdentifier
		for _, n := range e.Strs {
			oids = append(oids, ParseOID(ekuOIDs[n]))
		}
		val = must(stdasn1.Marshal(oids))
	case "san":
		var rv []stdasn1.RawValue
		for _, d := range e.Strs {
			rv = append(rv, stdasn1.RawValue{Tag: 2, Class: 2, Bytes: []byte(Dec(d))})
		}
		val = must(stdasn1.Marshal(rv))
	case "aia":
		var l []stdAIA
		for _, u := range e.Strs {
			l = append(l, stdAIA{ParseOID("1.3.6.1.5.5.7.48.1"), stdasn1.RawValue{Tag: 6, Class: 2, Bytes: []byte(Dec(u))}})
		}
		val = must(stdasn1.Marshal(l))
	case "crldp":
		var dps []stdasn1.RawValue
		for _, u := range e.Strs {
			uri := must(stdasn1.Marshal(stdasn1.RawValue{Tag: 6, Class: 2, Bytes: []byte(Dec(u))}))
			full := must(stdasn1.Marshal(stdasn1.RawValue{Tag: 0, Class: 2, IsCompound: true, Bytes: uri}))
			dpn := must(stdasn1.Marshal(stdasn1.RawValue{Tag: 0, Class: 2, IsCompound: true, Bytes: full}))
			dps = append(dps, stdasn1.RawValue{Tag: 16, Class: 0, IsCompound: true, Bytes: dpn})
		}
		val = must(stdasn1.Marshal(dps))
	case "policies":
		var l []stdPolicy
		for _, p := range e.Strs {
			l = append(l, stdPolicy{ParseOID(p)})
		}
		val = must(stdasn1.Marshal(l))
	case "nc":
		var nc stdNC
		for _, d := range e.Strs {
			nc.Permitted = append(nc.Permitted, stdSubtree{stdasn1.RawValue{Tag: 2, Class: 2, Bytes: []byte(Dec(d))}})
		}
		val = must(stdasn1.Marshal(nc))
	default:
		panic("iss: unknown extra kind " + e.Kind)
	}
	return
}

func zExtras(es []Extra) []zpkix.Extension {
	var r []zpkix.Extension
	for _, e := range es {
		oid, val := ExtraValue(e)
		r = append(r, zpkix.Extension{Id: ParseOID(oid), Critical: e.Crit, Value: val})
	}
	return r
}

func stdExt(oid string, crit bool, val []byte) stdpkix.Extension {
	return stdpkix.Extension{Id: ParseOID(oid), Critical: crit, Value: val}
}

// ---------------------------------------------------------------------------- parent

// BuiltParent is the concrete parent of an issued certificate.
type BuiltParent struct {
	Cert   *zx509.Certificate // what CreateCertificate gets as parent
	Parsed *zx509.Certificate // parsed form (nil for form "bare")
	Key    *Key
	DER    []byte
}

// BuildParent creates the parent certificate with the standard library (self-signed with the
// parent key) and parses it with zcrypto; the abstract parent is re-derived from the parsed
// certificate and compared (concretisation check).
var parentCache = map[string]*BuiltParent{}

func BuildParent(p Parent, kt string) (*BuiltParent, error) {
	ck := canon(p) + "/" + kt
	if b, ok := parentCache[ck]; ok {
		return b, nil
	}
	b, err := buildParent1(p, kt)
	if err == nil {
		parentCache[ck] = b
	}
	return b, err
}

func buildParent1(p Parent, kt string) (*BuiltParent, error) {
	k := KeyFor("parent", kt)
	if p.Form == "bare" {
		c := &zx509.Certificate{Subject: ZName(p.Subject), SubjectKeyId: hexOrNil(p.SKID)}
		return &BuiltParent{Cert: c, Key: k}, nil
	}
	var exts []stdpkix.Extension
	if p.CanSign {
		exts = append(exts, stdExt("2.5.29.19", true, must(stdasn1.Marshal(stdBC{true, -1}))))
		_, ku := ExtraValue(Extra{Kind: "ku", N: 32 | 64})
		exts = append(exts, stdExt("2.5.29.15", true, ku))
	} else {
		_, ku := ExtraValue(Extra{Kind: "ku", N: 1})
		exts = append(exts, stdExt("2.5.29.15", true, ku))
	}
	if p.SKID != "" {
		exts = append(exts, stdExt("2.5.29.14", false, must(stdasn1.Marshal(UnHex(p.SKID)))))
	}
	tmpl := &stdx509.Certificate{
		SerialNumber: big.NewInt(1000), RawSubject: StdRDN(p.Subject),
		NotBefore: T2000, NotAfter: T2000.AddDate(60, 0, 0), ExtraExtensions: exts,
	}
	der, err := stdx509.CreateCertificate(rand.Reader, tmpl, tmpl, k.StdPub, k.StdPriv)
	if err != nil {
		return nil, fmt.Errorf("standard library could not create the parent: %v", err)
	}
	pc, err := zx509.ParseCertificate(der)
	if err != nil {
		return nil, fmt.Errorf("zcrypto could not parse the parent: %v", err)
	}
	// concretisation check
	if got := ProjectZName(pc.Subject); nameCanon(generic(got)) != nameCanon(generic(p.Subject.Norm())) {
		return nil, fmt.Errorf("parent subject %s re-derived as %s", canon(p.Subject), canon(got))
	}
	if Hex(pc.SubjectKeyId) != p.SKID {
		return nil, fmt.Errorf("parent skid %q re-derived as %q", p.SKID, Hex(pc.SubjectKeyId))
	}
	if (pc.BasicConstraintsValid && pc.IsCA) != p.CanSign {
		return nil, fmt.Errorf("parent CA flag does not match canSign=%v", p.CanSign)
	}
	return &BuiltParent{Cert: pc, Parsed: pc, Key: k, DER: der}, nil
}

// ---------------------------------------------------------------------------- template

func subtreesS(l []string) []zx509.GeneralSubtreeString {
	var r []zx509.GeneralSubtreeString
	for _, s := range l {
		r = append(r, zx509.GeneralSubtreeString{Data: Dec(s)})
	}
	return r
}
func subtreesIP(l []Net) []zx509.GeneralSubtreeIP {
	var r []zx509.GeneralSubtreeIP
	for _, n := range l {
		r = append(r, zx509.GeneralSubtreeIP{Data: net.IPNet{IP: ipOf(n.IP), Mask: net.IPMask(ipOf(n.Mask))}})
	}
	return r
}
func subtreesN(l []Name) []zx509.GeneralSubtreeName {
	var r []zx509.GeneralSubtreeName
	for _, n := range l {
		r = append(r, zx509.GeneralSubtreeName{Data: ZName(n)})
	}
	return r
}

// ZTemplate builds the real zcrypto template of an abstract one.
func ZTemplate(t CertTemplate) *zx509.Certificate {
	c := &zx509.Certificate{
		SerialNumber: SerialOf(t.Serial), Subject: ZName(t.Subject),
		NotBefore: t.NB.Time(), NotAfter: t.NA.Time(),
		KeyUsage:              zx509.KeyUsage(t.KU),
		BasicConstraintsValid: t.BC, IsCA: t.CA, MaxPathLen: t.MPL, MaxPathLenZero: t.MPLZ,
		SubjectKeyId: hexOrNil(t.SKID), AuthorityKeyId: hexOrNil(t.AKID),
		OCSPServer: DecAll(t.OCSP), IssuingCertificateURL: DecAll(t.IURL),
		DNSNames: DecAll(t.DNS), EmailAddresses: DecAll(t.Emails),
		CRLDistributionPoints:   DecAll(t.CRLDP),
		NameConstraintsCritical: t.NCCrit,
		PermittedDNSNames:       subtreesS(t.PDNS), ExcludedDNSNames: subtreesS(t.XDNS),
		PermittedEmailAddresses: subtreesS(t.PEmail), ExcludedEmailAddresses: subtreesS(t.XEmail),
		PermittedIPAddresses: subtreesIP(t.PIP), ExcludedIPAddresses: subtreesIP(t.XIP),
		PermittedDirectoryNames: subtreesN(t.PDir), ExcludedDirectoryNames: subtreesN(t.XDir),
		ExtraExtensions:    zExtras(t.Extras),
		SignatureAlgorithm: SigAlgOf(t.SigAlg),
	}
	if len(t.RawSubject) > 0 {
		c.RawSubject = StdRDN(t.RawSubject[0])
	}
	for _, n := range t.EKUs {
		found := false
		for _, e := range ekuNames {
			if e.name == n {
				c.ExtKeyUsage = append(c.ExtKeyUsage, e.z)
				found = true
			}
		}
		if !found {
			panic("iss: unknown EKU name " + n)
		}
	}
	for _, o := range t.UEKUs {
		c.UnknownExtKeyUsage = append(c.UnknownExtKeyUsage, ParseOID(o))
	}
	for _, ip := range t.IPs {
		c.IPAddresses = append(c.IPAddresses, ipOf(ip))
	}
	for _, p := range t.Policies {
		c.PolicyIdentifiers = append(c.PolicyIdentifiers, ParseOID(p))
	}
	return c
}

// Issued is the result of running CreateCertificate -> ParseCertificate on one template.
type Issued struct {
	DER    []byte
	Parsed *zx509.Certificate
	Obs    Obs
	StdObs *Obs  // projection of crypto/x509's parse of the same DER (nil if it does not parse)
	StdErr error // why the standard library refused the DER, if it did
}

// RunCert executes the real code on an abstract template and projects the result.
func RunCert(t CertTemplate) (*Issued, error) {
	zt := ZTemplate(t)
	var parentCert *zx509.Certificate
	var bp *BuiltParent
	var signer, subj *Key
	if t.Parent.Kind == "self" {
		signer = KeyFor("subj", t.SignerKey)
		subj = signer
		parentCert = zt
	} else {
		var err error
		bp, err = BuildParent(t.Parent, t.SignerKey)
		if err != nil {
			return nil, err
		}
		signer = bp.Key
		subj = KeyFor("subj", t.SubjKey)
		parentCert = bp.Cert
	}
	der, err := zx509.CreateCertificate(rand.Reader, zt, parentCert, subj.ZPub, signer.Signer)
	if err != nil {
		return &Issued{Obs: Obs{Outcome: "error", Err: "create: " + err.Error(), Val: map[string]any{}}}, nil
	}
	pc, err := zx509.ParseCertificate(der)
	if err != nil {
		return &Issued{DER: der, Obs: Obs{Outcome: "error", Err: "parse: " + err.Error(), Val: map[string]any{"created": true}}}, nil
	}
	val, err := ProjectCert(pc)
	if err != nil {
		return nil, err
	}
	val["rawSubjVerbatim"] = len(zt.RawSubject) > 0 && bytes.Equal(pc.RawSubject, zt.RawSubject)
	val["pkMatch"] = pubMatches(pc.PublicKey, subj)
	// signature against the parent
	switch {
	case t.Parent.Kind == "self":
		val["sigRaw"] = okFail(pc.CheckSignature(pc.SignatureAlgorithm, pc.RawTBSCertificate, pc.Signature))
		val["sigFrom"] = fromResult(pc.CheckSignatureFrom(pc))
	case bp.Parsed != nil:
		val["sigRaw"] = okFail(bp.Parsed.CheckSignature(pc.SignatureAlgorithm, pc.RawTBSCertificate, pc.Signature))
		val["sigFrom"] = fromResult(pc.CheckSignatureFrom(bp.Parsed))
	default:
		val["sigRaw"] = okFail(zx509.CheckSignatureFromKey(signer.ZPub, pc.SignatureAlgorithm, pc.RawTBSCertificate, pc.Signature))
		val["sigFrom"] = "n/a"
	}
	is := &Issued{DER: der, Parsed: pc, Obs: Obs{Outcome: "ok", Val: val}}
	if sc, err := stdx509.ParseCertificate(der); err == nil {
		so := Obs{Outcome: "ok", Val: ProjectStdCert(sc)}
		is.StdObs = &so
	} else {
		is.StdErr = err
	}
	return is, nil
}

func okFail(err error) string {
	if err == nil {
		return "ok"
	}
	return "fail"
}

func fromResult(err error) string {
	if err == nil {
		return "ok"
	}
	var cv zx509.ConstraintViolationError
	if errors.As(err, &cv) {
		return "constraint"
	}
	if strings.Contains(err.Error(), "Mis-match issuer/subject") {
		return "mismatch"
	}
	return "fail"
}

func pubMatches(parsed any, k *Key) bool {
	switch p := parsed.(type) {
	case *zrsa.PublicKey:
		z, ok := k.ZPub.(*zrsa.PublicKey)
		return ok && p.N.Cmp(z.N) == 0 && p.E.Cmp(z.E) == 0
	case *zx509.AugmentedECDSA:
		e, ok := k.ZPub.(*ecdsa.PublicKey)
		return ok && p.Pub.Curve == e.Curve && p.Pub.X.Cmp(e.X) == 0 && p.Pub.Y.Cmp(e.Y) == 0
	case *ecdsa.PublicKey:
		e, ok := k.ZPub.(*ecdsa.PublicKey)
		return ok && p.Curve == e.Curve && p.X.Cmp(e.X) == 0 && p.Y.Cmp(e.Y) == 0
	case ed25519.PublicKey:
		e, ok := k.ZPub.(ed25519.PublicKey)
		return ok && bytes.Equal(p, e)
	}
	return false
}

func pkAlgName(a zx509.PublicKeyAlgorithm) string {
	switch a {
	case zx509.RSA:
		return "RSA"
	case zx509.DSA:
		return "DSA"
	case zx509.ECDSA:
		return "ECDSA"
	case zx509.Ed25519:
		return "Ed25519"
	}
	return "other:" + strconv.Itoa(int(a))
}

func strsS(l []zx509.GeneralSubtreeString) []string {
	r := []string{}
	for _, s := range l {
		r = append(r, Enc(s.Data))
	}
	return r
}
func netsOf(l []zx509.GeneralSubtreeIP) []Net {
	r := []Net{}
	for _, s := range l {
		r = append(r, Net{IP: ints(s.Data.IP), Mask: ints(s.Data.Mask)})
	}
	return r
}
func namesOf(l []zx509.GeneralSubtreeName) []Name {
	r := []Name{}
	for _, s := range l {
		r = append(r, ProjectZName(s.Data))
	}
	return r
}

// ProjectCert is the abstraction function from a parsed zcrypto certificate to the observation
// record of Issuance.tla (fields of Expected(t).allowed).
func ProjectCert(c *zx509.Certificate) (map[string]any, error) {
	nb, ok1 := SecOf(c.NotBefore)
	na, ok2 := SecOf(c.NotAfter)
	if !ok1 || !ok2 {
		return nil, fmt.Errorf("validity outside the 31-bit window of the specification")
	}
	ekus := []string{}
	for _, e := range c.ExtKeyUsage {
		n := "const:" + strconv.Itoa(int(e))
		for _, k := range ekuNames {
			if k.z == e {
				n = k.name
			}
		}
		ekus = append(ekus, n)
	}
	uekus := []string{}
	for _, o := range c.UnknownExtKeyUsage {
		uekus = append(uekus, o.String())
	}
	ips := [][]int{}
	for _, ip := range c.IPAddresses {
		ips = append(ips, ints(ip))
	}
	pols := []string{}
	for _, p := range c.PolicyIdentifiers {
		pols = append(pols, p.String())
	}
	extOids := []string{}
	rawExts := []RawExt{}
	for _, e := range c.Extensions {
		o := e.Id.String()
		extOids = append(extOids, o)
		if !isGenOID(o) {
			rawExts = append(rawExts, RawExt{OID: o, Crit: e.Critical, Hex: Hex(e.Value)})
		}
	}
	return map[string]any{
		"serial": SerialHex(c.SerialNumber), "version": c.Version,
		"subject": ProjectZName(c.Subject), "issuer": ProjectZName(c.Issuer),
		"nb": nb, "na": na, "ku": int(c.KeyUsage), "ekus": ekus, "uekus": uekus,
		"bcValid": c.BasicConstraintsValid, "isCA": c.IsCA,
		"path": map[string]any{"mpl": c.MaxPathLen, "z": c.MaxPathLenZero},
		"skid": Hex(c.SubjectKeyId), "akid": Hex(c.AuthorityKeyId),
		"ocsp": EncAll(ne(c.OCSPServer)), "iurl": EncAll(ne(c.IssuingCertificateURL)),
		"dns": EncAll(ne(c.DNSNames)), "emails": EncAll(ne(c.EmailAddresses)), "ips": ips,
		"policies": pols, "crldp": EncAll(ne(c.CRLDistributionPoints)),
		"ncCrit": c.NameConstraintsCritical,
		"pDNS":   strsS(c.PermittedDNSNames), "xDNS": strsS(c.ExcludedDNSNames),
		"pEmail": strsS(c.PermittedEmailAddresses), "xEmail": strsS(c.ExcludedEmailAddresses),
		"pIP": netsOf(c.PermittedIPAddresses), "xIP": netsOf(c.ExcludedIPAddresses),
		"pDir": namesOf(c.PermittedDirectoryNames), "xDir": namesOf(c.ExcludedDirectoryNames),
		"extOids": extOids, "rawExts": rawExts,
		"sigAlg": c.SignatureAlgorithm.String(), "pkAlg": pkAlgName(c.PublicKeyAlgorithm),
		"selfSigned": c.SelfSigned,
	}, nil
}

// ProjectStdCert projects crypto/x509's view of the same DER to the fields it can see
// (independent observer of the produced bytes).
func ProjectStdCert(c *stdx509.Certificate) map[string]any {
	v := map[string]any{}
	v["serial"] = SerialHex(c.SerialNumber)
	v["version"] = c.Version
	if n, err := ProjectRDN(c.RawSubject); err == nil {
		v["subject"] = n
	}
	if n, err := ProjectRDN(c.RawIssuer); err == nil {
		v["issuer"] = n
	}
	if nb, ok := SecOf(c.NotBefore); ok {
		v["nb"] = nb
	}
	if na, ok := SecOf(c.NotAfter); ok {
		v["na"] = na
	}
	v["ku"] = int(c.KeyUsage)
	ekus := []string{}
	for _, e := range c.ExtKeyUsage {
		n := "const:" + strconv.Itoa(int(e))
		for _, k := range ekuNames {
			if k.s == e {
				n = k.name
			}
		}
		ekus = append(ekus, n)
	}
	v["ekus"] = ekus
	uekus := []string{}
	for _, o := range c.UnknownExtKeyUsage {
		uekus = append(uekus, o.String())
	}
	v["uekus"] = uekus
	v["bcValid"] = c.BasicConstraintsValid
	v["isCA"] = c.IsCA
	v["path"] = map[string]any{"mpl": c.MaxPathLen, "z": c.MaxPathLenZero}
	v["skid"] = Hex(c.SubjectKeyId)
	v["akid"] = Hex(c.AuthorityKeyId)
	v["ocsp"] = EncAll(ne(c.OCSPServer))
	v["iurl"] = EncAll(ne(c.IssuingCertificateURL))
	v["dns"] = EncAll(ne(c.DNSNames))
	v["emails"] = EncAll(ne(c.EmailAddresses))
	ips := [][]int{}
	for _, ip := range c.IPAddresses {
		ips = append(ips, ints(ip))
	}
	v["ips"] = ips
	pols := []string{}
	for _, p := range c.PolicyIdentifiers {
		pols = append(pols, p.String())
	}
	v["policies"] = pols
	v["crldp"] = EncAll(ne(c.CRLDistributionPoints))
	v["pDNS"] = EncAll(ne(c.PermittedDNSDomains))
	v["xDNS"] = EncAll(ne(c.ExcludedDNSDomains))
	v["pEmail"] = EncAll(ne(c.PermittedEmailAddresses))
	v["xEmail"] = EncAll(ne(c.ExcludedEmailAddresses))
	nets := func(l []*net.IPNet) []Net {
		r := []Net{}
		for _, n := range l {
			r = append(r, Net{IP: ints(n.IP), Mask: ints(n.Mask)})
		}
		return r
	}
	v["pIP"] = nets(c.PermittedIPRanges)
	v["xIP"] = nets(c.ExcludedIPRanges)
	extOids := []string{}
	rawExts := []RawExt{}
	for _, e := range c.Extensions {
		o := e.Id.String()
		extOids = append(extOids, o)
		if !isGenOID(o) {
			rawExts = append(rawExts, RawExt{OID: o, Crit: e.Critical, Hex: Hex(e.Value)})
		}
	}
	v["extOids"] = extOids
	v["rawExts"] = rawExts
	if c.SignatureAlgorithm != stdx509.UnknownSignatureAlgorithm {
		v["sigAlg"] = c.SignatureAlgorithm.String()
	}
	return v
}

var _ = zasn1.NullBytes
