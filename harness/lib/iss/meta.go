package iss

import (
	"bytes"
	"crypto/ed25519"
	"crypto/md5"
	"crypto/rand"
	"crypto/sha1"
	"crypto/sha256"
	"crypto/sha512"
	stdx509 "crypto/x509"
	stdpkix "crypto/x509/pkix"
	stdasn1 "encoding/asn1"
	"errors"
	"fmt"
	"math/big"

	zx509 "github.com/zmap/zcrypto/x509"
)

// C06: the metadata terms of Issuance.tla (MetaTerms) are evaluated here on the DER bytes with
// the standard library only: independent slicing (encoding/asn1 RawValue) and crypto/* hashes.

// Term mirrors PartT / CatT / HashT / TbsNoCT of Issuance.tla.
type Term struct {
	Op   string `json:"op"`
	Name string `json:"name"`
	H    string `json:"h"`
	Args []Term `json:"args"`
}

type extElem struct {
	oid  string
	full []byte
}

// Sliced is the structure of a certificate as far as the terms need it.
type Sliced struct {
	Parts      map[string][]byte // cert, tbs, issuer, subject, spki
	EncVersion int
	tbsHead    [][]byte  // TLVs of the TBS before the extensions, in order
	exts       []extElem // extension TLVs, in order
	hasExts    bool
}

func next(b []byte) (stdasn1.RawValue, []byte, error) {
	var rv stdasn1.RawValue
	rest, err := stdasn1.Unmarshal(b, &rv)
	return rv, rest, err
}

// Slice cuts a DER certificate into the sub-encodings the terms name.
func Slice(der []byte) (*Sliced, error) {
	s := &Sliced{Parts: map[string][]byte{}}
	cert, rest, err := next(der)
	if err != nil {
		return nil, err
	}
	if len(rest) != 0 || cert.Tag != 16 || cert.Class != 0 {
		return nil, errors.New("not a single SEQUENCE")
	}
	s.Parts["cert"] = cert.FullBytes
	tbs, _, err := next(cert.Bytes)
	if err != nil {
		return nil, err
	}
	s.Parts["tbs"] = tbs.FullBytes
	b := tbs.Bytes
	idx := 0
	names := []string{"serial", "sigalg", "issuer", "validity", "subject", "spki"}
	for len(b) > 0 {
		var e stdasn1.RawValue
		e, b, err = next(b)
		if err != nil {
			return nil, err
		}
		if e.Class == 2 && e.Tag == 0 && idx == 0 && len(s.tbsHead) == 0 {
			var v int
			if rest, err := stdasn1.Unmarshal(e.Bytes, &v); err != nil {
				return nil, err
			} else if len(rest) != 0 {
				// the wrapper's length disagrees with its content: the TLV tree of the input is not
				// well defined, "the sub-encoding" has no reference meaning (zcrypto's encoding/asn1
				// ignores the outer length of an EXPLICIT wrapper) - nothing is claimed
				return nil, errors.New("inconsistent EXPLICIT version wrapper")
			}
			s.EncVersion = v
			s.tbsHead = append(s.tbsHead, e.FullBytes)
			continue
		}
		if e.Class == 2 && e.Tag == 3 && idx >= len(names) {
			s.hasExts = true
			seq, rest, err := next(e.Bytes)
			if err != nil {
				return nil, err
			}
			if len(rest) != 0 {
				return nil, errors.New("inconsistent EXPLICIT extensions wrapper")
			}
			eb := seq.Bytes
			for len(eb) > 0 {
				var x stdasn1.RawValue
				x, eb, err = next(eb)
				if err != nil {
					return nil, err
				}
				var oid stdasn1.ObjectIdentifier
				if _, err := stdasn1.Unmarshal(x.Bytes, &oid); err != nil {
					return nil, err
				}
				s.exts = append(s.exts, extElem{oid.String(), x.FullBytes})
			}
			continue
		}
		if idx < len(names) {
			switch names[idx] {
			case "issuer", "subject", "spki":
				s.Parts[names[idx]] = e.FullBytes
			}
			idx++
		}
		s.tbsHead = append(s.tbsHead, e.FullBytes)
	}
	if idx < len(names) {
		return nil, errors.New("short TBSCertificate")
	}
	return s, nil
}

func derLen(n int) []byte {
	if n < 128 {
		return []byte{byte(n)}
	}
	var b []byte
	for x := n; x > 0; x >>= 8 {
		b = append([]byte{byte(x)}, b...)
	}
	return append([]byte{0x80 | byte(len(b))}, b...)
}

func tlv(tag byte, body []byte) []byte {
	return append(append([]byte{tag}, derLen(len(body))...), body...)
}

const (
	oidPoison = "1.3.6.1.4.1.11129.2.4.3"
	oidSCT    = "1.3.6.1.4.1.11129.2.4.2"
)

// tbsNoCT: the TBS with the two CT extension elements cut out and every enclosing length
// recomputed; an extension list that becomes empty disappears with its [3] wrapper.
func (s *Sliced) tbsNoCT(keepEmpty bool) []byte {
	var body []byte
	for _, e := range s.tbsHead {
		body = append(body, e...)
	}
	var exts []byte
	for _, e := range s.exts {
		if e.oid == oidPoison || e.oid == oidSCT {
			continue
		}
		exts = append(exts, e.full...)
	}
	if len(exts) > 0 || keepEmpty {
		body = append(body, tlv(0xa3, tlv(0x30, exts))...)
	}
	return tlv(0x30, body)
}

// Eval interprets a term.
func (s *Sliced) Eval(t Term) ([]byte, error) {
	switch t.Op {
	case "part":
		b, ok := s.Parts[t.Name]
		if !ok {
			return nil, fmt.Errorf("unknown part %q", t.Name)
		}
		return b, nil
	case "cat":
		var r []byte
		for _, a := range t.Args {
			b, err := s.Eval(a)
			if err != nil {
				return nil, err
			}
			r = append(r, b...)
		}
		return r, nil
	case "hash":
		b, err := s.Eval(t.Args[0])
		if err != nil {
			return nil, err
		}
		switch t.H {
		case "md5":
			x := md5.Sum(b)
			return x[:], nil
		case "sha1":
			x := sha1.Sum(b)
			return x[:], nil
		case "sha256":
			x := sha256.Sum256(b)
			return x[:], nil
		case "sha512":
			x := sha512.Sum512(b)
			return x[:], nil
		}
		return nil, fmt.Errorf("unknown hash %q", t.H)
	case "tbsNoCT":
		return s.tbsNoCT(false), nil
	case "tbsNoCTKeepEmpty":
		return s.tbsNoCT(true), nil
	}
	return nil, fmt.Errorf("unknown term op %q", t.Op)
}

func metaField(c *zx509.Certificate, f string) ([]byte, bool) {
	switch f {
	case "Raw":
		return c.Raw, true
	case "RawTBSCertificate":
		return c.RawTBSCertificate, true
	case "RawIssuer":
		return c.RawIssuer, true
	case "RawSubject":
		return c.RawSubject, true
	case "RawSubjectPublicKeyInfo":
		return c.RawSubjectPublicKeyInfo, true
	case "FingerprintMD5":
		return c.FingerprintMD5, true
	case "FingerprintSHA1":
		return c.FingerprintSHA1, true
	case "FingerprintSHA256":
		return c.FingerprintSHA256, true
	case "SPKIFingerprint":
		return c.SPKIFingerprint, true
	case "TBSCertificateFingerprint":
		return c.TBSCertificateFingerprint, true
	case "SPKISubjectFingerprint":
		return c.SPKISubjectFingerprint, true
	case "FingerprintNoCT":
		return c.FingerprintNoCT, true
	}
	return nil, false
}

// MetaObs parses der with zcrypto and produces the observation record judged by MetaOK of
// Issuance.tla.  ok=false: zcrypto does not accept the bytes, or they cannot be sliced
// independently (then nothing is claimed).
func MetaObs(der []byte, canonical bool, terms map[string][]Term) (map[string]any, *zx509.Certificate, string) {
	c, err := zx509.ParseCertificate(der)
	if err != nil {
		return nil, nil, "zcrypto: " + err.Error()
	}
	s, err := Slice(der)
	if err != nil {
		return nil, c, "slice: " + err.Error()
	}
	eq := map[string]bool{}
	for f, ts := range terms {
		got, ok := metaField(c, f)
		if !ok {
			panic("iss: metadata field unknown to the harness: " + f)
		}
		eq[f] = false
		for _, t := range ts {
			want, err := s.Eval(t)
			if err != nil {
				panic(err)
			}
			if bytes.Equal(want, got) {
				eq[f] = true
			}
		}
	}
	o := map[string]any{"eq": eq, "canonical": canonical, "encVersion": s.EncVersion, "version": c.Version,
		"issuerEqSubject": bytes.Equal(s.Parts["issuer"], s.Parts["subject"]), "selfSigned": c.SelfSigned,
		"isPrecert": c.IsPrecert}
	// ideal verification under the certificate's own key, interpreted by the standard library
	own := "unknown"
	if sc, err := stdx509.ParseCertificate(der); err == nil {
		err := sc.CheckSignature(sc.SignatureAlgorithm, sc.RawTBSCertificate, sc.Signature)
		var ins stdx509.InsecureAlgorithmError
		switch {
		case err == nil:
			own = "yes"
		case errors.As(err, &ins), errors.Is(err, stdx509.ErrUnsupportedAlgorithm):
			own = "unknown"
		default:
			own = "no"
		}
	}
	o["ownSigVerifies"] = own
	nb, ok1 := SecOf(c.NotBefore)
	na, ok2 := SecOf(c.NotAfter)
	d := c.NotAfter.Unix() - c.NotBefore.Unix()
	if ok1 && ok2 && d < 1<<31 && d > -(1<<31) && int64(c.ValidityPeriod) < 1<<31 && int64(c.ValidityPeriod) > -(1<<31) {
		o["vpKnown"], o["vp"], o["nb"], o["na"] = true, c.ValidityPeriod, nb, na
	} else {
		o["vpKnown"], o["vp"], o["nb"], o["na"] = false, 0, 0, 0
	}
	return o, c, ""
}

// ---------------------------------------------------------------------------- CT placement cases

// CTCase: abstract extension lists (kinds) of a certificate and of the same certificate with CT
// extensions inserted, plus how it is signed.
type CTCase struct {
	Base []string `json:"base"`
	CT   []string `json:"ct"`
	Sign string   `json:"sign"` // "self" | "selfissued-bad" | "issued"
}

func sctList(n int) []byte {
	var list []byte
	for i := 0; i < n; i++ {
		sct := []byte{0}                                               // v1
		sct = append(sct, bytes.Repeat([]byte{0xa0 + byte(i)}, 32)...) // log id
		sct = append(sct, 0, 0, 1, 0x70, 0, 0, 0, byte(i))             // timestamp
		sct = append(sct, 0, 0)                                        // no extensions
		sct = append(sct, 4, 3, 0, 4, 1, 2, 3, 4)                      // sha256/ecdsa, 4-byte "signature"
		list = append(list, byte(len(sct)>>8), byte(len(sct)))
		list = append(list, sct...)
	}
	out := append([]byte{byte(len(list) >> 8), byte(len(list))}, list...)
	return must(stdasn1.Marshal(out))
}

func ctExt(kind string) stdpkix.Extension {
	switch kind {
	case "ku":
		_, v := ExtraValue(Extra{Kind: "ku", N: 5})
		return stdExt("2.5.29.15", true, v)
	case "bc":
		return stdExt("2.5.29.19", true, must(stdasn1.Marshal(stdBC{true, 1})))
	case "san":
		_, v := ExtraValue(Extra{Kind: "san", Strs: []string{"ct.example", "www.ct.example"}})
		return stdExt("2.5.29.17", false, v)
	case "skid":
		return stdExt("2.5.29.14", false, must(stdasn1.Marshal([]byte{1, 2, 3, 4})))
	case "custom":
		return stdExt("1.3.6.1.4.1.99999.6", false, []byte{5, 0})
	case "poison":
		return stdExt(oidPoison, true, []byte{5, 0})
	case "sct":
		return stdExt(oidSCT, false, sctList(2))
	case "sct0":
		return stdExt(oidSCT, false, sctList(0))
	case "poisonnc": // poison without the critical flag
		return stdExt(oidPoison, false, []byte{5, 0})
	case "sctc": // SCT list marked critical
		return stdExt(oidSCT, true, sctList(2))
	}
	panic("iss: unknown CT-case extension kind " + kind)
}

// BuildCTPair creates the two certificates of a case with the standard library: identical but
// for the CT extensions (and the signature value).
func BuildCTPair(c CTCase, serial int64) (base, ct []byte, err error) {
	subjKey := ed25519.NewKeyFromSeed(bytes.Repeat([]byte{7}, 32))
	otherKey := ed25519.NewKeyFromSeed(bytes.Repeat([]byte{9}, 32))
	mk := func(kinds []string) ([]byte, error) {
		var exts []stdpkix.Extension
		for _, k := range kinds {
			exts = append(exts, ctExt(k))
		}
		subj := StdRDN(Name{CN: "ct-case.example", O: []string{"CT Org"}})
		t := &stdx509.Certificate{SerialNumber: big.NewInt(serial), RawSubject: subj,
			NotBefore: T2000.AddDate(20, 0, 0), NotAfter: T2000.AddDate(21, 0, 0), ExtraExtensions: exts}
		switch c.Sign {
		case "self":
			return stdx509.CreateCertificate(rand.Reader, t, t, subjKey.Public(), subjKey)
		case "selfissued-bad":
			p := &stdx509.Certificate{RawSubject: subj}
			return stdx509.CreateCertificate(rand.Reader, t, p, subjKey.Public(), otherKey)
		case "issued":
			p := &stdx509.Certificate{RawSubject: StdRDN(Name{CN: "CT Issuing CA"})}
			return stdx509.CreateCertificate(rand.Reader, t, p, subjKey.Public(), otherKey)
		}
		return nil, fmt.Errorf("unknown sign kind %q", c.Sign)
	}
	if base, err = mk(c.Base); err != nil {
		return
	}
	ct, err = mk(c.CT)
	return
}

// ExtOIDs lists the extension OIDs in order.
func (s *Sliced) ExtOIDs() []string {
	r := make([]string, len(s.exts))
	for i, e := range s.exts {
		r[i] = e.oid
	}
	return r
}

// ---------------------------------------------------------------------------- issuer/subject relation cases

// RelCase: how the issuer name relates to the subject name, whether the certificate is signed by
// its own key, and the key type (NameRels / RelCases of Issuance.tla).
type RelCase struct {
	Rel string `json:"rel"`
	Own bool   `json:"own"`
	Key string `json:"key"`
}

type relAVA struct {
	oid string
	tag int // 19 PrintableString, 12 UTF8String
	val string
}

// relName encodes an RDNSequence with full control over string types, RDN order and the order of
// the values inside a multi-valued RDN (hand-assembled TLVs: DER SET ordering is not enforced).
func relName(rdns [][]relAVA) []byte {
	var seq []byte
	for _, rdn := range rdns {
		var set []byte
		for _, a := range rdn {
			oid := must(stdasn1.Marshal(stdasn1.ObjectIdentifier(ParseOID(a.oid))))
			val := tlv(byte(a.tag), []byte(a.val))
			set = append(set, tlv(0x30, append(oid, val...))...)
		}
		seq = append(seq, tlv(0x31, set)...)
	}
	return tlv(0x30, seq)
}

// RelNames returns the raw subject and the raw issuer of a relation case.
func RelNames(rel string) (subject, issuer []byte, err error) {
	c := []relAVA{{"2.5.4.6", 19, "US"}}
	o := []relAVA{{"2.5.4.10", 19, "Org A"}, {"2.5.4.10", 19, "Org B"}}
	cn := []relAVA{{"2.5.4.3", 19, "Self Signed Variant"}}
	subject = relName([][]relAVA{c, o, cn})
	switch rel {
	case "identical":
		issuer = subject
	case "string-type":
		issuer = relName([][]relAVA{c, o, {{"2.5.4.3", 12, "Self Signed Variant"}}})
	case "rdn-order":
		issuer = relName([][]relAVA{cn, o, c})
	case "set-order":
		issuer = relName([][]relAVA{c, {o[1], o[0]}, cn})
	case "case":
		issuer = relName([][]relAVA{c, o, {{"2.5.4.3", 19, "self signed variant"}}})
	case "trailing-space":
		issuer = relName([][]relAVA{c, o, {{"2.5.4.3", 19, "Self Signed Variant "}}})
	case "one-attribute":
		issuer = relName([][]relAVA{c, {o[0], {"2.5.4.10", 19, "Org C"}}, cn})
	default:
		return nil, nil, fmt.Errorf("unknown name relation %q", rel)
	}
	return
}

// BuildRelCert creates the certificate of a relation case with the standard library.
func BuildRelCert(c RelCase) ([]byte, error) {
	subj, issuer, err := RelNames(c.Rel)
	if err != nil {
		return nil, err
	}
	k := KeyFor("subj", c.Key)
	signer := k
	if !c.Own {
		signer = KeyFor("other", c.Key)
	}
	t := &stdx509.Certificate{SerialNumber: big.NewInt(77), RawSubject: subj, NotBefore: T2000.AddDate(20, 0, 0), NotAfter: T2000.AddDate(21, 0, 0)}
	p := &stdx509.Certificate{RawSubject: issuer}
	return stdx509.CreateCertificate(rand.Reader, t, p, k.StdPub, signer.StdPriv)
}
