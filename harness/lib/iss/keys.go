package iss

import (
	"crypto"
	"crypto/dsa"
	"crypto/ecdsa"
	"crypto/ed25519"
	"crypto/elliptic"
	"crypto/rand"
	"crypto/rsa"
	"crypto/sha256"
	"fmt"
	"math/big"
	"sync"

	zdsa "github.com/zmap/zcrypto/dsa"
	zrsa "github.com/zmap/zcrypto/rsa"
)

// Key is one key pair in every form the harnesses need: the signer handed to zcrypto
// (zcrypto has its own rsa package), the public key handed to zcrypto, and the standard
// library forms used by the oracle.
type Key struct {
	Type    string        // "rsa1024" "rsa2048" "rsa3072" "p224" "p256" "p384" "p521" "ed25519" "dsa1024" "dsa2048"
	Signer  crypto.Signer // what CreateCertificate etc. get as priv (nil for DSA)
	ZPub    any           // *zrsa.PublicKey | *ecdsa.PublicKey | ed25519.PublicKey | *zdsa.PublicKey
	StdPriv any           // *rsa.PrivateKey | *ecdsa.PrivateKey | ed25519.PrivateKey | *dsa.PrivateKey
	StdPub  any
	ZDSA    *zdsa.PrivateKey
}

var (
	keyMu sync.Mutex
	keys  = map[string]*Key{}
)

func Family(kt string) string {
	switch kt {
	case "rsa1024", "rsa2048", "rsa3072":
		return "rsa"
	case "ed25519":
		return "ed25519"
	case "dsa1024", "dsa2048":
		return "dsa"
	}
	return "ecdsa"
}

// KeyFor returns the key pair of a role ("subj", "parent", "other", ...) and type; created on
// first use and kept for the life of the process.  Key material is fresh per process: the
// properties quantify over keys, the abstract cases do not depend on the key bits.
func KeyFor(role, kt string) *Key {
	keyMu.Lock()
	defer keyMu.Unlock()
	id := role + "/" + kt
	if k, ok := keys[id]; ok {
		return k
	}
	k := &Key{Type: kt}
	switch kt {
	case "rsa1024", "rsa2048", "rsa3072":
		bits := map[string]int{"rsa1024": 1024, "rsa2048": 2048, "rsa3072": 3072}[kt]
		sk, err := rsa.GenerateKey(rand.Reader, bits)
		if err != nil {
			panic(err)
		}
		z := &zrsa.PrivateKey{
			PublicKey: zrsa.PublicKey{N: new(big.Int).Set(sk.N), E: big.NewInt(int64(sk.E))},
			D:         new(big.Int).Set(sk.D),
		}
		for _, p := range sk.Primes {
			z.Primes = append(z.Primes, new(big.Int).Set(p))
		}
		z.Precompute()
		k.Signer, k.ZPub, k.StdPriv, k.StdPub = z, &z.PublicKey, sk, &sk.PublicKey
	case "p224", "p256", "p384", "p521":
		c := map[string]elliptic.Curve{"p224": elliptic.P224(), "p256": elliptic.P256(), "p384": elliptic.P384(), "p521": elliptic.P521()}[kt]
		sk, err := ecdsa.GenerateKey(c, rand.Reader)
		if err != nil {
			panic(err)
		}
		k.Signer, k.ZPub, k.StdPriv, k.StdPub = sk, &sk.PublicKey, sk, &sk.PublicKey
	case "ed25519":
		seed := sha256.Sum256([]byte(fmt.Sprintf("iss/%s/%d", id, randUint())))
		sk := ed25519.NewKeyFromSeed(seed[:])
		k.Signer, k.ZPub, k.StdPriv, k.StdPub = sk, sk.Public().(ed25519.PublicKey), sk, sk.Public().(ed25519.PublicKey)
	case "dsa1024", "dsa2048":
		sz := dsa.L1024N160
		if kt == "dsa2048" {
			sz = dsa.L2048N256
		}
		var sk dsa.PrivateKey
		if err := dsa.GenerateParameters(&sk.Parameters, rand.Reader, sz); err != nil {
			panic(err)
		}
		if err := dsa.GenerateKey(&sk, rand.Reader); err != nil {
			panic(err)
		}
		z := &zdsa.PrivateKey{PublicKey: zdsa.PublicKey{Parameters: zdsa.Parameters{P: sk.P, Q: sk.Q, G: sk.G}, Y: sk.Y}, X: sk.X}
		k.ZPub, k.StdPriv, k.StdPub, k.ZDSA = &z.PublicKey, &sk, &sk.PublicKey, z
	default:
		panic("iss.KeyFor: unknown key type " + kt)
	}
	keys[id] = k
	return k
}

func randUint() uint64 {
	var b [8]byte
	rand.Read(b[:])
	var x uint64
	for _, c := range b {
		x = x<<8 | uint64(c)
	}
	return x
}
