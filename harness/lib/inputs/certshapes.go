package inputs

import (
	"bytes"
	"crypto/rand"
	stdx509 "crypto/x509"
	"crypto/x509/pkix"
	"encoding/asn1"
	"encoding/binary"
	"fmt"
	"strings"

	d "verifharness/lib/dertree"
	"verifharness/lib/pki"
)

// Shape is an extension-content shape of InputsCert.tla: extension name and items of tokens.
type Shape struct {
	X string     `json:"x"`
	V [][]string `json:"v"`
}

func (s Shape) String() string {
	var items []string
	for _, it := range s.V {
		items = append(items, "["+strings.Join(it, ",")+"]")
	}
	return s.X + ":" + strings.Join(items, "")
}

func generalName(tok string) *d.Node {
	switch tok {
	case "other":
		return d.Ctx(0, d.OID("1.3.6.1.4.1.311.20.2.3"), d.Explicit(0, d.UTF8("upn@example.com")))
	case "other-nonexplicit":
		return d.Ctx(0, d.OID("1.3.6.1.4.1.311.20.2.3"), d.UTF8("upn@example.com"))
	case "email":
		return d.CtxPrim(1, []byte("mail@example.com"))
	case "dns":
		return d.CtxPrim(2, []byte("alt.example.com"))
	case "dns-empty":
		return d.CtxPrim(2, nil)
	case "dns-nul":
		return d.CtxPrim(2, []byte("a\x00b.example.com"))
	case "x400":
		return d.Ctx(3, d.Seq(d.Set(d.Printable("x400"))))
	case "dir":
		return d.Ctx(4, d.Seq(d.Set(d.Seq(d.OID("2.5.4.3"), d.UTF8("dirname")))))
	case "dir-empty":
		return d.Ctx(4, d.Seq())
	case "edi":
		return d.Ctx(5, d.Explicit(0, d.UTF8("assigner")), d.Explicit(1, d.UTF8("party")))
	case "uri":
		return d.CtxPrim(6, []byte("https://uri.example.com/x"))
	case "uri-bad":
		return d.CtxPrim(6, []byte("::not a uri\x7f%%"))
	case "ip4":
		return d.CtxPrim(7, []byte{192, 0, 2, 1})
	case "ip6":
		return d.CtxPrim(7, append([]byte{0x20, 0x01, 0x0d, 0xb8}, make([]byte, 12)...))
	case "ipbad":
		return d.CtxPrim(7, []byte{1, 2, 3})
	case "rid":
		return d.CtxPrim(8, []byte{0x2a, 0x03, 0x04})
	}
	panic("inputs: unknown general name token " + tok)
}

// name-constraint subtree bases: IP bases carry address + mask
func subtree(tok string) *d.Node {
	switch tok {
	case "ip4":
		return d.Seq(d.CtxPrim(7, []byte{10, 0, 0, 0, 255, 0, 0, 0}))
	case "ip6":
		return d.Seq(d.CtxPrim(7, append(bytes.Repeat([]byte{0x20}, 16), bytes.Repeat([]byte{0xff}, 16)...)))
	case "min1":
		return d.Seq(d.CtxPrim(2, []byte(".example.com")), d.CtxPrim(0, []byte{1}))
	case "max0":
		return d.Seq(d.CtxPrim(2, []byte(".example.com")), d.CtxPrim(1, []byte{0}))
	}
	return d.Seq(generalName(tok))
}

func userNotice(tok string) *d.Node {
	ref := d.Seq(d.UTF8("Org"), d.Seq(d.Int(1), d.Int(2)))
	switch tok {
	case "un-text":
		return d.Seq(d.UTF8("explicit text"))
	case "un-text-bmp":
		return d.Seq(d.BMP("bmp text"))
	case "un-ref":
		return d.Seq(ref)
	case "un-ref-nonumbers":
		return d.Seq(d.Seq(d.IA5("Org2"), d.Seq()))
	case "un-both":
		return d.Seq(ref, d.Visible("visible text"))
	case "un-empty":
		return d.Seq()
	}
	panic("inputs: unknown notice token " + tok)
}

func sctBytes(tok string) []byte {
	var b bytes.Buffer
	b.WriteByte(0)
	b.Write(bytes.Repeat([]byte{0x11}, 32))
	binary.Write(&b, binary.BigEndian, uint64(1600000000000))
	switch tok {
	case "v1-ext":
		b.Write([]byte{0, 3, 1, 2, 3})
	default:
		b.Write([]byte{0, 0})
	}
	switch tok {
	case "sig-empty":
		b.Write([]byte{4, 3, 0, 0})
	case "v1-rsa":
		b.Write([]byte{4, 1, 0, 4, 9, 9, 9, 9})
	default:
		b.Write([]byte{4, 3, 0, 8})
		b.Write(bytes.Repeat([]byte{0x22}, 8))
	}
	one := b.Bytes()
	return append([]byte{byte(len(one) >> 8), byte(len(one))}, one...)
}

// ShapeExtension returns the extension (or nil for subject shapes) of a shape.
func ShapeExtension(s Shape) *d.Node {
	item := func(i int) []string {
		if i < len(s.V) {
			return s.V[i]
		}
		return nil
	}
	one := func() string {
		if len(s.V) > 0 && len(s.V[0]) > 0 {
			return s.V[0][0]
		}
		return ""
	}
	switch s.X {
	case "policies":
		var pols []*d.Node
		for pi, quals := range s.V {
			var qs []*d.Node
			for _, q := range quals {
				switch q {
				case "cps":
					qs = append(qs, d.Seq(d.OID("1.3.6.1.5.5.7.2.1"), d.IA5("https://cps.example.com")))
				case "unknown":
					qs = append(qs, d.Seq(d.OID("1.3.6.1.5.5.7.2.99"), d.UTF8("unknown qualifier")))
				default:
					qs = append(qs, d.Seq(d.OID("1.3.6.1.5.5.7.2.2"), userNotice(q)))
				}
			}
			oid := fmt.Sprintf("2.23.140.1.2.%d", pi+1)
			if len(qs) > 0 {
				pols = append(pols, d.Seq(d.OID(oid), d.Seq(qs...)))
			} else {
				pols = append(pols, d.Seq(d.OID(oid)))
			}
		}
		return d.Ext("2.5.29.32", false, d.Seq(pols...))
	case "san", "ian":
		var gns []*d.Node
		for _, t := range item(0) {
			gns = append(gns, generalName(t))
		}
		oid := "2.5.29.17"
		if s.X == "ian" {
			oid = "2.5.29.18"
		}
		return d.Ext(oid, false, d.Seq(gns...))
	case "nc":
		var parts []*d.Node
		for i, tag := range []int{0, 1} {
			var sub []*d.Node
			for _, t := range item(i) {
				sub = append(sub, subtree(t))
			}
			if len(sub) > 0 {
				parts = append(parts, d.Ctx(tag, sub...))
			}
		}
		return d.Ext("2.5.29.30", true, d.Seq(parts...))
	case "aia":
		var ads []*d.Node
		for _, t := range item(0) {
			switch t {
			case "ocsp-uri":
				ads = append(ads, d.Seq(d.OID("1.3.6.1.5.5.7.48.1"), d.CtxPrim(6, []byte("http://ocsp.example.com"))))
			case "issuers-uri":
				ads = append(ads, d.Seq(d.OID("1.3.6.1.5.5.7.48.2"), d.CtxPrim(6, []byte("http://ca.example.com/ca.crt"))))
			case "ocsp-dns":
				ads = append(ads, d.Seq(d.OID("1.3.6.1.5.5.7.48.1"), d.CtxPrim(2, []byte("ocsp.example.com"))))
			case "ocsp-dir":
				ads = append(ads, d.Seq(d.OID("1.3.6.1.5.5.7.48.1"), generalName("dir")))
			case "unknown-uri":
				ads = append(ads, d.Seq(d.OID("1.3.6.1.5.5.7.48.99"), d.CtxPrim(6, []byte("http://x.example.com"))))
			case "ocsp-empty":
				ads = append(ads, d.Seq(d.OID("1.3.6.1.5.5.7.48.1"), d.CtxPrim(6, nil)))
			}
		}
		return d.Ext("1.3.6.1.5.5.7.1.1", false, d.Seq(ads...))
	case "crldp":
		var dps []*d.Node
		for _, t := range item(0) {
			switch t {
			case "full-uri":
				dps = append(dps, d.Seq(d.Ctx(0, d.Ctx(0, d.CtxPrim(6, []byte("http://crl.example.com/a.crl"))))))
			case "full-two":
				dps = append(dps, d.Seq(d.Ctx(0, d.Ctx(0, d.CtxPrim(6, []byte("http://crl.example.com/a.crl")), d.CtxPrim(6, []byte("ldap://crl.example.com/b"))))))
			case "full-dir":
				dps = append(dps, d.Seq(d.Ctx(0, d.Ctx(0, generalName("dir")))))
			case "full-dns":
				dps = append(dps, d.Seq(d.Ctx(0, d.Ctx(0, generalName("dns")))))
			case "relative":
				dps = append(dps, d.Seq(d.Ctx(0, d.Ctx(1, d.Seq(d.OID("2.5.4.3"), d.UTF8("rel"))))))
			case "reasons-only":
				dps = append(dps, d.Seq(d.CtxPrim(1, []byte{1, 0x80})))
			case "issuer-only":
				dps = append(dps, d.Seq(d.Ctx(2, generalName("dir"))))
			case "empty":
				dps = append(dps, d.Seq())
			}
		}
		return d.Ext("2.5.29.31", false, d.Seq(dps...))
	case "qc":
		var st []*d.Node
		for _, t := range item(0) {
			switch t {
			case "compliance":
				st = append(st, d.Seq(d.OID("0.4.0.1862.1.1")))
			case "limit":
				st = append(st, d.Seq(d.OID("0.4.0.1862.1.2"), d.Seq(d.Printable("EUR"), d.Int(100), d.Int(2))))
			case "limit-neg":
				st = append(st, d.Seq(d.OID("0.4.0.1862.1.2"), d.Seq(d.Int(978), d.Int(-5), d.Int(-2))))
			case "retention":
				st = append(st, d.Seq(d.OID("0.4.0.1862.1.3"), d.Int(10)))
			case "sscd":
				st = append(st, d.Seq(d.OID("0.4.0.1862.1.4")))
			case "pds":
				st = append(st, d.Seq(d.OID("0.4.0.1862.1.5"), d.Seq(d.Seq(d.IA5("https://pds.example.com"), d.Printable("en")))))
			case "pds-empty":
				st = append(st, d.Seq(d.OID("0.4.0.1862.1.5"), d.Seq()))
			case "types":
				st = append(st, d.Seq(d.OID("0.4.0.1862.1.6"), d.Seq(d.OID("0.4.0.1862.1.6.3"), d.OID("0.4.0.1862.1.6.1"))))
			case "types-empty":
				st = append(st, d.Seq(d.OID("0.4.0.1862.1.6"), d.Seq()))
			case "legislation":
				st = append(st, d.Seq(d.OID("0.4.0.1862.1.7"), d.Seq(d.Printable("DE"), d.Printable("FR"))))
			case "syntax-v2":
				st = append(st, d.Seq(d.OID("1.3.6.1.5.5.7.11.2"), d.Seq(d.OID("0.4.0.194121.1.2"))))
			case "unknown":
				st = append(st, d.Seq(d.OID("1.2.3.4.5"), d.UTF8("x")))
			case "noinfo":
				st = append(st, d.Seq(d.OID("0.4.0.1862.1.2")))
			}
		}
		return d.Ext("1.3.6.1.5.5.7.1.3", false, d.Seq(st...))
	case "tor":
		var ds []*d.Node
		for _, t := range item(0) {
			onion, alg, hash := d.UTF8("https://zmap.onion"), d.Seq(d.OID("2.16.840.1.101.3.4.2.1")), d.Bits(bytes.Repeat([]byte{0x5a}, 32), 0)
			switch t {
			case "sha1":
				alg, hash = d.Seq(d.OID("1.3.14.3.2.26"), d.Null()), d.Bits(bytes.Repeat([]byte{0x5a}, 20), 0)
			case "unknown-alg":
				alg = d.Seq(d.OID("1.2.3.4"))
			case "bits-unused":
				hash = d.Bits(bytes.Repeat([]byte{0x58}, 32), 3)
			case "hash-empty":
				hash = d.Bits(nil, 0)
			case "onion-empty":
				onion = d.UTF8("")
			}
			ds = append(ds, d.Seq(onion, alg, hash))
		}
		return d.Ext("2.23.140.1.31", false, d.Seq(ds...))
	case "cabforg":
		switch one() {
		case "state":
			return d.Ext("2.23.140.3.1", false, d.Seq(d.Printable("VAT"), d.Printable("DE"), d.CtxPrim(0, []byte("BY")), d.UTF8("12345")))
		case "empty":
			return d.Ext("2.23.140.3.1", false, d.Seq(d.Printable(""), d.Printable(""), d.UTF8("")))
		}
		return d.Ext("2.23.140.3.1", false, d.Seq(d.Printable("NTR"), d.Printable("US"), d.UTF8("ref")))
	case "sctlist":
		var all []byte
		for _, t := range item(0) {
			all = append(all, sctBytes(t)...)
		}
		return d.Ext("1.3.6.1.4.1.11129.2.4.2", false, d.Octets(append([]byte{byte(len(all) >> 8), byte(len(all))}, all...)))
	case "bc":
		switch one() {
		case "ca":
			return d.Ext("2.5.29.19", true, d.Seq(d.Bool(true)))
		case "ca-len0":
			return d.Ext("2.5.29.19", true, d.Seq(d.Bool(true), d.Int(0)))
		case "ca-len5":
			return d.Ext("2.5.29.19", true, d.Seq(d.Bool(true), d.Int(5)))
		case "len-neg":
			return d.Ext("2.5.29.19", true, d.Seq(d.Bool(true), d.Int(-3)))
		case "notca-len":
			return d.Ext("2.5.29.19", true, d.Seq(d.Int(2)))
		case "empty":
			return d.Ext("2.5.29.19", false, d.Seq())
		}
		return d.Ext("2.5.29.19", true, d.Seq())
	case "skid":
		n := map[string]int{"20": 20, "0": 0, "64": 64}[one()]
		return d.Ext("2.5.29.14", false, d.Octets(bytes.Repeat([]byte{0xab}, n)))
	case "akid":
		kid := d.CtxPrim(0, bytes.Repeat([]byte{0xcd}, 20))
		iss := d.Ctx(1, generalName("dir"))
		ser := d.CtxPrim(2, []byte{0x01, 0x02})
		switch one() {
		case "all":
			return d.Ext("2.5.29.35", false, d.Seq(kid, iss, ser))
		case "empty":
			return d.Ext("2.5.29.35", false, d.Seq())
		case "issuer-only":
			return d.Ext("2.5.29.35", false, d.Seq(iss))
		case "serial-only":
			return d.Ext("2.5.29.35", false, d.Seq(ser))
		}
		return d.Ext("2.5.29.35", false, d.Seq(kid))
	case "ku":
		switch one() {
		case "all9":
			return d.Ext("2.5.29.15", true, d.Bits([]byte{0xff, 0x80}, 7))
		case "none":
			return d.Ext("2.5.29.15", true, d.Bits(nil, 0))
		case "long":
			return d.Ext("2.5.29.15", true, d.Bits([]byte{0xff, 0xff, 0xff, 0xff}, 0))
		}
		return d.Ext("2.5.29.15", true, d.Bits([]byte{0x80}, 7))
	case "eku":
		var oids []*d.Node
		for _, t := range item(0) {
			oids = append(oids, d.OID(map[string]string{"server": "1.3.6.1.5.5.7.3.1", "client": "1.3.6.1.5.5.7.3.2", "any": "2.5.29.37.0",
				"unknown": "1.2.3.4.5.6", "apple": "1.2.840.113635.100.4.1", "ms": "1.3.6.1.4.1.311.10.3.3"}[t]))
		}
		return d.Ext("2.5.29.37", false, d.Seq(oids...))
	case "names":
		var gns []*d.Node
		for _, t := range item(1) {
			gns = append(gns, collisionName(t))
		}
		return d.Ext("2.5.29.17", false, d.Seq(gns...))
	case "subject":
		return nil
	}
	panic("inputs: unknown shape extension " + s.X)
}

// collisionName: general names that are distinct as bytes but equal under a plausible
// normalisation (InputsCert!NameVar).
func collisionName(tok string) *d.Node {
	switch tok {
	case "base", "dup":
		return d.CtxPrim(2, []byte("host.example.com"))
	case "upper":
		return d.CtxPrim(2, []byte("HOST.EXAMPLE.COM"))
	case "m1":
		return d.CtxPrim(2, []byte("Host.example.com"))
	case "m2":
		return d.CtxPrim(2, []byte("hOST.example.com"))
	case "m3":
		return d.CtxPrim(2, []byte("host.Example.com"))
	case "m4":
		return d.CtxPrim(2, []byte("host.example.COM"))
	case "dot":
		return d.CtxPrim(2, []byte("host.example.com."))
	case "uri-base":
		return d.CtxPrim(6, []byte("https://host.example.com/p"))
	case "uri-upper":
		return d.CtxPrim(6, []byte("HTTPS://HOST.EXAMPLE.COM/p"))
	case "email-base":
		return d.CtxPrim(1, []byte("user@host.example.com"))
	case "email-upper":
		return d.CtxPrim(1, []byte("USER@HOST.EXAMPLE.COM"))
	case "ip-text":
		return d.CtxPrim(2, []byte("192.0.2.1"))
	case "ip":
		return d.CtxPrim(7, []byte{192, 0, 2, 1})
	}
	panic("inputs: unknown name-collision token " + tok)
}

// shapeSubject returns the subject RDNSequence of a "subject" shape.
func shapeSubject(tok string) *d.Node {
	atv := func(oid string, v *d.Node) *d.Node { return d.Set(d.Seq(d.OID(oid), v)) }
	switch tok {
	case "base":
		return d.Seq(atv("2.5.4.3", d.UTF8("host.example.com")))
	case "upper":
		return d.Seq(atv("2.5.4.3", d.UTF8("HOST.EXAMPLE.COM")))
	case "dot":
		return d.Seq(atv("2.5.4.3", d.UTF8("host.example.com.")))
	case "":
		return d.Seq(atv("2.5.4.10", d.UTF8("no common name")))
	case "cn-only":
		return d.Seq(atv("2.5.4.3", d.UTF8("host.example.com")))
	case "empty":
		return d.Seq()
	case "multi-cn":
		return d.Seq(atv("2.5.4.3", d.UTF8("a.example.com")), atv("2.5.4.3", d.UTF8("a.example.com")), atv("2.5.4.3", d.Printable("b.example.com")))
	case "cn-ip":
		return d.Seq(atv("2.5.4.3", d.UTF8("192.0.2.1")))
	case "cn-wild":
		return d.Seq(atv("2.5.4.3", d.UTF8("*.example.com")))
	case "cn-nul":
		return d.Seq(atv("2.5.4.3", d.UTF8("a\x00.example.com")))
	case "all-attrs":
		var rdns []*d.Node
		for _, a := range []string{"2.5.4.6", "2.5.4.10", "2.5.4.11", "2.5.4.7", "2.5.4.8", "2.5.4.9", "2.5.4.17", "2.5.4.5", "2.5.4.3",
			"2.5.4.4", "2.5.4.42", "2.5.4.12", "2.5.4.46", "2.5.4.97", "1.2.840.113549.1.9.1", "0.9.2342.19200300.100.1.25",
			"1.3.6.1.4.1.311.60.2.1.1", "1.3.6.1.4.1.311.60.2.1.2", "1.3.6.1.4.1.311.60.2.1.3", "2.5.4.15", "0.9.2342.19200300.100.1.1"} {
			rdns = append(rdns, atv(a, d.UTF8("v")))
		}
		return d.Seq(rdns...)
	case "multi-valued-rdn":
		return d.Seq(d.Set(d.Seq(d.OID("2.5.4.3"), d.UTF8("x.example.com")), d.Seq(d.OID("2.5.4.10"), d.UTF8("Org")), d.Seq(d.OID("2.5.4.3"), d.UTF8("y.example.com"))))
	case "unknown-attr":
		return d.Seq(atv("1.2.3.4.5", d.UTF8("unknown")), atv("2.5.4.3", d.Int(5)))
	}
	panic("inputs: unknown subject shape " + tok)
}

// BuildShapeCert issues (standard library) a leaf certificate named by issuer "EdRoot", signed by
// its key K1, carrying the shaped extension; subject shapes replace the subject afterwards
// (the signature is then stale, which no parser checks for a non-self-issued certificate).
func BuildShapeCert(s Shape) []byte {
	c := pki.Cert{ID: "shape", Subj: "Shape", Key: "K4", Iss: "EdRoot", SKey: "K1", PathLen: -1, NB: 10, NA: 400000000,
		DNS: []string{"shape.example.com"}}
	ext := ShapeExtension(s)
	if ext != nil {
		if s.X == "san" || s.X == "names" {
			c.DNS = nil
		}
		t := pki.Template(c)
		e := extsToPki([]*d.Node{ext})[0]
		t.ExtraExtensions = append(t.ExtraExtensions, pkix.Extension{Id: asn1.ObjectIdentifier(e.OID), Critical: e.Critical, Value: e.Value})
		signer := pki.Key(c.SKey)
		parent := &stdx509.Certificate{Subject: pki.Name(c.Iss), RawSubject: pki.RawName(c.Iss), PublicKey: signer.Public()}
		der, err := stdx509.CreateCertificate(rand.Reader, t, parent, pki.Key(c.Key).Public(), signer)
		if err != nil {
			panic(fmt.Sprintf("inputs: shape %s: %v", s, err))
		}
		if s.X != "names" {
			return der
		}
		// name-collision shapes also set the subject (item 0: the CN variant, or none)
		return replaceSubject(der, s)
	}
	return replaceSubject(pki.MustBuild(c), s)
}

func replaceSubject(der []byte, s Shape) []byte {
	root := must(d.Parse(der))
	subj := d.Resolve(root, []string{"0", "v4"})
	tok := ""
	if len(s.V) > 0 && len(s.V[0]) > 0 {
		tok = s.V[0][0]
	}
	ns := shapeSubject(tok)
	ns.Parent = subj.Parent
	for i, k := range subj.Parent.Children {
		if k == subj {
			subj.Parent.Children[i] = ns
		}
	}
	return d.Serialise(root)
}
