package inputs

import (
	"fmt"
	"os"
	"regexp"
	"runtime"
	"runtime/metrics"
	"strings"
	"sync/atomic"
	"time"

	"github.com/zmap/zcrypto/encoding/asn1"
)

// Result is the observation of one call.
type Result struct {
	EP   string `json:"ep"`
	M    string `json:"m"`
	O    string `json:"o"`   // ok | err | panic | timeout | fatal
	Ms   int    `json:"ms"`  // wall time
	KiB  int    `json:"kib"` // heap allocated during the call
	Msg  string `json:"msg,omitempty"`
	Site string `json:"site,omitempty"` // innermost zcrypto frame of a panic
	At   string `json:"at,omitempty"`   // innermost non-runtime frame of a panic
}

var allocSample = []metrics.Sample{{Name: "/gc/heap/allocs:bytes"}}

func heapAllocs() uint64 {
	metrics.Read(allocSample)
	return allocSample[0].Value.Uint64()
}

// watchdog state: the call in progress (0 = none) and what to do when it overruns
var (
	callStart   atomic.Int64 // unix nanos of the running call, 0 if idle
	callLimit   = 5 * time.Second
	OnOverrun   func() // called by the watchdog when a call exceeds the limit (must not return)
	watchdogRun atomic.Bool
)

// StartWatchdog starts the goroutine that enforces the time limit of the model.  A call that
// overruns cannot be interrupted in Go; OnOverrun records the observation and ends the process.
func StartWatchdog(limit time.Duration) {
	callLimit = limit
	if watchdogRun.Swap(true) {
		return
	}
	go func() {
		for {
			time.Sleep(50 * time.Millisecond)
			st := callStart.Load()
			if st != 0 && time.Since(time.Unix(0, st)) > callLimit {
				if OnOverrun != nil {
					OnOverrun()
				}
				fmt.Fprintln(os.Stderr, "harness: call exceeded the time limit")
				os.Exit(4)
			}
		}
	}()
}

var numRe = regexp.MustCompile(`\b(0x[0-9a-fA-F]+|\d+)\b`)
var hexRe = regexp.MustCompile(`\b[0-9a-fA-F]{8,}\b`)

// NormaliseMsg turns a panic value into a message class (numbers, addresses, fingerprints and
// other long hexadecimal strings removed).
func NormaliseMsg(s string) string {
	s = hexRe.ReplaceAllString(s, "H")
	s = numRe.ReplaceAllString(s, "N")
	if len(s) > 160 {
		s = s[:160]
	}
	return s
}

func panicSite() (site, at string) {
	pcs := make([]uintptr, 64)
	n := runtime.Callers(3, pcs)
	frames := runtime.CallersFrames(pcs[:n])
	for {
		fr, more := frames.Next()
		fn := fr.Function
		if fn != "" && !strings.HasPrefix(fn, "runtime.") && !strings.HasPrefix(fn, "verifharness/") && !strings.HasPrefix(fn, "main.") {
			if at == "" {
				at = fn
			}
			if site == "" && strings.HasPrefix(fn, "github.com/zmap/zcrypto/") {
				site = strings.TrimPrefix(fn, "github.com/zmap/zcrypto/")
			}
		}
		if !more || (site != "" && at != "") {
			break
		}
	}
	return
}

// SetMode switches the global permissive-parsing flag of zcrypto.
func SetMode(mode string) { asn1.AllowPermissiveParsing = mode == "permissive" }

// Call runs f (an entry point applied to an input) under recover, the watchdog and the
// allocation measurement, with the parsing mode set around the call.
func Call(ep, mode string, f func() error) (r Result) {
	r.EP, r.M = ep, mode
	SetMode(mode)
	a0 := heapAllocs()
	t0 := time.Now()
	callStart.Store(t0.UnixNano())
	defer func() {
		callStart.Store(0)
		if p := recover(); p != nil {
			r.O = "panic"
			r.Msg = NormaliseMsg(fmt.Sprint(p))
			r.Site, r.At = panicSite()
		}
		r.Ms = int(time.Since(t0) / time.Millisecond)
		d := heapAllocs() - a0
		r.KiB = int((d + 1023) / 1024)
		SetMode("strict")
	}()
	if err := f(); err != nil {
		r.O = "err"
	} else {
		r.O = "ok"
	}
	return
}
