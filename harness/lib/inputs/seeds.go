package inputs

import (
	"bytes"
	"crypto"
	"crypto/ecdh"
	"crypto/ecdsa"
	"crypto/ed25519"
	"crypto/rand"
	"crypto/rsa"
	"crypto/sha1"
	"crypto/sha256"
	stdx509 "crypto/x509"
	"crypto/x509/pkix"
	"encoding/base64"
	"encoding/binary"
	"encoding/json"
	"encoding/pem"
	"fmt"
	"math/big"
	"os"
	"path/filepath"
	"sort"
	"strings"

	stdocsp "golang.org/x/crypto/ocsp"

	"github.com/zmap/zcrypto/tls"
	"github.com/zmap/zcrypto/x509"

	d "verifharness/lib/dertree"
	"verifharness/lib/pki"
)

// Seeds holds the real artifacts by kind.
type Seeds struct {
	ByKind map[string][]*Seed
}

func (s *Seeds) add(kind, name, class string, data []byte) *Seed {
	sd := &Seed{Name: name, Kind: kind, Class: class, Data: data}
	s.ByKind[kind] = append(s.ByKind[kind], sd)
	return sd
}

func must[T any](v T, err error) T {
	if err != nil {
		panic(err)
	}
	return v
}

// KitchenSinkExtensions returns one extension of every kind zcrypto interprets, each with
// ordinary content (the unusual shapes are C02's business).
func KitchenSinkExtensions() []*d.Node {
	gn := func() *d.Node {
		return d.Seq(
			d.Ctx(0, d.OID("1.3.6.1.4.1.311.20.2.3"), d.Explicit(0, d.UTF8("upn@example.com"))),
			d.CtxPrim(1, []byte("mail@example.com")),
			d.CtxPrim(2, []byte("alt.example.com")),
			d.Ctx(4, d.Seq(d.Set(d.Seq(d.OID("2.5.4.3"), d.UTF8("dirname"))))),
			d.Ctx(5, d.Explicit(0, d.UTF8("assigner")), d.Explicit(1, d.UTF8("party"))),
			d.CtxPrim(6, []byte("https://uri.example.com/x")),
			d.CtxPrim(7, []byte{192, 0, 2, 1}),
			d.CtxPrim(8, []byte{0x2a, 0x03, 0x04}),
		)
	}
	sct := func() []byte {
		var b bytes.Buffer
		b.WriteByte(0)
		b.Write(bytes.Repeat([]byte{0x11}, 32))
		binary.Write(&b, binary.BigEndian, uint64(1600000000000))
		b.Write([]byte{0, 0})
		b.Write([]byte{4, 3, 0, 8})
		b.Write(bytes.Repeat([]byte{0x22}, 8))
		one := b.Bytes()
		var l bytes.Buffer
		binary.Write(&l, binary.BigEndian, uint16(len(one)+2))
		binary.Write(&l, binary.BigEndian, uint16(len(one)))
		l.Write(one)
		return l.Bytes()
	}
	subtree := func(base *d.Node) *d.Node { return d.Seq(base) }
	return []*d.Node{
		d.Ext("2.5.29.19", true, d.Seq(d.Bool(true), d.Int(3))),
		d.Ext("2.5.29.15", true, d.Bits([]byte{0x06}, 1)),
		d.Ext("2.5.29.37", true, d.Seq(d.OID("1.3.6.1.5.5.7.3.1"), d.OID("1.3.6.1.5.5.7.3.2"), d.OID("1.2.3.4.5"))),
		d.Ext("2.5.29.17", true, gn()),
		d.Ext("2.5.29.18", true, gn()),
		d.Ext("2.5.29.14", true, d.Octets(bytes.Repeat([]byte{0xab}, 20))),
		d.Ext("2.5.29.35", true, d.Seq(d.CtxPrim(0, bytes.Repeat([]byte{0xcd}, 20)))),
		d.Ext("1.3.6.1.5.5.7.1.1", true, d.Seq(
			d.Seq(d.OID("1.3.6.1.5.5.7.48.1"), d.CtxPrim(6, []byte("http://ocsp.example.com"))),
			d.Seq(d.OID("1.3.6.1.5.5.7.48.2"), d.CtxPrim(6, []byte("http://ca.example.com/ca.crt"))))),
		d.Ext("2.5.29.31", true, d.Seq(
			d.Seq(d.Ctx(0, d.Ctx(0, d.CtxPrim(6, []byte("http://crl.example.com/a.crl")), d.CtxPrim(6, []byte("ldap://crl.example.com/b"))))),
			d.Seq(d.Ctx(0, d.Ctx(0, d.CtxPrim(6, []byte("http://crl2.example.com/c.crl")))), d.CtxPrim(1, []byte{1, 0x80})))),
		d.Ext("2.5.29.32", true, d.Seq(
			d.Seq(d.OID("2.23.140.1.2.2"),
				d.Seq(d.Seq(d.OID("1.3.6.1.5.5.7.2.1"), d.IA5("https://cps.example.com")),
					d.Seq(d.OID("1.3.6.1.5.5.7.2.2"), d.Seq(d.Seq(d.UTF8("Org"), d.Seq(d.Int(1), d.Int(2))), d.UTF8("explicit text"))))),
			d.Seq(d.OID("1.2.3.4")))),
		d.Ext("2.5.29.30", true, d.Seq(
			d.Ctx(0, subtree(d.CtxPrim(2, []byte(".example.com"))), subtree(d.CtxPrim(1, []byte("example.com"))),
				subtree(d.CtxPrim(7, []byte{10, 0, 0, 0, 255, 0, 0, 0})),
				subtree(d.Ctx(4, d.Seq(d.Set(d.Seq(d.OID("2.5.4.10"), d.UTF8("Org")))))),
				subtree(d.CtxPrim(6, []byte("example.org"))), subtree(d.CtxPrim(8, []byte{0x2a, 0x03}))),
			d.Ctx(1, subtree(d.CtxPrim(2, []byte("bad.example.com"))),
				subtree(d.CtxPrim(7, append(bytes.Repeat([]byte{0x20}, 16), bytes.Repeat([]byte{0xff}, 16)...)))))),
		d.Ext("1.3.6.1.4.1.11129.2.4.2", true, d.Octets(sct())),
		d.Ext("1.3.6.1.5.5.7.1.3", true, d.Seq(
			d.Seq(d.OID("0.4.0.1862.1.1")),
			d.Seq(d.OID("0.4.0.1862.1.2"), d.Seq(d.Printable("EUR"), d.Int(100), d.Int(2))),
			d.Seq(d.OID("0.4.0.1862.1.3"), d.Int(10)),
			d.Seq(d.OID("0.4.0.1862.1.4")),
			d.Seq(d.OID("0.4.0.1862.1.5"), d.Seq(d.Seq(d.IA5("https://pds.example.com"), d.Printable("en")))),
			d.Seq(d.OID("0.4.0.1862.1.6"), d.Seq(d.OID("0.4.0.1862.1.6.3"))),
			d.Seq(d.OID("1.3.6.1.5.5.7.11.2"), d.Seq(d.OID("0.4.0.194121.1.2"))))),
		d.Ext("2.23.140.1.31", true, d.Seq(
			d.Seq(d.UTF8("https://zmap.onion"), d.Seq(d.OID("2.16.840.1.101.3.4.2.1")), d.Bits(bytes.Repeat([]byte{0x5a}, 32), 0)))),
		d.Ext("2.23.140.3.1", true, d.Seq(d.Printable("VAT"), d.Printable("DE"), d.CtxPrim(0, []byte("BY")), d.UTF8("12345"))),
		d.Ext("1.3.6.1.4.1.99999.1", true, d.Seq(d.Int(1), d.UTF8("unknown extension"))),
		d.Ext("1.3.6.1.4.1.11129.2.4.3", true, d.Null()),
	}
}

func extsToPki(exts []*d.Node) []pki.Ext {
	var res []pki.Ext
	for _, e := range exts {
		raw := d.Encode(e.Clone())
		t, err := d.Parse(raw)
		if err != nil {
			panic(err)
		}
		var oid []int
		for _, p := range strings.Split(oidOf(t.Children[0]), ".") {
			var v int
			fmt.Sscanf(p, "%d", &v)
			oid = append(oid, v)
		}
		crit := len(t.Children) == 3
		res = append(res, pki.Ext{OID: oid, Critical: crit, Value: t.Children[len(t.Children)-1].Content})
	}
	return res
}

func oidOf(n *d.Node) string {
	// decode through a temporary extension lookup: Resolve understands OIDs only by comparison,
	// so decode here
	var arcs []string
	var v uint64
	first := true
	for _, b := range n.Content {
		v = v<<7 | uint64(b&0x7f)
		if b&0x80 == 0 {
			if first {
				switch {
				case v < 40:
					arcs = append(arcs, "0", fmt.Sprint(v))
				case v < 80:
					arcs = append(arcs, "1", fmt.Sprint(v-40))
				default:
					arcs = append(arcs, "2", fmt.Sprint(v-80))
				}
				first = false
			} else {
				arcs = append(arcs, fmt.Sprint(v))
			}
			v = 0
		}
	}
	return strings.Join(arcs, ".")
}

// BuildSeeds creates the generated seeds (standard library only) and loads the repository's
// test vectors.  namespace varies the key material with VERIF_SEED.
func BuildSeeds(repo string, namespace string) *Seeds {
	pki.Namespace = namespace
	s := &Seeds{ByKind: map[string][]*Seed{}}
	const far = 400000000
	ca := func(id, name, key string) pki.Cert {
		return pki.Cert{ID: id, Subj: name, Key: key, Iss: name, SKey: key, CA: true, BC: true, PathLen: -1, NB: 0, NA: far,
			SKID: key, KU: int(stdx509.KeyUsageCertSign | stdx509.KeyUsageCRLSign)}
	}
	leaf := func(id, name, key, iss, skey string) pki.Cert {
		return pki.Cert{ID: id, Subj: name, Key: key, Iss: iss, SKey: skey, BC: true, PathLen: -1, NB: 10, NA: far,
			EKU: []string{"server", "client"}, DNS: []string{name + ".example.com", "*.wild.example.com"}, IPs: []string{"192.0.2.7", "2001:db8::1"},
			SKID: key, AKID: skey, KU: int(stdx509.KeyUsageDigitalSignature)}
	}
	certs := map[string][]byte{}
	addCert := func(name string, c pki.Cert) {
		der := pki.MustBuild(c)
		certs[name] = der
		s.add("cert", name, "gen", der)
	}
	addCert("ed-root", ca("edroot", "EdRoot", "K1"))
	addCert("ed-leaf", leaf("edleaf", "EdLeaf", "K2", "EdRoot", "K1"))
	addCert("p256-root", ca("p256root", "P256Root", "P1"))
	addCert("p256-leaf", leaf("p256leaf", "P256Leaf", "P2", "P256Root", "P1"))
	addCert("p384-root", ca("p384root", "P384Root", "Q1"))
	addCert("rsa-root", ca("rsaroot", "RsaRoot", "R1"))
	addCert("rsa-leaf", leaf("rsaleaf", "RsaLeaf", "R2", "RsaRoot", "R1"))
	kitchen := leaf("kitchen", "Kitchen", "K3", "EdRoot", "K1")
	kitchen.EKU, kitchen.DNS, kitchen.IPs, kitchen.SKID, kitchen.AKID, kitchen.KU, kitchen.BC = nil, nil, nil, "", "", 0, false
	kitchen.Extra = extsToPki(KitchenSinkExtensions())
	addCert("kitchen", kitchen)
	// RSA-PSS self-signed root, straight from the standard library
	{
		k := pki.Key("R1").(*rsa.PrivateKey)
		t := pki.Template(ca("pssroot", "PssRoot", "R1"))
		t.SignatureAlgorithm = stdx509.SHA256WithRSAPSS
		der := must(stdx509.CreateCertificate(rand.Reader, t, t, k.Public(), k))
		certs["rsapss-root"] = der
		s.add("cert", "rsapss-root", "gen", der)
	}
	// derived seeds (not produced by the standard library: class "file", no prediction):
	// unique identifiers present; a self-issued Ed25519 certificate with a 31-byte key
	{
		root := must(d.Parse(certs["kitchen"]))
		tbs := root.Children[0]
		var kids []*d.Node
		for _, k := range tbs.Children {
			if k.Class == 2 && k.Tag == 3 {
				u1 := d.CtxPrim(1, []byte{0, 1, 2, 3})
				u2 := d.CtxPrim(2, []byte{0, 4, 5, 6})
				u1.Parent, u2.Parent = tbs, tbs
				kids = append(kids, u1, u2)
			}
			kids = append(kids, k)
		}
		tbs.Children = kids
		s.add("cert", "kitchen-uid", "file", d.Serialise(root))
	}
	{
		root := must(d.Parse(certs["ed-root"]))
		art := &d.DerArtifact{Root: root}
		spki := d.Resolve(root, []string{"0", "v5"})
		if err := art.ApplyDer(spki, "KeyShape", "ed25519:len31", nil); err != nil {
			panic(err)
		}
		ShortKeySelfIssued, _ = art.Bytes(nil)
	}
	{
		// derived: the self-signed RSA root with an all-zero signature (the integer 0 reaches the
		// RSA public operation whatever the key looks like)
		root := must(d.Parse(certs["rsa-root"]))
		sig := root.Children[2]
		sig.Content = make([]byte, len(sig.Content))
		s.add("cert", "rsa-root-zerosig", "file", d.Serialise(root))
	}
	for _, name := range []string{"ed-root", "ed-leaf", "p256-leaf", "rsa-leaf", "kitchen", "kitchen-uid"} {
		var der []byte
		if name == "kitchen-uid" {
			for _, sd := range s.ByKind["cert"] {
				if sd.Name == "kitchen-uid" {
					der = sd.Data
				}
			}
		} else {
			der = certs[name]
		}
		root := must(d.Parse(der))
		class := "gen"
		if name == "kitchen-uid" {
			class = "file"
		}
		s.add("tbs", "tbs-"+name, class, d.Serialise(root.Children[0].Clone()))
		if name != "kitchen-uid" {
			sub := d.Resolve(root, []string{"0", "v4"})
			s.add("name", "name-"+name, "gen", d.Serialise(sub.Clone()))
		}
	}

	// CSRs
	for _, kid := range []string{"K2", "P2", "R2"} {
		t := &stdx509.CertificateRequest{Subject: pki.Name("Csr" + kid), DNSNames: []string{"csr.example.com"},
			ExtraExtensions: []pkix.Extension{{Id: []int{2, 5, 29, 19}, Critical: true, Value: []byte{0x30, 0x00}}}}
		s.add("csr", "csr-"+kid, "gen", must(stdx509.CreateCertificateRequest(rand.Reader, t, pki.Key(kid))))
	}
	// CRLs
	for _, c := range []struct{ name, key string }{{"EdRoot", "K1"}, {"P256Root", "P1"}, {"RsaRoot", "R1"}} {
		issuer := must(stdx509.ParseCertificate(certs[map[string]string{"K1": "ed-root", "P1": "p256-root", "R1": "rsa-root"}[c.key]]))
		t := &stdx509.RevocationList{Number: big.NewInt(5), ThisUpdate: pki.At(100), NextUpdate: pki.At(100000),
			RevokedCertificateEntries: []stdx509.RevocationListEntry{
				{SerialNumber: big.NewInt(77), RevocationTime: pki.At(50), ReasonCode: 1},
				{SerialNumber: new(big.Int).Lsh(big.NewInt(1), 100), RevocationTime: pki.At(60)}}}
		s.add("crl", "crl-"+c.key, "gen", must(stdx509.CreateRevocationList(rand.Reader, t, issuer, pki.Key(c.key))))
	}
	// public keys
	for _, kid := range []string{"K1", "P1", "Q1", "R1"} {
		s.add("spki", "spki-"+kid, "gen", must(stdx509.MarshalPKIXPublicKey(pki.Key(kid).Public())))
	}
	{
		h := sha256.Sum256([]byte(namespace + "/x25519"))
		xk := must(ecdh.X25519().NewPrivateKey(h[:]))
		s.add("spki", "spki-x25519", "gen", must(stdx509.MarshalPKIXPublicKey(xk.PublicKey())))
		dsa := must(d.KeyShape("dsa:ok"))
		s.add("spki", "spki-dsa", "file", d.Encode(d.Seq(dsa...)))
	}
	rk := pki.Key("R1").(*rsa.PrivateKey)
	s.add("pkcs1pub", "pkcs1pub-R1", "gen", stdx509.MarshalPKCS1PublicKey(&rk.PublicKey))
	s.add("pkcs1priv", "pkcs1priv-R1", "gen", stdx509.MarshalPKCS1PrivateKey(rk))
	for _, kid := range []string{"K1", "P1", "R1"} {
		s.add("pkcs8", "pkcs8-"+kid, "gen", must(stdx509.MarshalPKCS8PrivateKey(pki.Key(kid))))
	}
	for _, kid := range []string{"P1", "Q1"} {
		s.add("ecpriv", "ecpriv-"+kid, "gen", must(stdx509.MarshalECPrivateKey(pki.Key(kid).(*ecdsa.PrivateKey))))
	}

	// OCSP (golang.org/x/crypto/ocsp as the independent encoder)
	{
		for _, c := range []struct{ root, leaf, key string }{{"rsa-root", "rsa-leaf", "R1"}, {"p256-root", "p256-leaf", "P1"}} {
			issuer := must(stdx509.ParseCertificate(certs[c.root]))
			lf := must(stdx509.ParseCertificate(certs[c.leaf]))
			s.add("ocspreq", "ocspreq-"+c.key, "gen", must(stdocsp.CreateRequest(lf, issuer, &stdocsp.RequestOptions{Hash: crypto.SHA1})))
			tmpl := stdocsp.Response{Status: stdocsp.Good, SerialNumber: lf.SerialNumber, ThisUpdate: pki.At(100), NextUpdate: pki.At(100000)}
			s.add("ocspresp", "ocspresp-"+c.key, "gen", must(stdocsp.CreateResponse(issuer, issuer, tmpl, pki.Key(c.key))))
			tmpl.Status, tmpl.RevokedAt, tmpl.RevocationReason = stdocsp.Revoked, pki.At(90), 1
			tmpl.Certificate = issuer
			s.add("ocspresp", "ocspresp-cert-"+c.key, "gen", must(stdocsp.CreateResponse(issuer, issuer, tmpl, pki.Key(c.key))))
		}
		{
			// derived (class "file"): responder identified by key hash ([2]) instead of by name
			root := must(d.Parse(s.ByKind["ocspresp"][0].Data))
			tbs := d.Resolve(root, []string{"1", "0", "1", "w", "0"})
			outer := d.Resolve(root, []string{"1", "0", "1"})
			for i, k := range tbs.Children {
				if k.Class == 2 && k.Tag == 1 {
					byKey := d.Ctx(2, d.Octets(bytes.Repeat([]byte{0x3c}, 20)))
					byKey.Parent = tbs
					tbs.Children[i] = byKey
				}
			}
			_ = outer
			s.add("ocspresp", "ocspresp-bykey", "file", d.Serialise(root))
		}
		Aux.Issuer = must(x509.ParseCertificate(certs["rsa-root"]))
		Aux.Leaf = must(x509.ParseCertificate(certs["rsa-leaf"]))
	}

	// a free-standing value with one element of every universal type
	s.add("value", "value-all", "gen", d.Encode(d.Seq(
		d.Int(-129), d.Bool(true), d.OID("1.2.840.113549.1.1.11"), d.Bits([]byte{0xa0}, 5), d.Octets([]byte{1, 2, 3}),
		d.UTF8("héllo"), d.UTCTime("250101000000Z"), d.Seq(d.Int(1), d.Printable("x")), d.Set(d.Int(1), d.Int(2)),
		d.Explicit(0, d.Int(5)), d.CtxPrim(1, []byte{9, 9}), d.GenTime("20250101000000Z"))))

	// CT structures
	be := func(v uint64, w int) []byte {
		b := make([]byte, w)
		for i := 0; i < w; i++ {
			b[w-1-i] = byte(v >> (8 * uint(i)))
		}
		return b
	}
	vec := func(w int, body []byte) []byte { return append(be(uint64(len(body)), w), body...) }
	cat := func(parts ...[]byte) []byte { return bytes.Join(parts, nil) }
	sig := bytes.Repeat([]byte{0x5c}, 71)
	ds := cat([]byte{4, 3}, vec(2, sig))
	s.add("ds", "ds-1", "gen", ds)
	s.add("sct", "sct-1", "gen", cat([]byte{0}, bytes.Repeat([]byte{0x77}, 32), be(1600000000000, 8), vec(2, []byte{1, 2, 3}), ds))
	s.add("sct", "sct-noext", "gen", cat([]byte{0}, bytes.Repeat([]byte{0x78}, 32), be(1, 8), vec(2, nil), ds))
	s.add("mtlx509", "mtl-x509", "gen", cat([]byte{0, 0}, be(1600000000000, 8), be(0, 2), vec(3, certs["ed-leaf"]), vec(2, []byte{0, 1, 9})))
	tbsLeaf := s.ByKind["tbs"][1].Data
	s.add("mtlprecert", "mtl-precert", "gen", cat([]byte{0, 0}, be(1600000000001, 8), be(1, 2), bytes.Repeat([]byte{0x42}, 32), vec(3, tbsLeaf), vec(2, []byte{7})))
	chain := cat(vec(3, certs["ed-leaf"]), vec(3, certs["ed-root"]))
	s.add("chain", "chain-2", "gen", vec(3, chain))
	s.add("prechain", "prechain-2", "gen", cat(vec(3, certs["p256-leaf"]), vec(3, chain)))

	// Chrome CRLSet
	le := func(v uint64, w int) []byte {
		b := make([]byte, w)
		for i := 0; i < w; i++ {
			b[i] = byte(v >> (8 * uint(i)))
		}
		return b
	}
	{
		hdr := must(json.Marshal(map[string]any{"Version": 0, "ContentType": "CRLSet", "Sequence": 6375, "DeltaFrom": 0, "NumParents": 2,
			"BlockedSPKIs": []string{base64.StdEncoding.EncodeToString(bytes.Repeat([]byte{1}, 32))}}))
		entry := func(seed byte, serials ...[]byte) []byte {
			b := cat(bytes.Repeat([]byte{seed}, 32), le(uint64(len(serials)), 4))
			for _, sn := range serials {
				b = cat(b, vec(1, sn))
			}
			return b
		}
		s.add("crlset", "crlset-2", "gen", cat(le(uint64(len(hdr)), 2), hdr,
			entry(0xa1, []byte{1, 2, 3}, []byte{0x7f}, bytes.Repeat([]byte{9}, 20)), entry(0xb2, []byte{5})))
	}
	// Microsoft SST
	{
		lvec := func(body []byte) []byte { return append(le(uint64(len(body)), 4), body...) }
		elem := func(id uint32, body []byte) []byte { return cat(le(uint64(id), 4), le(1, 4), lvec(body)) }
		end := cat(le(0, 4), le(0, 8))
		sha := sha1.Sum(certs["rsa-leaf"])
		s.add("sst", "sst-certfirst", "gen", cat(le(0, 4), []byte("CERT"), elem(32, certs["rsa-leaf"]), elem(3, sha[:]), elem(32, certs["ed-leaf"]), end))
		s.add("sst", "sst-propfirst", "gen", cat(le(0, 4), []byte("CERT"), elem(3, sha[:]), elem(32, certs["p256-leaf"]), end))
	}
	// Mozilla OneCRL
	{
		b64 := base64.StdEncoding.EncodeToString
		name := func(c string) string { return b64(pki.RawName(c)) }
		doc := map[string]any{"data": []any{
			map[string]any{"id": "e1", "schema": 1552492993020, "last_modified": 1552492994435, "enabled": true,
				"issuerName": name("EdRoot"), "serialNumber": b64([]byte{1, 2, 3, 4}),
				"details": map[string]any{"who": "w", "created": "\"2019-03-13T16:03:13Z\"", "bug": "https://bug", "name": "n", "why": "y"}},
			map[string]any{"id": "e2", "schema": 1552492993021, "last_modified": 1552492994436, "enabled": false,
				"issuerName": name("EdRoot"), "serialNumber": b64([]byte{9}),
				"details": map[string]any{"who": "", "created": "", "bug": "", "name": "", "why": ""}},
			map[string]any{"id": "e3", "schema": 1, "last_modified": 2, "enabled": true,
				"subject": name("RsaLeaf"), "pubKeyHash": b64(bytes.Repeat([]byte{7}, 32)),
				"details": map[string]any{"who": "", "created": "", "bug": "", "name": "", "why": ""}},
		}}
		s.add("onecrl", "onecrl-3", "gen", must(json.Marshal(doc)))
	}

	s.tlsSeeds(certs)
	s.fileSeeds(repo)
	for k := range s.ByKind {
		sort.SliceStable(s.ByKind[k], func(i, j int) bool { return s.ByKind[k][i].Class == "gen" && s.ByKind[k][j].Class != "gen" })
	}
	return s
}

func (s *Seeds) tlsSeeds(certs map[string][]byte) {
	mk := func(kind, typ string, fields map[string]any) {
		m := tls.VerifNewMessage(typ)
		if m == nil {
			panic("inputs: no TLS message type " + typ)
		}
		names := make([]string, 0, len(fields))
		for f := range fields {
			names = append(names, f)
		}
		sort.Strings(names)
		for _, f := range names {
			if err := m.Set(f, fields[f]); err != nil {
				panic(fmt.Sprintf("inputs: %s.%s: %v", typ, f, err))
			}
		}
		s.add(kind, kind+"-1", "gen", append([]byte{}, m.Marshal()...))
	}
	rnd := bytes.Repeat([]byte{0x3d}, 32)
	sid := bytes.Repeat([]byte{0x1e}, 32)
	ks := []map[string]any{{"group": uint64(29), "data": bytes.Repeat([]byte{0x44}, 32)}}
	mk("tlsClientHello", "clientHelloMsg", map[string]any{
		"vers": uint64(0x0303), "random": rnd, "sessionId": sid, "cipherSuites": []uint64{0x1301, 0xc02f, 0x009c},
		"compressionMethods": []byte{0}, "serverName": "host.example.com", "ocspStapling": true,
		"supportedCurves": []uint64{29, 23}, "supportedPoints": []byte{0}, "ticketSupported": true, "sessionTicket": []byte{1, 2, 3, 4},
		"supportedSignatureAlgorithms": []uint64{0x0403, 0x0804}, "supportedSignatureAlgorithmsCert": []uint64{0x0403},
		"secureRenegotiationSupported": true, "secureRenegotiation": []byte{}, "extendedMasterSecret": true,
		"alpnProtocols": []string{"h2", "http/1.1"}, "scts": true, "supportedVersions": []uint64{0x0304, 0x0303},
		"cookie": []byte{9, 9, 9}, "keyShares": ks, "pskModes": []byte{1},
	})
	mk("tlsServerHello", "serverHelloMsg", map[string]any{
		"vers": uint64(0x0303), "random": rnd, "sessionId": sid, "cipherSuite": uint64(0x1301), "compressionMethod": uint64(0),
		"supportedVersion": uint64(0x0304), "serverShare": ks[0], "selectedIdentityPresent": true, "selectedIdentity": uint64(0),
	})
	mk("tlsEncryptedExtensions", "encryptedExtensionsMsg", map[string]any{"alpnProtocol": "h2"})
	mk("tlsEndOfEarlyData", "endOfEarlyDataMsg", nil)
	mk("tlsKeyUpdate", "keyUpdateMsg", map[string]any{"updateRequested": true})
	mk("tlsNewSessionTicket13", "newSessionTicketMsgTLS13", map[string]any{
		"lifetime": uint64(7200), "ageAdd": uint64(0x01020304), "nonce": []byte{1}, "label": bytes.Repeat([]byte{0x6b}, 48), "maxEarlyData": uint64(16384)})
	mk("tlsCertificateRequest13", "certificateRequestMsgTLS13", map[string]any{
		"ocspStapling": true, "scts": true, "supportedSignatureAlgorithms": []uint64{0x0403, 0x0804},
		"supportedSignatureAlgorithmsCert": []uint64{0x0403}, "certificateAuthorities": [][]byte{pki.RawName("EdRoot"), pki.RawName("RsaRoot")}})
	mk("tlsCertificate", "certificateMsg", map[string]any{"certificates": [][]byte{certs["ed-leaf"], certs["ed-root"]}})
	mk("tlsCertificate13", "certificateMsgTLS13", map[string]any{
		"certificate": map[string]any{"certs": [][]byte{certs["ed-leaf"], certs["ed-root"]}, "ocsp": []byte{0x30, 0x03, 0x0a, 0x01, 0x00},
			"scts": [][]byte{bytes.Repeat([]byte{0x51}, 40)}, "hasOCSP": true, "hasSCTs": true},
		"ocspStapling": true, "scts": true})
	ske := append([]byte{3, 0, 29, 32}, bytes.Repeat([]byte{0x66}, 32)...)
	ske = append(ske, 4, 3, 0, 8)
	ske = append(ske, bytes.Repeat([]byte{0x67}, 8)...)
	mk("tlsServerKeyExchange", "serverKeyExchangeMsg", map[string]any{"key": ske})
	ocspResp := s.ByKind["ocspresp"][0].Data
	mk("tlsCertificateStatus", "certificateStatusMsg", map[string]any{"response": ocspResp})
	mk("tlsServerHelloDone", "serverHelloDoneMsg", nil)
	mk("tlsClientKeyExchange", "clientKeyExchangeMsg", map[string]any{"ciphertext": append([]byte{32}, bytes.Repeat([]byte{0x68}, 32)...)})
	mk("tlsFinished", "finishedMsg", map[string]any{"verifyData": bytes.Repeat([]byte{0x69}, 12)})
	mk("tlsCertificateRequest", "certificateRequestMsg", map[string]any{
		"hasSignatureAlgorithm": true, "certificateTypes": []byte{1, 64}, "supportedSignatureAlgorithms": []uint64{0x0403, 0x0401},
		"certificateAuthorities": [][]byte{pki.RawName("EdRoot"), pki.RawName("RsaRoot")}})
	mk("tlsCertificateVerify", "certificateVerifyMsg", map[string]any{
		"hasSignatureAlgorithm": true, "signatureAlgorithm": uint64(0x0403), "signature": bytes.Repeat([]byte{0x6a}, 70)})
	mk("tlsNewSessionTicket", "newSessionTicketMsg", map[string]any{"ticket": bytes.Repeat([]byte{0x6c}, 64), "lifetimeHint": uint64(300)})
	mk("tlsHelloRequest", "helloRequestMsg", nil)
	mk("tlsSessionState", "sessionState", map[string]any{
		"vers": uint64(0x0303), "cipherSuite": uint64(0xc02f), "createdAt": uint64(1600000000), "masterSecret": bytes.Repeat([]byte{0x6d}, 48),
		"certificates": [][]byte{certs["ed-leaf"], certs["ed-root"]}})
	mk("tlsSessionState13", "sessionStateTLS13", map[string]any{
		"cipherSuite": uint64(0x1301), "createdAt": uint64(1600000000), "resumptionSecret": bytes.Repeat([]byte{0x6e}, 32),
		"certificate": map[string]any{"certs": [][]byte{certs["ed-leaf"]}, "ocsp": []byte{1, 2, 3}, "scts": [][]byte{{4, 5, 6}}, "hasOCSP": true, "hasSCTs": true}})
}

// fileSeeds loads the repository's own test vectors (class "file": no prediction is made for
// them; several are deliberately malformed).
func (s *Seeds) fileSeeds(repo string) {
	pemCerts := func(path string) {
		b, err := os.ReadFile(path)
		if err != nil {
			return
		}
		i := 0
		for {
			var blk *pem.Block
			blk, b = pem.Decode(b)
			if blk == nil {
				// Go source files embed PEM inside string literals: skip to the next marker
				j := bytes.Index(b, []byte("-----BEGIN "))
				if j <= 0 {
					break
				}
				b = b[j:]
				if blk2, rest := pem.Decode(b); blk2 == nil {
					b = b[11:]
					_ = rest
				}
				continue
			}
			kind := map[string]string{"CERTIFICATE": "cert", "CERTIFICATE REQUEST": "csr", "X509 CRL": "crl", "PUBLIC KEY": "spki",
				"RSA PRIVATE KEY": "pkcs1priv", "PRIVATE KEY": "pkcs8", "EC PRIVATE KEY": "ecpriv"}[blk.Type]
			if kind == "" || len(blk.Headers) > 0 {
				continue
			}
			if _, err := d.Parse(blk.Bytes); err != nil {
				continue // not a single definite-length TLV: only usable by the sweep
			}
			sd := s.add(kind, fmt.Sprintf("%s#%d", filepath.Base(path), i), "file", blk.Bytes)
			sd.NoMutate = len(blk.Bytes) > 8192
			i++
		}
	}
	for _, pat := range []string{"x509/testdata/*.pem", "x509/testdata/*.cert", "data/test/certificates/*.go", "x509/*_test.go", "tls/testdata/*.pem"} {
		files, _ := filepath.Glob(filepath.Join(repo, pat))
		sort.Strings(files)
		for _, f := range files {
			pemCerts(f)
		}
	}
	raw := func(kind, rel string) {
		b, err := os.ReadFile(filepath.Join(repo, rel))
		if err != nil {
			return
		}
		sd := s.add(kind, filepath.Base(rel), "file", b)
		sd.NoMutate = true
	}
	raw("crl", "x509/revocation/crl/test_crl")
	raw("crlset", "x509/revocation/google/testdata/test_crlset")
	raw("crlset", "x509/revocation/google/testdata/crl-set-6375")
	raw("sst", "x509/revocation/microsoft/test_disallowedcert.sst")
	raw("onecrl", "x509/revocation/mozilla/testdata/test_onecrl.json")
}

var _ = ed25519.PublicKeySize
