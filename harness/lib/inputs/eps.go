package inputs

import (
	"bytes"
	"errors"
	"fmt"
	"math/big"
	"sort"
	"strings"
	"time"

	"github.com/zmap/zcrypto/cryptobyte"
	cbasn1 "github.com/zmap/zcrypto/cryptobyte/asn1"
	"github.com/zmap/zcrypto/ct"
	ctasn1 "github.com/zmap/zcrypto/ct/asn1"
	ctx509 "github.com/zmap/zcrypto/ct/x509"
	"github.com/zmap/zcrypto/encoding/asn1"
	"github.com/zmap/zcrypto/tls"
	"github.com/zmap/zcrypto/x509"
	x509ct "github.com/zmap/zcrypto/x509/ct"
	"github.com/zmap/zcrypto/x509/pkix"
	"github.com/zmap/zcrypto/x509/revocation/google"
	"github.com/zmap/zcrypto/x509/revocation/microsoft"
	"github.com/zmap/zcrypto/x509/revocation/mozilla"
	"github.com/zmap/zcrypto/x509/revocation/ocsp"
)

var errFalse = errors.New("returned false")

// Aux: certificates some entry points take besides the bytes (OCSP issuer / subject).
var Aux struct {
	Issuer *x509.Certificate
	Leaf   *x509.Certificate
}

func e1[T any](_ T, err error) error { return err }

// menu targets of the generic ASN.1 decoders
type menuStruct struct {
	A int
	B string        `asn1:"optional,utf8"`
	C []byte        `asn1:"optional,tag:0"`
	D asn1.RawValue `asn1:"optional"`
}
type menuExplicit struct {
	V   int `asn1:"optional,explicit,default:0,tag:0"`
	S   *big.Int
	Alg pkix.AlgorithmIdentifier
	T   time.Time       `asn1:"optional"`
	E   asn1.Enumerated `asn1:"optional"`
	F   asn1.Flag       `asn1:"optional,tag:1"`
	Set []int           `asn1:"optional,set"`
	R   asn1.RawContent
}
type ctMenuStruct struct {
	A int
	B string          `asn1:"optional,utf8"`
	C []byte          `asn1:"optional,tag:0"`
	D ctasn1.RawValue `asn1:"optional"`
}

func asn1Menu(data []byte) error {
	okAny := false
	try := func(err error) {
		if err == nil {
			okAny = true
		}
	}
	var rv asn1.RawValue
	try(e1(asn1.Unmarshal(data, &rv)))
	var rvs []asn1.RawValue
	try(e1(asn1.Unmarshal(data, &rvs)))
	var ms menuStruct
	try(e1(asn1.Unmarshal(data, &ms)))
	var me menuExplicit
	try(e1(asn1.Unmarshal(data, &me)))
	var bi *big.Int
	try(e1(asn1.Unmarshal(data, &bi)))
	var i64 int64
	try(e1(asn1.Unmarshal(data, &i64)))
	var oid asn1.ObjectIdentifier
	try(e1(asn1.Unmarshal(data, &oid)))
	var bs asn1.BitString
	try(e1(asn1.Unmarshal(data, &bs)))
	var oct []byte
	try(e1(asn1.Unmarshal(data, &oct)))
	var tm time.Time
	try(e1(asn1.Unmarshal(data, &tm)))
	var str string
	try(e1(asn1.Unmarshal(data, &str)))
	var b bool
	try(e1(asn1.Unmarshal(data, &b)))
	var rdn pkix.RDNSequence
	try(e1(asn1.Unmarshal(data, &rdn)))
	var exts []pkix.Extension
	try(e1(asn1.Unmarshal(data, &exts)))
	var ifc interface{}
	try(e1(asn1.Unmarshal(data, &ifc)))
	var ints []int
	try(e1(asn1.UnmarshalWithParams(data, &ints, "set")))
	var strs []string
	try(e1(asn1.Unmarshal(data, &strs)))
	var cl pkix.CertificateList
	try(e1(asn1.Unmarshal(data, &cl)))
	var tagged int
	try(e1(asn1.UnmarshalWithParams(data, &tagged, "explicit,tag:0")))
	var app []byte
	try(e1(asn1.UnmarshalWithParams(data, &app, "application,tag:1")))
	if okAny {
		return nil
	}
	return errFalse
}

func ctAsn1Menu(data []byte) error {
	okAny := false
	try := func(err error) {
		if err == nil {
			okAny = true
		}
	}
	var rv ctasn1.RawValue
	try(e1(ctasn1.Unmarshal(data, &rv)))
	var rvs []ctasn1.RawValue
	try(e1(ctasn1.Unmarshal(data, &rvs)))
	var ms ctMenuStruct
	try(e1(ctasn1.Unmarshal(data, &ms)))
	var bi *big.Int
	try(e1(ctasn1.Unmarshal(data, &bi)))
	var i64 int64
	try(e1(ctasn1.Unmarshal(data, &i64)))
	var oid ctasn1.ObjectIdentifier
	try(e1(ctasn1.Unmarshal(data, &oid)))
	var bs ctasn1.BitString
	try(e1(ctasn1.Unmarshal(data, &bs)))
	var oct []byte
	try(e1(ctasn1.Unmarshal(data, &oct)))
	var tm time.Time
	try(e1(ctasn1.Unmarshal(data, &tm)))
	var str string
	try(e1(ctasn1.Unmarshal(data, &str)))
	var b bool
	try(e1(ctasn1.Unmarshal(data, &b)))
	var ifc interface{}
	try(e1(ctasn1.Unmarshal(data, &ifc)))
	var ints []int
	try(e1(ctasn1.UnmarshalWithParams(data, &ints, "set")))
	var tagged int
	try(e1(ctasn1.UnmarshalWithParams(data, &tagged, "explicit,tag:0")))
	if okAny {
		return nil
	}
	return errFalse
}

// cryptobyteReaders runs every String reader on the input and walks nested elements.
func cryptobyteReaders(data []byte) error {
	okAny := false
	mark := func(ok bool) {
		if ok {
			okAny = true
		}
	}
	fresh := func() *cryptobyte.String { s := cryptobyte.String(data); return &s }
	var b bool
	mark(fresh().ReadASN1Boolean(&b))
	var i64 int64
	mark(fresh().ReadASN1Integer(&i64))
	var u64 uint64
	mark(fresh().ReadASN1Integer(&u64))
	var i int
	mark(fresh().ReadASN1Integer(&i))
	bi := new(big.Int)
	mark(fresh().ReadASN1Integer(bi))
	var by []byte
	mark(fresh().ReadASN1Int64WithTag(&i64, cbasn1.Tag(0).ContextSpecific()))
	mark(fresh().ReadASN1Enum(&i))
	var oid asn1.ObjectIdentifier
	mark(fresh().ReadASN1ObjectIdentifier(&oid))
	var tm time.Time
	mark(fresh().ReadASN1GeneralizedTime(&tm))
	mark(fresh().ReadASN1UTCTime(&tm))
	var bits asn1.BitString
	mark(fresh().ReadASN1BitString(&bits))
	mark(fresh().ReadASN1BitStringAsBytes(&by))
	mark(fresh().ReadASN1Bytes(&by, cbasn1.OCTET_STRING))
	var child cryptobyte.String
	var tag cbasn1.Tag
	mark(fresh().ReadASN1(&child, cbasn1.SEQUENCE))
	mark(fresh().ReadASN1Element(&child, cbasn1.SEQUENCE))
	mark(fresh().ReadAnyASN1Element(&child, &tag))
	mark(fresh().SkipASN1(cbasn1.SEQUENCE))
	var present bool
	mark(fresh().ReadOptionalASN1(&child, &present, cbasn1.Tag(0).ContextSpecific().Constructed()))
	mark(fresh().SkipOptionalASN1(cbasn1.INTEGER))
	mark(fresh().ReadOptionalASN1Integer(&i64, cbasn1.INTEGER, int64(3)))
	mark(fresh().ReadOptionalASN1Integer(bi, cbasn1.Tag(1).ContextSpecific().Constructed(), big.NewInt(1)))
	mark(fresh().ReadOptionalASN1OctetString(&by, &present, cbasn1.Tag(0).ContextSpecific().Constructed()))
	mark(fresh().ReadOptionalASN1Boolean(&b, false))
	mark(fresh().ReadUint8LengthPrefixed(&child))
	mark(fresh().ReadUint16LengthPrefixed(&child))
	mark(fresh().ReadUint24LengthPrefixed(&child))
	var u8 uint8
	var u16 uint16
	var u32 uint32
	s := fresh()
	mark(s.ReadUint8(&u8) && s.ReadUint16(&u16) && s.ReadUint24(&u32) && s.ReadUint32(&u32) && s.ReadBytes(&by, 3) && s.Skip(2))
	// walk: every element at every level through ReadAnyASN1 (bounded number of elements)
	budget := 20000
	var walk func(s cryptobyte.String, depth int)
	walk = func(s cryptobyte.String, depth int) {
		for !s.Empty() && budget > 0 {
			budget--
			var el cryptobyte.String
			var t cbasn1.Tag
			if !s.ReadAnyASN1(&el, &t) {
				return
			}
			okAny = true
			if t&0x20 != 0 && depth < 5000 {
				walk(el, depth+1)
			} else {
				// typed readers on the re-assembled primitive
				switch t {
				case cbasn1.INTEGER:
					full := cryptobyte.String(append([]byte{byte(t), byte(len(el))}, el...))
					if len(el) < 128 {
						full.ReadASN1Integer(new(big.Int))
					}
				}
			}
		}
	}
	walk(cryptobyte.String(data), 0)
	if okAny {
		return nil
	}
	return errFalse
}

func tlsUnmarshal(name string, data []byte) error {
	m := tls.VerifNewMessage(name)
	if m == nil {
		panic("inputs: tls has no message type " + name)
	}
	switch name {
	case "certificateRequestMsg", "certificateVerifyMsg":
		// both wire formats (TLS 1.2 with signature algorithms, and earlier)
		ok := m.Unmarshal(append([]byte(nil), data...))
		m2 := tls.VerifNewMessage(name)
		if err := m2.Set("hasSignatureAlgorithm", true); err != nil {
			panic(err)
		}
		ok2 := m2.Unmarshal(append([]byte(nil), data...))
		if ok || ok2 {
			return nil
		}
		return errFalse
	}
	if m.Unmarshal(append([]byte(nil), data...)) {
		return nil
	}
	return errFalse
}

func tlsAll(data []byte) error {
	okAny := false
	for _, name := range tls.VerifMessageTypes() {
		if tlsUnmarshal(name, data) == nil {
			okAny = true
		}
	}
	for _, v := range []uint16{tls.VersionTLS10, tls.VersionTLS12, tls.VersionTLS13} {
		if _, ok := tls.VerifUnmarshalHandshake(v, data); ok {
			okAny = true
		}
	}
	if okAny {
		return nil
	}
	return errFalse
}

// EPs maps the entry-point names of Inputs.tla to the real functions.
var EPs = map[string]func(data []byte) error{
	"x509.ParseCertificate":           func(d []byte) error { return e1(x509.ParseCertificate(d)) },
	"x509.ParseCertificates":          func(d []byte) error { return e1(x509.ParseCertificates(d)) },
	"x509.ParseTBSCertificate":        func(d []byte) error { return e1(x509.ParseTBSCertificate(d)) },
	"x509.ParseCertificateRequest":    func(d []byte) error { return e1(x509.ParseCertificateRequest(d)) },
	"x509.ParseCRL":                   func(d []byte) error { return e1(x509.ParseCRL(d)) },
	"x509.ParseDERCRL":                func(d []byte) error { return e1(x509.ParseDERCRL(d)) },
	"x509.ParseRevocationList":        func(d []byte) error { return e1(x509.ParseRevocationList(d)) },
	"x509.ParsePKIXPublicKey":         func(d []byte) error { return e1(x509.ParsePKIXPublicKey(d)) },
	"x509.ParsePKCS1PublicKey":        func(d []byte) error { return e1(x509.ParsePKCS1PublicKey(d)) },
	"x509.ParsePKCS1PrivateKey":       func(d []byte) error { return e1(x509.ParsePKCS1PrivateKey(d)) },
	"x509.ParsePKCS8PrivateKey":       func(d []byte) error { return e1(x509.ParsePKCS8PrivateKey(d)) },
	"x509.ParseECPrivateKey":          func(d []byte) error { return e1(x509.ParseECPrivateKey(d)) },
	"ctx509.ParseCertificate":         func(d []byte) error { return ctErr(e1(ctx509.ParseCertificate(d))) },
	"ctx509.ParseCertificates":        func(d []byte) error { return ctErr(e1(ctx509.ParseCertificates(d))) },
	"ctx509.ParseTBSCertificate":      func(d []byte) error { return ctErr(e1(ctx509.ParseTBSCertificate(d))) },
	"ctx509.ParseCRL":                 func(d []byte) error { return e1(ctx509.ParseCRL(d)) },
	"ctx509.ParseDERCRL":              func(d []byte) error { return e1(ctx509.ParseDERCRL(d)) },
	"ctx509.ParsePKIXPublicKey":       func(d []byte) error { return e1(ctx509.ParsePKIXPublicKey(d)) },
	"ctx509.ParsePKCS1PrivateKey":     func(d []byte) error { return e1(ctx509.ParsePKCS1PrivateKey(d)) },
	"ctx509.ParsePKCS8PrivateKey":     func(d []byte) error { return e1(ctx509.ParsePKCS8PrivateKey(d)) },
	"ctx509.ParseECPrivateKey":        func(d []byte) error { return e1(ctx509.ParseECPrivateKey(d)) },
	"ocsp.ParseRequest":               func(d []byte) error { return e1(ocsp.ParseRequest(d)) },
	"ocsp.ParseResponse":              func(d []byte) error { return e1(ocsp.ParseResponse(d, nil)) },
	"ocsp.ParseResponse/issuer":       func(d []byte) error { return e1(ocsp.ParseResponse(d, Aux.Issuer)) },
	"ocsp.ParseResponseForCert":       func(d []byte) error { return e1(ocsp.ParseResponseForCert(d, Aux.Leaf, Aux.Issuer)) },
	"asn1.Unmarshal/RDNSequence":      func(d []byte) error { var r pkix.RDNSequence; return e1(asn1.Unmarshal(d, &r)) },
	"asn1.Unmarshal/menu":             asn1Menu,
	"ctasn1.Unmarshal/menu":           ctAsn1Menu,
	"cryptobyte/readers":              cryptobyteReaders,
	"ct.DeserializeSCT":               func(d []byte) error { return e1(ct.DeserializeSCT(bytes.NewReader(d))) },
	"x509ct.DeserializeSCT":           func(d []byte) error { return e1(x509ct.DeserializeSCT(bytes.NewReader(d))) },
	"ct.UnmarshalDigitallySigned":     func(d []byte) error { return e1(ct.UnmarshalDigitallySigned(bytes.NewReader(d))) },
	"x509ct.UnmarshalDigitallySigned": func(d []byte) error { return e1(x509ct.UnmarshalDigitallySigned(bytes.NewReader(d))) },
	"ct.ReadMerkleTreeLeaf":           func(d []byte) error { return e1(ct.ReadMerkleTreeLeaf(bytes.NewReader(d))) },
	"ct.UnmarshalX509ChainArray":      func(d []byte) error { return e1(ct.UnmarshalX509ChainArray(d)) },
	"ct.UnmarshalPrecertChainArray":   func(d []byte) error { return e1(ct.UnmarshalPrecertChainArray(d)) },
	"google.Parse":                    func(d []byte) error { return e1(google.Parse(d, "v")) },
	"microsoft.Parse":                 func(d []byte) error { return e1(microsoft.Parse(d)) },
	"mozilla.Parse":                   func(d []byte) error { return e1(mozilla.Parse(d)) },
	"tls.*.unmarshal":                 tlsAll,
}

// the ct/x509 fork reports tolerated problems as a NonFatalErrors value next to a certificate
func ctErr(err error) error {
	if err == nil {
		return nil
	}
	if _, ok := err.(ctx509.NonFatalErrors); ok {
		return nil
	}
	return err
}

func init() {
	for _, name := range tls.VerifMessageTypes() {
		n := name
		EPs["tls."+n+".unmarshal"] = func(d []byte) error { return tlsUnmarshal(n, d) }
	}
}

// EPNames lists the registered entry points.
func EPNames() []string {
	var res []string
	for k := range EPs {
		res = append(res, k)
	}
	sort.Strings(res)
	return res
}

// RunAll feeds data to every entry point of the kind in every mode.
func (m *Model) RunAll(k *Kind, data []byte) []Result {
	res := make([]Result, 0, len(k.EPs)*len(m.Modes))
	for _, ep := range k.EPs {
		f := EPs[ep]
		if f == nil {
			panic(fmt.Sprintf("inputs: the model names entry point %q which the harness does not bind", ep))
		}
		for _, mode := range m.Modes {
			d := data
			res = append(res, Call(ep, mode, func() error { return f(d) }))
		}
	}
	return res
}

// FailClass renders the failure kind of a result for violation signatures.
func (r Result) FailClass(judged string) string {
	switch {
	case r.O == "panic":
		return "panic: " + r.Msg
	case r.O == "timeout", r.O == "fatal":
		return r.O + strings.TrimSpace(" "+r.Msg)
	}
	return judged
}
