// Package inputs binds spec/Inputs.tla to the real parsers: it loads the structure model that
// TLC exported (kinds, node classes, selector paths, binary layouts, entry points), builds real
// seeds with the standard library, concretises TLC-generated mutation programs on them through
// harness/lib/dertree, and runs the named entry points of zcrypto under a guard (recover,
// watchdog, allocation measurement).  It only executes and measures; the verdict is TLC's
// (Trace_Inputs.tla).
package inputs

import (
	"encoding/json"
	"fmt"
	"hash/fnv"
	"math/rand"
	"os"
	"sort"

	"verifharness/lib/dertree"
)

type NodeClass struct {
	N    string   `json:"n"`
	T    string   `json:"t"`
	Path []string `json:"path"`
	Reg  string   `json:"reg"`
}

type Kind struct {
	K      string          `json:"k"`
	Enc    string          `json:"enc"`
	Native []string        `json:"native"`
	EPs    []string        `json:"eps"`
	Nodes  []NodeClass     `json:"nodes"`
	Layout []dertree.Field `json:"layout"`
	NMuts  int             `json:"nmuts"`
	nodes  map[string]*NodeClass
}

type Model struct {
	Kinds       []*Kind  `json:"kinds"`
	Modes       []string `json:"modes"`
	TimeLimitMs int      `json:"timelimit_ms"`
	byName      map[string]*Kind
}

func LoadModel(path string) (*Model, error) {
	b, err := os.ReadFile(path)
	if err != nil {
		return nil, err
	}
	var m Model
	if err := json.Unmarshal(b, &m); err != nil {
		return nil, err
	}
	m.byName = map[string]*Kind{}
	for _, k := range m.Kinds {
		sort.Strings(k.EPs)
		k.nodes = map[string]*NodeClass{}
		for i := range k.Nodes {
			k.nodes[k.Nodes[i].N] = &k.Nodes[i]
		}
		m.byName[k.K] = k
	}
	// strict first, then permissive: deterministic order of the observations
	sort.Slice(m.Modes, func(i, j int) bool { return m.Modes[i] > m.Modes[j] })
	return &m, nil
}

func (m *Model) Kind(k string) *Kind { return m.byName[k] }

// Mut is one mutation [op, n, a] of Inputs.tla.
type Mut struct {
	Op string `json:"op"`
	N  string `json:"n"`
	A  string `json:"a"`
}

// Program is one exported line of InputsGen.
type Program struct {
	K   string   `json:"k"`
	P   []Mut    `json:"p"`
	Iso bool     `json:"iso"`
	Reg []string `json:"reg"`
	Fam []string `json:"fam"`
}

// Seed is a real artifact of some kind.
type Seed struct {
	Name  string
	Kind  string
	Class string // "gen": built by the standard library, known good; "file": from the repository
	Data  []byte
	// NoMutate: only fed unmutated and to the byte-level sweep (large files)
	NoMutate bool
}

// rngFor derives the deterministic random source of one (seed, program) concretisation.
func rngFor(base int64, seed string, prog []Mut) *rand.Rand {
	h := fnv.New64a()
	fmt.Fprintf(h, "%d/%s", base, seed)
	for _, m := range prog {
		fmt.Fprintf(h, "/%s@%s:%s", m.Op, m.N, m.A)
	}
	return rand.New(rand.NewSource(int64(h.Sum64() & 0x7fffffffffffffff)))
}

// Concretise applies prog to the seed.  applied=false: some node class of the program does not
// exist in this seed (or the operator is void there) - the case is skipped for this seed.
func (m *Model) Concretise(s *Seed, prog []Mut, base int64) (out []byte, cut int, applied bool, err error) {
	k := m.Kind(s.Kind)
	if k == nil {
		return nil, 0, false, fmt.Errorf("inputs: unknown kind %q", s.Kind)
	}
	rng := rngFor(base, s.Name, prog)
	if len(prog) == 0 {
		return s.Data, 0, true, nil
	}
	switch k.Enc {
	case "der":
		root, err := dertree.Parse(s.Data)
		if err != nil {
			return nil, 0, false, fmt.Errorf("inputs: seed %s is not DER: %v", s.Name, err)
		}
		art := &dertree.DerArtifact{Root: root}
		// resolve every target before mutating (node classes refer to the seed's structure)
		targets := make([]*dertree.Node, len(prog))
		for i, mu := range prog {
			nc := k.nodes[mu.N]
			if nc == nil {
				return nil, 0, false, fmt.Errorf("inputs: kind %s has no node class %q", s.Kind, mu.N)
			}
			targets[i] = dertree.Resolve(root, nc.Path)
			if targets[i] == nil {
				return nil, 0, false, nil
			}
		}
		for i, mu := range prog {
			if e := art.ApplyDer(targets[i], mu.Op, mu.A, rng); e != nil {
				if e == dertree.ErrNA {
					return nil, 0, false, nil
				}
				return nil, 0, false, e
			}
		}
		out, cut = art.Bytes(rng)
		return out, cut, true, nil
	case "bin":
		root, err := dertree.ParseLayout(k.Layout, s.Data)
		if err != nil {
			return nil, 0, false, fmt.Errorf("inputs: seed %s does not match its layout: %v", s.Name, err)
		}
		art := &dertree.BinArtifact{Root: root}
		targets := make([]*dertree.BNode, len(prog))
		for i, mu := range prog {
			if k.nodes[mu.N] == nil {
				return nil, 0, false, fmt.Errorf("inputs: kind %s has no node class %q", s.Kind, mu.N)
			}
			targets[i] = root.Find(mu.N)
			if targets[i] == nil {
				return nil, 0, false, nil
			}
		}
		for i, mu := range prog {
			if e := art.ApplyBin(targets[i], mu.Op, mu.A, rng, m.innerDER); e != nil {
				if e == dertree.ErrNA {
					return nil, 0, false, nil
				}
				return nil, 0, false, e
			}
		}
		out, cut = art.Bytes(rng)
		return out, cut, true, nil
	case "json":
		root, err := dertree.ParseJSON(s.Data)
		if err != nil {
			return nil, 0, false, fmt.Errorf("inputs: seed %s is not JSON: %v", s.Name, err)
		}
		art := &dertree.JSONArtifact{Root: root}
		targets := make([]*dertree.JNode, len(prog))
		for i, mu := range prog {
			nc := k.nodes[mu.N]
			if nc == nil {
				return nil, 0, false, fmt.Errorf("inputs: kind %s has no node class %q", s.Kind, mu.N)
			}
			targets[i] = dertree.ResolveJSON(root, nc.Path)
			if targets[i] == nil {
				return nil, 0, false, nil
			}
		}
		for i, mu := range prog {
			if e := art.ApplyJSON(targets[i], mu.Op, mu.A, rng, m.innerDER); e != nil {
				if e == dertree.ErrNA {
					return nil, 0, false, nil
				}
				return nil, 0, false, e
			}
		}
		out, cut = art.Bytes(rng)
		return out, cut, true, nil
	}
	return nil, 0, false, fmt.Errorf("inputs: unknown encoding %q", k.Enc)
}

// CheckSeed is the concretisation check (BUILDERS.md rule 2): the seed must parse with the
// model's structure and re-serialise to the identical bytes, so that an unmutated tree is the
// seed and every mutation is relative to it.
func (m *Model) CheckSeed(s *Seed) error {
	k := m.Kind(s.Kind)
	if k == nil {
		return fmt.Errorf("unknown kind %q", s.Kind)
	}
	if s.NoMutate {
		return nil
	}
	switch k.Enc {
	case "der":
		root, err := dertree.Parse(s.Data)
		if err != nil {
			return err
		}
		if string(dertree.Serialise(root)) != string(s.Data) {
			return fmt.Errorf("DER tree of %s does not re-serialise to the seed", s.Name)
		}
	case "bin":
		root, err := dertree.ParseLayout(k.Layout, s.Data)
		if err != nil {
			return err
		}
		if string(dertree.SerialiseBin(root)) != string(s.Data) {
			return fmt.Errorf("layout tree of %s does not re-serialise to the seed", s.Name)
		}
	case "json":
		root, err := dertree.ParseJSON(s.Data)
		if err != nil {
			return err
		}
		again, err := dertree.ParseJSON(dertree.SerialiseJSON(root))
		if err != nil {
			return err
		}
		if string(dertree.SerialiseJSON(again)) != string(dertree.SerialiseJSON(root)) {
			return fmt.Errorf("JSON tree of %s is not stable", s.Name)
		}
	}
	return nil
}

// innerDER mutates an embedded DER artifact (InnerDER operator).
func (m *Model) innerDER(orig []byte, sub, how string, rng *rand.Rand) []byte {
	switch how {
	case "empty":
		return nil
	case "short3":
		return []byte{0x30, 0x01, 0x00}
	case "truncated":
		return append([]byte{}, orig[:len(orig)/2]...)
	case "notder":
		return []byte{0xff, 0xff, 0xff, 0xff, 0x00, 0x01, 0x02, 0x03}
	case "noise":
		b := append([]byte{}, orig...)
		for i := 0; i < 3 && len(b) > 0; i++ {
			b[rng.Intn(len(b))] ^= byte(1 << uint(rng.Intn(8)))
		}
		return b
	case "nested":
		return dertree.NestBytes(1000, []byte{0x05, 0x00}, 0x30)
	case "shortkey-selfissued":
		if ShortKeySelfIssued != nil {
			return ShortKeySelfIssued
		}
		return []byte{0x30, 0x00}
	}
	return orig
}

// ShortKeySelfIssued is a self-issued Ed25519 certificate whose public key has 31 bytes (built
// by the seeds from a real self-signed certificate).
var ShortKeySelfIssued []byte
