// Package ctlog is a scriptable fake RFC 6962 log (get-sth / get-entries over loopback HTTP)
// and a builder of log entries from abstract (position, kind) pairs.  It is harness
// infrastructure for C17: it executes what a TLC behaviour or a seeded random policy says the
// server does; it never judges the scanner.
//
// Entry kinds (CTScanner.tla, Kinds):
//
//	cert        X.509 entry, certificate parses cleanly
//	precert     precertificate entry, TBS parses cleanly
//	nonfatal    X.509 entry whose certificate carries an unknown critical extension
//	            (ct/x509 reports NonFatalErrors and still returns the certificate)
//	unparsable  X.509 entry whose bytes are DER but not a certificate
//
// The certificate of log position p has serial number SerialBase+p, so that an observation
// "entry content" can be mapped back to the log position it came from.
package ctlog

import (
	"bytes"
	"crypto/sha256"
	stdx509 "crypto/x509"
	"encoding/base64"
	"encoding/binary"
	"encoding/json"
	"fmt"
	"net"
	"net/http"
	"net/http/httptest"
	"strconv"
	"strings"
	"sync"
	"time"

	"verifharness/lib/pki"
)

const SerialBase = 1000

type Entry struct {
	Pos   int
	Kind  string
	Leaf  []byte // MerkleTreeLeaf
	Extra []byte // extra_data
	Raw   []byte // the bytes the scanner reports as RawCert (certificate or TBS)
}

var (
	entMu    sync.Mutex
	entCache = map[string]*Entry{}
	byRaw    = map[[32]byte]int{}
	caDER    []byte
)

func u24(n int) []byte { return []byte{byte(n >> 16), byte(n >> 8), byte(n)} }
func u16(n int) []byte { return []byte{byte(n >> 8), byte(n)} }

func varBytes(b []byte, lenBytes int) []byte {
	var out []byte
	if lenBytes == 3 {
		out = append(out, u24(len(b))...)
	} else {
		out = append(out, u16(len(b))...)
	}
	return append(out, b...)
}

func ca() []byte {
	if caDER == nil {
		caDER = pki.MustBuild(pki.Cert{ID: "ctca", Subj: "CTCA", Key: "Kctca", Iss: "CTCA", SKey: "Kctca",
			CA: true, BC: true, PathLen: -1, NB: 0, NA: 1 << 30, Serial: 1})
	}
	return caDER
}

// GetEntry builds (once) the log entry for a position and kind.
func GetEntry(pos int, kind string) *Entry {
	entMu.Lock()
	defer entMu.Unlock()
	key := fmt.Sprintf("%d/%s", pos, kind)
	if e, ok := entCache[key]; ok {
		return e
	}
	e := &Entry{Pos: pos, Kind: kind}
	ts := make([]byte, 8)
	binary.BigEndian.PutUint64(ts, uint64(1600000000000+pos))
	leaf := []byte{0, 0} // version v1, leaf type timestamped_entry
	leaf = append(leaf, ts...)
	c := pki.Cert{ID: key, Subj: fmt.Sprintf("leaf%d", pos), Key: "Kctleaf", Iss: "CTCA", SKey: "Kctca",
		NB: 0, NA: 1 << 30, Serial: SerialBase + pos, DNS: []string{fmt.Sprintf("p%d.example", pos)}}
	switch kind {
	case "cert", "nonfatal":
		if kind == "nonfatal" {
			c.Extra = []pki.Ext{{OID: []int{1, 2, 3, 4, 5, 6}, Critical: true, Value: []byte{5, 0}}}
		}
		der := pki.MustBuild(c)
		checkSerial(der, pos)
		e.Raw = der
		leaf = append(leaf, 0, 0) // x509_entry
		leaf = append(leaf, varBytes(der, 3)...)
		e.Extra = varBytes(varBytes(ca(), 3), 3)
	case "precert":
		der := pki.MustBuild(c)
		checkSerial(der, pos)
		sc, _ := stdx509.ParseCertificate(der)
		tbs := sc.RawTBSCertificate
		e.Raw = tbs
		ikh := sha256.Sum256([]byte("issuer key of the fake log"))
		leaf = append(leaf, 0, 1) // precert_entry
		leaf = append(leaf, ikh[:]...)
		leaf = append(leaf, varBytes(tbs, 3)...)
		e.Extra = append(varBytes(der, 3), varBytes(varBytes(ca(), 3), 3)...)
	case "unparsable":
		// SEQUENCE { INTEGER pos, INTEGER pos }: DER, not a certificate
		raw := []byte{0x30, 0x08, 0x02, 0x02, byte(pos >> 8), byte(pos), 0x02, 0x02, byte(pos>>8) | 0x40, byte(pos)}
		e.Raw = raw
		leaf = append(leaf, 0, 0)
		leaf = append(leaf, varBytes(raw, 3)...)
		e.Extra = varBytes(nil, 3)
	default:
		panic("ctlog: unknown kind " + kind)
	}
	leaf = append(leaf, 0, 0) // no extensions
	e.Leaf = leaf
	if err := checkLeaf(e); err != nil {
		panic("ctlog: concretisation check failed: " + err.Error())
	}
	h := sha256.Sum256(e.Raw)
	if p, dup := byRaw[h]; dup && p != pos {
		panic("ctlog: two positions share the same bytes")
	}
	byRaw[h] = pos
	entCache[key] = e
	return e
}

func checkSerial(der []byte, pos int) {
	sc, err := stdx509.ParseCertificate(der)
	if err != nil || sc.SerialNumber.Int64() != int64(SerialBase+pos) {
		panic(fmt.Sprintf("ctlog: certificate for position %d does not read back: %v", pos, err))
	}
}

// checkLeaf re-reads the leaf with an independent decoder (concretisation check).
func checkLeaf(e *Entry) error {
	b := e.Leaf
	if len(b) < 12 || b[0] != 0 || b[1] != 0 {
		return fmt.Errorf("header")
	}
	et := int(b[10])<<8 | int(b[11])
	b = b[12:]
	if et == 1 {
		if e.Kind != "precert" || len(b) < 32 {
			return fmt.Errorf("entry type")
		}
		b = b[32:]
	} else if et != 0 || e.Kind == "precert" {
		return fmt.Errorf("entry type")
	}
	if len(b) < 3 {
		return fmt.Errorf("short")
	}
	n := int(b[0])<<16 | int(b[1])<<8 | int(b[2])
	if len(b) != 3+n+2 || !bytes.Equal(b[3:3+n], e.Raw) || b[3+n] != 0 || b[4+n] != 0 {
		return fmt.Errorf("body")
	}
	return nil
}

// PosOfRaw maps the bytes the scanner reported back to the log position (-1 = unknown bytes).
func PosOfRaw(raw []byte) int {
	entMu.Lock()
	defer entMu.Unlock()
	if p, ok := byRaw[sha256.Sum256(raw)]; ok {
		return p
	}
	return -1
}

// ---------------------------------------------------------------------------------------

// Answer is the server's reaction to one get-entries request.
type Answer struct {
	N     int    // number of entries to return (prefix of the request); 0 with Fault != ""
	Fault string // "" | "503" | "500" | "429" | "drop" | "badjson" | "badleaf" | "empty"
	Delay time.Duration
}

// Request as seen by the server.
type Request struct {
	Start, End int64
	Ans        Answer
}

// Scenario: one log and one policy; served under the URL prefix /s<ID>.
type Scenario struct {
	ID      int
	Size    int
	Kinds   []string
	Decide  func(start, end int64) Answer // called once per well-formed request, may block (gate)
	mu      sync.Mutex
	Reqs    []Request
	STHReqs int
}

type Server struct {
	HS  *httptest.Server
	mu  sync.Mutex
	cur map[int]*Scenario
	seq int
}

func NewServer() *Server {
	s := &Server{cur: map[int]*Scenario{}}
	s.HS = httptest.NewServer(http.HandlerFunc(s.handle))
	return s
}

func (s *Server) Close() { s.HS.Close() }

// Add registers a scenario and returns the base URI for client.New.
func (s *Server) Add(sc *Scenario) string {
	s.mu.Lock()
	s.seq++
	sc.ID = s.seq
	s.cur[sc.ID] = sc
	s.mu.Unlock()
	return fmt.Sprintf("%s/s%d", s.HS.URL, sc.ID)
}

func (s *Server) Remove(sc *Scenario) {
	s.mu.Lock()
	delete(s.cur, sc.ID)
	s.mu.Unlock()
}

func (s *Server) handle(w http.ResponseWriter, r *http.Request) {
	parts := strings.SplitN(strings.TrimPrefix(r.URL.Path, "/"), "/", 2)
	if len(parts) != 2 || !strings.HasPrefix(parts[0], "s") {
		http.Error(w, "no such log", 404)
		return
	}
	id, _ := strconv.Atoi(parts[0][1:])
	s.mu.Lock()
	sc := s.cur[id]
	s.mu.Unlock()
	if sc == nil {
		http.Error(w, "scenario gone", 410)
		return
	}
	switch "/" + parts[1] {
	case "/ct/v1/get-sth":
		sc.mu.Lock()
		sc.STHReqs++
		sc.mu.Unlock()
		root := sha256.Sum256([]byte("root"))
		json.NewEncoder(w).Encode(map[string]any{
			"tree_size": sc.Size, "timestamp": 1600000000000,
			"sha256_root_hash":    base64.StdEncoding.EncodeToString(root[:]),
			"tree_head_signature": base64.StdEncoding.EncodeToString([]byte{4, 3, 0, 2, 0x30, 0x00}),
		})
	case "/ct/v1/get-entries":
		q := r.URL.Query()
		start, e1 := strconv.ParseInt(q.Get("start"), 10, 64)
		end, e2 := strconv.ParseInt(q.Get("end"), 10, 64)
		// what a real log does with requests it cannot serve (RFC 6962 4.6)
		if e1 != nil || e2 != nil || start < 0 || end < start || start >= int64(sc.Size) {
			sc.mu.Lock()
			sc.Reqs = append(sc.Reqs, Request{start, end, Answer{Fault: "400"}})
			sc.mu.Unlock()
			time.Sleep(2 * time.Millisecond) // keeps a scanner that retries such a request forever from exhausting the sockets
			http.Error(w, "bad range", 400)
			return
		}
		if end >= int64(sc.Size) {
			end = int64(sc.Size) - 1
		}
		a := sc.Decide(start, end)
		sc.mu.Lock()
		sc.Reqs = append(sc.Reqs, Request{start, end, a})
		sc.mu.Unlock()
		if a.Delay > 0 {
			time.Sleep(a.Delay)
		}
		switch a.Fault {
		case "":
		case "500", "503", "429", "502":
			code, _ := strconv.Atoi(a.Fault)
			http.Error(w, "transient", code)
			return
		case "drop":
			if hj, ok := w.(http.Hijacker); ok {
				c, _, err := hj.Hijack()
				if err == nil {
					if tc, ok := c.(*net.TCPConn); ok {
						tc.SetLinger(0)
					}
					c.Close()
					return
				}
			}
			http.Error(w, "transient", 503)
			return
		case "badjson":
			w.Write([]byte(`{"entries":[{"leaf_input":`))
			return
		case "badleaf":
			w.Write([]byte(`{"entries":[{"leaf_input":"AAEC","extra_data":""}]}`))
			return
		case "empty":
			w.Write([]byte(`{"entries":[]}`))
			return
		default:
			panic("ctlog: unknown fault " + a.Fault)
		}
		n := a.N
		if n < 1 || int64(n) > end-start+1 {
			n = int(end - start + 1)
		}
		type je struct {
			LeafInput string `json:"leaf_input"`
			ExtraData string `json:"extra_data"`
		}
		out := struct {
			Entries []je `json:"entries"`
		}{}
		for p := int(start); p < int(start)+n; p++ {
			e := GetEntry(p, sc.Kinds[p])
			out.Entries = append(out.Entries, je{base64.StdEncoding.EncodeToString(e.Leaf), base64.StdEncoding.EncodeToString(e.Extra)})
		}
		json.NewEncoder(w).Encode(out)
	default:
		http.Error(w, "unknown endpoint", 404)
	}
}

// Requests returns a copy of the request log.
func (sc *Scenario) Requests() []Request {
	sc.mu.Lock()
	defer sc.mu.Unlock()
	return append([]Request(nil), sc.Reqs...)
}
