// Package memnet: an in-memory duplex transport with a store-and-forward middlebox, used by the
// C25 harness to capture the TLS records one endpoint writes, apply network faults to them and hand
// them to the other endpoint in arbitrary TCP-style segments.
package memnet

import (
	"errors"
	"io"
	"net"
	"sync"
	"time"
)

// queue is one direction of the transport: a sequence of segments with blocking reads.
type queue struct {
	mu     sync.Mutex
	cond   *sync.Cond
	segs   [][]byte
	closed bool // no more data will arrive: Read returns io.EOF once drained
	broken bool // reader side closed: writes fail
}

func newQueue() *queue {
	q := &queue{}
	q.cond = sync.NewCond(&q.mu)
	return q
}

func (q *queue) push(b []byte) {
	if len(b) == 0 {
		return
	}
	q.mu.Lock()
	q.segs = append(q.segs, append([]byte(nil), b...))
	q.mu.Unlock()
	q.cond.Broadcast()
}

func (q *queue) close() {
	q.mu.Lock()
	q.closed = true
	q.mu.Unlock()
	q.cond.Broadcast()
}

func (q *queue) read(p []byte) (int, error) {
	q.mu.Lock()
	defer q.mu.Unlock()
	for len(q.segs) == 0 && !q.closed && !q.broken {
		q.cond.Wait()
	}
	if len(q.segs) == 0 {
		if q.broken {
			return 0, net.ErrClosed
		}
		return 0, io.EOF
	}
	n := copy(p, q.segs[0]) // one Read never crosses a segment boundary (TCP-style short reads)
	if n == len(q.segs[0]) {
		q.segs = q.segs[1:]
	} else {
		q.segs[0] = q.segs[0][n:]
	}
	return n, nil
}

// Dir is one direction through the middlebox.
type Dir struct {
	mu       sync.Mutex
	q        *queue // towards the receiving endpoint
	capture  bool
	captured []byte
	srcClose bool // the sending endpoint closed its side while capturing
}

// Box is the middlebox: Dirs[0] = client to server, Dirs[1] = server to client.
type Box struct {
	Dirs [2]*Dir
}

// Capture switches a direction to store mode: bytes written from now on are kept, not forwarded.
func (b *Box) Capture(d int) {
	b.Dirs[d].mu.Lock()
	b.Dirs[d].capture = true
	b.Dirs[d].mu.Unlock()
}

// Take returns and clears what was captured in direction d.
func (b *Box) Take(d int) []byte {
	b.Dirs[d].mu.Lock()
	defer b.Dirs[d].mu.Unlock()
	c := b.Dirs[d].captured
	b.Dirs[d].captured = nil
	return c
}

// Inject hands one segment to the receiving endpoint of direction d.
func (b *Box) Inject(d int, seg []byte) { b.Dirs[d].q.push(seg) }

// CloseDir signals end of stream to the receiving endpoint of direction d.
func (b *Box) CloseDir(d int) { b.Dirs[d].q.close() }

func (d *Dir) write(p []byte) (int, error) {
	d.mu.Lock()
	defer d.mu.Unlock()
	if d.capture {
		d.captured = append(d.captured, p...)
		return len(p), nil
	}
	d.q.mu.Lock()
	broken := d.q.broken
	d.q.mu.Unlock()
	if broken {
		return 0, errors.New("memnet: write to closed peer")
	}
	d.q.push(p)
	return len(p), nil
}

func (d *Dir) srcClosed() {
	d.mu.Lock()
	capt := d.capture
	d.srcClose = true
	d.mu.Unlock()
	if !capt {
		d.q.close()
	}
}

// Conn is one endpoint.
type Conn struct {
	in     *queue
	out    *Dir
	once   sync.Once
	name   string
	closed bool
}

// New returns the two endpoints and the middlebox between them.
func New() (client, server *Conn, box *Box) {
	box = &Box{}
	box.Dirs[0] = &Dir{q: newQueue()}
	box.Dirs[1] = &Dir{q: newQueue()}
	client = &Conn{in: box.Dirs[1].q, out: box.Dirs[0], name: "client"}
	server = &Conn{in: box.Dirs[0].q, out: box.Dirs[1], name: "server"}
	return
}

func (c *Conn) Read(p []byte) (int, error)  { return c.in.read(p) }
func (c *Conn) Write(p []byte) (int, error) { return c.out.write(p) }
func (c *Conn) Close() error {
	c.once.Do(func() {
		c.out.srcClosed()
		c.in.mu.Lock()
		c.in.broken = true
		c.in.mu.Unlock()
		c.in.cond.Broadcast()
	})
	return nil
}

type addr string

func (a addr) Network() string { return "mem" }
func (a addr) String() string  { return string(a) }

func (c *Conn) LocalAddr() net.Addr                { return addr(c.name) }
func (c *Conn) RemoteAddr() net.Addr               { return addr("peer-of-" + c.name) }
func (c *Conn) SetDeadline(t time.Time) error      { return nil }
func (c *Conn) SetReadDeadline(t time.Time) error  { return nil }
func (c *Conn) SetWriteDeadline(t time.Time) error { return nil }
