package dertree

import (
	"errors"
	"fmt"
	"math/rand"
	"strconv"
	"strings"
)

// Field is one field of a binary layout of Inputs.tla (Layout[k]).
type Field struct {
	N    string  `json:"n"`
	T    string  `json:"t"` // u | fixed | vec | count | group | rest
	W    int     `json:"w"`
	LE   bool    `json:"le"`
	Rep  bool    `json:"rep"`
	Sub  string  `json:"sub"`
	Body []Field `json:"body"`
}

// BNode is a node of a parsed binary record.
type BNode struct {
	F      *Field
	Name   string // dotted node-class name
	Kids   []*BNode
	Data   []byte // u / fixed / rest / count: the bytes; opaque vec: the body
	Parent *BNode

	Word   []byte // explicit length word (mutations); nil = computed from the body
	Twice  bool
	NoBody bool

	Start, HdrEnd, End int
}

func getUint(b []byte, le bool) uint64 {
	var v uint64
	if le {
		for i := len(b) - 1; i >= 0; i-- {
			v = v<<8 | uint64(b[i])
		}
	} else {
		for _, x := range b {
			v = v<<8 | uint64(x)
		}
	}
	return v
}

func putUint(v uint64, w int, le bool) []byte {
	b := make([]byte, w)
	for i := 0; i < w; i++ {
		if le {
			b[i] = byte(v >> (8 * uint(i)))
		} else {
			b[w-1-i] = byte(v >> (8 * uint(i)))
		}
	}
	return b
}

// ParseLayout parses data by the layout; every byte must be consumed.
func ParseLayout(fields []Field, data []byte) (*BNode, error) {
	root := &BNode{F: &Field{T: "group", N: ""}, Name: ""}
	rest, err := parseFields(root, fields, data, "")
	if err != nil {
		return nil, err
	}
	if len(rest) != 0 {
		return nil, fmt.Errorf("dertree: %d bytes left after the layout", len(rest))
	}
	return root, nil
}

func join(prefix, n string) string {
	if prefix == "" {
		return n
	}
	return prefix + "." + n
}

func parseFields(parent *BNode, fields []Field, data []byte, prefix string) ([]byte, error) {
	for i := 0; i < len(fields); i++ {
		f := &fields[i]
		reps := 1
		if f.T == "count" {
			if len(data) < f.W {
				return nil, errors.New("dertree: short count")
			}
			n := &BNode{F: f, Name: join(prefix, f.N), Data: append([]byte{}, data[:f.W]...), Parent: parent}
			parent.Kids = append(parent.Kids, n)
			reps = int(getUint(data[:f.W], f.LE))
			data = data[f.W:]
			i++
			if i >= len(fields) {
				return nil, errors.New("dertree: count without a following field")
			}
			f = &fields[i]
		}
		for r := 0; r < reps; r++ {
			var err error
			data, err = parseField(parent, f, data, prefix)
			if err != nil {
				return nil, err
			}
		}
	}
	return data, nil
}

func parseField(parent *BNode, f *Field, data []byte, prefix string) ([]byte, error) {
	n := &BNode{F: f, Name: join(prefix, f.N), Parent: parent}
	switch f.T {
	case "u", "fixed":
		if len(data) < f.W {
			return nil, fmt.Errorf("dertree: short field %s", n.Name)
		}
		n.Data = append([]byte{}, data[:f.W]...)
		data = data[f.W:]
	case "rest":
		n.Data = append([]byte{}, data...)
		data = nil
	case "vec":
		if len(data) < f.W {
			return nil, fmt.Errorf("dertree: short length word %s", n.Name)
		}
		l := int(getUint(data[:f.W], f.LE))
		data = data[f.W:]
		if l > len(data) {
			return nil, fmt.Errorf("dertree: vector %s exceeds data", n.Name)
		}
		body := data[:l]
		data = data[l:]
		if len(f.Body) == 0 {
			n.Data = append([]byte{}, body...)
		} else if f.Rep {
			for len(body) > 0 {
				var err error
				body, err = parseFields(n, f.Body, body, n.Name)
				if err != nil {
					return nil, err
				}
			}
		} else {
			var err error
			body, err = parseFields(n, f.Body, body, n.Name)
			if err != nil {
				return nil, err
			}
			if len(body) != 0 {
				return nil, fmt.Errorf("dertree: %d bytes left in vector %s", len(body), n.Name)
			}
		}
	case "group":
		if f.Rep {
			// repeated groups are siblings of each other under parent
			for len(data) > 0 {
				g := &BNode{F: f, Name: join(prefix, f.N), Parent: parent}
				var err error
				data, err = parseFields(g, f.Body, data, g.Name)
				if err != nil {
					return nil, err
				}
				parent.Kids = append(parent.Kids, g)
			}
			return data, nil
		}
		var err error
		data, err = parseFields(n, f.Body, data, n.Name)
		if err != nil {
			return nil, err
		}
	default:
		return nil, fmt.Errorf("dertree: unknown field type %q", f.T)
	}
	parent.Kids = append(parent.Kids, n)
	return data, nil
}

func (n *BNode) body() []byte {
	if n.NoBody {
		return nil
	}
	if len(n.Kids) == 0 {
		return n.Data
	}
	var b []byte
	for _, k := range n.Kids {
		b = append(b, k.encode()...)
	}
	return b
}

func (n *BNode) encode() []byte {
	var out []byte
	switch n.F.T {
	case "vec":
		b := n.body()
		w := n.Word
		if w == nil {
			w = putUint(uint64(len(b)), n.F.W, n.F.LE)
		}
		out = append(append([]byte{}, w...), b...)
	case "group":
		out = n.body()
	default:
		out = n.Data
	}
	if n.Twice {
		out = append(append([]byte{}, out...), out...)
	}
	return out
}

func (n *BNode) assign(base int) int {
	n.Start = base
	hdr := 0
	if n.F.T == "vec" {
		hdr = n.F.W
		if n.Word != nil {
			hdr = len(n.Word)
		}
	}
	n.HdrEnd = base + hdr
	off := n.HdrEnd
	if len(n.Kids) > 0 && !n.NoBody && (n.F.T == "vec" || n.F.T == "group") {
		for _, k := range n.Kids {
			off = k.assign(off)
		}
	} else if !n.NoBody {
		off += len(n.Data)
	}
	n.End = off
	if n.Twice {
		off += n.End - n.Start
	}
	return off
}

// SerialiseBin encodes the record and records offsets.
func SerialiseBin(root *BNode) []byte {
	out := root.encode()
	root.assign(0)
	return out
}

func (n *BNode) walk(f func(*BNode)) {
	f(n)
	for _, k := range n.Kids {
		k.walk(f)
	}
}

// Find resolves a node class name ("a.b" first instance, "a.b#last" last instance).
func (n *BNode) Find(class string) *BNode {
	last := strings.HasSuffix(class, "#last")
	name := strings.TrimSuffix(class, "#last")
	var res *BNode
	n.walk(func(x *BNode) {
		if x.Name == name && x != n {
			if res == nil || last {
				res = x
			}
		}
	})
	return res
}

func (n *BNode) index() int {
	for i, k := range n.Parent.Kids {
		if k == n {
			return i
		}
	}
	return -1
}

func (n *BNode) clone(parent *BNode) *BNode {
	c := *n
	c.Parent = parent
	c.Data = append([]byte(nil), n.Data...)
	c.Word = append([]byte(nil), n.Word...)
	if n.Word == nil {
		c.Word = nil
	}
	c.Kids = nil
	for _, k := range n.Kids {
		c.Kids = append(c.Kids, k.clone(&c))
	}
	return &c
}

// BinArtifact is the mutation state of one binary record.
type BinArtifact struct {
	Root  *BNode
	Posts []Post
}

// InnerDERFunc mutates an embedded DER artifact (set by the caller: it needs seeds).
type InnerDERFunc func(orig []byte, sub, how string, rng *rand.Rand) []byte

func maxWord(w int) uint64 {
	if w >= 8 {
		return ^uint64(0)
	}
	return (uint64(1) << (8 * uint(w))) - 1
}

// ApplyBin applies one mutation of Inputs.tla to node t.
func (a *BinArtifact) ApplyBin(t *BNode, op, arg string, rng *rand.Rand, inner InnerDERFunc) error {
	// detached by an earlier mutation of the program: nothing to act on
	for n := t; n != nil; n = n.Parent {
		if n.Parent == nil {
			if n != a.Root {
				return ErrNA
			}
		} else if n.index() < 0 {
			return ErrNA
		}
	}
	isVec := t.F.T == "vec"
	setWord := func(v uint64) {
		if isVec {
			t.Word = putUint(v, t.F.W, t.F.LE)
		} else {
			t.Data = putUint(v, len(t.Data), t.F.LE)
		}
	}
	curWord := func() uint64 {
		if isVec {
			return uint64(len(t.body()))
		}
		return getUint(t.Data, t.F.LE)
	}
	w := t.F.W
	if !isVec {
		w = len(t.Data)
	}
	switch op {
	case "Truncate", "ByteNoise":
		a.Posts = append(a.Posts, Post{Op: op, Arg: arg, Spans: func() (int, int, int, bool, bool) {
			return t.Start, t.HdrEnd, t.End, t.HdrEnd-t.Start > 1, false
		}})
	case "ZeroInt":
		for i := range t.Data {
			t.Data[i] = 0
		}
	case "HugeInt":
		for i := range t.Data {
			t.Data[i] = 0xff
		}
	case "IntDelta":
		v := getUint(t.Data, t.F.LE)
		if arg == "+1" {
			v++
		} else {
			v--
		}
		t.Data = putUint(v, len(t.Data), t.F.LE)
	case "LenPlus", "LenMinus":
		k, _ := strconv.Atoi(arg)
		v := curWord()
		if op == "LenPlus" {
			v += uint64(k)
		} else if v >= uint64(k) {
			v -= uint64(k)
		}
		setWord(v & maxWord(w))
	case "CountHuge":
		v := maxWord(w)
		switch arg {
		case "i32max":
			v >>= 1
		case "256m":
			if v > 1<<28 {
				v = 1 << 28
			}
		}
		setWord(v)
	case "EmptyBody":
		t.Kids, t.Data, t.NoBody = nil, nil, true
	case "DropNode":
		i := t.index()
		t.Parent.Kids = append(append([]*BNode{}, t.Parent.Kids[:i]...), t.Parent.Kids[i+1:]...)
	case "DupNode":
		t.Twice = true
	case "DropTail":
		// the artifact ends right after this element: drop the following siblings at every level
		// (enclosing length words are recomputed from what is left)
		for n := t; n.Parent != nil; n = n.Parent {
			i := n.index()
			n.Parent.Kids = append([]*BNode{}, n.Parent.Kids[:i+1]...)
		}
	case "Repeat":
		k, _ := strconv.Atoi(arg)
		i := t.index()
		kids := append([]*BNode{}, t.Parent.Kids[:i+1]...)
		for j := 0; j < k; j++ {
			kids = append(kids, t.clone(t.Parent))
		}
		t.Parent.Kids = append(kids, t.Parent.Kids[i+1:]...)
	case "SwapSiblings":
		if len(t.Parent.Kids) < 2 {
			break // nothing to swap with: the identity
		}
		i := t.index()
		j := i + 1
		if j >= len(t.Parent.Kids) {
			j = i - 1
		}
		k := t.Parent.Kids
		k[i], k[j] = k[j], k[i]
	case "Grow":
		n := 65536
		if isVec && maxWord(t.F.W) < uint64(n) {
			n = int(maxWord(t.F.W))
		}
		b := make([]byte, n)
		for i := range b {
			b[i] = byte(0x41 + i%23)
		}
		t.Kids, t.Data = nil, b
	case "InnerLen":
		// treat the first iw bytes of the (opaque) body as a big-endian length word
		parts := strings.SplitN(arg, ":", 2)
		iw, _ := strconv.Atoi(parts[0])
		b := append([]byte{}, t.body()...)
		for len(b) < iw {
			b = append(b, 0)
		}
		v := getUint(b[:iw], false)
		switch parts[1] {
		case "+1":
			v++
		case "-1":
			v--
		case "max":
			v = maxWord(iw)
		case "zero":
			v = 0
		}
		copy(b, putUint(v&maxWord(iw), iw, false))
		t.Kids, t.Data = nil, b
	case "InnerDER":
		if inner == nil {
			return ErrNA
		}
		t.Data = inner(t.body(), t.F.Sub, arg, rng)
		t.Kids = nil
	default:
		return fmt.Errorf("dertree: unknown binary operator %q", op)
	}
	return nil
}

// Bytes serialises the record and applies the post operators.
func (a *BinArtifact) Bytes(rng *rand.Rand) ([]byte, int) {
	return ApplyPost(SerialiseBin(a.Root), a.Posts, rng)
}
