package dertree

import (
	"bytes"
	"encoding/base64"
	"encoding/json"
	"errors"
	"fmt"
	"math/rand"
	"strconv"
	"strings"
)

// JNode is a JSON value that keeps scalar tokens verbatim, member order and duplicate keys, so
// that mutations can produce documents no encoder emits.
type JNode struct {
	Kind   byte // 'o' object, 'a' array, 's' string, 'r' raw scalar token (number, true, false, null)
	Keys   []string
	Kids   []*JNode
	Str    string
	Raw    string
	Parent *JNode

	Start, End int
}

// ParseJSON parses one JSON document.
func ParseJSON(data []byte) (*JNode, error) {
	dec := json.NewDecoder(bytes.NewReader(data))
	dec.UseNumber()
	n, err := parseJ(dec)
	if err != nil {
		return nil, err
	}
	if dec.More() {
		return nil, errors.New("dertree: trailing JSON")
	}
	return n, nil
}

func parseJ(dec *json.Decoder) (*JNode, error) {
	tok, err := dec.Token()
	if err != nil {
		return nil, err
	}
	switch t := tok.(type) {
	case json.Delim:
		switch t {
		case '{':
			n := &JNode{Kind: 'o'}
			for dec.More() {
				kt, err := dec.Token()
				if err != nil {
					return nil, err
				}
				v, err := parseJ(dec)
				if err != nil {
					return nil, err
				}
				v.Parent = n
				n.Keys = append(n.Keys, kt.(string))
				n.Kids = append(n.Kids, v)
			}
			_, err := dec.Token()
			return n, err
		case '[':
			n := &JNode{Kind: 'a'}
			for dec.More() {
				v, err := parseJ(dec)
				if err != nil {
					return nil, err
				}
				v.Parent = n
				n.Kids = append(n.Kids, v)
			}
			_, err := dec.Token()
			return n, err
		}
		return nil, fmt.Errorf("dertree: unexpected delimiter %v", t)
	case string:
		return &JNode{Kind: 's', Str: t}, nil
	case json.Number:
		return &JNode{Kind: 'r', Raw: t.String()}, nil
	case bool:
		return &JNode{Kind: 'r', Raw: strconv.FormatBool(t)}, nil
	case nil:
		return &JNode{Kind: 'r', Raw: "null"}, nil
	}
	return nil, fmt.Errorf("dertree: unexpected token %v", tok)
}

func (n *JNode) write(buf *bytes.Buffer) {
	n.Start = buf.Len()
	switch n.Kind {
	case 'o':
		buf.WriteByte('{')
		for i, k := range n.Kids {
			if i > 0 {
				buf.WriteByte(',')
			}
			kb, _ := json.Marshal(n.Keys[i])
			buf.Write(kb)
			buf.WriteByte(':')
			k.write(buf)
		}
		buf.WriteByte('}')
	case 'a':
		buf.WriteByte('[')
		for i, k := range n.Kids {
			if i > 0 {
				buf.WriteByte(',')
			}
			k.write(buf)
		}
		buf.WriteByte(']')
	case 's':
		b, _ := json.Marshal(n.Str)
		buf.Write(b)
	default:
		buf.WriteString(n.Raw)
	}
	n.End = buf.Len()
}

// SerialiseJSON encodes the document and records offsets.
func SerialiseJSON(root *JNode) []byte {
	var buf bytes.Buffer
	root.write(&buf)
	return buf.Bytes()
}

// ResolveJSON follows member names / array indexes ("L" = last element).
func ResolveJSON(root *JNode, path []string) *JNode {
	n := root
	for _, st := range path {
		if n == nil {
			return nil
		}
		switch n.Kind {
		case 'o':
			var f *JNode
			for i, k := range n.Keys {
				if k == st {
					f = n.Kids[i]
					break
				}
			}
			n = f
		case 'a':
			if len(n.Kids) == 0 {
				return nil
			}
			if st == "L" {
				n = n.Kids[len(n.Kids)-1]
			} else {
				i, err := strconv.Atoi(st)
				if err != nil || i >= len(n.Kids) {
					return nil
				}
				n = n.Kids[i]
			}
		default:
			return nil
		}
	}
	return n
}

func (n *JNode) index() int {
	for i, k := range n.Parent.Kids {
		if k == n {
			return i
		}
	}
	return -1
}

func (n *JNode) set(v JNode) {
	p := n.Parent
	*n = v
	n.Parent = p
	for _, k := range n.Kids {
		k.Parent = n
	}
}

// JSONArtifact is the mutation state of one JSON document.
type JSONArtifact struct {
	Root  *JNode
	Posts []Post
}

// ApplyJSON applies one mutation of Inputs.tla to node t.
func (a *JSONArtifact) ApplyJSON(t *JNode, op, arg string, rng *rand.Rand, inner InnerDERFunc) error {
	// detached by an earlier mutation of the program: nothing to act on
	for n := t; n != nil; n = n.Parent {
		if n.Parent == nil {
			if n != a.Root {
				return ErrNA
			}
		} else if n.index() < 0 {
			return ErrNA
		}
	}
	switch op {
	case "Truncate", "ByteNoise":
		a.Posts = append(a.Posts, Post{Op: op, Arg: arg, Spans: func() (int, int, int, bool, bool) {
			return t.Start, t.Start + 1, t.End, false, false
		}})
	case "DropNode":
		if t.Parent == nil {
			t.set(JNode{Kind: 'r', Raw: ""})
			break
		}
		i := t.index()
		p := t.Parent
		p.Kids = append(append([]*JNode{}, p.Kids[:i]...), p.Kids[i+1:]...)
		if p.Kind == 'o' {
			p.Keys = append(append([]string{}, p.Keys[:i]...), p.Keys[i+1:]...)
		}
	case "DupNode":
		if t.Parent == nil {
			// the whole document twice (trailing data after the first value)
			one := string(SerialiseJSON(t))
			t.set(JNode{Kind: 'r', Raw: one + one})
			break
		}
		i := t.index()
		p := t.Parent
		c := *t
		p.Kids = append(p.Kids, &c)
		if p.Kind == 'o' {
			p.Keys = append(p.Keys, p.Keys[i])
		}
	case "JsonNull":
		t.set(JNode{Kind: 'r', Raw: "null"})
	case "JsonType":
		switch arg {
		case "num":
			t.set(JNode{Kind: 'r', Raw: "7"})
		case "str":
			t.set(JNode{Kind: 's', Str: "x"})
		case "obj":
			t.set(JNode{Kind: 'o', Keys: []string{"a"}, Kids: []*JNode{{Kind: 'r', Raw: "1"}}})
		case "arr":
			t.set(JNode{Kind: 'a', Kids: []*JNode{{Kind: 'r', Raw: "1"}}})
		default:
			t.set(JNode{Kind: 'r', Raw: "true"})
		}
	case "EmptyBody":
		switch t.Kind {
		case 'o', 'a':
			t.Keys, t.Kids = nil, nil
		default:
			t.set(JNode{Kind: 's', Str: ""})
		}
	case "Nest":
		d, _ := strconv.Atoi(arg)
		t.set(JNode{Kind: 'r', Raw: strings.Repeat("[", d) + strings.Repeat("]", d)})
	case "HugeInt":
		switch arg {
		case "1e400":
			t.set(JNode{Kind: 'r', Raw: "1e400"})
		case "2^63":
			t.set(JNode{Kind: 'r', Raw: "9223372036854775808"})
		default:
			t.set(JNode{Kind: 'r', Raw: "1.5"})
		}
	case "NegInt":
		t.set(JNode{Kind: 'r', Raw: "-1"})
	case "StrShape":
		t.set(JNode{Kind: 's', Str: "!!! not base64 \u0000 ==="})
	case "Grow":
		t.set(JNode{Kind: 's', Str: strings.Repeat("QUJD", 16384)})
	case "InnerDER":
		if t.Kind != 's' || inner == nil {
			return ErrNA
		}
		orig, err := base64.StdEncoding.DecodeString(t.Str)
		if err != nil {
			return ErrNA
		}
		t.Str = base64.StdEncoding.EncodeToString(inner(orig, "name", arg, rng))
	default:
		return fmt.Errorf("dertree: unknown JSON operator %q", op)
	}
	return nil
}

// Bytes serialises the document and applies the post operators.
func (a *JSONArtifact) Bytes(rng *rand.Rand) ([]byte, int) {
	return ApplyPost(SerialiseJSON(a.Root), a.Posts, rng)
}
