package dertree

import (
	"crypto/elliptic"
	"fmt"
	"math/big"
	"strconv"
	"strings"
)

// ---------------------------------------------------------------------------------------
// constructors

func prim(class, tag int, content []byte) *Node {
	return &Node{Class: class, Tag: tag, Content: append([]byte{}, content...)}
}

func cons(class, tag int, kids ...*Node) *Node {
	n := &Node{Class: class, Tag: tag, Constructed: true}
	for _, k := range kids {
		if k == nil {
			continue
		}
		k.Parent = n
		n.Children = append(n.Children, k)
	}
	return n
}

func Seq(kids ...*Node) *Node          { return cons(0, 16, kids...) }
func Set(kids ...*Node) *Node          { return cons(0, 17, kids...) }
func Null() *Node                      { return prim(0, 5, nil) }
func Bool(b bool) *Node                { return prim(0, 1, map[bool][]byte{true: {0xff}, false: {0}}[b]) }
func Octets(b []byte) *Node            { return prim(0, 4, b) }
func UTF8(s string) *Node              { return prim(0, 12, []byte(s)) }
func IA5(s string) *Node               { return prim(0, 22, []byte(s)) }
func Printable(s string) *Node         { return prim(0, 19, []byte(s)) }
func Visible(s string) *Node           { return prim(0, 26, []byte(s)) }
func UTCTime(s string) *Node           { return prim(0, 23, []byte(s)) }
func GenTime(s string) *Node           { return prim(0, 24, []byte(s)) }
func Enum(v int64) *Node               { n := Int(v); n.Tag = 10; return n }
func CtxPrim(tag int, b []byte) *Node  { return prim(2, tag, b) }
func Ctx(tag int, kids ...*Node) *Node { return cons(2, tag, kids...) }
func Explicit(tag int, k *Node) *Node  { return cons(2, tag, k) }

func BMP(s string) *Node {
	var b []byte
	for _, r := range s {
		b = append(b, byte(r>>8), byte(r))
	}
	return prim(0, 30, b)
}

// Bits is a BIT STRING with the given number of unused bits.
func Bits(b []byte, unused int) *Node { return prim(0, 3, append([]byte{byte(unused)}, b...)) }

// Int is a minimally encoded INTEGER.
func Int(v int64) *Node { return BigInt(big.NewInt(v)) }

func BigInt(v *big.Int) *Node {
	if v.Sign() == 0 {
		return prim(0, 2, []byte{0})
	}
	if v.Sign() > 0 {
		b := v.Bytes()
		if b[0]&0x80 != 0 {
			b = append([]byte{0}, b...)
		}
		return prim(0, 2, b)
	}
	// two's complement of a negative number
	n := new(big.Int).Neg(v)
	l := (n.BitLen() + 8) / 8
	mod := new(big.Int).Lsh(big.NewInt(1), uint(8*l))
	b := new(big.Int).Add(mod, v).Bytes()
	for len(b) < l {
		b = append([]byte{0xff}, b...)
	}
	for len(b) > 1 && b[0] == 0xff && b[1]&0x80 != 0 {
		b = b[1:]
	}
	return prim(0, 2, b)
}

// OID from dotted notation.
func OID(dotted string) *Node {
	parts := strings.Split(dotted, ".")
	arcs := make([]uint64, len(parts))
	for i, p := range parts {
		v, err := strconv.ParseUint(p, 10, 64)
		if err != nil {
			panic("dertree: bad OID " + dotted)
		}
		arcs[i] = v
	}
	var out []byte
	put := func(v uint64) {
		var tmp []byte
		for {
			tmp = append([]byte{byte(v & 0x7f)}, tmp...)
			v >>= 7
			if v == 0 {
				break
			}
		}
		for i := range tmp {
			if i != len(tmp)-1 {
				tmp[i] |= 0x80
			}
		}
		out = append(out, tmp...)
	}
	put(arcs[0]*40 + arcs[1])
	for _, a := range arcs[2:] {
		put(a)
	}
	return prim(0, 6, out)
}

// Wrap returns an OCTET STRING containing the encoding of inner.
func Wrap(inner *Node) *Node { return Octets(Serialise(inner.Clone())) }

// Ext builds an Extension SEQUENCE { oid, [critical,] OCTET STRING { value } }.
func Ext(oid string, critical bool, value *Node) *Node {
	if critical {
		return Seq(OID(oid), Bool(true), Wrap(value))
	}
	return Seq(OID(oid), Wrap(value))
}

// ExtRaw is an extension whose value octets are given verbatim.
func ExtRaw(oid string, critical bool, value []byte) *Node {
	if critical {
		return Seq(OID(oid), Bool(true), Octets(value))
	}
	return Seq(OID(oid), Octets(value))
}

// Encode serialises a freshly built tree.
func Encode(n *Node) []byte { return Serialise(n) }

// ---------------------------------------------------------------------------------------
// KeyShape / AlgMismatch: the "context" mutations of Inputs.tla

const (
	oidRSA     = "1.2.840.113549.1.1.1"
	oidDSA     = "1.2.840.10040.4.1"
	oidEC      = "1.2.840.10045.2.1"
	oidEd25519 = "1.3.101.112"
	oidX25519  = "1.3.101.110"
	oidP256    = "1.2.840.10045.3.1.7"
	oidP384    = "1.3.132.0.34"
)

func rsaKey(n, e *Node, extra ...*Node) []*Node {
	seq := Seq(append([]*Node{n, e}, extra...)...)
	return []*Node{Seq(OID(oidRSA), Null()), Bits(Encode(seq), 0)}
}

func ff(k int) []byte {
	b := make([]byte, k)
	for i := range b {
		b[i] = 0xff
	}
	return b
}

// KeyShape returns the children (AlgorithmIdentifier, BIT STRING) of a SubjectPublicKeyInfo of
// the named algorithm and shape.
func KeyShape(spec string) ([]*Node, error) {
	i := strings.IndexByte(spec, ':')
	alg, shape := spec[:i], spec[i+1:]
	modulus := new(big.Int).SetBytes(append([]byte{0xc3}, append(ff(254), 0xfb)...)) // odd 2048-bit number
	switch alg {
	case "ed25519", "x25519":
		oid := oidEd25519
		if alg == "x25519" {
			oid = oidX25519
		}
		key := make([]byte, 32)
		for i := range key {
			key[i] = byte(i*7 + 1)
		}
		switch shape {
		case "len0":
			return []*Node{Seq(OID(oid)), Bits(nil, 0)}, nil
		case "len31":
			return []*Node{Seq(OID(oid)), Bits(key[:31], 0)}, nil
		case "len33":
			return []*Node{Seq(OID(oid)), Bits(append(key, 9), 0)}, nil
		case "unusedbits":
			return []*Node{Seq(OID(oid)), Bits(key, 7)}, nil
		}
	case "ecp256", "ecp384":
		curve, coid := elliptic.P256(), oidP256
		if alg == "ecp384" {
			curve, coid = elliptic.P384(), oidP384
		}
		p := curve.Params()
		bl := (p.BitSize + 7) / 8
		pt := elliptic.Marshal(curve, p.Gx, p.Gy)
		params := OID(coid)
		switch shape {
		case "offcurve":
			bad := append([]byte{}, pt...)
			bad[len(bad)-1] ^= 1
			return []*Node{Seq(OID(oidEC), params), Bits(bad, 0)}, nil
		case "short":
			return []*Node{Seq(OID(oidEC), params), Bits(pt[:10], 0)}, nil
		case "infinity":
			return []*Node{Seq(OID(oidEC), params), Bits([]byte{0}, 0)}, nil
		case "compressed":
			c := append([]byte{2 + byte(p.Gy.Bit(0))}, pt[1:1+bl]...)
			return []*Node{Seq(OID(oidEC), params), Bits(c, 0)}, nil
		case "noparams":
			return []*Node{Seq(OID(oidEC)), Bits(pt, 0)}, nil
		case "badcurve":
			return []*Node{Seq(OID(oidEC), OID("1.3.132.0.99")), Bits(pt, 0)}, nil
		case "explicitparams":
			return []*Node{Seq(OID(oidEC), Seq(Int(1), Seq(OID("1.2.840.10045.1.1"), BigInt(p.P)))), Bits(pt, 0)}, nil
		case "wrongsize":
			return []*Node{Seq(OID(oidEC), params), Bits(elliptic.Marshal(elliptic.P256(), elliptic.P256().Params().Gx, elliptic.P256().Params().Gy), 0)}, nil
		}
	case "rsa":
		e := Int(65537)
		n := BigInt(modulus)
		switch shape {
		case "n0":
			return rsaKey(Int(0), e), nil
		case "nneg":
			return rsaKey(BigInt(new(big.Int).Neg(modulus)), e), nil
		case "n1":
			return rsaKey(Int(1), e), nil
		case "neven":
			return rsaKey(BigInt(new(big.Int).Lsh(big.NewInt(1), 2047)), e), nil
		case "e0":
			return rsaKey(n, Int(0)), nil
		case "eneg":
			return rsaKey(n, Int(-65537)), nil
		case "e1":
			return rsaKey(n, Int(1)), nil
		case "ehuge":
			return rsaKey(n, BigInt(new(big.Int).Sub(new(big.Int).Lsh(big.NewInt(1), 2048), big.NewInt(1)))), nil
		case "nhuge":
			return rsaKey(BigInt(new(big.Int).Sub(new(big.Int).Lsh(big.NewInt(1), 16384), big.NewInt(1))), e), nil
		case "trailing":
			return rsaKey(n, e, Int(7)), nil
		case "notseq":
			return []*Node{Seq(OID(oidRSA), Null()), Bits(Encode(n), 0)}, nil
		}
	case "dsa":
		// small but well-formed parameters (p = 2q+1 style toy group is not required for parsing)
		p := BigInt(new(big.Int).SetBytes(append([]byte{0xd7}, append(ff(126), 0xc7)...)))
		q := BigInt(new(big.Int).SetBytes(append([]byte{0xf1}, append(ff(18), 0x61)...)))
		g := Int(2)
		y := BigInt(new(big.Int).SetBytes(append([]byte{0x45}, ff(127)...)))
		switch shape {
		case "ok":
			return []*Node{Seq(OID(oidDSA), Seq(p, q, g)), Bits(Encode(y), 0)}, nil
		case "zeroparams":
			return []*Node{Seq(OID(oidDSA), Seq(Int(0), Int(0), Int(0))), Bits(Encode(y), 0)}, nil
		case "noparams":
			return []*Node{Seq(OID(oidDSA)), Bits(Encode(y), 0)}, nil
		case "yneg":
			return []*Node{Seq(OID(oidDSA), Seq(p, q, g)), Bits(Encode(Int(-5)), 0)}, nil
		case "y0":
			return []*Node{Seq(OID(oidDSA), Seq(p, q, g)), Bits(Encode(Int(0)), 0)}, nil
		}
	case "unknown":
		return []*Node{Seq(OID("1.3.6.1.4.1.99999.7"), Null()), Bits([]byte{1, 2, 3, 4}, 0)}, nil
	}
	return nil, fmt.Errorf("dertree: unknown key shape %q", spec)
}

// SigAlgID returns the children of a signature AlgorithmIdentifier.
func SigAlgID(name string) ([]*Node, error) {
	pss := func(hash string, salt int64) *Node {
		h := Seq(OID(hash), Null())
		return Seq(Explicit(0, h), Explicit(1, Seq(OID("1.2.840.113549.1.1.8"), h.Clone())), Explicit(2, Int(salt)))
	}
	switch name {
	case "ed25519":
		return []*Node{OID(oidEd25519)}, nil
	case "ecdsa-sha256":
		return []*Node{OID("1.2.840.10045.4.3.2")}, nil
	case "ecdsa-sha1":
		return []*Node{OID("1.2.840.10045.4.1")}, nil
	case "sha256-rsa":
		return []*Node{OID("1.2.840.113549.1.1.11"), Null()}, nil
	case "sha1-rsa":
		return []*Node{OID("1.2.840.113549.1.1.5"), Null()}, nil
	case "md5-rsa":
		return []*Node{OID("1.2.840.113549.1.1.4"), Null()}, nil
	case "md2-rsa":
		return []*Node{OID("1.2.840.113549.1.1.2"), Null()}, nil
	case "rsa-pss-sha256":
		return []*Node{OID("1.2.840.113549.1.1.10"), pss("2.16.840.1.101.3.4.2.1", 32)}, nil
	case "rsa-pss-badparams":
		return []*Node{OID("1.2.840.113549.1.1.10"), Seq(Explicit(0, Int(5)), Explicit(2, Int(-1)))}, nil
	case "dsa-sha1":
		return []*Node{OID("1.2.840.10040.4.3")}, nil
	case "dsa-sha256":
		return []*Node{OID("2.16.840.1.101.3.4.3.2")}, nil
	case "unknown":
		return []*Node{OID("1.3.6.1.4.1.99999.8"), Null()}, nil
	}
	return nil, fmt.Errorf("dertree: unknown signature algorithm %q", name)
}
