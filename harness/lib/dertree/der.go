// Package dertree is the concretiser of the input model of spec/Inputs.tla: it turns a real
// seed (DER, a binary record layout, JSON) into a tree, resolves the node classes of the model
// on it, applies the model's mutation operators and serialises the result - deliberately able
// to produce encodings no well-behaved encoder emits (wrong lengths, huge length words,
// indefinite lengths, truncated output, ...).
//
// The package decides nothing about the property: which node classes exist, which operators
// apply to them and what a parser may do with the result is all in Inputs.tla.
package dertree

import (
	"errors"
	"fmt"
	"math/rand"
	"strconv"
	"strings"
)

// Node is one TLV of a DER tree.
type Node struct {
	Class       int // 0 universal, 1 application, 2 context, 3 private
	Tag         int
	Constructed bool
	Children    []*Node
	Content     []byte // primitive content (BIT STRING: including the unused-bits octet)
	// Wrapped: a primitive OCTET STRING / BIT STRING whose payload was re-parsed as DER into
	// Children; BitPrefix is the unused-bits octet of a wrapped BIT STRING.
	Wrapped   bool
	BitPrefix []byte
	Parent    *Node

	// encoding overrides (mutations)
	RawTag     []byte // identifier octets to emit instead of the computed ones
	LenMode    int    // lenNormal ...
	LenDelta   int
	RawLen     []byte // length octets to emit (lenRaw)
	RawContent []byte // content octets to emit instead of Content / Children
	Twice      bool   // emit the whole TLV twice (DupNode on the root)

	// offsets in the last serialisation
	Start, HdrEnd, End int
	hdr                []byte
	size               int
}

const (
	lenNormal = iota
	lenDelta
	lenRaw
	lenIndefinite
	lenLong // non-minimal: long form where the short form would do / one extra leading zero
	lenPad4 // non-minimal: four (or more) length octets with leading zeros
)

// Parse parses exactly one definite-length TLV covering all of der.
func Parse(der []byte) (*Node, error) {
	n, rest, err := parseOne(der, 0)
	if err != nil {
		return nil, err
	}
	if len(rest) != 0 {
		return nil, errors.New("dertree: trailing bytes after the outermost TLV")
	}
	return n, nil
}

// ParseAll parses a concatenation of TLVs.
func ParseAll(der []byte) ([]*Node, error) {
	var res []*Node
	for len(der) > 0 {
		n, rest, err := parseOne(der, 0)
		if err != nil {
			return nil, err
		}
		res = append(res, n)
		der = rest
	}
	return res, nil
}

func parseOne(b []byte, depth int) (*Node, []byte, error) {
	if depth > 200 {
		return nil, nil, errors.New("dertree: too deep")
	}
	if len(b) < 2 {
		return nil, nil, errors.New("dertree: short header")
	}
	n := &Node{Class: int(b[0] >> 6), Constructed: b[0]&0x20 != 0, Tag: int(b[0] & 0x1f)}
	i := 1
	if n.Tag == 0x1f {
		n.Tag = 0
		for {
			if i >= len(b) {
				return nil, nil, errors.New("dertree: short tag")
			}
			n.Tag = n.Tag<<7 | int(b[i]&0x7f)
			i++
			if b[i-1]&0x80 == 0 {
				break
			}
			if n.Tag > 1<<24 {
				return nil, nil, errors.New("dertree: tag too large")
			}
		}
	}
	if i >= len(b) {
		return nil, nil, errors.New("dertree: no length")
	}
	l := int(b[i])
	i++
	if l&0x80 != 0 {
		k := l & 0x7f
		if k == 0 || k > 4 || i+k > len(b) {
			return nil, nil, errors.New("dertree: unsupported length form")
		}
		l = 0
		for j := 0; j < k; j++ {
			l = l<<8 | int(b[i+j])
		}
		i += k
	}
	if i+l > len(b) {
		return nil, nil, errors.New("dertree: length exceeds data")
	}
	body := b[i : i+l]
	if n.Constructed {
		for len(body) > 0 {
			c, rest, err := parseOne(body, depth+1)
			if err != nil {
				return nil, nil, err
			}
			c.Parent = n
			n.Children = append(n.Children, c)
			body = rest
		}
	} else {
		n.Content = append([]byte{}, body...)
	}
	return n, b[i+l:], nil
}

// Unwrap re-parses the payload of a primitive OCTET STRING / BIT STRING (or any primitive node)
// as a concatenation of DER TLVs.  It returns false (and leaves n alone) if that fails.
func (n *Node) Unwrap() bool {
	if n.Wrapped {
		return true
	}
	if n.Constructed || len(n.Content) == 0 {
		return false
	}
	payload := n.Content
	var prefix []byte
	if n.Class == 0 && n.Tag == 3 {
		if len(payload) < 2 {
			return false
		}
		prefix = payload[:1]
		payload = payload[1:]
	}
	kids, err := ParseAll(payload)
	if err != nil || len(kids) == 0 {
		return false
	}
	for _, k := range kids {
		k.Parent = n
	}
	n.Children = kids
	n.Wrapped = true
	n.BitPrefix = append([]byte{}, prefix...)
	n.Content = nil
	return true
}

// Clone deep-copies the subtree (Parent of the copy's root is nil).
func (n *Node) Clone() *Node {
	c := *n
	c.Parent = nil
	c.Content = append([]byte(nil), n.Content...)
	c.BitPrefix = append([]byte(nil), n.BitPrefix...)
	c.RawTag = append([]byte(nil), n.RawTag...)
	c.RawLen = append([]byte(nil), n.RawLen...)
	c.RawContent = append([]byte(nil), n.RawContent...)
	c.Children = nil
	for _, k := range n.Children {
		kc := k.Clone()
		kc.Parent = &c
		c.Children = append(c.Children, kc)
	}
	return &c
}

func (n *Node) identifier() []byte {
	if n.RawTag != nil {
		return n.RawTag
	}
	b := byte(n.Class << 6)
	if n.Constructed {
		b |= 0x20
	}
	if n.Tag < 31 {
		return []byte{b | byte(n.Tag)}
	}
	out := []byte{b | 0x1f}
	var tmp []byte
	t := n.Tag
	for {
		tmp = append([]byte{byte(t & 0x7f)}, tmp...)
		t >>= 7
		if t == 0 {
			break
		}
	}
	for i := range tmp {
		if i != len(tmp)-1 {
			tmp[i] |= 0x80
		}
	}
	return append(out, tmp...)
}

// EncodeLength is the minimal DER length encoding.
func EncodeLength(l int) []byte {
	if l < 128 {
		return []byte{byte(l)}
	}
	var tmp []byte
	for x := l; x > 0; x >>= 8 {
		tmp = append([]byte{byte(x)}, tmp...)
	}
	return append([]byte{0x80 | byte(len(tmp))}, tmp...)
}

func (n *Node) lengthOctets(l int) []byte {
	switch n.LenMode {
	case lenDelta:
		l += n.LenDelta
		if l < 0 {
			l = 0
		}
		return EncodeLength(l)
	case lenRaw:
		return n.RawLen
	case lenIndefinite:
		return []byte{0x80}
	case lenLong:
		if l < 128 {
			return []byte{0x81, byte(l)}
		}
		e := EncodeLength(l)
		return append([]byte{e[0] + 1, 0}, e[1:]...)
	case lenPad4:
		return []byte{0x84, byte(l >> 24), byte(l >> 16), byte(l >> 8), byte(l)}
	}
	return EncodeLength(l)
}

func (n *Node) encode() []byte {
	var content []byte
	switch {
	case n.RawContent != nil:
		content = n.RawContent
	case n.Constructed || n.Wrapped:
		content = append(content, n.BitPrefix...)
		for _, k := range n.Children {
			content = append(content, k.encode()...)
		}
	default:
		content = n.Content
	}
	n.hdr = append(append([]byte{}, n.identifier()...), n.lengthOctets(len(content))...)
	out := append(append([]byte{}, n.hdr...), content...)
	if n.LenMode == lenIndefinite {
		out = append(out, 0, 0)
	}
	n.size = len(out)
	if n.Twice {
		out = append(out, out...)
	}
	return out
}

func (n *Node) assign(base int) {
	n.Start = base
	n.HdrEnd = base + len(n.hdr)
	n.End = base + n.size
	if n.RawContent != nil {
		return
	}
	off := n.HdrEnd + len(n.BitPrefix)
	if n.Constructed || n.Wrapped {
		for _, k := range n.Children {
			k.assign(off)
			off += k.size
			if k.Twice {
				off += k.size
			}
		}
	}
}

// Serialise encodes the tree and records the offsets of every node in the output.
func Serialise(root *Node) []byte {
	if root == nil {
		return nil
	}
	out := root.encode()
	root.assign(0)
	return out
}

// ---------------------------------------------------------------------------------------
// selector paths

func oidString(content []byte) string {
	if len(content) == 0 {
		return ""
	}
	var arcs []uint64
	var v uint64
	first := true
	for _, b := range content {
		v = v<<7 | uint64(b&0x7f)
		if b&0x80 == 0 {
			if first {
				switch {
				case v < 40:
					arcs = append(arcs, 0, v)
				case v < 80:
					arcs = append(arcs, 1, v-40)
				default:
					arcs = append(arcs, 2, v-80)
				}
				first = false
			} else {
				arcs = append(arcs, v)
			}
			v = 0
		}
	}
	s := make([]string, len(arcs))
	for i, a := range arcs {
		s[i] = strconv.FormatUint(a, 10)
	}
	return strings.Join(s, ".")
}

func (n *Node) isUniversal(tag int) bool { return n.Class == 0 && n.Tag == tag }

func (n *Node) descendants(acc *[]*Node) {
	for _, k := range n.Children {
		*acc = append(*acc, k)
		k.descendants(acc)
	}
}

// Resolve follows the selector steps of Inputs.tla from root.  A nil result with a nil error
// means "this seed has no such node" (the mutation is not applicable to the seed).
func Resolve(root *Node, path []string) *Node {
	n := root
	for _, st := range path {
		if n == nil {
			return nil
		}
		switch {
		case st == "w":
			if !n.Unwrap() {
				return nil
			}
			if len(n.Children) == 0 {
				return nil
			}
			n = n.Children[0]
			continue
		case st == "L":
			if len(n.Children) == 0 {
				return nil
			}
			n = n.Children[len(n.Children)-1]
		case st == "b":
			var f *Node
			for _, k := range n.Children {
				if k.isUniversal(1) {
					f = k
					break
				}
			}
			n = f
		case strings.HasPrefix(st, "x:"):
			want := st[2:]
			var f *Node
			for _, k := range n.Children {
				if len(k.Children) > 0 && k.Children[0].isUniversal(6) && oidString(k.Children[0].Content) == want {
					f = k
					break
				}
			}
			n = f
		case strings.HasPrefix(st, "d:"):
			var all []*Node
			n.descendants(&all)
			if len(all) == 0 {
				all = []*Node{n} // a primitive value: the node itself
			}
			switch st[2:] {
			case "first":
				n = all[0]
			case "last":
				n = all[len(all)-1]
			default:
				n = all[len(all)/2]
			}
		case st[0] == 'c':
			k, err := strconv.Atoi(st[1:])
			if err != nil {
				panic("dertree: bad step " + st)
			}
			var f *Node
			for _, c := range n.Children {
				if c.Class == 2 && c.Tag == k {
					f = c
					break
				}
			}
			n = f
		case st[0] == 'v':
			k, err := strconv.Atoi(st[1:])
			if err != nil {
				panic("dertree: bad step " + st)
			}
			kids := n.Children
			if len(kids) > 0 && kids[0].Class == 2 && kids[0].Tag == 0 {
				kids = kids[1:]
			}
			if k >= len(kids) {
				return nil
			}
			n = kids[k]
		default:
			k, err := strconv.Atoi(st)
			if err != nil {
				panic("dertree: bad step " + st)
			}
			if k >= len(n.Children) {
				return nil
			}
			n = n.Children[k]
		}
	}
	return n
}

// ---------------------------------------------------------------------------------------
// post-serialisation operators (Truncate, ByteNoise) shared by all encodings

// Post is an operator applied to the serialised bytes, addressed by the offsets of a node.
type Post struct {
	Op    string // "Truncate" | "ByteNoise"
	Arg   string
	Spans func() (start, hdrEnd, end int, longLen bool, multiTag bool)
}

// ApplyPost applies the post operators in order and returns the bytes and the number of bytes
// a final Truncate removed (0 if the last operator is not a Truncate).
func ApplyPost(out []byte, posts []Post, rng *rand.Rand) ([]byte, int) {
	cut := 0
	for _, p := range posts {
		start, hdrEnd, end, longLen, multiTag := p.Spans()
		if start > len(out) {
			start = len(out)
		}
		if hdrEnd > len(out) {
			hdrEnd = len(out)
		}
		if end > len(out) {
			end = len(out)
		}
		switch p.Op {
		case "Truncate":
			at := end
			switch p.Arg {
			case "in-tag":
				at = start
				if multiTag {
					at = start + 1
				}
			case "in-len":
				at = start + 1
				if multiTag {
					at = hdrEnd - 1
				}
				if longLen && hdrEnd-1 > at {
					at = hdrEnd - 1
				}
			case "in-body":
				at = hdrEnd + (end-hdrEnd)/2
			case "at-end":
				at = end
			}
			if at > len(out) {
				at = len(out)
			}
			cut = len(out) - at
			out = out[:at]
		case "ByteNoise":
			cut = 0
			k, _ := strconv.Atoi(p.Arg)
			if end > start {
				out = append([]byte{}, out...)
				for i := 0; i < k; i++ {
					pos := start + rng.Intn(end-start)
					switch rng.Intn(3) {
					case 0:
						out[pos] ^= 1 << uint(rng.Intn(8))
					case 1:
						out[pos] = byte(rng.Intn(256))
					default:
						out[pos] = []byte{0x00, 0xff, 0x80, 0x7f, 0x30, 0x31}[rng.Intn(6)]
					}
				}
			}
		}
	}
	return out, cut
}

func (n *Node) post(op, arg string) Post {
	return Post{Op: op, Arg: arg, Spans: func() (int, int, int, bool, bool) {
		idl := len(n.identifier())
		return n.Start, n.HdrEnd, n.End, n.HdrEnd-n.Start-idl > 1, idl > 1
	}}
}

// ---------------------------------------------------------------------------------------
// DER mutation operators

// ErrNA: the operator does not apply to this node of this seed.
var ErrNA = errors.New("not applicable")

// NestBytes returns depth nested SEQUENCE headers around inner, built in linear time.
func NestBytes(depth int, inner []byte, ident byte) []byte {
	lens := make([]int, depth+1)
	lens[0] = len(inner)
	for i := 1; i <= depth; i++ {
		lens[i] = 1 + len(EncodeLength(lens[i-1])) + lens[i-1]
	}
	out := make([]byte, 0, lens[depth])
	for i := depth; i >= 1; i-- {
		out = append(out, ident)
		out = append(out, EncodeLength(lens[i-1])...)
	}
	return append(out, inner...)
}

func (n *Node) contentBytes() []byte {
	if n.RawContent != nil {
		return n.RawContent
	}
	if n.Constructed || n.Wrapped {
		c := append([]byte{}, n.BitPrefix...)
		for _, k := range n.Children {
			c = append(c, k.encode()...)
		}
		return c
	}
	return n.Content
}

func (n *Node) index() int {
	if n.Parent == nil {
		return -1
	}
	for i, k := range n.Parent.Children {
		if k == n {
			return i
		}
	}
	return -1
}

func (n *Node) setChildren(kids ...*Node) {
	n.Children = kids
	for _, k := range kids {
		k.Parent = n
	}
	n.Content = nil
	n.RawContent = nil
}

// Mutation state of one DER artifact.
type DerArtifact struct {
	Root  *Node
	Gone  bool // the root was dropped: the output is empty
	Posts []Post
}

// ApplyDer applies one mutation of Inputs.tla to node t of the artifact.
func (a *DerArtifact) ApplyDer(t *Node, op, arg string, rng *rand.Rand) error {
	// a target resolved on the seed may have been detached by an earlier mutation of the program
	// (its ancestor dropped or replaced): the later mutation then has nothing to act on
	for n := t; n != nil; n = n.Parent {
		if n.Parent == nil {
			if n != a.Root {
				return ErrNA
			}
		} else if n.index() < 0 {
			return ErrNA
		}
	}
	switch op {
	case "Truncate", "ByteNoise":
		a.Posts = append(a.Posts, t.post(op, arg))
	case "LenPlus", "LenMinus":
		k, _ := strconv.Atoi(arg)
		if op == "LenMinus" {
			k = -k
		}
		t.LenMode, t.LenDelta = lenDelta, k
	case "LenHuge":
		t.LenMode = lenRaw
		switch arg {
		case "256m":
			t.RawLen = []byte{0x84, 0x10, 0x00, 0x00, 0x00}
		case "i32max":
			t.RawLen = []byte{0x84, 0x7f, 0xff, 0xff, 0xff}
		case "u32max":
			t.RawLen = []byte{0x84, 0xff, 0xff, 0xff, 0xff}
		case "i64max":
			t.RawLen = []byte{0x88, 0x7f, 0xff, 0xff, 0xff, 0xff, 0xff, 0xff, 0xff}
		default:
			t.RawLen = []byte{0x88, 0xff, 0xff, 0xff, 0xff, 0xff, 0xff, 0xff, 0xff}
		}
	case "LenNonMinimal":
		if arg == "long" {
			t.LenMode = lenLong
		} else {
			t.LenMode = lenPad4
		}
	case "CutLocal":
		// remove everything after the cut point inside every enclosing TLV (whose lengths are
		// recomputed); the node itself keeps claiming its original content length
		full := t.contentBytes()
		for n := t; n.Parent != nil; n = n.Parent {
			i := n.index()
			n.Parent.Children = append([]*Node{}, n.Parent.Children[:i+1]...)
		}
		switch arg {
		case "after-header":
			t.LenMode, t.RawLen = lenRaw, EncodeLength(len(full))
			t.Children, t.Content, t.BitPrefix, t.Wrapped, t.RawContent = nil, nil, nil, false, []byte{}
		case "in-body":
			t.LenMode, t.RawLen = lenRaw, EncodeLength(len(full))
			t.Children, t.Content, t.BitPrefix, t.Wrapped, t.RawContent = nil, nil, nil, false, append([]byte{}, full[:len(full)/2]...)
		}
	case "LenIndefinite":
		t.LenMode = lenIndefinite
	case "Retag":
		switch arg {
		case "universal":
			t.Class = 0
			switch {
			case t.Tag == 16:
				t.Tag = 17
			case t.Tag == 17:
				t.Tag = 16
			case t.Tag == 2:
				t.Tag = 4
			default:
				t.Tag = 2
			}
		case "context":
			t.Class, t.Tag = 2, 0
		case "contextprim":
			t.RawContent = t.contentBytes()
			t.Class, t.Tag, t.Constructed = 2, 0, false
		case "application":
			t.Class = 1
		case "high":
			t.Tag = 31
		default:
			b := byte(t.Class<<6) | 0x1f
			if t.Constructed {
				b |= 0x20
			}
			t.RawTag = []byte{b, 0xff, 0xff, 0xff, 0xff, 0x7f}
		}
	case "EmptyBody":
		t.Children, t.Content, t.RawContent, t.BitPrefix, t.Wrapped = nil, nil, []byte{}, nil, false
	case "DupNode":
		if t.Parent == nil {
			t.Twice = true
			break
		}
		i := t.index()
		c := t.Clone()
		c.Parent = t.Parent
		kids := append([]*Node{}, t.Parent.Children[:i+1]...)
		kids = append(kids, c)
		kids = append(kids, t.Parent.Children[i+1:]...)
		t.Parent.Children = kids
	case "DropNode":
		if t.Parent == nil {
			a.Gone = true
			break
		}
		i := t.index()
		t.Parent.Children = append(append([]*Node{}, t.Parent.Children[:i]...), t.Parent.Children[i+1:]...)
	case "SwapSiblings":
		if t.Parent == nil || len(t.Parent.Children) < 2 {
			break // nothing to swap with: the identity
		}
		i := t.index()
		j := i + 1
		if j >= len(t.Parent.Children) {
			j = i - 1
		}
		k := t.Parent.Children
		k[i], k[j] = k[j], k[i]
	case "NegInt":
		t.Children, t.RawContent = nil, nil
		if arg == "big" {
			t.Content = append([]byte{0x80}, make([]byte, 127)...)
		} else {
			t.Content = []byte{0xff}
		}
	case "ZeroInt":
		t.Children, t.RawContent = nil, nil
		t.Content = []byte{0}
	case "HugeInt":
		k, _ := strconv.Atoi(arg)
		c := make([]byte, k)
		for i := range c {
			c[i] = 0xff
		}
		c[0] = 0x7f
		t.Children, t.RawContent, t.Content = nil, nil, c
	case "Nest":
		d, _ := strconv.Atoi(arg)
		inner := t.contentBytes()
		t.RawContent = NestBytes(d, inner, 0x30)
		t.Constructed = true
		t.Wrapped = false
	case "SelfIssue":
		// issuer := subject, the name two fields after the issuer in TBSCertificate
		if t.Parent == nil {
			return ErrNA
		}
		i := t.index()
		if i+2 >= len(t.Parent.Children) {
			return ErrNA
		}
		s := t.Parent.Children[i+2].Clone()
		s.Parent = t.Parent
		t.Parent.Children[i] = s
	case "KeyShape":
		kids, err := KeyShape(arg)
		if err != nil {
			return err
		}
		t.setChildren(kids...)
	case "AlgMismatch":
		kids, err := SigAlgID(arg)
		if err != nil {
			return err
		}
		t.setChildren(kids...)
	case "TimeShape":
		t.Class, t.Constructed, t.Children, t.RawContent = 0, false, nil, nil
		switch arg {
		case "generalized":
			t.Tag, t.Content = 24, []byte("20250101000000Z")
		case "utc-nosec":
			t.Tag, t.Content = 23, []byte("2501010000Z")
		case "year0000":
			t.Tag, t.Content = 24, []byte("00000101000000Z")
		case "feb30":
			t.Tag, t.Content = 23, []byte("250230000000Z")
		case "offset":
			t.Tag, t.Content = 23, []byte("250101000000+0100")
		case "fraction":
			t.Tag, t.Content = 24, []byte("20250101000000.123Z")
		default:
			t.Content = []byte{}
		}
	case "BitsShape":
		c := t.contentBytes()
		t.Children, t.Wrapped, t.BitPrefix, t.RawContent = nil, false, nil, nil
		switch arg {
		case "unused8":
			if len(c) == 0 {
				c = []byte{0}
			}
			c = append([]byte{8}, c[1:]...)
		case "unused7":
			if len(c) == 0 {
				c = []byte{0}
			}
			c = append([]byte{7}, c[1:]...)
		case "zeros":
			// same length, every bit zero (a signature / key that is the integer 0)
			c = make([]byte, len(c))
		default:
			c = []byte{}
		}
		t.Content = c
		if len(c) == 0 {
			t.RawContent = []byte{}
		}
	case "OidShape":
		t.Children, t.RawContent = nil, nil
		switch arg {
		case "arc-huge":
			t.Content = []byte{0x2a, 0xff, 0xff, 0xff, 0xff, 0xff, 0xff, 0xff, 0xff, 0xff, 0xff, 0xff, 0x7f}
		case "lead80":
			t.Content = []byte{0x2a, 0x80, 0x01}
		case "unterminated":
			t.Content = []byte{0x2a, 0x86, 0x88}
		default:
			t.Content = []byte{0x7a, 0x01} // first arc 3
		}
	case "BoolShape":
		t.Children, t.RawContent = nil, nil
		if arg == "01" {
			t.Content = []byte{0x01}
		} else {
			t.Content = []byte{0xff, 0xff}
		}
	case "StrShape":
		t.Class, t.Constructed, t.Children, t.RawContent = 0, false, nil, nil
		switch arg {
		case "bmp-odd":
			t.Tag, t.Content = 30, []byte{0x00, 0x41, 0x00}
		case "utf8-bad":
			t.Tag, t.Content = 12, []byte{0xc3, 0x28, 0xff, 0xfe}
		case "printable-bad":
			t.Tag, t.Content = 19, []byte("a*b@c\x00")
		case "t61":
			t.Tag, t.Content = 20, []byte{0xe9, 0x80, 0xff}
		default:
			t.Tag, t.Content = 28, []byte{0x00, 0x11, 0xff}
		}
	default:
		return fmt.Errorf("dertree: unknown DER operator %q", op)
	}
	return nil
}

// Bytes serialises the artifact and applies the post operators.
func (a *DerArtifact) Bytes(rng *rand.Rand) ([]byte, int) {
	var out []byte
	if !a.Gone {
		out = Serialise(a.Root)
	}
	return ApplyPost(out, a.Posts, rng)
}
