package pki

import (
	"crypto/rand"
	stdx509 "crypto/x509"
	"crypto/x509/pkix"
	"encoding/asn1"
	"fmt"
	"math/big"
	"sync"
)

// HostCert is the abstract certificate of the hostname-verification specification
// (Hostname.tla): only what VerifyHostname looks at.  DNS names, e-mail names and IP
// addresses go into a hand-made subjectAltName extension byte for byte (the standard
// library would refuse non-IA5 names and would re-encode IPv4-mapped addresses in 4 bytes).
type HostCert struct {
	HasSAN bool     // subjectAltName extension present
	DNS    [][]byte // dNSName entries, verbatim
	IPs    [][]byte // iPAddress entries, verbatim (4 or 16 bytes for a well-formed certificate)
	Emails [][]byte // rfc822Name entries, verbatim
	CN     string   // subject common name ("" = no common name attribute); must be valid UTF-8
}

var hostSerial struct {
	sync.Mutex
	n int64
}

// SANExtension is the DER of a subjectAltName value with the given entries.
func SANExtension(h HostCert) ([]byte, error) {
	var names []asn1.RawValue
	for _, e := range h.Emails {
		names = append(names, asn1.RawValue{Class: asn1.ClassContextSpecific, Tag: 1, Bytes: e})
	}
	for _, d := range h.DNS {
		names = append(names, asn1.RawValue{Class: asn1.ClassContextSpecific, Tag: 2, Bytes: d})
	}
	for _, ip := range h.IPs {
		names = append(names, asn1.RawValue{Class: asn1.ClassContextSpecific, Tag: 7, Bytes: ip})
	}
	if len(names) == 0 {
		return []byte{0x30, 0x00}, nil
	}
	return asn1.Marshal(names)
}

// BuildHostCert returns the DER of a self-signed Ed25519 end-entity certificate with exactly
// the names of h, valid 2020-2088.
func BuildHostCert(h HostCert) ([]byte, error) {
	hostSerial.Lock()
	hostSerial.n++
	serial := hostSerial.n
	hostSerial.Unlock()
	t := &stdx509.Certificate{
		SerialNumber: big.NewInt(1<<32 + serial),
		Subject:      pkix.Name{Organization: []string{"verif"}, CommonName: h.CN},
		NotBefore:    At(0),
		NotAfter:     At(2145000000),
	}
	if h.HasSAN {
		v, err := SANExtension(h)
		if err != nil {
			return nil, err
		}
		t.ExtraExtensions = []pkix.Extension{{Id: asn1.ObjectIdentifier{2, 5, 29, 17}, Value: v}}
	} else if len(h.DNS)+len(h.IPs)+len(h.Emails) > 0 {
		return nil, fmt.Errorf("pki: host certificate without SAN extension cannot carry names")
	}
	k := Key("Khost")
	return stdx509.CreateCertificate(rand.Reader, t, t, k.Public(), k)
}
