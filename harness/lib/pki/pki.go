// Package pki concretises abstract certificates (records produced by TLC from PKI.tla and the
// modules built on it) into real DER, using only the Go standard library to create them so that
// the code under test (zcrypto) is never its own oracle.
//
// Abstract certificate (JSON):
//
//	{"id":"c1","subj":"N1","key":"K1","iss":"N2","skey":"K2","ca":true,"bc":true,"pathlen":-1,
//	 "nb":10,"na":20,"eku":["server"],"dns":["a.example"],"ips":["1.2.3.4"],"cn":"","nosan":false,
//	 "serial":7,"skid":"K1","akid":"K2","ku":0}
//
// subj/iss are abstract name ids; key/skey abstract key ids.  The certificate names `iss` as its
// issuer and is signed with `skey` (a "bad signature" is skey != the key of the intended issuer).
// Key id prefix selects the type: "K"/"E" Ed25519 (default, fast), "P" ECDSA P-256, "Q" ECDSA P-384,
// "R" RSA-2048.  Times are seconds after T0 = 2020-01-01T00:00:00Z.
// Optional "ver":1|2 makes an X.509 v1/v2 certificate (no extensions at all; default v3).
// The eku name "unk" is an extended key usage OID neither library has a name for.
package pki

import (
	"crypto"
	"crypto/ecdsa"
	"crypto/ed25519"
	"crypto/elliptic"
	"crypto/rand"
	"crypto/rsa"
	"crypto/sha256"
	"crypto/sha512"
	stdx509 "crypto/x509"
	"crypto/x509/pkix"
	"encoding/asn1"
	"fmt"
	"math/big"
	"net"
	"sync"
	"time"
)

var T0 = time.Date(2020, 1, 1, 0, 0, 0, 0, time.UTC)

// At converts an abstract time (seconds after T0) to a time.Time.
func At(n int) time.Time { return T0.Add(time.Duration(n) * time.Second) }

type Cert struct {
	ID      string   `json:"id"`
	Subj    string   `json:"subj"`
	Key     string   `json:"key"`
	Iss     string   `json:"iss"`
	SKey    string   `json:"skey"`
	CA      bool     `json:"ca"`
	BC      bool     `json:"bc"`
	PathLen int      `json:"pathlen"` // -1 = no limit
	NB      int      `json:"nb"`
	NA      int      `json:"na"`
	EKU     []string `json:"eku"`
	DNS     []string `json:"dns"`
	IPs     []string `json:"ips"`
	CN      string   `json:"cn"`    // overrides the common name (identity is still subj for Org)
	NoSAN   bool     `json:"nosan"` // informational
	Serial  int      `json:"serial"`
	SKID    string   `json:"skid"` // abstract key id whose hash is used as subjectKeyId ("" = none)
	AKID    string   `json:"akid"` // abstract key id whose hash is used as authorityKeyId ("" = none)
	KU      int      `json:"ku"`   // x509.KeyUsage bits, 0 = absent
	SigAlg  string   `json:"sigalg"`
	// Ver: X.509 version 1, 2 or 3 (0 = 3).  Versions 1 and 2 carry no extensions: every
	// extension-borne attribute (bc, ca, pathlen, eku, dns, ips, skid, akid, ku, extra) is dropped
	// and the TBSCertificate is re-signed with skey (see lowerVersion).
	Ver int `json:"ver"`
	// ExtraExt: raw extra extensions (oid dotted, critical, hex value) appended verbatim.
	Extra []Ext `json:"extra"`
}

type Ext struct {
	OID      []int  `json:"oid"`
	Critical bool   `json:"critical"`
	Value    []byte `json:"value"`
}

var (
	mu   sync.Mutex
	keys = map[string]crypto.Signer{}
	// Namespace lets a run derive different key material from VERIF_SEED.
	Namespace = "verif"
)

// Key returns the deterministic (per Namespace) private key for an abstract key id.
func Key(id string) crypto.Signer {
	mu.Lock()
	defer mu.Unlock()
	if k, ok := keys[id]; ok {
		return k
	}
	h := sha256.Sum256([]byte(Namespace + "/" + id))
	var k crypto.Signer
	switch {
	case len(id) > 0 && id[0] == 'P':
		k = ecKey(elliptic.P256(), h[:])
	case len(id) > 0 && id[0] == 'Q':
		k = ecKey(elliptic.P384(), h[:])
	case len(id) > 0 && id[0] == 'R':
		r, err := rsa.GenerateKey(rand.Reader, 2048)
		if err != nil {
			panic(err)
		}
		k = r
	default:
		k = ed25519.NewKeyFromSeed(h[:])
	}
	keys[id] = k
	return k
}

func ecKey(c elliptic.Curve, seed []byte) *ecdsa.PrivateKey {
	n := c.Params().N
	buf := make([]byte, 0, 64)
	for i := 0; len(buf) < (n.BitLen()+7)/8+8; i++ {
		h := sha256.Sum256(append(seed, byte(i)))
		buf = append(buf, h[:]...)
	}
	d := new(big.Int).SetBytes(buf)
	d.Mod(d, new(big.Int).Sub(n, big.NewInt(1)))
	d.Add(d, big.NewInt(1))
	x, y := c.ScalarBaseMult(d.Bytes())
	return &ecdsa.PrivateKey{PublicKey: ecdsa.PublicKey{Curve: c, X: x, Y: y}, D: d}
}

// KeyID is the byte string used for subject/authority key identifiers of an abstract key.
func KeyID(id string) []byte {
	h := sha256.Sum256([]byte("kid/" + id))
	return h[:8]
}

// Name is the distinguished name of an abstract name id.
func Name(id string) pkix.Name {
	return pkix.Name{Organization: []string{"verif"}, CommonName: id}
}

// RawName is the DER of Name(id).
func RawName(id string) []byte {
	b, err := asn1.Marshal(Name(id).ToRDNSequence())
	if err != nil {
		panic(err)
	}
	return b
}

var ekuNames = map[string]stdx509.ExtKeyUsage{
	"any": stdx509.ExtKeyUsageAny, "server": stdx509.ExtKeyUsageServerAuth, "client": stdx509.ExtKeyUsageClientAuth,
	"code": stdx509.ExtKeyUsageCodeSigning, "email": stdx509.ExtKeyUsageEmailProtection,
	"ocsp": stdx509.ExtKeyUsageOCSPSigning, "msgc": stdx509.ExtKeyUsageMicrosoftServerGatedCrypto,
	"nsgc": stdx509.ExtKeyUsageNetscapeServerGatedCrypto, "time": stdx509.ExtKeyUsageTimeStamping,
}

// Template builds the standard-library certificate template of an abstract certificate.
func Template(c Cert) *stdx509.Certificate {
	subj := Name(c.Subj)
	if c.CN != "" {
		subj.CommonName = c.CN
		subj.OrganizationalUnit = []string{c.Subj}
	}
	serial := c.Serial
	if serial == 0 {
		h := sha256.Sum256([]byte("serial/" + c.ID))
		serial = int(h[0])<<16 | int(h[1])<<8 | int(h[2]) | 1<<24
	}
	t := &stdx509.Certificate{
		SerialNumber:          big.NewInt(int64(serial)),
		Subject:               subj,
		NotBefore:             At(c.NB),
		NotAfter:              At(c.NA),
		BasicConstraintsValid: c.BC,
		IsCA:                  c.CA,
		KeyUsage:              stdx509.KeyUsage(c.KU),
		DNSNames:              c.DNS,
	}
	if c.BC && c.CA {
		if c.PathLen >= 0 {
			t.MaxPathLen = c.PathLen
			t.MaxPathLenZero = c.PathLen == 0
		} else {
			t.MaxPathLen = -1
		}
	} else {
		t.MaxPathLen = -1
	}
	for _, e := range c.EKU {
		if e == "unk" {
			// an extended key usage zcrypto/stdlib have no name for
			t.UnknownExtKeyUsage = append(t.UnknownExtKeyUsage, asn1.ObjectIdentifier{1, 3, 6, 1, 4, 1, 55555, 1, 1})
			continue
		}
		u, ok := ekuNames[e]
		if !ok {
			panic("pki: unknown eku " + e)
		}
		t.ExtKeyUsage = append(t.ExtKeyUsage, u)
	}
	for _, ip := range c.IPs {
		p := net.ParseIP(ip)
		if p == nil {
			panic("pki: bad ip " + ip)
		}
		t.IPAddresses = append(t.IPAddresses, p)
	}
	if c.SKID != "" {
		t.SubjectKeyId = KeyID(c.SKID)
	}
	if c.AKID != "" {
		t.AuthorityKeyId = KeyID(c.AKID)
	}
	for _, e := range c.Extra {
		t.ExtraExtensions = append(t.ExtraExtensions, pkix.Extension{Id: asn1.ObjectIdentifier(e.OID), Critical: e.Critical, Value: e.Value})
	}
	return t
}

// Build returns the DER of the abstract certificate: subject key c.Key, issuer name c.Iss,
// signed with c.SKey (whatever key the named issuer really has).
func Build(c Cert) ([]byte, error) {
	t := Template(c)
	signer := Key(c.SKey)
	// the "parent" only contributes its subject name, key id and (for the standard library's
	// post-signing self check) the public key of the signer actually used.
	parent := &stdx509.Certificate{
		Subject:      Name(c.Iss),
		RawSubject:   RawName(c.Iss),
		PublicKey:    signer.Public(),
		SubjectKeyId: t.AuthorityKeyId,
	}
	if c.AKID == "" {
		parent.SubjectKeyId = nil
	}
	if c.Iss == c.Subj && c.CN != "" {
		// self-issued with an overridden CN: issuer must equal the subject bytes
		b, err := asn1.Marshal(t.Subject.ToRDNSequence())
		if err != nil {
			return nil, err
		}
		parent.RawSubject = b
	}
	der, err := stdx509.CreateCertificate(rand.Reader, t, parent, Key(c.Key).Public(), signer)
	if err != nil {
		return nil, fmt.Errorf("pki: create %s: %w", c.ID, err)
	}
	if c.Ver == 1 || c.Ver == 2 {
		return lowerVersion(der, c.Ver, signer)
	}
	return der, nil
}

// lowerVersion rewrites a version-3 certificate made by the standard library into a version 1
// or 2 certificate: the extensions are removed, the version field is set and the TBSCertificate
// is signed again with the same signer and signature algorithm.
func lowerVersion(der []byte, ver int, signer crypto.Signer) ([]byte, error) {
	type tbs struct {
		Raw          asn1.RawContent
		Version      int `asn1:"optional,explicit,default:0,tag:0"`
		SerialNumber *big.Int
		SigAlg       pkix.AlgorithmIdentifier
		Issuer       asn1.RawValue
		Validity     asn1.RawValue
		Subject      asn1.RawValue
		SPKI         asn1.RawValue
		Extensions   asn1.RawValue `asn1:"optional,explicit,tag:3"`
	}
	type cert struct {
		TBS    tbs
		SigAlg pkix.AlgorithmIdentifier
		Sig    asn1.BitString
	}
	var in cert
	if rest, err := asn1.Unmarshal(der, &in); err != nil || len(rest) != 0 {
		return nil, fmt.Errorf("pki: lowerVersion: reparse: %v", err)
	}
	type tbsOut struct {
		Version      int `asn1:"optional,explicit,default:0,tag:0"`
		SerialNumber *big.Int
		SigAlg       pkix.AlgorithmIdentifier
		Issuer       asn1.RawValue
		Validity     asn1.RawValue
		Subject      asn1.RawValue
		SPKI         asn1.RawValue
	}
	out := tbsOut{Version: ver - 1, SerialNumber: in.TBS.SerialNumber, SigAlg: in.TBS.SigAlg,
		Issuer: in.TBS.Issuer, Validity: in.TBS.Validity, Subject: in.TBS.Subject, SPKI: in.TBS.SPKI}
	tb, err := asn1.Marshal(out)
	if err != nil {
		return nil, err
	}
	var sig []byte
	switch k := signer.(type) {
	case ed25519.PrivateKey:
		sig, err = k.Sign(rand.Reader, tb, crypto.Hash(0))
	case *ecdsa.PrivateKey:
		// the standard library picks SHA-256 for P-256 and SHA-384 for P-384
		if k.Curve == elliptic.P384() {
			h := sha512.Sum384(tb)
			sig, err = k.Sign(rand.Reader, h[:], crypto.SHA384)
		} else {
			h := sha256.Sum256(tb)
			sig, err = k.Sign(rand.Reader, h[:], crypto.SHA256)
		}
	case *rsa.PrivateKey:
		h := sha256.Sum256(tb)
		sig, err = k.Sign(rand.Reader, h[:], crypto.SHA256)
	default:
		return nil, fmt.Errorf("pki: lowerVersion: unsupported signer %T", signer)
	}
	if err != nil {
		return nil, err
	}
	return asn1.Marshal(struct {
		TBS    asn1.RawValue
		SigAlg pkix.AlgorithmIdentifier
		Sig    asn1.BitString
	}{asn1.RawValue{FullBytes: tb}, in.SigAlg, asn1.BitString{Bytes: sig, BitLength: 8 * len(sig)}})
}

// MustBuild panics on error (harness problem, not a verdict).
func MustBuild(c Cert) []byte {
	der, err := Build(c)
	if err != nil {
		panic(err)
	}
	return der
}

// Cache builds each distinct abstract certificate once.
type Cache struct {
	mu sync.Mutex
	m  map[string][]byte
}

func NewCache() *Cache { return &Cache{m: map[string][]byte{}} }

func (k *Cache) Get(c Cert) []byte {
	key := fmt.Sprintf("%+v", c)
	k.mu.Lock()
	der, ok := k.m[key]
	k.mu.Unlock()
	if ok {
		return der
	}
	der = MustBuild(c)
	k.mu.Lock()
	k.m[key] = der
	k.mu.Unlock()
	return der
}
