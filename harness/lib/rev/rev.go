// Package rev: concretisation helpers shared by the revocation harnesses (c13, c14, c15).
// Everything here is built with the Go standard library only, so that the code under test
// (zcrypto) is never used to produce its own inputs.
//
// Serial numbers travel as the content octets of their DER INTEGER (two's complement, big
// endian, minimal) because TLC integers are 32 bit.
package rev

import (
	"crypto"
	"crypto/rand"
	"crypto/sha256"
	stdx509 "crypto/x509"
	"crypto/x509/pkix"
	"encoding/asn1"
	"fmt"
	"math/big"
	"strconv"
	"strings"

	"verifharness/lib/pki"
)

// Bytes is a byte sequence that marshals to / from a JSON array of numbers (the form in which
// TLC prints a TLA+ sequence of naturals).
type Bytes []byte

func (b Bytes) MarshalJSON() ([]byte, error) {
	var sb strings.Builder
	sb.WriteByte('[')
	for i, x := range b {
		if i > 0 {
			sb.WriteByte(',')
		}
		sb.WriteString(strconv.Itoa(int(x)))
	}
	sb.WriteByte(']')
	return []byte(sb.String()), nil
}

func (b *Bytes) UnmarshalJSON(in []byte) error {
	s := strings.TrimSpace(string(in))
	if s == "null" {
		*b = nil
		return nil
	}
	if len(s) < 2 || s[0] != '[' || s[len(s)-1] != ']' {
		return fmt.Errorf("rev.Bytes: not an array: %s", s)
	}
	s = strings.TrimSpace(s[1 : len(s)-1])
	out := Bytes{}
	if s != "" {
		for _, f := range strings.Split(s, ",") {
			n, err := strconv.Atoi(strings.TrimSpace(f))
			if err != nil || n < 0 || n > 255 {
				return fmt.Errorf("rev.Bytes: bad element %q", f)
			}
			out = append(out, byte(n))
		}
	}
	*b = out
	return nil
}

// IntFromContent interprets DER INTEGER content octets (two's complement).
func IntFromContent(b []byte) *big.Int {
	if len(b) == 0 {
		panic("rev: empty INTEGER content")
	}
	n := new(big.Int).SetBytes(b)
	if b[0]&0x80 != 0 {
		n.Sub(n, new(big.Int).Lsh(big.NewInt(1), uint(8*len(b))))
	}
	return n
}

// ContentFromInt gives the minimal two's complement content octets of n.
func ContentFromInt(n *big.Int) Bytes {
	if n.Sign() == 0 {
		return Bytes{0}
	}
	if n.Sign() > 0 {
		b := n.Bytes()
		if b[0]&0x80 != 0 {
			b = append([]byte{0}, b...)
		}
		return b
	}
	// negative: smallest l with -2^(8l-1) <= n
	l := 1
	for {
		min := new(big.Int).Neg(new(big.Int).Lsh(big.NewInt(1), uint(8*l-1)))
		if n.Cmp(min) >= 0 {
			break
		}
		l++
	}
	m := new(big.Int).Add(n, new(big.Int).Lsh(big.NewInt(1), uint(8*l)))
	b := m.Bytes()
	for len(b) < l {
		b = append([]byte{0xff}, b...)
	}
	return b
}

// IsMinimal reports whether b is a minimal two's complement encoding.
func IsMinimal(b []byte) bool {
	if len(b) == 0 {
		return false
	}
	if len(b) == 1 {
		return true
	}
	if b[0] == 0 && b[1]&0x80 == 0 {
		return false
	}
	if b[0] == 0xff && b[1]&0x80 != 0 {
		return false
	}
	return true
}

// ---------------------------------------------------------------------------------------
// minimal DER walker (independent of zcrypto's and of encoding/asn1's struct mapping)

// TLV is one DER element located inside a buffer.
type TLV struct {
	Tag        byte // identifier octet (single-octet tags only)
	Start      int  // offset of the identifier octet
	HeaderLen  int
	ContentLen int
}

func (t TLV) ContentStart() int { return t.Start + t.HeaderLen }
func (t TLV) End() int          { return t.Start + t.HeaderLen + t.ContentLen }

// ReadTLV decodes the element starting at off.
func ReadTLV(b []byte, off int) (TLV, error) {
	if off+2 > len(b) {
		return TLV{}, fmt.Errorf("tlv: truncated at %d", off)
	}
	t := TLV{Tag: b[off], Start: off}
	if b[off]&0x1f == 0x1f {
		return TLV{}, fmt.Errorf("tlv: high tag number at %d", off)
	}
	l := int(b[off+1])
	if l < 0x80 {
		t.HeaderLen, t.ContentLen = 2, l
	} else {
		n := l & 0x7f
		if n == 0 || n > 3 || off+2+n > len(b) {
			return TLV{}, fmt.Errorf("tlv: bad length at %d", off)
		}
		v := 0
		for i := 0; i < n; i++ {
			v = v<<8 | int(b[off+2+i])
		}
		t.HeaderLen, t.ContentLen = 2+n, v
	}
	if t.End() > len(b) {
		return TLV{}, fmt.Errorf("tlv: element at %d overruns buffer", off)
	}
	return t, nil
}

// Children lists the elements inside a constructed element.
func Children(b []byte, parent TLV) ([]TLV, error) {
	var out []TLV
	off := parent.ContentStart()
	for off < parent.End() {
		t, err := ReadTLV(b, off)
		if err != nil {
			return nil, err
		}
		if t.End() > parent.End() {
			return nil, fmt.Errorf("tlv: child overruns parent at %d", off)
		}
		out = append(out, t)
		off = t.End()
	}
	return out, nil
}

// ---------------------------------------------------------------------------------------
// certificates with arbitrary (negative, wide) serial numbers

// CertSerialTLV locates the serialNumber INTEGER of a DER certificate.
func CertSerialTLV(der []byte) (TLV, error) {
	outer, err := ReadTLV(der, 0)
	if err != nil {
		return TLV{}, err
	}
	top, err := Children(der, outer)
	if err != nil || len(top) != 3 {
		return TLV{}, fmt.Errorf("cert: outer structure (%v)", err)
	}
	tbs, err := Children(der, top[0])
	if err != nil || len(tbs) < 2 {
		return TLV{}, fmt.Errorf("cert: tbs structure (%v)", err)
	}
	i := 0
	if tbs[0].Tag == 0xa0 {
		i = 1
	}
	if tbs[i].Tag != 0x02 {
		return TLV{}, fmt.Errorf("cert: serial tag %#x", tbs[i].Tag)
	}
	return tbs[i], nil
}

// CertSerialContent returns the serial's content octets as found in the DER.
func CertSerialContent(der []byte) (Bytes, error) {
	t, err := CertSerialTLV(der)
	if err != nil {
		return nil, err
	}
	return Bytes(der[t.ContentStart():t.End()]), nil
}

// CertWithSerial builds a certificate (subject subj with key `key`, issuer name iss, signed with
// skey) whose serialNumber has exactly the given content octets.  The standard library refuses
// negative serials, so for those a positive serial of the same width is issued and the first
// content octet is patched afterwards (the signature is then wrong, which none of the
// revocation lookups looks at).  The result is verified by re-reading the DER.
func CertWithSerial(subj, key, iss, skey string, serial []byte) []byte {
	if !IsMinimal(serial) {
		panic(fmt.Sprintf("rev: serial content %x is not minimal", serial))
	}
	issued := append([]byte{}, serial...)
	neg := serial[0]&0x80 != 0
	if neg {
		issued[0] = 0x7f
	}
	t := &stdx509.Certificate{
		SerialNumber: IntFromContent(issued),
		Subject:      pki.Name(subj),
		NotBefore:    pki.At(0),
		NotAfter:     pki.At(1000000),
	}
	signer := pki.Key(skey)
	parent := &stdx509.Certificate{Subject: pki.Name(iss), RawSubject: pki.RawName(iss), PublicKey: signer.Public()}
	der, err := stdx509.CreateCertificate(rand.Reader, t, parent, pki.Key(key).Public(), signer)
	if err != nil {
		panic(fmt.Sprintf("rev: create certificate: %v", err))
	}
	if neg {
		tlv, err := CertSerialTLV(der)
		if err != nil {
			panic(err)
		}
		der[tlv.ContentStart()] = serial[0]
	}
	got, err := CertSerialContent(der)
	if err != nil || string(got) != string(serial) {
		panic(fmt.Sprintf("rev: serial concretisation failed: want %x got %x (%v)", serial, got, err))
	}
	return der
}

// ---------------------------------------------------------------------------------------
// CRLs

// Entry of a CRL: serial content octets and revocation time (seconds after pki.T0).
type Entry struct {
	S Bytes `json:"s"`
	T int   `json:"t"`
}

// Ext is an extension given by dotted OID, criticality and raw value.
type Ext struct {
	OID  string `json:"oid"`
	Crit bool   `json:"crit"`
	Val  Bytes  `json:"val"`
}

// ParseOID parses a dotted OID.
func ParseOID(s string) asn1.ObjectIdentifier {
	var oid asn1.ObjectIdentifier
	for _, f := range strings.Split(s, ".") {
		n, err := strconv.Atoi(f)
		if err != nil {
			panic("rev: bad oid " + s)
		}
		oid = append(oid, n)
	}
	return oid
}

// CRL is the abstract CRL.
type CRL struct {
	Issuer     string // abstract name id; signed by key "K"+Issuer
	ThisUpdate int
	NextUpdate int // -1 = absent
	Entries    []Entry
	Exts       []Ext
}

var oidEd25519 = asn1.ObjectIdentifier{1, 3, 101, 112}

// BuildCRL encodes the CRL with encoding/asn1 and signs it with the issuer's Ed25519 key.
func BuildCRL(c CRL) []byte {
	tbs := pkix.TBSCertificateList{
		Version:    1,
		Signature:  pkix.AlgorithmIdentifier{Algorithm: oidEd25519},
		Issuer:     pki.Name(c.Issuer).ToRDNSequence(),
		ThisUpdate: pki.At(c.ThisUpdate),
	}
	if c.NextUpdate >= 0 {
		tbs.NextUpdate = pki.At(c.NextUpdate)
	}
	for _, e := range c.Entries {
		if !IsMinimal(e.S) {
			panic(fmt.Sprintf("rev: entry serial %x not minimal", []byte(e.S)))
		}
		tbs.RevokedCertificates = append(tbs.RevokedCertificates, pkix.RevokedCertificate{
			SerialNumber: IntFromContent(e.S), RevocationTime: pki.At(e.T)})
	}
	for _, x := range c.Exts {
		tbs.Extensions = append(tbs.Extensions, pkix.Extension{Id: ParseOID(x.OID), Critical: x.Crit, Value: x.Val})
	}
	raw, err := asn1.Marshal(tbs)
	if err != nil {
		panic(fmt.Sprintf("rev: marshal tbsCertList: %v", err))
	}
	tbs.Raw = raw
	sig, err := pki.Key("K"+c.Issuer).Sign(rand.Reader, raw, crypto.Hash(0))
	if err != nil {
		panic(err)
	}
	der, err := asn1.Marshal(pkix.CertificateList{TBSCertList: tbs,
		SignatureAlgorithm: pkix.AlgorithmIdentifier{Algorithm: oidEd25519},
		SignatureValue:     asn1.BitString{Bytes: sig, BitLength: 8 * len(sig)}})
	if err != nil {
		panic(fmt.Sprintf("rev: marshal CRL: %v", err))
	}
	return der
}

// CRLEntriesFromDER re-reads the (serial content, time) list of a DER CRL with the TLV walker and
// the standard library's time parser - the abstraction function used to check BuildCRL.
func CRLEntriesFromDER(der []byte) ([]Entry, error) {
	var cl pkix.CertificateList
	if rest, err := asn1.Unmarshal(der, &cl); err != nil || len(rest) != 0 {
		return nil, fmt.Errorf("rev: std parse of CRL: %v", err)
	}
	var out []Entry
	for _, rc := range cl.TBSCertList.RevokedCertificates {
		out = append(out, Entry{S: ContentFromInt(rc.SerialNumber), T: int(rc.RevocationTime.Sub(pki.T0).Seconds())})
	}
	return out, nil
}

// SPKIHash is SHA-256 of the DER SubjectPublicKeyInfo of an abstract key.
func SPKIHash(key string) [32]byte {
	der, err := stdx509.MarshalPKIXPublicKey(pki.Key(key).Public())
	if err != nil {
		panic(err)
	}
	return sha256.Sum256(der)
}
