package rev

// Interpreter of the symbolic byte terms emitted by RevSets.tla (section 3 of that module).
// The *layout* (order, widths, endianness, which hash of which key goes where) is decided by the
// specification; this file only gives the primitive symbols their meaning, with the standard
// library.
//
//	byte terms:  ["lit",[..]] ["ascii","s"] ["cat",[t..]] ["u8",n] ["u32le",n] ["u64le",n]
//	             ["u8len",t] ["u16le_len",t] ["u32le_len",t] ["spki256",key] ["name",id]
//	             ["cert",{iname,ikey,serial,subj,skey}] ["json",j]
//	json terms:  ["obj",[[k,j]..]] ["arr",[j..]] ["str",s] ["num",n] ["numstr","digits"]
//	             ["bool",b] ["b64",t]

import (
	"bytes"
	"encoding/base64"
	"encoding/binary"
	"encoding/json"
	"fmt"
	"strconv"

	"verifharness/lib/pki"
)

func tag(t any) (string, []any) {
	a, ok := t.([]any)
	if !ok || len(a) != 2 {
		panic(fmt.Sprintf("term: not a [tag, arg] pair: %v", t))
	}
	s, ok := a[0].(string)
	if !ok {
		panic(fmt.Sprintf("term: tag is not a string: %v", a[0]))
	}
	return s, a
}

func num(x any) uint64 {
	f, ok := x.(float64)
	if !ok || f < 0 || f != float64(uint64(f)) {
		panic(fmt.Sprintf("term: not a natural number: %v", x))
	}
	return uint64(f)
}

func byteList(x any) []byte {
	a, ok := x.([]any)
	if !ok {
		panic(fmt.Sprintf("term: not a byte list: %v", x))
	}
	out := make([]byte, len(a))
	for i, e := range a {
		n := num(e)
		if n > 255 {
			panic("term: byte out of range")
		}
		out[i] = byte(n)
	}
	return out
}

var certDER = map[string][]byte{}

// CertOf builds (once) the certificate described by a ["cert", {...}] record.
func CertOf(rec map[string]any) []byte {
	iname, _ := rec["iname"].(string)
	ikey, _ := rec["ikey"].(string)
	subj, _ := rec["subj"].(string)
	skey, _ := rec["skey"].(string)
	serial := byteList(rec["serial"])
	k := fmt.Sprintf("%s/%s/%x/%s/%s", iname, ikey, serial, subj, skey)
	if d, ok := certDER[k]; ok {
		return d
	}
	d := CertWithSerial(subj, skey, iname, ikey, serial)
	certDER[k] = d
	return d
}

// EvalBytes evaluates a byte-valued term.
func EvalBytes(t any) []byte {
	name, a := tag(t)
	switch name {
	case "lit":
		return byteList(a[1])
	case "ascii":
		return []byte(a[1].(string))
	case "cat":
		var out []byte
		for _, x := range a[1].([]any) {
			out = append(out, EvalBytes(x)...)
		}
		return out
	case "u8":
		n := num(a[1])
		if n > 0xff {
			panic("term: u8 overflow")
		}
		return []byte{byte(n)}
	case "u32le":
		n := num(a[1])
		if n > 0xffffffff {
			panic("term: u32 overflow")
		}
		return binary.LittleEndian.AppendUint32(nil, uint32(n))
	case "u64le":
		return binary.LittleEndian.AppendUint64(nil, num(a[1]))
	case "u8len":
		n := len(EvalBytes(a[1]))
		if n > 0xff {
			panic("term: u8len overflow")
		}
		return []byte{byte(n)}
	case "u16le_len":
		n := len(EvalBytes(a[1]))
		if n > 0xffff {
			panic("term: u16le_len overflow")
		}
		return binary.LittleEndian.AppendUint16(nil, uint16(n))
	case "u32le_len":
		return binary.LittleEndian.AppendUint32(nil, uint32(len(EvalBytes(a[1]))))
	case "spki256":
		h := SPKIHash(a[1].(string))
		return h[:]
	case "name":
		return pki.RawName(a[1].(string))
	case "cert":
		return CertOf(a[1].(map[string]any))
	case "json":
		var b bytes.Buffer
		evalJSON(&b, a[1])
		return b.Bytes()
	}
	panic("term: unknown byte term " + name)
}

func evalJSON(b *bytes.Buffer, j any) {
	name, a := tag(j)
	switch name {
	case "obj":
		b.WriteByte('{')
		for i, kv := range a[1].([]any) {
			p := kv.([]any)
			if i > 0 {
				b.WriteByte(',')
			}
			k, _ := json.Marshal(p[0].(string))
			b.Write(k)
			b.WriteByte(':')
			evalJSON(b, p[1])
		}
		b.WriteByte('}')
	case "arr":
		b.WriteByte('[')
		for i, x := range a[1].([]any) {
			if i > 0 {
				b.WriteByte(',')
			}
			evalJSON(b, x)
		}
		b.WriteByte(']')
	case "str":
		s, _ := json.Marshal(a[1].(string))
		b.Write(s)
	case "num":
		b.WriteString(strconv.FormatUint(num(a[1]), 10))
	case "numstr":
		s := a[1].(string)
		for _, c := range s {
			if c < '0' || c > '9' {
				panic("term: numstr")
			}
		}
		b.WriteString(s)
	case "bool":
		if a[1].(bool) {
			b.WriteString("true")
		} else {
			b.WriteString("false")
		}
	case "b64":
		s, _ := json.Marshal(base64.StdEncoding.EncodeToString(EvalBytes(a[1])))
		b.Write(s)
	default:
		panic("term: unknown json term " + name)
	}
}
