package tlsh

import (
	"crypto"
	"crypto/ecdsa"
	"crypto/ed25519"
	stdrsa "crypto/rsa"
	stdx509 "crypto/x509"
	"fmt"
	"math/big"
	"sync"
	"time"

	zrsa "github.com/zmap/zcrypto/rsa"
	"github.com/zmap/zcrypto/tls"
	"github.com/zmap/zcrypto/x509"
	"verifharness/lib/pki"
)

// EP is the abstract endpoint configuration; the same record is the argument of Negotiate in
// spec/TLSHandshake.tla (versions are 10..13, suites and curves are the IANA numbers).
type EP struct {
	Min     int      `json:"min"`
	Max     int      `json:"max"`
	Suites  []int    `json:"suites"`  // Config.CipherSuites; empty = nil = defaults
	Prefer  bool     `json:"prefer"`  // server: PreferServerCipherSuites
	Alpn    []string `json:"alpn"`    // NextProtos
	Curves  []int    `json:"curves"`  // CurvePreferences; empty = defaults
	Tickets bool     `json:"tickets"` // client: ClientSessionCache set; server: tickets not disabled
	Force   bool     `json:"force"`   // client: ForceSuites
	Key     string   `json:"key"`     // server: key type of the certificate "R" "P" "Q" "E"
	Auth    int      `json:"auth"`    // server: ClientAuthType 0..4
}

// Case is one abstract experiment.  Which fields matter depends on the property.
type Case struct {
	ID    int    `json:"id"`
	C     EP     `json:"c"`
	S     EP     `json:"s"`
	Down  int    `json:"down"`  // C24: the adversary caps the ClientHello at this version (0: none)
	Scen  string `json:"scen"`  // C27: server authentication scenario ("" = Trusted)
	CScen string `json:"cscen"` // C27: client certificate scenario ("" = NoClientCert)
	CKey  string `json:"ckey"`  // C27: client key type ("" = "E")
	CAs   string `json:"cas"`   // C27: the server's ClientCAs: "" / "with" (pool with the client's root), "without" (pool with another root), "empty" (empty pool), "nil"
}

var versMap = map[int]uint16{10: tls.VersionTLS10, 11: tls.VersionTLS11, 12: tls.VersionTLS12, 13: tls.VersionTLS13}

// AbsVers maps a wire version to 10..13 (0 if unknown).
func AbsVers(v uint16) int {
	for a, w := range versMap {
		if w == v {
			return a
		}
	}
	return 0
}

// Abstract times (seconds after pki.T0).
const (
	TNow      = 1500
	TExpired  = 2500
	TTooEarly = 500
	leafNB    = 1000
	leafNA    = 2000
)

const ServerName = "srv.example"

var (
	certCache = pki.NewCache()
	keyMu     sync.Mutex
	zkeys     = map[string]crypto.PrivateKey{}
)

// PrivKey returns the private key object zcrypto/tls expects for an abstract key id (RSA keys
// are converted to zcrypto's rsa.PrivateKey; the key material comes from lib/pki).
func PrivKey(id string) crypto.PrivateKey {
	keyMu.Lock()
	defer keyMu.Unlock()
	if k, ok := zkeys[id]; ok {
		return k
	}
	var out crypto.PrivateKey
	switch k := pki.Key(id).(type) {
	case *stdrsa.PrivateKey:
		z := &zrsa.PrivateKey{PublicKey: zrsa.PublicKey{N: k.N, E: big.NewInt(int64(k.E))}, D: k.D, Primes: k.Primes}
		z.Precompute()
		out = z
	case *ecdsa.PrivateKey:
		out = k
	case ed25519.PrivateKey:
		out = k
	default:
		panic(fmt.Sprintf("tlsh: unexpected key type %T", k))
	}
	zkeys[id] = out
	return out
}

func rootCert(name string) pki.Cert {
	return pki.Cert{ID: "root" + name, Subj: "Root" + name, Key: "K_root" + name, Iss: "Root" + name, SKey: "K_root" + name,
		CA: true, BC: true, PathLen: -1, NB: 0, NA: 100000, SKID: "K_root" + name, KU: int(stdx509.KeyUsageCertSign)}
}

func interCert(name string) pki.Cert {
	return pki.Cert{ID: "int" + name, Subj: "Int" + name, Key: "K_int" + name, Iss: "Root" + name, SKey: "K_root" + name,
		CA: true, BC: true, PathLen: 0, NB: 0, NA: 100000, SKID: "K_int" + name, AKID: "K_root" + name, KU: int(stdx509.KeyUsageCertSign)}
}

// PKI holds the concrete objects of one case.
type PKI struct {
	ServerChain [][]byte
	ServerKey   crypto.PrivateKey
	ClientRoots [][]byte // DER of the roots the client trusts
	ClientName  string   // Config.ServerName of the client
	Time        int      // abstract time of both configurations
	ClientChain [][]byte
	ClientKey   crypto.PrivateKey
	ServerCAs   [][]byte // DER of the roots the server trusts for client certificates
	NilCAs      bool     // Config.ClientCAs is left nil (nothing configured; the system pool of this sandbox holds none of the harness roots)
	// what the scenario is supposed to be, re-derived from the real objects with the standard
	// library (rule 2); filled by Check.
}

// ServerScenarios / ClientScenarios are the C27 vocabularies that only change the PKI or the keys
// (the wire-corruption scenarios are applied by the transport filter of the harness).
var pkiServerScen = map[string]bool{"": true, "Trusted": true, "UntrustedRoot": true, "Expired": true, "NotYetValid": true,
	"WrongName": true, "WrongKey": true, "BadLeafSig": true,
	"NameIP4Listed": true, "NameIP4Unlisted": true, "NameIP6BracketListed": true, "NameIP6BracketUnlisted": true,
	"NameIP6ZoneListed": true, "NameDNSTrailingDot": true,
	"CorruptSKXSig": true, "CorruptSKXParams": true, "CorruptServerFinished": true, "CorruptClientFinished": true, "CorruptClientCV": true,
	"SigEmpty": true, "SigShort": true, "SigLong": true}

// BuildPKI concretises the certificates and keys of a case.
func BuildPKI(cs Case) (*PKI, error) {
	if !pkiServerScen[cs.Scen] {
		return nil, fmt.Errorf("tlsh: unknown scenario %q", cs.Scen)
	}
	p := &PKI{Time: TNow, ClientName: ServerName}
	kt := cs.S.Key
	if kt == "" {
		kt = "E"
	}
	leafKey := kt + "_srv"
	leaf := pki.Cert{ID: "leaf-" + kt, Subj: "Srv", Key: leafKey, Iss: "IntA", SKey: "K_intA", NB: leafNB, NA: leafNA,
		DNS: []string{ServerName}, IPs: []string{"192.0.2.7", "2001:db8::7", "fe80::7"}, EKU: []string{"server"}, AKID: "K_intA",
		KU: int(stdx509.KeyUsageDigitalSignature | stdx509.KeyUsageKeyEncipherment)}
	chainInter := interCert("A")
	p.ServerKey = PrivKey(leafKey)
	switch cs.Scen {
	case "UntrustedRoot":
		leaf.ID, leaf.Iss, leaf.SKey, leaf.AKID = "leafB-"+kt, "IntB", "K_intB", "K_intB"
		chainInter = interCert("B")
	case "Expired":
		p.Time = TExpired
	case "NotYetValid":
		p.Time = TTooEarly
	case "WrongName":
		p.ClientName = "other.example"
	// server-name classes: the configured name is an IP literal (never sent as SNI), listed or not
	// among the certificate's IP SANs, bracketed, or carrying a zone
	case "NameIP4Listed":
		p.ClientName = "192.0.2.7"
	case "NameIP4Unlisted":
		p.ClientName = "192.0.2.9"
	case "NameIP6BracketListed":
		p.ClientName = "[2001:db8::7]"
	case "NameIP6BracketUnlisted":
		p.ClientName = "[2001:db8::9]"
	case "NameIP6ZoneListed":
		p.ClientName = "fe80::7%eth0"
	case "NameDNSTrailingDot":
		p.ClientName = ServerName + "."
	case "WrongKey":
		p.ServerKey = PrivKey(kt + "_srv2")
	case "BadLeafSig":
		leaf.ID, leaf.SKey = "leafbad-"+kt, "K_rogue"
	}
	p.ServerChain = [][]byte{certCache.Get(leaf), certCache.Get(chainInter)}
	p.ClientRoots = [][]byte{certCache.Get(rootCert("A"))}
	switch cs.CAs {
	case "", "with":
		p.ServerCAs = [][]byte{certCache.Get(rootCert("A"))}
	case "without":
		p.ServerCAs = [][]byte{certCache.Get(rootCert("B"))}
	case "empty":
		p.ServerCAs = [][]byte{}
	case "nil":
		p.ServerCAs, p.NilCAs = [][]byte{}, true
	default:
		return nil, fmt.Errorf("tlsh: unknown ClientCAs class %q", cs.CAs)
	}

	ck := cs.CKey
	if ck == "" {
		ck = "E"
	}
	// the client leaf is valid at every scenario time; only ClientExpired narrows it
	cleaf := pki.Cert{ID: "cli-" + ck, Subj: "Cli", Key: ck + "_cli", Iss: "IntA", SKey: "K_intA", NB: 10, NA: 90000,
		DNS: []string{"cli.example"}, EKU: []string{"client"}, AKID: "K_intA", KU: int(stdx509.KeyUsageDigitalSignature)}
	cinter := interCert("A")
	switch cs.CScen {
	case "", "NoClientCert":
	case "ClientTrusted", "CorruptClientCV", "ClientSigEmpty", "ClientSigShort", "ClientSigLong":
		p.ClientKey = PrivKey(ck + "_cli")
	case "ClientUntrusted":
		cleaf.ID, cleaf.Iss, cleaf.SKey, cleaf.AKID = "cliB-"+ck, "IntB", "K_intB", "K_intB"
		cinter = interCert("B")
		p.ClientKey = PrivKey(ck + "_cli")
	case "ClientExpired":
		cleaf.ID, cleaf.NB, cleaf.NA = "cliold-"+ck, 100, 200
		p.ClientKey = PrivKey(ck + "_cli")
	case "ClientWrongKey":
		p.ClientKey = PrivKey(ck + "_cli2")
	case "ClientServerEKU":
		cleaf.ID, cleaf.EKU = "cliS-"+ck, []string{"server"}
		p.ClientKey = PrivKey(ck + "_cli")
	default:
		return nil, fmt.Errorf("tlsh: unknown client scenario %q", cs.CScen)
	}
	if p.ClientKey != nil {
		p.ClientChain = [][]byte{certCache.Get(cleaf), certCache.Get(cinter)}
	}
	return p, nil
}

// StdVerdict re-derives, with the Go standard library only, what the PKI of the case amounts to
// (abstraction-back check of the concretiser): whether the server chain verifies to the client's
// roots for the client's name at the configured time, whether the configured server key matches
// the leaf, and the same for the client chain against the server's roots.
type StdVerdict struct {
	ServerChainOK bool   `json:"server_chain_ok"`
	ServerWhy     string `json:"server_why"`
	ServerKeyOK   bool   `json:"server_key_ok"`
	ClientSent    bool   `json:"client_sent"`
	ClientChainOK bool   `json:"client_chain_ok"`
	ClientKeyOK   bool   `json:"client_key_ok"`
}

func pubEqual(priv crypto.PrivateKey, pub crypto.PublicKey) bool {
	switch k := priv.(type) {
	case *zrsa.PrivateKey:
		p, ok := pub.(*stdrsa.PublicKey)
		return ok && p.N.Cmp(k.N) == 0 && big.NewInt(int64(p.E)).Cmp(k.E) == 0
	case *ecdsa.PrivateKey:
		p, ok := pub.(*ecdsa.PublicKey)
		return ok && p.X.Cmp(k.X) == 0 && p.Y.Cmp(k.Y) == 0
	case ed25519.PrivateKey:
		p, ok := pub.(ed25519.PublicKey)
		return ok && p.Equal(k.Public())
	}
	return false
}

func stdVerify(chain [][]byte, roots [][]byte, name string, at time.Time, eku stdx509.ExtKeyUsage) (bool, string, crypto.PublicKey) {
	if len(chain) == 0 {
		return false, "no-chain", nil
	}
	leaf, err := stdx509.ParseCertificate(chain[0])
	if err != nil {
		return false, "parse", nil
	}
	rp, ip := stdx509.NewCertPool(), stdx509.NewCertPool()
	for _, r := range roots {
		c, err := stdx509.ParseCertificate(r)
		if err != nil {
			return false, "parse-root", nil
		}
		rp.AddCert(c)
	}
	for _, i := range chain[1:] {
		c, err := stdx509.ParseCertificate(i)
		if err != nil {
			return false, "parse-inter", nil
		}
		ip.AddCert(c)
	}
	_, err = leaf.Verify(stdx509.VerifyOptions{Roots: rp, Intermediates: ip, DNSName: name, CurrentTime: at, KeyUsages: []stdx509.ExtKeyUsage{eku}})
	if err != nil {
		return false, fmt.Sprintf("%T", err), leaf.PublicKey
	}
	return true, "", leaf.PublicKey
}

func (p *PKI) Std() StdVerdict {
	var v StdVerdict
	var pub crypto.PublicKey
	v.ServerChainOK, v.ServerWhy, pub = stdVerify(p.ServerChain, p.ClientRoots, p.ClientName, pki.At(p.Time), stdx509.ExtKeyUsageServerAuth)
	v.ServerKeyOK = pub != nil && pubEqual(p.ServerKey, pub)
	if p.ClientKey != nil {
		v.ClientSent = true
		v.ClientChainOK, _, pub = stdVerify(p.ClientChain, p.ServerCAs, "", pki.At(p.Time), stdx509.ExtKeyUsageClientAuth)
		v.ClientKeyOK = pub != nil && pubEqual(p.ClientKey, pub)
	}
	return v
}

func u16s(xs []int) []uint16 {
	if len(xs) == 0 {
		return nil
	}
	out := make([]uint16, len(xs))
	for i, x := range xs {
		out[i] = uint16(x)
	}
	return out
}

func curveIDs(xs []int) []tls.CurveID {
	if len(xs) == 0 {
		return nil
	}
	out := make([]tls.CurveID, len(xs))
	for i, x := range xs {
		out[i] = tls.CurveID(x)
	}
	return out
}

func pool(ders [][]byte) *x509.CertPool {
	p := x509.NewCertPool()
	for _, d := range ders {
		c, err := x509.ParseCertificate(d)
		if err != nil {
			panic("tlsh: zcrypto cannot parse a harness root: " + err.Error())
		}
		p.AddCert(c)
	}
	return p
}

// Built is a concretised case.
type Built struct {
	Case   Case
	PKI    *PKI
	Client *tls.Config
	Server *tls.Config
	Cache  tls.ClientSessionCache
}

// Build concretises a case into two tls.Config values and checks that the abstract
// configuration can be read back from them.
func Build(cs Case, verifyServer bool) (*Built, error) {
	p, err := BuildPKI(cs)
	if err != nil {
		return nil, err
	}
	now := pki.At(p.Time)
	cc := &tls.Config{
		Time:               func() time.Time { return now },
		MinVersion:         versMap[cs.C.Min],
		MaxVersion:         versMap[cs.C.Max],
		CipherSuites:       u16s(cs.C.Suites),
		NextProtos:         append([]string(nil), cs.C.Alpn...),
		CurvePreferences:   curveIDs(cs.C.Curves),
		ForceSuites:        cs.C.Force,
		ServerName:         p.ClientName,
		RootCAs:            pool(p.ClientRoots),
		InsecureSkipVerify: !verifyServer,
	}
	b := &Built{Case: cs, PKI: p, Client: cc}
	if cs.C.Tickets {
		b.Cache = tls.NewLRUClientSessionCache(4)
		cc.ClientSessionCache = b.Cache
	}
	if p.ClientKey != nil {
		cert := tls.Certificate{Certificate: p.ClientChain, PrivateKey: p.ClientKey}
		cc.GetClientCertificate = func(*tls.CertificateRequestInfo) (*tls.Certificate, error) { return &cert, nil }
	}
	sc := &tls.Config{
		Time:                     func() time.Time { return now },
		MinVersion:               versMap[cs.S.Min],
		MaxVersion:               versMap[cs.S.Max],
		CipherSuites:             u16s(cs.S.Suites),
		PreferServerCipherSuites: cs.S.Prefer,
		NextProtos:               append([]string(nil), cs.S.Alpn...),
		CurvePreferences:         curveIDs(cs.S.Curves),
		SessionTicketsDisabled:   !cs.S.Tickets,
		ClientAuth:               tls.ClientAuthType(cs.S.Auth),
		ClientCAs:                pool(p.ServerCAs),
		Certificates:             []tls.Certificate{{Certificate: p.ServerChain, PrivateKey: p.ServerKey}},
	}
	if p.NilCAs {
		sc.ClientCAs = nil
	}
	b.Server = sc
	if err := b.readBack(); err != nil {
		return nil, err
	}
	return b, nil
}

// readBack re-derives the abstract record from the concrete configurations (rule 2).
func (b *Built) readBack() error {
	back := func(c *tls.Config, isClient bool) EP {
		e := EP{Min: AbsVers(c.MinVersion), Max: AbsVers(c.MaxVersion), Prefer: c.PreferServerCipherSuites, Force: c.ForceSuites}
		for _, s := range c.CipherSuites {
			e.Suites = append(e.Suites, int(s))
		}
		e.Alpn = append(e.Alpn, c.NextProtos...)
		for _, s := range c.CurvePreferences {
			e.Curves = append(e.Curves, int(s))
		}
		if isClient {
			e.Tickets = c.ClientSessionCache != nil && !c.SessionTicketsDisabled
		} else {
			e.Tickets = !c.SessionTicketsDisabled
			e.Auth = int(c.ClientAuth)
			leaf, err := stdx509.ParseCertificate(c.Certificates[0].Certificate[0])
			if err == nil {
				switch k := leaf.PublicKey.(type) {
				case *stdrsa.PublicKey:
					e.Key = "R"
				case *ecdsa.PublicKey:
					if k.Curve.Params().BitSize == 256 {
						e.Key = "P"
					} else {
						e.Key = "Q"
					}
				case ed25519.PublicKey:
					e.Key = "E"
				}
			}
		}
		return e
	}
	want := b.Case.C
	want.Prefer, want.Key, want.Auth = false, "", 0
	got := back(b.Client, true)
	if fmt.Sprintf("%+v", normEP(want)) != fmt.Sprintf("%+v", normEP(got)) {
		return fmt.Errorf("tlsh: client configuration does not read back: want %+v got %+v", want, got)
	}
	want = b.Case.S
	want.Force = false
	if want.Key == "" {
		want.Key = "E"
	}
	got = back(b.Server, false)
	if fmt.Sprintf("%+v", normEP(want)) != fmt.Sprintf("%+v", normEP(got)) {
		return fmt.Errorf("tlsh: server configuration does not read back: want %+v got %+v", want, got)
	}
	return nil
}

func normEP(e EP) EP {
	if len(e.Suites) == 0 {
		e.Suites = nil
	}
	if len(e.Alpn) == 0 {
		e.Alpn = nil
	}
	if len(e.Curves) == 0 {
		e.Curves = nil
	}
	return e
}
