package tlsh

import (
	"encoding/json"
	"math/rand"
	"os"
	"runtime"
	"strconv"
	"sync"

	"verifharness/lib/obs"
)

// NonNil gives every list of the record a JSON array (TLC's Json module cannot read null).
func (e EP) NonNil() EP {
	if e.Suites == nil {
		e.Suites = []int{}
	}
	if e.Alpn == nil {
		e.Alpn = []string{}
	}
	if e.Curves == nil {
		e.Curves = []int{}
	}
	return e
}

// ReadCases reads abstract cases (one JSON object per line, as written by TLC's ndJsonSerialize
// or by a random generator of a harness).
func ReadCases(path string, v func(line []byte) error) {
	err := obs.ReadLines(path, func(line []byte) error {
		if line[0] == '"' { // a TLA+ string printed by PrintT(ToJson(..))
			var s string
			if err := json.Unmarshal(line, &s); err != nil {
				return err
			}
			line = []byte(s)
		}
		return v(line)
	})
	if err != nil {
		obs.Fatal("read cases %s: %v", path, err)
	}
}

// Workers is the number of parallel handshake workers.
func Workers() int {
	if n, err := strconv.Atoi(os.Getenv("VERIF_WORKERS")); err == nil && n > 0 {
		if n > 16 {
			n = 16
		}
		return n
	}
	n := runtime.NumCPU()
	if n > 8 {
		n = 8
	}
	return n
}

// Parallel runs f(i) for i in 0..n-1 on Workers() goroutines.
func Parallel(n int, f func(i int)) {
	var wg sync.WaitGroup
	ch := make(chan int)
	for w := 0; w < Workers(); w++ {
		wg.Add(1)
		go func() {
			defer wg.Done()
			for i := range ch {
				f(i)
			}
		}()
	}
	for i := 0; i < n; i++ {
		ch <- i
	}
	close(ch)
	wg.Wait()
}

// Suite universe used by the random generators (every suite of the implemented table that is
// not DSS-based, plus the TLS 1.3 suites).
var LegacySuites = []int{52392, 52393, 49199, 49195, 49200, 49196, 49191, 49171, 49187, 49161, 49172, 49162,
	156, 157, 60, 47, 53, 49170, 10, 5, 49169, 49159, 52394, 158, 159, 103, 107, 51, 57, 61, 22}
var Suites13 = []int{4865, 4866, 4867}
var CurveIDs = []int{29, 23, 24, 25}
var Protos = []string{"h2", "http/1.1", "x1", "verif/2"}

func pickSome[T any](r *rand.Rand, from []T, max int) []T {
	n := r.Intn(max + 1)
	p := r.Perm(len(from))
	out := []T{}
	for i := 0; i < n && i < len(p); i++ {
		out = append(out, from[p[i]])
	}
	return out
}

// RandomEP draws an endpoint configuration.
func RandomEP(r *rand.Rand, server bool) EP {
	e := EP{}
	a, b := 10+r.Intn(4), 10+r.Intn(4)
	if r.Intn(3) == 0 { // favour wide ranges
		a, b = 10, 13
	}
	if a > b {
		a, b = b, a
	}
	e.Min, e.Max = a, b
	switch r.Intn(4) {
	case 0: // defaults
		e.Suites = []int{}
	default:
		s := pickSome(r, LegacySuites, 9)
		if r.Intn(2) == 0 {
			s = append(s, pickSome(r, Suites13, 3)...)
			r.Shuffle(len(s), func(i, j int) { s[i], s[j] = s[j], s[i] })
		}
		e.Suites = s
	}
	e.Alpn = pickSome(r, Protos, 3)
	if r.Intn(3) == 0 {
		e.Curves = pickSome(r, CurveIDs, 3)
	} else {
		e.Curves = []int{}
	}
	e.Tickets = r.Intn(4) != 0
	if server {
		e.Prefer = r.Intn(2) == 0
		e.Key = []string{"R", "P", "E", "Q"}[r.Intn(4)]
	} else {
		e.Force = r.Intn(4) == 0
	}
	return e.NonNil()
}
