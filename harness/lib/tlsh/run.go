package tlsh

import (
	"bytes"
	"fmt"
	"io"
	"sync"
	"time"

	"github.com/zmap/zcrypto/tls"
)

// Facts are the environment facts the specification takes as constants.
type Facts struct {
	HW            bool  `json:"hw"`
	DefaultLegacy []int `json:"default_legacy"`
	Default13     []int `json:"default_13"`
}

func GetFacts() Facts {
	l, t := tls.VerifHSDefaultCipherSuites()
	f := Facts{HW: tls.VerifHSHasAESGCMHardwareSupport()}
	for _, x := range l {
		f.DefaultLegacy = append(f.DefaultLegacy, int(x))
	}
	for _, x := range t {
		f.Default13 = append(f.Default13, int(x))
	}
	return f
}

// ---------------------------------------------------------------------------------------------
// message-level trace through the two in-line hooks of /repo/tls/conn.go

// Ev is one hook event of a connection.
type Ev struct {
	Read bool   // true: handshake message consumed by readHandshake; false: record about to be written
	Typ  int    // Read: handshake message type; write: record type
	Data []byte // Read: raw message incl. header; write: plaintext record payload
}

var (
	hookMu  sync.Mutex
	hookLog = map[*tls.Conn]*[]Ev{}
	hooksOn bool
)

// InstallHooks routes the hook events of registered connections into per-connection logs.
func InstallHooks() {
	hookMu.Lock()
	defer hookMu.Unlock()
	if hooksOn {
		return
	}
	hooksOn = true
	tls.VerifHSSetReadHook(func(c *tls.Conn, isClient bool, msg []byte) {
		hookMu.Lock()
		if l := hookLog[c]; l != nil {
			*l = append(*l, Ev{Read: true, Typ: int(msg[0]), Data: msg})
		}
		hookMu.Unlock()
	})
	tls.VerifHSSetWriteHook(func(c *tls.Conn, isClient bool, typ uint8, data []byte) {
		hookMu.Lock()
		if l := hookLog[c]; l != nil {
			*l = append(*l, Ev{Typ: int(typ), Data: data})
		}
		hookMu.Unlock()
	})
}

func track(c *tls.Conn) *[]Ev {
	l := &[]Ev{}
	hookMu.Lock()
	hookLog[c] = l
	hookMu.Unlock()
	return l
}

func untrack(c *tls.Conn) {
	hookMu.Lock()
	delete(hookLog, c)
	hookMu.Unlock()
}

func snapshot(l *[]Ev) []Ev {
	hookMu.Lock()
	defer hookMu.Unlock()
	return append([]Ev(nil), (*l)...)
}

// ---------------------------------------------------------------------------------------------

// Side is what one endpoint did.
type Side struct {
	Done    bool   // Handshake returned nil
	Err     string // its error text (informational only)
	Panic   string
	Hang    bool // the call did not return within the watchdog limit even after the transport was closed
	State   tls.ConnectionState
	EKM     []byte
	EKMErr  string
	DataOK  bool // the application data round trip worked
	Events  []Ev
	Conn    *tls.Conn
	Elapsed time.Duration
}

// Result of one connection attempt.
type Result struct {
	C, S Side
	Link *Link
}

const (
	ekmLabel = "EXPORTER-verif-tlshs"
	Watchdog = 20 * time.Second // >= 1000 x the normal handshake latency (1-10 ms)
)

// RunOpt tunes one run.
type RunOpt struct {
	Filter   Filter
	NoData   bool          // do not exchange application data after the handshake
	Watchdog time.Duration // 0 = default
	KeepOpen bool          // leave the connections open (caller closes)
}

// Run performs one handshake (and an application data round trip) between a real zcrypto
// client and server over a fresh Link.
func Run(cc, sc *tls.Config, opt RunOpt) *Result {
	InstallHooks()
	link := NewLink(opt.Filter)
	ce, se := link.Ends()
	client := tls.Client(ce, cc)
	server := tls.Server(se, sc)
	res := &Result{Link: link}
	res.C.Conn, res.S.Conn = client, server
	cl, sl := track(client), track(server)
	defer untrack(client)
	defer untrack(server)
	wd := opt.Watchdog
	if wd == 0 {
		wd = Watchdog
	}
	type out struct {
		err    error
		pan    string
		dataOK bool
		dur    time.Duration
	}
	run := func(conn *tls.Conn, isClient bool, ch chan out) {
		t0 := time.Now()
		var o out
		defer func() {
			if r := recover(); r != nil {
				o.pan = fmt.Sprintf("%v", r)
			}
			o.dur = time.Since(t0)
			ch <- o
		}()
		o.err = conn.Handshake()
		if o.err != nil || opt.NoData {
			return
		}
		buf := make([]byte, 4)
		if isClient {
			if _, err := conn.Write([]byte("ping")); err != nil {
				return
			}
			if _, err := io.ReadFull(conn, buf); err != nil || string(buf) != "pong" {
				return
			}
			o.dataOK = true
		} else {
			if _, err := io.ReadFull(conn, buf); err != nil || string(buf) != "ping" {
				return
			}
			if _, err := conn.Write([]byte("pong")); err != nil {
				return
			}
			o.dataOK = true
		}
	}
	cch, sch := make(chan out, 1), make(chan out, 1)
	go run(client, true, cch)
	go run(server, false, sch)
	var co, so *out
	timer := time.NewTimer(wd)
	closed := false
	quiet := link.Quiet
	// When one side fails it does not close the transport by itself (Handshake just returns);
	// the environment then closes the link so that the peer's pending read ends (C32: "never
	// blocks once the transport is closed").
	for co == nil || so == nil {
		select {
		case o := <-cch:
			co = &o
			link.MarkGone(0)
			if (o.err != nil || o.pan != "" || (!o.dataOK && !opt.NoData)) && !closed {
				closed = true
				link.CloseAll()
			}
		case o := <-sch:
			so = &o
			link.MarkGone(1)
			if (o.err != nil || o.pan != "" || (!o.dataOK && !opt.NoData)) && !closed {
				closed = true
				link.CloseAll()
			}
		case <-quiet:
			quiet = nil
			if !closed {
				closed = true
				link.CloseAll()
			}
		case <-timer.C:
			if !closed {
				closed = true
				link.CloseAll()
				timer.Reset(wd)
				continue
			}
			if co == nil {
				res.C.Hang = true
				co = &out{}
			}
			if so == nil {
				res.S.Hang = true
				so = &out{}
			}
		}
	}
	timer.Stop()
	fill := func(s *Side, o *out, conn *tls.Conn, l *[]Ev) {
		s.Elapsed = o.dur
		s.Panic = o.pan
		s.Events = snapshot(l)
		if s.Hang {
			return
		}
		if o.err != nil {
			s.Err = o.err.Error()
		}
		s.Done = o.err == nil && o.pan == ""
		s.DataOK = o.dataOK
		if s.Done {
			s.State = conn.ConnectionState()
			ekm, err := s.State.ExportKeyingMaterial(ekmLabel, []byte("ctx"), 32)
			if err != nil {
				s.EKMErr = err.Error()
			}
			s.EKM = ekm
		}
	}
	fill(&res.C, co, client, cl)
	fill(&res.S, so, server, sl)
	if !opt.KeepOpen {
		if !res.C.Hang {
			client.Close()
		}
		if !res.S.Hang {
			server.Close()
		}
		link.CloseAll()
	}
	return res
}

// Obs is the abstract observation of one connection attempt that TLC judges.
type Obs struct {
	CDone   bool   `json:"cdone"`
	SDone   bool   `json:"sdone"`
	CVers   int    `json:"cvers"`
	SVers   int    `json:"svers"`
	CSuite  int    `json:"csuite"`
	SSuite  int    `json:"ssuite"`
	CAlpn   string `json:"calpn"`
	SAlpn   string `json:"salpn"`
	CRes    bool   `json:"cres"`
	SRes    bool   `json:"sres"`
	EkmEq   bool   `json:"ekmeq"`
	DataOK  bool   `json:"dataok"`
	Canary  string `json:"canary"` // sentinel in the ServerHello on the wire: "12" "11" "none" "nosh"
	CRead   int    `json:"cread"`  // handshake messages the client consumed
	SRead   int    `json:"sread"`
	CPanic  bool   `json:"cpanic"`
	SPanic  bool   `json:"spanic"`
	CHang   bool   `json:"chang"`
	SHang   bool   `json:"shang"`
	CErr    string `json:"cerr"` // informational
	SErr    string `json:"serr"`
	WireSrv int    `json:"wire_suite"` // cipher suite in the ServerHello on the wire (0 if none)
	CTypes  []int  `json:"ctypes"`     // handshake message types the client consumed, in order (read hook)
	STypes  []int  `json:"stypes"`     // ... and the server
}

func readTypes(evs []Ev) []int {
	out := []int{}
	for _, e := range evs {
		if e.Read {
			out = append(out, e.Typ)
		}
	}
	return out
}

func countReads(evs []Ev) int {
	n := 0
	for _, e := range evs {
		if e.Read {
			n++
		}
	}
	return n
}

// Observe projects a Result to the abstract observation.
func Observe(r *Result) Obs {
	o := Obs{CDone: r.C.Done, SDone: r.S.Done, CPanic: r.C.Panic != "", SPanic: r.S.Panic != "",
		CHang: r.C.Hang, SHang: r.S.Hang, CErr: r.C.Err, SErr: r.S.Err,
		CRead: countReads(r.C.Events), SRead: countReads(r.S.Events), Canary: "nosh",
		CTypes: readTypes(r.C.Events), STypes: readTypes(r.S.Events)}
	if r.C.Panic != "" {
		o.CErr = "panic: " + r.C.Panic
	}
	if r.S.Panic != "" {
		o.SErr = "panic: " + r.S.Panic
	}
	if r.C.Done {
		o.CVers, o.CSuite = AbsVers(r.C.State.Version), int(r.C.State.CipherSuite)
		o.CAlpn, o.CRes = r.C.State.NegotiatedProtocol, r.C.State.DidResume
	}
	if r.S.Done {
		o.SVers, o.SSuite = AbsVers(r.S.State.Version), int(r.S.State.CipherSuite)
		o.SAlpn, o.SRes = r.S.State.NegotiatedProtocol, r.S.State.DidResume
	}
	o.EkmEq = r.C.Done && r.S.Done && len(r.C.EKM) == 32 && bytes.Equal(r.C.EKM, r.S.EKM)
	o.DataOK = r.C.DataOK && r.S.DataOK
	// the last ServerHello the server put on the wire in the clear
	for _, m := range PlainHandshake(r.Link.Records(S2C), false) {
		if m.Type == 2 {
			if h, err := ParseServerHello(m.Body); err == nil {
				o.Canary = Sentinel(h.Random)
				o.WireSrv = h.Suites[0]
			}
		}
	}
	return o
}
