package tlsh

import (
	"errors"
)

// Independent (not zcrypto's) reader of the TLS wire format, as far as the checks need it:
// records, handshake message framing, ClientHello / ServerHello fields and extensions,
// Certificate lists, ServerKeyExchange, NewSessionTicket, Finished.

const (
	RecCCS       = 20
	RecAlert     = 21
	RecHandshake = 22
	RecAppData   = 23
)

var errShort = errors.New("tlsh: truncated structure")

type rd struct {
	b   []byte
	err error
}

func (r *rd) take(n int) []byte {
	if r.err != nil {
		return nil
	}
	if n < 0 || len(r.b) < n {
		r.err = errShort
		return nil
	}
	x := r.b[:n]
	r.b = r.b[n:]
	return x
}
func (r *rd) u8() int {
	x := r.take(1)
	if x == nil {
		return 0
	}
	return int(x[0])
}
func (r *rd) u16() int {
	x := r.take(2)
	if x == nil {
		return 0
	}
	return int(x[0])<<8 | int(x[1])
}
func (r *rd) u24() int {
	x := r.take(3)
	if x == nil {
		return 0
	}
	return int(x[0])<<16 | int(x[1])<<8 | int(x[2])
}
func (r *rd) v8() []byte  { return r.take(r.u8()) }
func (r *rd) v16() []byte { return r.take(r.u16()) }
func (r *rd) v24() []byte { return r.take(r.u24()) }

// Ext is one extension as it appears on the wire.
type Ext struct {
	Type int
	Data []byte
}

// Hello is a ClientHello or ServerHello.
type Hello struct {
	IsServer    bool
	Version     int // legacy_version
	Random      []byte
	SessionID   []byte
	Suites      []int // ClientHello: offered; ServerHello: the selected one
	Compression []int
	HasExts     bool
	Exts        []Ext
}

func (h *Hello) Ext(t int) ([]byte, bool) {
	for _, e := range h.Exts {
		if e.Type == t {
			return e.Data, true
		}
	}
	return nil, false
}

// Msg is a handshake message: type and body (without the 4-byte header), plus the raw bytes.
type Msg struct {
	Type int
	Body []byte
	Raw  []byte
}

// SplitMessages cuts a concatenation of handshake-record payloads into messages; rest is an
// incomplete tail.
func SplitMessages(stream []byte) (msgs []Msg, rest []byte) {
	for len(stream) >= 4 {
		n := int(stream[1])<<16 | int(stream[2])<<8 | int(stream[3])
		if len(stream) < 4+n {
			break
		}
		msgs = append(msgs, Msg{Type: int(stream[0]), Body: stream[4 : 4+n], Raw: stream[:4+n]})
		stream = stream[4+n:]
	}
	return msgs, stream
}

// PlainHandshake returns the handshake messages a direction carried in the clear, i.e. the
// handshake records before the first ChangeCipherSpec (TLS <= 1.2) - for TLS 1.3 that is the
// hello messages only.
func PlainHandshake(records [][]byte, tls13 bool) []Msg {
	var stream []byte
	for _, rec := range records {
		if len(rec) < 5 {
			break
		}
		if rec[0] == RecCCS {
			break
		}
		if rec[0] == RecAppData && tls13 {
			break
		}
		if rec[0] != RecHandshake {
			continue
		}
		stream = append(stream, rec[5:]...)
		if tls13 {
			// after ServerHello everything is encrypted; stop at the first complete message
			// unless it is a HelloRetryRequest / first ClientHello
		}
	}
	msgs, _ := SplitMessages(stream)
	return msgs
}

func parseExts(r *rd) (bool, []Ext) {
	if len(r.b) == 0 {
		return false, nil
	}
	blk := &rd{b: r.v16()}
	var out []Ext
	for r.err == nil && blk.err == nil && len(blk.b) > 0 {
		t := blk.u16()
		d := blk.v16()
		if blk.err != nil {
			r.err = blk.err
			break
		}
		out = append(out, Ext{Type: t, Data: d})
	}
	return true, out
}

// ParseClientHello reads the body of a ClientHello.
func ParseClientHello(body []byte) (*Hello, error) {
	r := &rd{b: body}
	h := &Hello{Suites: []int{}, Compression: []int{}}
	h.Version = r.u16()
	h.Random = r.take(32)
	h.SessionID = r.v8()
	cs := &rd{b: r.v16()}
	for r.err == nil && len(cs.b) >= 2 {
		h.Suites = append(h.Suites, cs.u16())
	}
	for _, c := range r.v8() {
		h.Compression = append(h.Compression, int(c))
	}
	h.HasExts, h.Exts = parseExts(r)
	if r.err != nil {
		return nil, r.err
	}
	if len(r.b) != 0 {
		return nil, errors.New("tlsh: trailing bytes in ClientHello")
	}
	return h, nil
}

// ParseServerHello reads the body of a ServerHello.
func ParseServerHello(body []byte) (*Hello, error) {
	r := &rd{b: body}
	h := &Hello{IsServer: true}
	h.Version = r.u16()
	h.Random = r.take(32)
	h.SessionID = r.v8()
	h.Suites = []int{r.u16()}
	h.Compression = []int{r.u8()}
	h.HasExts, h.Exts = parseExts(r)
	if r.err != nil {
		return nil, r.err
	}
	if len(r.b) != 0 {
		return nil, errors.New("tlsh: trailing bytes in ServerHello")
	}
	return h, nil
}

// ParseCertificates reads a TLS <= 1.2 Certificate body (tls13 = false) or a TLS 1.3 one.
func ParseCertificates(body []byte, tls13 bool) ([][]byte, error) {
	r := &rd{b: body}
	if tls13 {
		r.v8() // certificate_request_context
	}
	lst := &rd{b: r.v24()}
	var out [][]byte
	for r.err == nil && lst.err == nil && len(lst.b) > 0 {
		out = append(out, lst.v24())
		if tls13 {
			lst.v16() // per-certificate extensions
		}
	}
	if r.err != nil {
		return nil, r.err
	}
	if lst.err != nil {
		return nil, lst.err
	}
	return out, nil
}

// SKX is a parsed ServerKeyExchange of a signed (EC)DHE suite.
type SKX struct {
	Kind    string // "ECDHE" or "DHE"
	Curve   int
	Public  []byte // ECDHE server point / DHE Ys
	P, G    []byte // DHE
	Params  []byte // the signed parameter bytes
	HasAlg  bool
	HashID  int // first byte of the SignatureAndHashAlgorithm / SignatureScheme (TLS 1.2)
	SigID   int // second byte
	Sig     []byte
	Trailer int
}

// ParseSKX reads a ServerKeyExchange body for the given key exchange kind and version (10..13).
func ParseSKX(body []byte, kind string, vers int) (*SKX, error) {
	r := &rd{b: body}
	s := &SKX{Kind: kind}
	switch kind {
	case "ECDHE":
		if r.u8() != 3 {
			return nil, errors.New("tlsh: not a named curve")
		}
		s.Curve = r.u16()
		s.Public = r.v8()
	case "DHE":
		s.P = r.v16()
		s.G = r.v16()
		s.Public = r.v16()
	default:
		return nil, errors.New("tlsh: no ServerKeyExchange expected")
	}
	if r.err != nil {
		return nil, r.err
	}
	s.Params = body[:len(body)-len(r.b)]
	if vers >= 12 {
		s.HasAlg = true
		s.HashID = r.u8()
		s.SigID = r.u8()
	}
	s.Sig = r.v16()
	if r.err != nil {
		return nil, r.err
	}
	s.Trailer = len(r.b)
	return s, nil
}

// Ticket is a TLS <= 1.2 NewSessionTicket.
type Ticket struct {
	Lifetime int64
	Ticket   []byte
}

func ParseNewSessionTicket(body []byte) (*Ticket, error) {
	r := &rd{b: body}
	x := r.take(4)
	t := r.v16()
	if r.err != nil {
		return nil, r.err
	}
	return &Ticket{Lifetime: int64(x[0])<<24 | int64(x[1])<<16 | int64(x[2])<<8 | int64(x[3]), Ticket: t}, nil
}

// RewriteClientHelloDowngrade is the adversary action of C24: it removes the supported_versions
// extension of the ClientHello in the record and sets legacy_version to `down` (10..12), so that
// the server sees a client whose maximum version is `down`.
func RewriteClientHelloDowngrade(rec []byte, down int) ([]byte, error) {
	if len(rec) < 9 || rec[0] != RecHandshake || rec[5] != 1 {
		return nil, errors.New("tlsh: first record is not a ClientHello")
	}
	body := rec[9:]
	if int(rec[6])<<16|int(rec[7])<<8|int(rec[8]) != len(body) {
		return nil, errors.New("tlsh: ClientHello spans records")
	}
	h, err := ParseClientHello(body)
	if err != nil {
		return nil, err
	}
	v := versMap[down]
	var out []byte
	out = append(out, byte(v>>8), byte(v))
	out = append(out, h.Random...)
	out = append(out, byte(len(h.SessionID)))
	out = append(out, h.SessionID...)
	out = append(out, byte(len(h.Suites)*2>>8), byte(len(h.Suites)*2))
	for _, s := range h.Suites {
		out = append(out, byte(s>>8), byte(s))
	}
	out = append(out, byte(len(h.Compression)))
	for _, c := range h.Compression {
		out = append(out, byte(c))
	}
	var exts []byte
	for _, e := range h.Exts {
		if e.Type == 43 {
			continue
		}
		exts = append(exts, byte(e.Type>>8), byte(e.Type), byte(len(e.Data)>>8), byte(len(e.Data)))
		exts = append(exts, e.Data...)
	}
	if h.HasExts {
		out = append(out, byte(len(exts)>>8), byte(len(exts)))
		out = append(out, exts...)
	}
	msg := append([]byte{1, byte(len(out) >> 16), byte(len(out) >> 8), byte(len(out))}, out...)
	res := append([]byte{RecHandshake, rec[1], rec[2], byte(len(msg) >> 8), byte(len(msg))}, msg...)
	return res, nil
}

// Sentinel classifies the last 8 bytes of a ServerHello random (RFC 8446, 4.1.3).
func Sentinel(random []byte) string {
	if len(random) != 32 {
		return "nosh"
	}
	switch string(random[24:]) {
	case "DOWNGRD\x01":
		return "12"
	case "DOWNGRD\x00":
		return "11"
	}
	return "none"
}
