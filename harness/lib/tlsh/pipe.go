// Package tlsh is the shared binding between spec/TLSHandshake.tla and the real zcrypto
// tls.Client / tls.Server: an in-memory full-duplex transport with record capture and fault
// injection, the concretiser from abstract endpoint configurations to tls.Config (with its
// abstraction-back check), an independent wire parser, and the observation logger.
// It never decides what a property allows: observations go to TLC (Trace_TLSHandshake.tla).
package tlsh

import (
	"errors"
	"io"
	"net"
	"sync"
	"time"
)

// Directions of a Link.
const (
	C2S = 0 // bytes written by the client end
	S2C = 1 // bytes written by the server end
)

// Action of a fault filter on one TLS record in flight.
type Action struct {
	Deliver [][]byte // byte chunks delivered instead of the record (nil slice of chunks = drop)
	Close   bool     // close the transport (both directions) after delivering
}

// Filter sees every complete TLS record (header included) written in direction dir; idx counts
// the records of that direction from 0.  Returning nil leaves the record untouched.
type Filter func(dir, idx int, rec []byte) *Action

// Link is an in-memory duplex byte pipe with unbounded buffers (a write never blocks, so two
// endpoints that both send an alert cannot deadlock the way net.Pipe does).
type Link struct {
	mu     sync.Mutex
	cond   *sync.Cond
	buf    [2][]byte // buf[d]: bytes in flight in direction d
	part   [2][]byte // reassembly of the record currently being written in direction d
	closed [2]bool   // closed[e]: end e (0 client, 1 server) called Close
	cut    bool      // the environment tore the transport down (readers drain, then EOF)
	Sent   [2][][]byte
	Deliv  [2][][]byte
	filter Filter
	raw    [2]bool // raw[d]: direction d carries no record structure (scripted peers)
	// quiescence: both ends blocked in Read with nothing in flight - no progress is possible any
	// more (the only writers are the two endpoints), so the environment may close the link
	// without waiting for the watchdog.
	waiting [2]bool
	gone    [2]bool // the endpoint's calls have returned: it will not write any more
	failW   [2]bool // writes of this end fail
	eofR    [2]bool // reads of this end see EOF after the bytes in flight
	Quiet   chan struct{}
	quietOn bool
}

// checkQuiet (mu held): nobody can make progress any more.
func (l *Link) checkQuiet() {
	if l.quietOn || len(l.buf[0]) != 0 || len(l.buf[1]) != 0 {
		return
	}
	if (l.waiting[0] || l.gone[0]) && (l.waiting[1] || l.gone[1]) {
		l.quietOn = true
		close(l.Quiet)
	}
}

// MarkGone tells the link that the endpoint of a side (0 client, 1 server) has returned.
func (l *Link) MarkGone(side int) {
	l.mu.Lock()
	l.gone[side] = true
	l.checkQuiet()
	l.mu.Unlock()
}

func NewLink(f Filter) *Link {
	l := &Link{filter: f, Quiet: make(chan struct{})}
	l.cond = sync.NewCond(&l.mu)
	return l
}

// SetRaw disables record reassembly for a direction (bytes are passed through as written).
func (l *Link) SetRaw(dir int) { l.raw[dir] = true }

// Ends returns the client and the server end.
func (l *Link) Ends() (net.Conn, net.Conn) { return &end{l: l, side: 0}, &end{l: l, side: 1} }

// CloseAll tears the transport down (the environment closes it): pending bytes can still be
// read, then reads return EOF and writes fail.
func (l *Link) CloseAll() {
	l.mu.Lock()
	l.cut = true
	l.cond.Broadcast()
	l.mu.Unlock()
}

// Records returns copies of the records written so far in direction dir (before filtering).
func (l *Link) Records(dir int) [][]byte {
	l.mu.Lock()
	defer l.mu.Unlock()
	out := make([][]byte, len(l.Sent[dir]))
	for i, r := range l.Sent[dir] {
		out[i] = append([]byte(nil), r...)
	}
	return out
}

type end struct {
	l    *Link
	side int
}

type addr string

func (a addr) Network() string { return "verif" }
func (a addr) String() string  { return string(a) }

var errClosed = errors.New("verif link: use of closed connection")

func (e *end) Read(p []byte) (int, error) {
	l := e.l
	in := 1 - e.side // direction whose bytes this end reads
	l.mu.Lock()
	defer l.mu.Unlock()
	for {
		if l.closed[e.side] {
			return 0, errClosed
		}
		if len(l.buf[in]) > 0 {
			n := copy(p, l.buf[in])
			l.buf[in] = l.buf[in][n:]
			return n, nil
		}
		if l.closed[1-e.side] || l.cut || l.eofR[e.side] {
			return 0, io.EOF
		}
		l.waiting[e.side] = true
		l.checkQuiet()
		l.cond.Wait()
		l.waiting[e.side] = false
	}
}

func (e *end) Write(p []byte) (int, error) {
	l := e.l
	d := e.side
	l.mu.Lock()
	defer l.mu.Unlock()
	if l.closed[e.side] {
		return 0, errClosed
	}
	if l.closed[1-e.side] || l.cut || l.failW[e.side] {
		return 0, io.ErrClosedPipe
	}
	if l.raw[d] {
		l.buf[d] = append(l.buf[d], p...)
		l.cond.Broadcast()
		return len(p), nil
	}
	l.part[d] = append(l.part[d], p...)
	for len(l.part[d]) >= 5 {
		n := 5 + (int(l.part[d][3])<<8 | int(l.part[d][4]))
		if len(l.part[d]) < n {
			break
		}
		rec := append([]byte(nil), l.part[d][:n]...)
		l.part[d] = l.part[d][n:]
		idx := len(l.Sent[d])
		l.Sent[d] = append(l.Sent[d], rec)
		var act *Action
		if l.filter != nil {
			act = l.filter(d, idx, append([]byte(nil), rec...))
		}
		if act == nil {
			l.buf[d] = append(l.buf[d], rec...)
			l.Deliv[d] = append(l.Deliv[d], rec)
		} else {
			for _, ch := range act.Deliver {
				l.buf[d] = append(l.buf[d], ch...)
				l.Deliv[d] = append(l.Deliv[d], append([]byte(nil), ch...))
			}
			if act.Close {
				l.cut = true
			}
		}
	}
	l.cond.Broadcast()
	return len(p), nil
}

func (e *end) Close() error {
	l := e.l
	l.mu.Lock()
	l.closed[e.side] = true
	l.cond.Broadcast()
	l.mu.Unlock()
	return nil
}

func (e *end) LocalAddr() net.Addr {
	if e.side == 0 {
		return addr("client.verif:1")
	}
	return addr("server.verif:443")
}
func (e *end) RemoteAddr() net.Addr {
	if e.side == 0 {
		return addr("server.verif:443")
	}
	return addr("client.verif:1")
}
func (e *end) SetDeadline(time.Time) error      { return nil }
func (e *end) SetReadDeadline(time.Time) error  { return nil }
func (e *end) SetWriteDeadline(time.Time) error { return nil }

// Idle reports whether the given endpoint (client side or server side) is blocked in Read with
// nothing left to read - i.e. it has consumed everything its peer wrote.
func (l *Link) Idle(clientSide bool) bool {
	side := 1
	if clientSide {
		side = 0
	}
	l.mu.Lock()
	defer l.mu.Unlock()
	return l.waiting[side] && len(l.buf[1-side]) == 0
}

// Inject puts bytes in flight in direction dir as if the peer had written them (scripted peer).
func (l *Link) Inject(dir int, b []byte) {
	l.mu.Lock()
	l.buf[dir] = append(l.buf[dir], b...)
	l.cond.Broadcast()
	l.mu.Unlock()
}

// FailWrites makes every later Write of an end (0 client, 1 server) fail while its reads go on
// (the peer reset the connection / the write side is gone).
func (l *Link) FailWrites(side int) {
	l.mu.Lock()
	l.failW[side] = true
	l.mu.Unlock()
}

// EOFReads makes the reads of an end return EOF once the bytes in flight are consumed, while
// its writes still succeed (the peer half-closed).
func (l *Link) EOFReads(side int) {
	l.mu.Lock()
	l.eofR[side] = true
	l.cond.Broadcast()
	l.mu.Unlock()
}
