// c26: conformance harness binding TLSKDF.tla to zcrypto's TLS key derivation.
//
//	c26 replay-gen <cases.ndjson>...   TLC-generated cases (CaseOf(p)): evaluate the demanded
//	                                   terms with the Go standard library, call the exported
//	                                   zcrypto function on the same inputs, compare
//	c26 replay <replay.json>           one case (exit 1 if the real code disagrees)
//	c26 gen-params <out.ndjson> <n>    seeded random parameter records for TLSKDFVal
//	c26 suites                         print the real suite table (STAT lines)
package main

import (
	"bytes"
	"crypto/sha256"
	"encoding/binary"
	"encoding/hex"
	"encoding/json"
	"fmt"
	"math/rand"
	"os"
	"sort"
	"strconv"
	"time"

	"github.com/zmap/zcrypto/tls"
	"verifharness/lib/obs"
	"verifharness/lib/term"
)

type Param struct {
	Fn    string `json:"fn"`
	Ver   int    `json:"ver"`
	Suite int    `json:"suite"`
	H     string `json:"h"`
	Label string `json:"label"`
	LL    int    `json:"ll"`
	SL    int    `json:"sl"`
	DL    int    `json:"dl"`
	CL    int    `json:"cl"`
	N     int    `json:"n"`
	TP    []int  `json:"tp"`
	Tag   int    `json:"tag,omitempty"` // end-to-end runs: which recorded handshake the parameters belong to
}

type Case struct {
	P     Param    `json:"p"`
	Out   []term.T `json:"out"`
	Err   bool     `json:"err"`
	Trial int64    `json:"trial,omitempty"` // env seed used (replay files)
}

// fill derives the bytes of one variable from (trial seed, variable name).
func fill(trial int64, name string, n int) []byte {
	out := make([]byte, 0, n+32)
	var ctr uint32
	for len(out) < n {
		var hdr [12]byte
		binary.BigEndian.PutUint64(hdr[:8], uint64(trial))
		binary.BigEndian.PutUint32(hdr[8:], ctr)
		h := sha256.Sum256(append(hdr[:], name...))
		out = append(out, h[:]...)
		ctr++
	}
	out = out[:n]
	if name == "label" {
		// labels are ASCII in practice; keep them printable and never a reserved RFC 5705 label
		for i := range out {
			out[i] = 'a' + out[i]%26
		}
	}
	return out
}

func envFor(c *Case, trial int64) (term.Env, error) {
	vars := map[string]int{}
	for i := range c.Out {
		if err := term.Vars(&c.Out[i], vars); err != nil {
			return nil, err
		}
	}
	// variables the call needs even if the demanded term does not mention them
	need := func(name string, n int) {
		if _, ok := vars[name]; !ok && n >= 0 {
			vars[name] = n
		}
	}
	need("secret", max0(c.P.SL))
	need("seed", max0(c.P.DL))
	need("ctx", max0(c.P.CL))
	need("cr", 32)
	need("sr", 32)
	if c.P.LL >= 0 {
		need("label", c.P.LL)
	}
	for i, l := range c.P.TP {
		need(trName(i), l)
	}
	env := term.Env{}
	for name, n := range vars {
		env[name] = fill(trial, name, n)
	}
	return env, nil
}

func max0(x int) int {
	if x < 0 {
		return 0
	}
	return x
}

func trName(i int) string { return "tr" + strconv.Itoa(i+1) }

// callReal runs the zcrypto function selected by p on the inputs of env.
func callReal(p Param, env term.Env) (outs [][]byte, err error) {
	ver, suite := uint16(p.Ver), uint16(p.Suite)
	secret, seed, ctx := env["secret"], env["seed"], env["ctx"]
	cr, sr := env["cr"], env["sr"]
	var label []byte
	if p.LL == -1 {
		label = []byte(p.Label)
	} else {
		label = env["label"]
	}
	var pieces [][]byte
	for i := range p.TP {
		pieces = append(pieces, env[trName(i)])
	}
	var ctxArg []byte // nil = no context
	if p.CL >= 0 {
		ctxArg = append([]byte{}, ctx...)
	}
	switch p.Fn {
	case "phash":
		res := make([]byte, p.N)
		err = tls.VerifPHash(p.H, res, secret, seed)
		return [][]byte{res}, err
	case "prf10":
		res := make([]byte, p.N)
		tls.VerifPRF10(res, secret, label, seed)
		return [][]byte{res}, nil
	case "prf12":
		res := make([]byte, p.N)
		err = tls.VerifPRF12(p.H, res, secret, label, seed)
		return [][]byte{res}, err
	case "prfver":
		res := make([]byte, p.N)
		err = tls.VerifPRFForVersion(ver, suite, res, secret, label, seed)
		return [][]byte{res}, err
	case "master":
		ms, err := tls.VerifMasterFromPreMasterSecret(ver, suite, secret, cr, sr)
		return [][]byte{ms}, err
	case "keyblock":
		si, ok := tls.VerifSuiteByID(suite)
		if !ok {
			return nil, fmt.Errorf("harness: suite %#x not implemented", suite)
		}
		k, err := tls.VerifKeysFromMasterSecret(ver, suite, secret, cr, sr, si.MacLen, si.KeyLen, si.IVLen)
		return [][]byte{k.ClientMAC, k.ServerMAC, k.ClientKey, k.ServerKey, k.ClientIV, k.ServerIV}, err
	case "finished":
		c, s, sum, err := tls.VerifFinished(ver, suite, secret, pieces)
		return [][]byte{c, s, sum}, err
	case "ekm":
		f, err := tls.VerifEKMFromMasterSecret(ver, suite, secret, cr, sr)
		if err != nil {
			return nil, err
		}
		out, err := f(string(label), ctxArg, p.N)
		if err != nil {
			return nil, realErr{err}
		}
		return [][]byte{out}, nil
	case "expandlabel":
		out, err := tls.VerifExpandLabel(suite, secret, string(label), ctx, p.N)
		return [][]byte{out}, err
	case "derive":
		out, err := tls.VerifDeriveSecret(suite, secret, string(label), pieces, p.CL == -1)
		return [][]byte{out}, err
	case "extract":
		var nw, cur []byte
		if p.SL >= 0 {
			nw = append([]byte{}, secret...)
		}
		if p.DL >= 0 {
			cur = append([]byte{}, seed...)
		}
		out, err := tls.VerifExtract(suite, nw, cur)
		return [][]byte{out}, err
	case "traffickey":
		k, iv, err := tls.VerifTrafficKey(suite, secret)
		return [][]byte{k, iv}, err
	case "nexttraffic":
		out, err := tls.VerifNextTrafficSecret(suite, secret)
		return [][]byte{out}, err
	case "finished13":
		out, err := tls.VerifFinishedHash13(suite, secret, pieces)
		return [][]byte{out}, err
	case "exporter13":
		f, err := tls.VerifExportKeyingMaterial13(suite, secret, pieces)
		if err != nil {
			return nil, err
		}
		out, err := f(string(label), ctxArg, p.N)
		if err != nil {
			return nil, realErr{err}
		}
		return [][]byte{out}, nil
	}
	return nil, fmt.Errorf("harness: unknown fn %q", p.Fn)
}

// realErr marks an error returned by the function under test itself (as opposed to a
// harness/hook problem such as an unknown suite).
type realErr struct{ error }

type verdict struct {
	kind string // "", "mismatch", "length", "error-unexpected", "error-missing", "panic"
	idx  int
	what string
}

// check evaluates one case under one trial seed.
func check(c *Case, trial int64) (verdict, error) {
	env, err := envFor(c, trial)
	if err != nil {
		return verdict{}, err
	}
	var want [][]byte
	for i := range c.Out {
		w, err := term.Eval(&c.Out[i], env)
		if err != nil {
			return verdict{}, fmt.Errorf("evaluating demanded term %d: %v", i, err)
		}
		want = append(want, w)
	}
	var got [][]byte
	var callErr error
	o := obs.Guard(60*time.Second, func() { got, callErr = callReal(c.P, env) })
	if o.Timeout {
		return verdict{}, fmt.Errorf("call timed out")
	}
	if o.Panic != "" {
		return verdict{kind: "panic", what: fmt.Sprintf("%s panicked: %s", c.P.Fn, o.Panic)}, nil
	}
	if callErr != nil {
		if re, ok := callErr.(realErr); ok {
			if c.Err {
				return verdict{}, nil
			}
			return verdict{kind: "error-unexpected", what: fmt.Sprintf("%s returned error %q where the RFC defines a value", c.P.Fn, re.Error())}, nil
		}
		return verdict{}, callErr
	}
	if c.Err {
		return verdict{kind: "error-missing", what: fmt.Sprintf("%s returned a value where the specification demands a refusal (label %q, context length %d)", c.P.Fn, c.P.Label, c.P.CL)}, nil
	}
	if len(got) != len(want) {
		return verdict{}, fmt.Errorf("harness: %d outputs, specification lists %d", len(got), len(want))
	}
	for i := range want {
		if len(got[i]) != len(want[i]) {
			return verdict{kind: "length", idx: i, what: fmt.Sprintf("%s output %d: real length %d, RFC demands %d", c.P.Fn, i, len(got[i]), len(want[i]))}, nil
		}
		if !bytes.Equal(got[i], want[i]) {
			return verdict{kind: "mismatch", idx: i, what: fmt.Sprintf("%s output %d (n=%d): real %s, RFC demands %s", c.P.Fn, i, len(want[i]), hexs(got[i]), hexs(want[i]))}, nil
		}
	}
	return verdict{}, nil
}

func hexs(b []byte) string {
	if len(b) > 24 {
		return hex.EncodeToString(b[:24]) + "..."
	}
	return hex.EncodeToString(b)
}

func sigOf(c *Case, v verdict) map[string]any {
	return map[string]any{"fn": c.P.Fn, "kind": v.kind, "out": v.idx, "ver": c.P.Ver, "hash": hashClass(c.P)}
}

func hashClass(p Param) string {
	if p.H != "" {
		return p.H
	}
	if p.Ver == 769 || p.Ver == 770 {
		return "md5+sha1"
	}
	if si, ok := tls.VerifSuiteByID(uint16(p.Suite)); ok {
		if si.SHA384 {
			return "sha384"
		}
		return "sha256"
	}
	for _, s := range tls.VerifSuitesTLS13() {
		if int(s.ID) == p.Suite {
			return s.Hash
		}
	}
	return ""
}

func readCase(line []byte) (*Case, error) {
	var c Case
	if err := json.Unmarshal(line, &c); err != nil {
		return nil, err
	}
	return &c, nil
}

func main() {
	if len(os.Args) < 2 {
		obs.Fatal("usage")
	}
	switch os.Args[1] {
	case "replay-gen":
		trials := 2
		if obs.Thorough() {
			trials = 3
		}
		n, evals, nontriv, skipped, tagged := 0, 0, 0, 0, 0
		perFn := map[string]int{}
		seen := map[string]bool{}
		distinct := map[string]bool{}
		for _, path := range os.Args[2:] {
			err := obs.ReadLines(path, func(line []byte) error {
				c, err := readCase(line)
				if err != nil {
					return err
				}
				if c.P.Tag != 0 {
					tagged++ // judged by e2e-check against the recorded handshake
					return nil
				}
				n++
				perFn[c.P.Fn]++
				pk, _ := json.Marshal(c.P)
				if !distinct[string(pk)] {
					distinct[string(pk)] = true
					if c.P.N > 0 && !c.Err {
						nontriv++
					}
				}
				for t := 0; t < trials; t++ {
					trial := obs.Seed()*1000003 + int64(n)*31 + int64(t)
					v, err := check(c, trial)
					if err != nil {
						if _, ok := tls.VerifSuiteByID(uint16(c.P.Suite)); !ok && c.P.Ver != 772 && c.P.Suite != 0 {
							skipped++ // suite of the specification's table not implemented in this tree
							return nil
						}
						return fmt.Errorf("case %d (%s): %v", n, c.P.Fn, err)
					}
					evals++
					if v.kind != "" {
						sig := sigOf(c, v)
						k, _ := json.Marshal(sig)
						if !seen[string(k)] {
							seen[string(k)] = true
							c.Trial = trial
							obs.Emit(obs.Candidate{Sig: sig, What: v.what, Case: c})
						}
						break
					}
				}
				return nil
			})
			if err != nil {
				obs.Fatal("%v", err)
			}
		}
		obs.Stat("cases", n)
		obs.Stat("evaluations", evals)
		obs.Stat("nontrivial", nontriv)
		obs.Stat("skipped_unimplemented_suite", skipped)
		obs.Stat("per_fn", perFn)
		obs.Stat("tagged", tagged)
	case "replay-seq":
		n, evals := 0, 0
		perFn := map[string]int{}
		seen := map[string]bool{}
		err := obs.ReadLines(os.Args[2], func(line []byte) error {
			var c SeqCase
			if err := json.Unmarshal(line, &c); err != nil {
				return err
			}
			n++
			perFn[c.Fn]++
			for t := 0; t < 2; t++ {
				trial := obs.Seed()*1000033 + int64(n)*17 + int64(t)
				v, err := checkSeq(&c, trial)
				if err != nil {
					return fmt.Errorf("program %d (%s): %v", n, c.Fn, err)
				}
				evals++
				if v.kind != "" {
					sig := map[string]any{"fn": c.Fn, "kind": v.kind, "obs": c.Expect[v.idx].Name, "ver": c.Ver}
					k, _ := json.Marshal(sig)
					if !seen[string(k)] {
						seen[string(k)] = true
						c.Trial, c.Kind = trial, v.kind
						obs.Emit(obs.Candidate{Sig: sig, What: v.what, Case: map[string]any{"seq": c}})
					}
					break
				}
			}
			return nil
		})
		if err != nil {
			obs.Fatal("%v", err)
		}
		obs.Stat("programs", n)
		obs.Stat("evaluations", evals)
		obs.Stat("per_fn", perFn)
	case "e2e-run":
		installHooks()
		wp := obs.NewWriter(os.Args[2])
		wo := obs.NewWriter(os.Args[3])
		for _, s := range e2eSpecs(obs.Seed()) {
			s := s
			ob, err := runE2E(&s)
			if err != nil {
				obs.Fatal("end-to-end run %+v: %v", s, err)
			}
			wp.Write(ob.param())
			wo.Write(ob)
		}
		wp.Close()
		wo.Close()
		obs.Stat("handshakes", wo.N)
	case "e2e-check":
		runs := map[int]*E2EObs{}
		if err := obs.ReadLines(os.Args[3], func(line []byte) error {
			var ob E2EObs
			if err := json.Unmarshal(line, &ob); err != nil {
				return err
			}
			runs[ob.Spec.Tag] = &ob
			return nil
		}); err != nil {
			obs.Fatal("%v", err)
		}
		judged, compared := 0, 0
		seen := map[string]bool{}
		if err := obs.ReadLines(os.Args[2], func(line []byte) error {
			c, err := readCase(line)
			if err != nil {
				return err
			}
			if c.P.Tag == 0 {
				return nil
			}
			ob, ok := runs[c.P.Tag]
			if !ok {
				return fmt.Errorf("no recorded handshake with tag %d", c.P.Tag)
			}
			judged++
			compared += 2 * len(c.Out)
			for _, v := range checkE2E(ob, c) {
				if v.kind == "harness" {
					return fmt.Errorf("tag %d: %s", c.P.Tag, v.what)
				}
				sig := map[string]any{"fn": "e2e", "kind": v.kind, "ver": int(ob.Spec.Ver), "tls13": ob.Spec.Ver == 0x0304}
				k, _ := json.Marshal(sig)
				if !seen[string(k)] {
					seen[string(k)] = true
					obs.Emit(obs.Candidate{Sig: sig, What: v.what, Case: map[string]any{"e2e": ob.Spec, "case": c, "kind": v.kind}})
				}
			}
			return nil
		}); err != nil {
			obs.Fatal("%v", err)
		}
		if judged != len(runs) {
			obs.Fatal("%d recorded handshakes, %d judged (parameters outside the specification's domain?)", len(runs), judged)
		}
		obs.Stat("handshakes_judged", judged)
		obs.Stat("values_compared", compared)
	case "replay":
		var any struct {
			Seq  *SeqCase `json:"seq"`
			E2E  *E2ESpec `json:"e2e"`
			Case *Case    `json:"case"`
			Kind string   `json:"kind"`
		}
		obs.ReadReplay(os.Args[2], &any)
		if any.Seq != nil {
			v, err := checkSeq(any.Seq, any.Seq.Trial)
			if err != nil {
				obs.Fatal("%v", err)
			}
			if v.kind != "" {
				fmt.Println("reproduced:", v.what)
				os.Exit(1)
			}
			fmt.Println("not reproduced")
			return
		}
		if any.E2E != nil {
			installHooks()
			ob, err := runE2E(any.E2E)
			if err != nil {
				obs.Fatal("%v", err)
			}
			for _, v := range checkE2E(ob, any.Case) {
				if v.kind == any.Kind {
					fmt.Println("reproduced:", v.what)
					os.Exit(1)
				}
			}
			fmt.Println("not reproduced")
			return
		}
		var c Case
		obs.ReadReplay(os.Args[2], &c)
		v, err := check(&c, c.Trial)
		if err != nil {
			obs.Fatal("%v", err)
		}
		if v.kind != "" {
			fmt.Println("reproduced:", v.what)
			os.Exit(1)
		}
		fmt.Println("not reproduced")
	case "suites":
		var ids []int
		for _, s := range tls.VerifSuites() {
			ids = append(ids, int(s.ID))
		}
		sort.Ints(ids)
		obs.Stat("suites", ids)
		var ids13 []int
		for _, s := range tls.VerifSuitesTLS13() {
			ids13 = append(ids13, int(s.ID))
		}
		sort.Ints(ids13)
		obs.Stat("suites13", ids13)
	case "gen-params":
		count, _ := strconv.Atoi(os.Args[3])
		rng := rand.New(rand.NewSource(obs.Seed()))
		w := obs.NewWriter(os.Args[2])
		suites := tls.VerifSuites()
		suites13 := tls.VerifSuitesTLS13()
		fns := []string{"phash", "prf10", "prf12", "prfver", "master", "keyblock", "finished", "ekm",
			"expandlabel", "derive", "extract", "traffickey", "nexttraffic", "finished13", "exporter13"}
		hashes := []string{"md5", "sha1", "sha256", "sha384"}
		std13 := []string{"derived", "ext binder", "res binder", "c e traffic", "e exp master", "c hs traffic",
			"s hs traffic", "c ap traffic", "s ap traffic", "exp master", "res master", "traffic upd", "resumption"}
		std12 := []string{"master secret", "key expansion", "client finished", "server finished", "EXPORTER-verif-label"}
		for i := 0; i < count; i++ {
			p := Param{Fn: fns[rng.Intn(len(fns))], TP: []int{}}
			p.N = rng.Intn(513)
			p.SL = rng.Intn(201)
			p.DL = rng.Intn(101)
			switch p.Fn {
			case "phash":
				p.H = hashes[rng.Intn(4)]
			case "prf12":
				p.H = hashes[2+rng.Intn(2)]
			}
			switch p.Fn {
			case "prf10", "prf12", "prfver", "ekm":
				if rng.Intn(2) == 0 {
					p.LL, p.Label = -1, std12[rng.Intn(len(std12))]
				} else {
					p.LL = rng.Intn(41)
				}
			case "expandlabel", "derive", "exporter13":
				if rng.Intn(2) == 0 {
					p.LL, p.Label = -1, std13[rng.Intn(len(std13))]
				} else {
					p.LL = rng.Intn(250)
				}
			}
			switch p.Fn {
			case "prfver", "master", "keyblock", "finished", "ekm":
				s := suites[rng.Intn(len(suites))]
				p.Suite = int(s.ID)
				p.Ver = 769 + rng.Intn(3)
				if s.TLS12Only {
					p.Ver = 771
				}
			case "expandlabel", "derive", "extract", "traffickey", "nexttraffic", "finished13", "exporter13":
				p.Suite = int(suites13[rng.Intn(len(suites13))].ID)
				p.Ver = 772
			}
			switch p.Fn {
			case "ekm", "exporter13":
				p.CL = rng.Intn(302) - 1
			case "expandlabel":
				p.CL = rng.Intn(256)
			case "derive":
				p.CL = rng.Intn(2) - 1
			case "extract":
				if rng.Intn(4) == 0 {
					p.SL = -1
				}
				if rng.Intn(4) == 0 {
					p.DL = -1
				}
			}
			switch p.Fn {
			case "finished", "derive", "finished13", "exporter13":
				for k := rng.Intn(4); k > 0; k-- {
					p.TP = append(p.TP, rng.Intn(2001))
				}
			}
			switch p.Fn {
			case "master":
				p.N = 48
			case "finished":
				p.N = 12
			}
			w.Write(p)
		}
		w.Close()
		obs.Stat("params", count)
	default:
		obs.Fatal("unknown command %q", os.Args[1])
	}
}
