package main

// End-to-end binding of TLSKDF.tla: real zcrypto <-> zcrypto handshakes; the transcript is captured
// through the handshake hooks of package tls, the traffic secrets through Config.KeyLogWriter, the
// (EC)DHE secret is recomputed with crypto/ecdh from the client's key-share secret (found in the bytes
// the client drew from Config.Rand) and the server's share on the wire.  TLC then emits the RFC 8446
// key schedule (Schedule13) / the RFC 5705 exporter for exactly these lengths, the terms are evaluated
// with the standard library and compared with the key logs of both ends and with
// ConnectionState.ExportKeyingMaterial of both ends - called AFTER the handshake, when the live
// transcript has long moved past server Finished.

import (
	"bytes"
	"crypto"
	"crypto/ecdh"
	stdrsa "crypto/rsa"
	"encoding/hex"
	"encoding/json"
	"fmt"
	"math/big"
	"strings"
	"sync"
	"time"

	zrsa "github.com/zmap/zcrypto/rsa"
	"github.com/zmap/zcrypto/tls"
	"verifharness/lib/memnet"
	"verifharness/lib/obs"
	"verifharness/lib/pki"
	"verifharness/lib/term"
)

type hsEvent struct {
	read bool
	msg  []byte
}

var (
	capMu sync.Mutex
	caps  = map[*tls.Conn][]hsEvent{}
)

func installHooks() {
	tls.VerifHSSetReadHook(func(c *tls.Conn, isClient bool, msg []byte) {
		capMu.Lock()
		caps[c] = append(caps[c], hsEvent{read: true, msg: msg})
		capMu.Unlock()
	})
	tls.VerifHSSetWriteHook(func(c *tls.Conn, isClient bool, typ uint8, data []byte) {
		if typ != 22 {
			return
		}
		capMu.Lock()
		caps[c] = append(caps[c], hsEvent{read: false, msg: data})
		capMu.Unlock()
	})
}

type recReader struct {
	n   uint64
	out []byte
}

func (r *recReader) Read(p []byte) (int, error) {
	for i := range p {
		r.n = r.n*6364136223846793005 + 1442695040888963407
		p[i] = byte(r.n >> 33)
	}
	r.out = append(r.out, p...)
	return len(p), nil
}

func rsaCert(id, kid string, eku string) tls.Certificate {
	der := pki.MustBuild(pki.Cert{ID: id, Subj: id, Key: kid, Iss: id, SKey: kid, NB: 0, NA: 40 * 365 * 86400,
		DNS: []string{"c26.test"}, KU: 1 | 4, EKU: []string{eku}})
	var priv crypto.PrivateKey = pki.Key(kid)
	if k, ok := priv.(*stdrsa.PrivateKey); ok {
		z := &zrsa.PrivateKey{PublicKey: zrsa.PublicKey{N: k.N, E: big.NewInt(int64(k.E))}, D: k.D, Primes: k.Primes}
		z.Precompute()
		priv = z
	}
	return tls.Certificate{Certificate: [][]byte{der}, PrivateKey: priv}
}

// E2ESpec determines one end-to-end run.
type E2ESpec struct {
	Tag        int    `json:"tag"`
	Ver        uint16 `json:"ver"`
	Suite      uint16 `json:"suite"`
	ClientAuth bool   `json:"clientauth"`
	LabelLen   int    `json:"ll"`
	CtxLen     int    `json:"cl"` // -1 = no context
	N          int    `json:"n"`
	Seed       uint64 `json:"seed"`
}

// E2EObs: what one run produced (hex), keyed by name.
type E2EObs struct {
	Spec    E2ESpec           `json:"spec"`
	Env     map[string]string `json:"env"`    // variables of the demanded terms
	Client  map[string]string `json:"client"` // key-log secrets and exported keying material of the client
	Server  map[string]string `json:"server"`
	TP      []int             `json:"tp"`
	Problem string            `json:"problem,omitempty"`
}

func keylog(buf string) map[string]string {
	m := map[string]string{}
	for _, line := range strings.Split(buf, "\n") {
		f := strings.Fields(line)
		if len(f) == 3 {
			m[f[0]] = f[2]
		}
	}
	return m
}

func splitMsgs(b []byte) [][]byte {
	var res [][]byte
	for len(b) >= 4 {
		n := int(b[1])<<16 | int(b[2])<<8 | int(b[3])
		if len(b) < 4+n {
			break
		}
		res = append(res, b[:4+n])
		b = b[4+n:]
	}
	return res
}

// transcriptOf returns ClientHello..ServerHello and ClientHello..server Finished as one side saw them.
func transcriptOf(ev []hsEvent, isClient bool) (tsh, tsf []byte, ch, sh []byte, err error) {
	var all []byte
	for _, e := range ev {
		for _, m := range splitMsgs(e.msg) {
			all = append(all, m...)
			switch {
			case m[0] == 1 && ch == nil:
				ch = m
			case m[0] == 2 && sh == nil:
				sh = m
				tsh = append([]byte{}, all...)
			case m[0] == 20 && tsf == nil && sh != nil && e.read == isClient:
				// the server's Finished: read by the client, written by the server
				tsf = append([]byte{}, all...)
			}
		}
	}
	if ch == nil || sh == nil || tsf == nil {
		return nil, nil, nil, nil, fmt.Errorf("incomplete transcript capture")
	}
	return
}

func runE2E(s *E2ESpec) (*E2EObs, error) {
	ob := &E2EObs{Spec: *s, Env: map[string]string{}, Client: map[string]string{}, Server: map[string]string{}}
	cEnd, sEnd, _ := memnet.New()
	now := func() time.Time { return pki.At(86400 * 365) }
	var clog, slog bytes.Buffer
	crand := &recReader{n: s.Seed*2 + 1}
	ccfg := &tls.Config{InsecureSkipVerify: true, ServerName: "c26.test", MinVersion: s.Ver, MaxVersion: s.Ver,
		CipherSuites: []uint16{s.Suite}, Time: now, Rand: crand, KeyLogWriter: &clog,
		CurvePreferences: []tls.CurveID{tls.X25519}}
	scfg := &tls.Config{Certificates: []tls.Certificate{rsaCert("c26srv", "Rc26s", "server")}, MinVersion: s.Ver, MaxVersion: s.Ver,
		CipherSuites: []uint16{s.Suite}, Time: now, Rand: &recReader{n: s.Seed*2 + 2}, KeyLogWriter: &slog,
		CurvePreferences: []tls.CurveID{tls.X25519}}
	if s.ClientAuth {
		ccfg.Certificates = []tls.Certificate{rsaCert("c26cli", "Rc26c", "client")}
		scfg.ClientAuth = tls.RequireAnyClientCert
	}
	client, server := tls.Client(cEnd, ccfg), tls.Server(sEnd, scfg)
	defer cEnd.Close()
	defer sEnd.Close()
	errs := make(chan error, 2)
	go func() { errs <- server.Handshake() }()
	go func() { errs <- client.Handshake() }()
	for i := 0; i < 2; i++ {
		select {
		case err := <-errs:
			if err != nil {
				return nil, fmt.Errorf("handshake failed: %v", err)
			}
		case <-time.After(120 * time.Second):
			return nil, fmt.Errorf("handshake timed out")
		}
	}
	if s.ClientAuth && len(server.ConnectionState().PeerCertificates) == 0 {
		return nil, fmt.Errorf("client authentication did not happen")
	}
	// exported keying material, asked for after the handshake (twice: the second answer must not differ)
	label := string(fill(int64(s.Seed), "label", s.LabelLen))
	var ctx []byte
	if s.CtxLen >= 0 {
		ctx = fill(int64(s.Seed), "ctx", s.CtxLen)
	}
	for name, conn := range map[string]*tls.Conn{"client": client, "server": server} {
		cs := conn.ConnectionState()
		var e1, e2 []byte
		var err1, err2 error
		o := obs.Guard(60*time.Second, func() {
			e1, err1 = cs.ExportKeyingMaterial(label, ctx, s.N)
			e2, err2 = cs.ExportKeyingMaterial(label, ctx, s.N)
		})
		if o.Panic != "" || o.Timeout || err1 != nil || err2 != nil {
			return nil, fmt.Errorf("%s ExportKeyingMaterial failed: %v %v %s", name, err1, err2, o.Panic)
		}
		m := ob.Client
		if name == "server" {
			m = ob.Server
		}
		m["EKM"], m["EKM2"] = hex.EncodeToString(e1), hex.EncodeToString(e2)
	}
	for k, v := range keylog(clog.String()) {
		ob.Client[k] = v
	}
	for k, v := range keylog(slog.String()) {
		ob.Server[k] = v
	}
	capMu.Lock()
	cev, sev := caps[client], caps[server]
	delete(caps, client)
	delete(caps, server)
	capMu.Unlock()
	tsh, tsf, ch, sh, err := transcriptOf(cev, true)
	if err != nil {
		return nil, err
	}
	tsh2, tsf2, _, _, err := transcriptOf(sev, false)
	if err != nil {
		return nil, err
	}
	if !bytes.Equal(tsh, tsh2) || !bytes.Equal(tsf, tsf2) {
		return nil, fmt.Errorf("client and server captured different transcripts")
	}
	ob.Env["label"], ob.Env["ctx"] = hex.EncodeToString([]byte(label)), hex.EncodeToString(ctx)
	chm, ok1 := tls.VerifUnmarshalHandshake(s.Ver, ch)
	shm, ok2 := tls.VerifUnmarshalHandshake(s.Ver, sh)
	if !ok1 || !ok2 {
		return nil, fmt.Errorf("captured hellos do not parse")
	}
	if s.Ver == tls.VersionTLS13 {
		// the (EC)DHE secret, independently: the client's X25519 secret is among the bytes it drew
		shares, _ := chm.Get("keyShares")
		var cpub []byte
		for _, ks := range shares.([]map[string]interface{}) {
			if ks["group"].(uint64) == uint64(tls.X25519) {
				cpub = ks["data"].([]byte)
			}
		}
		ss, _ := shm.Get("serverShare")
		sshare := ss.(map[string]interface{})
		if cpub == nil || sshare["group"].(uint64) != uint64(tls.X25519) {
			return nil, fmt.Errorf("no X25519 key exchange in the captured hellos")
		}
		var shared []byte
		for off := 0; off+32 <= len(crand.out); off++ {
			priv, err := ecdh.X25519().NewPrivateKey(crand.out[off : off+32])
			if err != nil || !bytes.Equal(priv.PublicKey().Bytes(), cpub) {
				continue
			}
			spub, err := ecdh.X25519().NewPublicKey(sshare["data"].([]byte))
			if err != nil {
				return nil, err
			}
			if shared, err = priv.ECDH(spub); err != nil {
				return nil, err
			}
			break
		}
		if shared == nil {
			return nil, fmt.Errorf("the client's key-share secret was not found in its random stream")
		}
		ob.Env["secret"] = hex.EncodeToString(shared)
		ob.Env["tsh"], ob.Env["tsf"] = hex.EncodeToString(tsh), hex.EncodeToString(tsf)
		ob.TP = []int{len(tsh), len(tsf)}
	} else {
		ms, ok := ob.Client["CLIENT_RANDOM"]
		if !ok || ms != ob.Server["CLIENT_RANDOM"] {
			return nil, fmt.Errorf("no common master secret in the key logs")
		}
		cr, _ := chm.Get("random")
		sr, _ := shm.Get("random")
		ob.Env["secret"] = ms
		ob.Env["cr"], ob.Env["sr"] = hex.EncodeToString(cr.([]byte)), hex.EncodeToString(sr.([]byte))
		ob.TP = []int{}
	}
	return ob, nil
}

func (ob *E2EObs) param() map[string]any {
	s := ob.Spec
	p := map[string]any{"tag": s.Tag, "ver": int(s.Ver), "suite": int(s.Suite), "h": "", "label": "", "ll": s.LabelLen,
		"dl": 0, "cl": s.CtxLen, "n": s.N, "tp": ob.TP}
	if s.Ver == tls.VersionTLS13 {
		p["fn"], p["sl"] = "e2e13", 32
	} else {
		p["fn"], p["sl"] = "ekm", 48
	}
	return p
}

func e2eSpecs(seed int64) []E2ESpec {
	var res []E2ESpec
	tag := 0
	add := func(ver, suite uint16, ca bool, ll, cl, n int) {
		tag++
		res = append(res, E2ESpec{Tag: tag, Ver: ver, Suite: suite, ClientAuth: ca, LabelLen: ll, CtxLen: cl, N: n, Seed: uint64(seed)*97 + uint64(tag)})
	}
	for _, suite := range []uint16{0x1301, 0x1302, 0x1303} {
		add(tls.VersionTLS13, suite, false, 20, -1, 32)
		add(tls.VersionTLS13, suite, true, 9, 5, 48)
	}
	add(tls.VersionTLS12, 0xc02f, false, 20, -1, 32)
	add(tls.VersionTLS12, 0xc02f, true, 9, 5, 48)
	if obs.Thorough() {
		for _, suite := range []uint16{0x1301, 0x1302, 0x1303} {
			add(tls.VersionTLS13, suite, true, 0, 0, 1)
			add(tls.VersionTLS13, suite, false, 40, 300, 512)
		}
		add(tls.VersionTLS12, 0x009d, true, 40, 300, 512)
		add(tls.VersionTLS11, 0xc013, false, 20, 0, 64)
		add(tls.VersionTLS10, 0x002f, true, 20, -1, 64)
	}
	return res
}

func unhex(s string) []byte { b, _ := hex.DecodeString(s); return b }

// checkE2E judges one run against the terms TLC produced for its parameters.
func checkE2E(ob *E2EObs, c *Case) []verdict {
	env := term.Env{"cr": {}, "sr": {}}
	for k, v := range ob.Env {
		env[k] = unhex(v)
	}
	var want [][]byte
	for i := range c.Out {
		w, err := term.Eval(&c.Out[i], env)
		if err != nil {
			return []verdict{{kind: "harness", what: fmt.Sprintf("evaluating the demanded term %d: %v", i, err)}}
		}
		want = append(want, w)
	}
	var vs []verdict
	cmp := func(side string, m map[string]string, key string, w []byte, what string) {
		got, ok := m[key]
		if !ok {
			vs = append(vs, verdict{kind: "harness", what: fmt.Sprintf("%s has no %s", side, key)})
			return
		}
		if got != hex.EncodeToString(w) {
			kind := "e2e-keylog"
			if key == "EKM" || key == "EKM2" {
				kind = "e2e-exporter"
			}
			vs = append(vs, verdict{kind: kind, what: fmt.Sprintf("%s %s after a real %#04x/%#04x handshake (client certificate: %v) is %s, the RFC value for the captured transcript and secrets is %s",
				side, what, ob.Spec.Ver, ob.Spec.Suite, ob.Spec.ClientAuth, hexs(unhex(got)), hexs(w))})
		}
	}
	for _, side := range []string{"client", "server"} {
		m := ob.Client
		if side == "server" {
			m = ob.Server
		}
		if ob.Spec.Ver == tls.VersionTLS13 {
			cmp(side, m, "CLIENT_HANDSHAKE_TRAFFIC_SECRET", want[0], "client_handshake_traffic_secret")
			cmp(side, m, "SERVER_HANDSHAKE_TRAFFIC_SECRET", want[1], "server_handshake_traffic_secret")
			cmp(side, m, "CLIENT_TRAFFIC_SECRET_0", want[2], "client_application_traffic_secret_0")
			cmp(side, m, "SERVER_TRAFFIC_SECRET_0", want[3], "server_application_traffic_secret_0")
			cmp(side, m, "EKM", want[4], "ExportKeyingMaterial")
			cmp(side, m, "EKM2", want[4], "ExportKeyingMaterial (second call)")
		} else {
			cmp(side, m, "EKM", want[0], "ExportKeyingMaterial")
			cmp(side, m, "EKM2", want[0], "ExportKeyingMaterial (second call)")
		}
	}
	return vs
}

func e2eJSON(v any) string { b, _ := json.Marshal(v); return string(b) }
