package main

// Use-after-mutation programs of TLSKDFSeq.tla: the steps are executed in exactly the given order
// on the real functions, with the caller-owned objects (live transcript, finishedHash, the very
// byte slices handed in) kept and mutated by "the caller" between creation and use.

import (
	"bytes"
	"fmt"
	"time"

	"github.com/zmap/zcrypto/tls"
	"verifharness/lib/obs"
	"verifharness/lib/term"
)

type Step struct {
	Op   string   `json:"op"`
	Obj  string   `json:"obj"`
	Res  string   `json:"res"`
	Fn   string   `json:"fn"`
	Args []string `json:"args"`
	N    int      `json:"n"`
	M    int      `json:"m"`
}

type Expect struct {
	Name    string   `json:"name"`
	Allowed []term.T `json:"allowed"`
}

type VarDecl struct {
	Name string `json:"name"`
	N    int    `json:"n"`
}

type SeqCase struct {
	Fn     string    `json:"fn"`
	Suite  int       `json:"suite"`
	Ver    int       `json:"ver"`
	Vars   []VarDecl `json:"vars"`
	Steps  []Step    `json:"steps"`
	Expect []Expect  `json:"expect"`
	Trial  int64     `json:"trial,omitempty"`
	Kind   string    `json:"kind,omitempty"`
}

type closure func(string, []byte, int) ([]byte, error)

// runSeq executes the program; returns the observations in order.
func runSeq(c *SeqCase, trial int64) (obsv [][]byte, names []string, env term.Env, err error) {
	env = term.Env{}           // values at creation time (what the terms speak about)
	cur := map[string][]byte{} // the caller's live slices
	for _, v := range c.Vars {
		b := fill(trial, v.Name, v.N)
		if len(v.Name) >= 5 && v.Name[:5] == "label" {
			for i := range b {
				b[i] = 'a' + b[i]%26
			}
		}
		env[v.Name] = append([]byte{}, b...)
		cur[v.Name] = b
	}
	ts := map[string]*tls.VerifTranscript13{}
	fhs := map[string]*tls.VerifFinishedHash{}
	fns := map[string]closure{}
	res := map[string][]byte{}
	arg := func(s Step, i int) []byte {
		if i >= len(s.Args) || s.Args[i] == "" {
			return nil
		}
		return cur[s.Args[i]]
	}
	for _, s := range c.Steps {
		switch s.Op {
		case "tnew":
			t, e := tls.VerifNewTranscript13(uint16(s.N))
			if e != nil {
				return nil, nil, nil, e
			}
			ts[s.Obj] = t
		case "fhnew":
			f, e := tls.VerifNewFinishedHash(uint16(s.M), uint16(s.N))
			if e != nil {
				return nil, nil, nil, e
			}
			fhs[s.Obj] = f
		case "write":
			if t, ok := ts[s.Obj]; ok {
				t.Write(arg(s, 0))
			} else if f, ok := fhs[s.Obj]; ok {
				f.Write(arg(s, 0))
			} else {
				return nil, nil, nil, fmt.Errorf("write to unknown object %q", s.Obj)
			}
		case "over":
			b := arg(s, 0)
			for i := range b {
				b[i] ^= 0xFF
			}
		case "call":
			switch s.Fn {
			case "exporter13":
				fns[s.Res] = closure(ts[s.Obj].ExportKeyingMaterial(arg(s, 0)))
			case "derive13":
				res[s.Res] = ts[s.Obj].DeriveSecret(arg(s, 0), string(arg(s, 1)))
			case "fin13":
				res[s.Res] = ts[s.Obj].FinishedHash(arg(s, 0))
			case "ekm12":
				f, e := tls.VerifEKMFromMasterSecret(uint16(s.M), uint16(s.N), arg(s, 0), arg(s, 1), arg(s, 2))
				if e != nil {
					return nil, nil, nil, e
				}
				fns[s.Res] = closure(f)
			case "clientsum":
				res[s.Res] = fhs[s.Obj].ClientSum(arg(s, 0))
			case "serversum":
				res[s.Res] = fhs[s.Obj].ServerSum(arg(s, 0))
			case "fhsum":
				res[s.Res] = fhs[s.Obj].Sum()
			case "keys12":
				si, ok := tls.VerifSuiteByID(uint16(s.N))
				if !ok {
					return nil, nil, nil, fmt.Errorf("suite %#x not implemented", s.N)
				}
				k, e := tls.VerifKeysFromMasterSecret(uint16(s.M), uint16(s.N), arg(s, 0), arg(s, 1), arg(s, 2), si.MacLen, si.KeyLen, si.IVLen)
				if e != nil {
					return nil, nil, nil, e
				}
				for i, b := range [][]byte{k.ClientMAC, k.ServerMAC, k.ClientKey, k.ServerKey, k.ClientIV, k.ServerIV} {
					res[fmt.Sprintf("%s.%d", s.Res, i+1)] = b
				}
			case "traffickey":
				k, iv, e := tls.VerifTrafficKey(uint16(s.N), arg(s, 0))
				if e != nil {
					return nil, nil, nil, e
				}
				res[s.Res+".1"], res[s.Res+".2"] = k, iv
			default:
				return nil, nil, nil, fmt.Errorf("unknown function %q", s.Fn)
			}
		case "invoke":
			f, ok := fns[s.Obj]
			if !ok {
				return nil, nil, nil, fmt.Errorf("unknown closure %q", s.Obj)
			}
			out, e := f(string(arg(s, 0)), arg(s, 1), s.N)
			if e != nil {
				return nil, nil, nil, fmt.Errorf("closure %s: %v", s.Obj, e)
			}
			res[s.Res] = out
		case "obs":
			b, ok := res[s.Res]
			if !ok {
				return nil, nil, nil, fmt.Errorf("observation of unknown result %q", s.Res)
			}
			obsv = append(obsv, append([]byte{}, b...))
			names = append(names, s.Res)
		case "tsum":
			obsv = append(obsv, ts[s.Obj].Sum())
			names = append(names, s.Res)
		default:
			return nil, nil, nil, fmt.Errorf("unknown step %q", s.Op)
		}
	}
	return obsv, names, env, nil
}

// checkSeq compares the observations with the admissible terms.
func checkSeq(c *SeqCase, trial int64) (verdict, error) {
	var obsv [][]byte
	var names []string
	var env term.Env
	var err error
	o := obs.Guard(60*time.Second, func() { obsv, names, env, err = runSeq(c, trial) })
	if o.Timeout {
		return verdict{}, fmt.Errorf("program timed out")
	}
	if o.Panic != "" {
		return verdict{kind: "panic", what: fmt.Sprintf("%s panicked: %s", c.Fn, o.Panic)}, nil
	}
	if err != nil {
		return verdict{}, err
	}
	if len(obsv) != len(c.Expect) {
		return verdict{}, fmt.Errorf("%d observations, specification lists %d", len(obsv), len(c.Expect))
	}
	for i, e := range c.Expect {
		if e.Name != names[i] {
			return verdict{}, fmt.Errorf("observation %d is %q, specification expects %q", i, names[i], e.Name)
		}
		ok := false
		var first []byte
		for k := range e.Allowed {
			w, err := term.Eval(&e.Allowed[k], env)
			if err != nil {
				return verdict{}, fmt.Errorf("evaluating the demanded term of %s: %v", e.Name, err)
			}
			if k == 0 {
				first = w
			}
			if bytes.Equal(w, obsv[i]) {
				ok = true
				break
			}
		}
		if !ok {
			return verdict{kind: "use-after-mutation", idx: i,
				what: fmt.Sprintf("%s, observation %d (%s): after the caller went on using its transcript / overwrote its inputs the result is %s, the value derived from the inputs at creation time is %s",
					c.Fn, i+1, e.Name, hexs(obsv[i]), hexs(first))}, nil
		}
	}
	return verdict{}, nil
}
