// c05: conformance harness binding ExpectedCSR / ExpectedCRL / ExpectedRL of Issuance.tla to
// CreateCertificateRequest/ParseCertificateRequest/CheckSignature,
// Certificate.CreateCRL/ParseCRL/CheckCRLSignature and
// CreateRevocationList/ParseRevocationList/CheckSignatureFrom.
//
//	c05 replay-gen <kind> <cases.ndjson>        TLC-generated {t, exp}: run, project, Judge
//	c05 replay <replay.json>                    one case (exit 1 if the real code disagrees)
//	c05 record <kind> <out.ndjson> <n>          n rapid-generated templates -> {t, obs} for TLC
//	c05 record-one <replay.json> <out.ndjson>   re-run one logged template for TLC
//
// kind = csr | crl | rl
package main

import (
	"encoding/json"
	"fmt"
	"os"
	"regexp"
	"sort"
	"strconv"
	"strings"

	"verifharness/lib/iss"
	"verifharness/lib/obs"
)

type Case struct {
	Kind     string          `json:"kind"`
	T        json.RawMessage `json:"t"`
	Exp      *iss.Expected   `json:"exp,omitempty"`
	Obs      *iss.Obs        `json:"obs,omitempty"`
	Observer string          `json:"observer,omitempty"`
}

func mustJSON(v any) string { b, _ := json.Marshal(v); return string(b) }

// run executes the real code on the template of the given kind; feat = features for the signature.
func run(kind string, raw json.RawMessage) (*iss.Result, map[string]any) {
	var r *iss.Result
	var err error
	feat := map[string]any{}
	dec := func(v any) {
		if e := json.Unmarshal(raw, v); e != nil {
			obs.Fatal("bad %s template: %v", kind, e)
		}
	}
	var g obs.Outcome
	switch kind {
	case "csr":
		var t iss.CSRTemplate
		dec(&t)
		feat["signer"], feat["pad"] = iss.Family(t.Key), pad(t.SigAlg)
		g = obs.Guard(120e9, func() { r, err = iss.RunCSR(t) })
	case "rl":
		var t iss.RLTemplate
		dec(&t)
		feat["signer"], feat["pad"] = iss.Family(t.Issuer.Key), pad(t.SigAlg)
		g = obs.Guard(120e9, func() { r, err = iss.RunRL(t) })
	case "crl":
		var t iss.CRLTemplate
		dec(&t)
		feat["signer"], feat["pad"] = iss.Family(t.Issuer.Key), "n/a"
		g = obs.Guard(120e9, func() { r, err = iss.RunCRL(t) })
	default:
		obs.Fatal("unknown kind %q", kind)
	}
	if g.Panic != "" || g.Timeout {
		return &iss.Result{Obs: iss.Obs{Outcome: "panic", Err: g.Panic, Val: map[string]any{}}}, feat
	}
	if err != nil {
		obs.Fatal("concretisation failed for %s %s: %v", kind, raw, err)
	}
	return r, feat
}

func pad(alg string) string {
	switch {
	case strings.Contains(alg, "PSS"):
		return "pss"
	case strings.HasSuffix(alg, "-RSA"):
		return "pkcs1v15"
	}
	return "none"
}

var oidRe = regexp.MustCompile(`"(\d+(\.\d+)+)"`)

// bigArc: does the template mention an OID with an arc of 2^28 or more?  (feature for the
// violation signature only)
func bigArc(raw json.RawMessage) bool {
	for _, m := range oidRe.FindAllStringSubmatch(string(raw), -1) {
		for _, a := range strings.Split(m[1], ".") {
			if n, err := strconv.ParseInt(a, 10, 64); err == nil && n >= 1<<28 {
				return true
			}
		}
	}
	return false
}

func stage(o *iss.Obs) string {
	if i := strings.Index(o.Err, ":"); i > 0 && o.Outcome == "error" {
		return o.Err[:i]
	}
	return ""
}

func sigOf(kind, dir, observer string, feat map[string]any, bad []string) map[string]any {
	s := map[string]any{"obj": kind, "dir": dir, "observer": observer, "fields": strings.Join(bad, ",")}
	for k, v := range feat {
		s[k] = v
	}
	return s
}

func logRec(w *obs.Writer, raw json.RawMessage, r *iss.Result) {
	rec := map[string]any{"t": raw, "obs": r.Obs, "hasStd": r.StdObs != nil}
	if r.StdObs != nil {
		rec["std"] = r.StdObs
		keys := make([]string, 0, len(r.StdObs.Val))
		for k := range r.StdObs.Val {
			keys = append(keys, k)
		}
		sort.Strings(keys)
		rec["stdFields"] = keys
	} else {
		rec["std"] = iss.Obs{Outcome: "none", Val: map[string]any{}}
		rec["stdFields"] = []string{}
		if r.StdErr != nil {
			rec["stdErr"] = r.StdErr.Error()
		}
	}
	w.Write(rec)
}

func main() {
	if len(os.Args) < 3 {
		obs.Fatal("usage")
	}
	switch os.Args[1] {
	case "replay-gen":
		kind := os.Args[2]
		n, bad, errs, stdParsed, nontriv := 0, 0, 0, 0, 0
		seen := map[string]bool{}
		stdErrs := map[string]int{}
		err := obs.ReadLines(os.Args[3], func(line []byte) error {
			var c Case
			if err := json.Unmarshal(line, &c); err != nil {
				return err
			}
			c.Kind = kind
			n++
			r, feat := run(kind, c.T)
			if r.Obs.Outcome != "ok" {
				errs++
			} else if len(r.DER) > 0 {
				nontriv++
			}
			if r.StdObs != nil {
				stdParsed++
			} else if r.StdErr != nil {
				stdErrs[r.StdErr.Error()]++
			}
			emit := func(observer string, b []string, o *iss.Obs) {
				bad++
				sig := sigOf(kind, "gen", observer, feat, b)
				sig["stage"], sig["bigarc"] = stage(o), bigArc(c.T)
				k := mustJSON(sig)
				if seen[k] {
					return
				}
				seen[k] = true
				cc := c
				cc.Obs, cc.Observer = o, observer
				obs.Emit(obs.Candidate{Sig: sig, What: fmt.Sprintf("%s view of the created %s disagrees with Expected in %v (err=%q)", observer, kind, b, o.Err), Case: cc})
			}
			if b := iss.Judge(*c.Exp, r.Obs, false); len(b) > 0 {
				emit("zcrypto", b, &r.Obs)
			}
			if r.StdObs != nil {
				if b := iss.Judge(*c.Exp, *r.StdObs, true); len(b) > 0 {
					emit("stdlib", b, r.StdObs)
				}
			}
			return nil
		})
		if err != nil {
			obs.Fatal("%v", err)
		}
		obs.Stat("cases", n)
		obs.Stat("accepted", nontriv)
		obs.Stat("disagreements", bad)
		obs.Stat("rejected_by_create_or_parse", errs)
		obs.Stat("std_parsed", stdParsed)
		if len(stdErrs) > 0 {
			obs.Stat("std_refusals", stdErrs)
		}
	case "replay":
		var c Case
		obs.ReadReplay(os.Args[2], &c)
		if c.Exp == nil {
			obs.Fatal("replay file without exp")
		}
		r, _ := run(c.Kind, c.T)
		zb := iss.Judge(*c.Exp, r.Obs, false)
		var sb []string
		if r.StdObs != nil {
			sb = iss.Judge(*c.Exp, *r.StdObs, true)
		}
		if len(zb) > 0 || len(sb) > 0 {
			fmt.Printf("REPRODUCED: zcrypto %v stdlib %v err=%q\n", zb, sb, r.Obs.Err)
			os.Exit(1)
		}
		fmt.Println("not reproduced")
	case "record":
		kind := os.Args[2]
		cnt, _ := strconv.Atoi(os.Args[4])
		w := obs.NewWriter(os.Args[3])
		seed := int(obs.Seed())
		outcomes := map[string]int{}
		stdParsed := 0
		for i := 0; i < cnt; i++ {
			var t any
			switch kind {
			case "csr":
				t = iss.GenCSR().Example(seed*1000003 + i)
			case "rl":
				t = iss.GenRL().Example(seed*1000003 + i)
			case "crl":
				t = iss.GenCRL().Example(seed*1000003 + i)
			default:
				obs.Fatal("unknown kind")
			}
			raw, _ := json.Marshal(t)
			r, _ := run(kind, raw)
			outcomes[r.Obs.Outcome]++
			if r.StdObs != nil {
				stdParsed++
			}
			logRec(w, raw, r)
		}
		w.Close()
		obs.Stat("records", w.N)
		obs.Stat("outcomes", outcomes)
		obs.Stat("std_parsed", stdParsed)
	case "record-one":
		var c Case
		obs.ReadReplay(os.Args[2], &c)
		w := obs.NewWriter(os.Args[3])
		r, _ := run(c.Kind, c.T)
		logRec(w, c.T, r)
		w.Close()
	default:
		obs.Fatal("unknown command")
	}
}
