// c01: conformance harness binding spec/Inputs.tla to every zcrypto parser of untrusted bytes.
//
//	c01 run   <model.json> <programs.ndjson> <out.ndjson> <shard> <nshards>
//	      concretise the TLC-generated mutation programs of this shard on the real seeds, feed
//	      every result to every entry point of its kind in both parsing modes, log observations
//	c01 sweep <model.json> <out.ndjson> <count> <shard> <nshards>
//	      seeded byte-level mutation sweep of the same seeds, logged the same way
//	c01 one   <model.json> <replay.json> <out.ndjson>
//	      re-run the single case of a replay file (again in a limited child process)
//	c01 seeds <model.json>
//	      concretisation check of every seed (parse with the model's structure, re-serialise)
//
// run / sweep / one are supervisors: the work happens in a child process ("work") with an
// address-space limit, a watchdog and a progress marker, so that an out-of-memory kill, a
// runtime fatal error (stack overflow) or a hang is an observation of the call that was in
// flight, not a crash of the checker.  The harness never judges: Trace_Inputs.tla does.
package main

import (
	"bufio"
	"encoding/binary"
	"encoding/hex"
	"encoding/json"
	"fmt"
	"hash/fnv"
	"io"
	"math/rand"
	"os"
	"os/exec"
	"runtime/pprof"
	"strconv"
	"strings"
	"sync/atomic"
	"syscall"
	"time"

	"verifharness/lib/inputs"
	"verifharness/lib/obs"
)

const memLimit = 3 << 30 // address-space limit of a worker child

type record struct {
	K    string          `json:"k"`
	P    []inputs.Mut    `json:"p"`
	Sw   int             `json:"sw"`
	Seed string          `json:"seed"`
	SC   string          `json:"sc"`
	Len  int             `json:"len"`
	Cut  int             `json:"cut"`
	I    int             `json:"i"` // program index / sweep index
	Hex  string          `json:"hex,omitempty"`
	R    []inputs.Result `json:"r"`
	Reg  []string        `json:"reg,omitempty"`
	Fam  []string        `json:"fam,omitempty"`
}

// job: one (program, seed) or one sweep input
type job struct {
	prog  *inputs.Program
	pidx  int
	seed  *inputs.Seed
	sweep int    // > 0: sweep input number
	raw   []byte // replay of a recorded input
	rawSw int
}

type plan struct {
	model *inputs.Model
	seeds *inputs.Seeds
	jobs  []job
	base  int64
	only  *onlyFilter
}

// onlyFilter restricts a re-run (detail pass) to some programs / sweep seeds.
type onlyFilter struct {
	Progs []int    `json:"progs"`
	Seeds []string `json:"seeds"` // "kind/seedname"
	progs map[int]bool
	seeds map[string]bool
}

func loadOnly(path string) *onlyFilter {
	if path == "" || path == "-" {
		return nil
	}
	b, err := os.ReadFile(path)
	if err != nil {
		obs.Fatal("only: %v", err)
	}
	var f onlyFilter
	if err := json.Unmarshal(b, &f); err != nil {
		obs.Fatal("only: %v", err)
	}
	f.progs, f.seeds = map[int]bool{}, map[string]bool{}
	for _, p := range f.Progs {
		f.progs[p] = true
	}
	for _, sd := range f.Seeds {
		f.seeds[sd] = true
	}
	return &f
}

func loadPrograms(path string) []*inputs.Program {
	var res []*inputs.Program
	err := obs.ReadLines(path, func(line []byte) error {
		if line[0] == '"' {
			var s string
			if err := json.Unmarshal(line, &s); err != nil {
				return err
			}
			line = []byte(s)
		}
		var p inputs.Program
		if err := json.Unmarshal(line, &p); err != nil {
			return err
		}
		res = append(res, &p)
		return nil
	})
	if err != nil {
		obs.Fatal("programs: %v", err)
	}
	return res
}

func hash64(parts ...any) uint64 {
	h := fnv.New64a()
	fmt.Fprint(h, parts...)
	return h.Sum64()
}

// seedsFor: every generated / derived seed of the kind, plus a rotating choice of the
// repository's test vectors (1 per program in the quick tier, 3 in the thorough tier); the
// unmutated program runs on every seed.
func (pl *plan) seedsFor(p *inputs.Program, pidx int) []*inputs.Seed {
	all := pl.seeds.ByKind[p.K]
	if len(p.P) == 0 {
		return all
	}
	var res, files []*inputs.Seed
	for _, s := range all {
		switch {
		case s.NoMutate:
		case s.Class == "gen" || !strings.Contains(s.Name, "#"):
			res = append(res, s)
		default:
			files = append(files, s)
		}
	}
	n := 1
	if obs.Thorough() {
		n = 3
	}
	for i := 0; i < n && len(files) > 0; i++ {
		j := int(hash64(pl.base, pidx, i) % uint64(len(files)))
		res = append(res, files[j])
		files = append(files[:j], files[j+1:]...)
	}
	return res
}

func newPlan(modelPath string) *plan {
	m, err := inputs.LoadModel(modelPath)
	if err != nil {
		obs.Fatal("model: %v", err)
	}
	repo := os.Getenv("VERIF_REPO")
	if repo == "" {
		repo = "/repo"
	}
	pl := &plan{model: m, base: obs.Seed()}
	pl.seeds = inputs.BuildSeeds(repo, fmt.Sprintf("c01-%d", obs.Seed()))
	return pl
}

func (pl *plan) planRun(progPath string, shard, nshards int) {
	progs := loadPrograms(progPath)
	for i, p := range progs {
		if i%nshards != shard {
			continue
		}
		if pl.only != nil && !pl.only.progs[i] {
			continue
		}
		if pl.model.Kind(p.K) == nil {
			obs.Fatal("program %d: unknown kind %q", i, p.K)
		}
		for _, s := range pl.seedsFor(p, i) {
			pl.jobs = append(pl.jobs, job{prog: p, pidx: i, seed: s})
		}
	}
}

func (pl *plan) planSweep(count, shard, nshards int) {
	var all []*inputs.Seed
	for _, k := range pl.model.Kinds {
		all = append(all, pl.seeds.ByKind[k.K]...)
	}
	for i := 0; i < count; i++ {
		if i%nshards != shard {
			continue
		}
		s := all[int(hash64(pl.base, "sweep", i)%uint64(len(all)))]
		if pl.only != nil && !pl.only.seeds[s.Kind+"/"+s.Name] {
			continue
		}
		pl.jobs = append(pl.jobs, job{seed: s, sweep: i + 1})
	}
}

// sweepInput derives the i-th byte-level mutant of a seed.
func (pl *plan) sweepInput(s *inputs.Seed, i int) ([]byte, int) {
	rng := rand.New(rand.NewSource(int64(hash64(pl.base, s.Name, i) & 0x7fffffffffffffff)))
	b := append([]byte{}, s.Data...)
	if len(b) > 1<<16 {
		// large files: work on a window so that the input stays small; keep the head
		b = b[:1<<16]
	}
	n := 1 + rng.Intn(6)
	all := pl.seeds.ByKind[s.Kind]
	for e := 0; e < n; e++ {
		if len(b) == 0 {
			b = []byte{byte(rng.Intn(256))}
			continue
		}
		pos := rng.Intn(len(b))
		// bias towards the head, where headers and length words live
		if rng.Intn(3) == 0 {
			pos = rng.Intn(1 + len(b)/8)
		}
		switch rng.Intn(9) {
		case 0:
			b[pos] ^= 1 << uint(rng.Intn(8))
		case 1:
			b[pos] = byte(rng.Intn(256))
		case 2:
			b[pos] = []byte{0, 0xff, 0x7f, 0x80, 0x81, 0x84, 0x30, 0x1f}[rng.Intn(8)]
		case 3: // delete a chunk
			l := 1 + rng.Intn(8)
			if pos+l > len(b) {
				l = len(b) - pos
			}
			b = append(b[:pos], b[pos+l:]...)
		case 4: // insert bytes
			ins := make([]byte, 1+rng.Intn(4))
			rng.Read(ins)
			b = append(b[:pos], append(ins, b[pos:]...)...)
		case 5: // duplicate a chunk
			l := 1 + rng.Intn(32)
			if pos+l > len(b) {
				l = len(b) - pos
			}
			b = append(b[:pos+l], append(append([]byte{}, b[pos:pos+l]...), b[pos+l:]...)...)
		case 6: // truncate
			b = b[:pos]
		case 7: // splice the tail of another seed of the kind
			o := all[rng.Intn(len(all))].Data
			if len(o) > 1<<16 {
				o = o[:1<<16]
			}
			if len(o) > 0 {
				b = append(b[:pos], o[rng.Intn(len(o)):]...)
			}
		case 8: // overwrite 4 bytes with a big-endian or little-endian extreme
			v := []uint32{0xffffffff, 0x7fffffff, 0x80000000, 0x00ffffff, 0xffff}[rng.Intn(5)]
			var w [4]byte
			if rng.Intn(2) == 0 {
				binary.BigEndian.PutUint32(w[:], v)
			} else {
				binary.LittleEndian.PutUint32(w[:], v)
			}
			copy(b[pos:], w[:])
		}
	}
	return b, n
}

// input of a job; ok=false: the program does not apply to the seed
func (pl *plan) input(j job) (data []byte, cut, sw int, ok bool) {
	if j.raw != nil {
		return j.raw, 0, j.rawSw, true
	}
	if j.sweep > 0 {
		data, sw = pl.sweepInput(j.seed, j.sweep)
		return data, 0, sw, true
	}
	out, cut, applied, err := pl.model.Concretise(j.seed, j.prog.P, pl.base)
	if err != nil {
		obs.Fatal("concretise %s on %s: %v", mustJSON(j.prog.P), j.seed.Name, err)
	}
	return out, cut, 0, applied
}

func mustJSON(v any) string {
	b, err := json.Marshal(v)
	if err != nil {
		panic(err)
	}
	return string(b)
}

// ---------------------------------------------------------------------------------------
// worker child

type marker struct{ f *os.File }

func (m *marker) set(jobIdx, callIdx int) {
	var b [16]byte
	binary.LittleEndian.PutUint64(b[:8], uint64(jobIdx))
	binary.LittleEndian.PutUint64(b[8:], uint64(int64(callIdx)))
	m.f.WriteAt(b[:], 0)
}

func readMarker(path string) (int, int) {
	b, err := os.ReadFile(path)
	if err != nil || len(b) < 16 {
		return -1, -1
	}
	return int(binary.LittleEndian.Uint64(b[:8])), int(int64(binary.LittleEndian.Uint64(b[8:])))
}

type skipSpec struct {
	// Jobs: job index -> call index -> injected result (the observation "timeout" / "fatal" of a
	// call that killed an earlier worker; kept for every job, because records a dead worker had
	// not flushed yet are re-executed)
	Jobs map[int]map[int]inputs.Result `json:"jobs"`
	// Ban: "kind|entry point" pairs that already hung / killed the worker banK times in this run;
	// they are no longer fed (observation "notrun") - the candidate exists, more of the same only
	// costs a watchdog period and a worker restart each.
	Ban []string `json:"ban"`
}

const banK = 3

// work: executes jobs[from:], writes one record per applicable job to stdout.
func work(pl *plan, from int, markerPath string, skip skipSpec) {
	var rl syscall.Rlimit
	if err := syscall.Getrlimit(syscall.RLIMIT_AS, &rl); err == nil {
		rl.Cur = memLimit
		if rl.Max != ^uint64(0) && rl.Cur > rl.Max {
			rl.Cur = rl.Max
		}
		syscall.Setrlimit(syscall.RLIMIT_AS, &rl)
	}
	mf, err := os.OpenFile(markerPath, os.O_CREATE|os.O_RDWR, 0o644)
	if err != nil {
		obs.Fatal("marker: %v", err)
	}
	mk := &marker{f: mf}
	w := bufio.NewWriterSize(os.Stdout, 1<<16)
	defer w.Flush()
	inputs.StartWatchdog(time.Duration(pl.model.TimeLimitMs) * time.Millisecond)
	inputs.OnOverrun = func() { os.Exit(4) }
	enc := json.NewEncoder(w)
	banned := map[string]bool{}
	for _, b := range skip.Ban {
		banned[b] = true
	}
	for ji := from; ji < len(pl.jobs); ji++ {
		j := pl.jobs[ji]
		mk.set(ji, -1)
		data, cut, sw, ok := pl.input(j)
		if !ok {
			fmt.Fprintf(w, "NA %d\n", ji)
			continue
		}
		k := pl.model.Kind(j.seed.Kind)
		rec := record{K: k.K, Sw: sw, Seed: j.seed.Name, SC: j.seed.Class, Len: len(data), Cut: cut, P: []inputs.Mut{}}
		if j.prog != nil {
			rec.P, rec.I, rec.Reg, rec.Fam = j.prog.P, j.pidx, j.prog.Reg, j.prog.Fam
			if rec.P == nil {
				rec.P = []inputs.Mut{}
			}
		} else {
			rec.I = j.sweep
		}
		ci := 0
		for _, ep := range k.EPs {
			f := inputs.EPs[ep]
			if f == nil {
				obs.Fatal("the model names entry point %q which the harness does not bind", ep)
			}
			for _, mode := range pl.model.Modes {
				if inj, ok := skip.Jobs[ji][ci]; ok {
					rec.R = append(rec.R, inj)
					ci++
					continue
				}
				if banned[k.K+"|"+ep] {
					rec.R = append(rec.R, inputs.Result{EP: ep, M: mode, O: "notrun"})
					ci++
					continue
				}
				mk.set(ji, ci)
				d := data
				rec.R = append(rec.R, inputs.Call(ep, mode, func() error { return f(d) }))
				ci++
			}
		}
		mk.set(ji, -2)
		bad := false
		for _, r := range rec.R {
			if r.O != "ok" && r.O != "err" && r.O != "notrun" {
				bad = true
			}
		}
		if (bad || os.Getenv("VERIF_C01_DETAIL") != "") && len(data) <= 1<<16 {
			// (a record whose only oddity is "notrun" needs no bytes)
			rec.Hex = hex.EncodeToString(data)
		}
		fmt.Fprintf(w, "REC %d ", ji)
		if err := enc.Encode(&rec); err != nil {
			obs.Fatal("encode: %v", err)
		}
	}
}

// ---------------------------------------------------------------------------------------
// summaries (the record format of Trace_Inputs.tla)

type group struct {
	E   []int    `json:"e"`
	M   string   `json:"m"`
	OS  []string `json:"os"`
	Ms  int      `json:"ms"`
	KiB int      `json:"kib"`
}

type badCall struct {
	inputs.Result
	Seed string `json:"seed"`
	Len  int    `json:"len"`
	Hex  string `json:"hex,omitempty"`
}

type summary struct {
	K    string       `json:"k"`
	P    []inputs.Mut `json:"p"`
	Sw   int          `json:"sw"`
	SC   string       `json:"sc"`
	Cut  int          `json:"cut"`
	N    int          `json:"n"`
	Len  int          `json:"len"`
	EPs  []string     `json:"eps"`
	G    []group      `json:"g"`
	I    int          `json:"i"`
	Seed string       `json:"seed"` // first (n = 1: the) seed
	Hex  string       `json:"hex,omitempty"`
	Reg  []string     `json:"reg,omitempty"`
	Fam  []string     `json:"fam,omitempty"`
	Bad  []badCall    `json:"bad,omitempty"`
	SwN  int          `json:"swn,omitempty"` // n = 1 sweep input: number of byte edits
	cell map[[2]int]*cellAgg
}

type cellAgg struct {
	os      map[string]bool
	ms, kib int
}

type aggregator struct {
	notrun int
	pl     *plan
	out    *bufio.Writer
	detail bool
	cur    map[string]*summary
	order  []string
	curKey string // program index / sweep seed currently being aggregated
	n      int
}

func (a *aggregator) add(rec *record) {
	k := a.pl.model.Kind(rec.K)
	sw := 0
	if rec.Sw > 0 {
		sw = 1
	}
	outer := fmt.Sprintf("p%d", rec.I)
	if sw == 1 {
		outer = "s/" + rec.K + "/" + rec.Seed
	}
	if a.detail {
		outer = fmt.Sprintf("%s/%d/%s", outer, rec.I, rec.Seed)
	}
	if sw == 0 && outer != a.curKey {
		a.flush()
	}
	a.curKey = outer
	cutflag := 0
	if rec.Cut > 0 {
		cutflag = 1
	}
	empty := 0
	if rec.Len == 0 {
		empty = 1
	}
	key := fmt.Sprintf("%s/%s/%d/%d", outer, rec.SC, cutflag, empty)
	s := a.cur[key]
	if s == nil {
		s = &summary{K: rec.K, P: rec.P, Sw: sw, SC: rec.SC, Cut: rec.Cut, Len: rec.Len, EPs: k.EPs, I: rec.I, Seed: rec.Seed,
			Reg: rec.Reg, Fam: rec.Fam, cell: map[[2]int]*cellAgg{}}
		if sw == 1 {
			s.P = []inputs.Mut{}
		}
		if a.detail {
			s.Hex, s.SwN = rec.Hex, rec.Sw
		}
		a.cur[key] = s
		a.order = append(a.order, key)
	}
	s.N++
	if rec.Len < s.Len {
		s.Len = rec.Len
	}
	if rec.Cut > 0 && rec.Cut < s.Cut {
		s.Cut = rec.Cut
	}
	nm := len(a.pl.model.Modes)
	for ci, r := range rec.R {
		c := s.cell[[2]int{ci / nm, ci % nm}]
		if c == nil {
			c = &cellAgg{os: map[string]bool{}}
			s.cell[[2]int{ci / nm, ci % nm}] = c
		}
		c.os[r.O] = true
		if r.O == "notrun" {
			a.notrun++
		}
		if r.Ms > c.ms {
			c.ms = r.Ms
		}
		if r.KiB > c.kib {
			c.kib = r.KiB
		}
		if (r.O != "ok" && r.O != "err" && r.O != "notrun") && len(s.Bad) < 6 {
			s.Bad = append(s.Bad, badCall{Result: r, Seed: rec.Seed, Len: rec.Len, Hex: rec.Hex})
		}
	}
}

func (a *aggregator) flush() {
	for _, key := range a.order {
		s := a.cur[key]
		// group the calls by (mode, outcome set)
		type gk struct {
			m  int
			os string
		}
		idx := map[gk]int{}
		for e := range s.EPs {
			for m, mode := range a.pl.model.Modes {
				c := s.cell[[2]int{e, m}]
				if c == nil {
					continue
				}
				var os []string
				for _, o := range []string{"ok", "err", "panic", "timeout", "fatal", "notrun"} {
					if c.os[o] {
						os = append(os, o)
					}
				}
				k := gk{m, strings.Join(os, ",")}
				gi, ok := idx[k]
				if !ok {
					gi = len(s.G)
					idx[k] = gi
					s.G = append(s.G, group{M: mode, OS: os, E: []int{}})
				}
				g := &s.G[gi]
				g.E = append(g.E, e)
				if c.ms > g.Ms {
					g.Ms = c.ms
				}
				if c.kib > g.KiB {
					g.KiB = c.kib
				}
			}
		}
		b, err := json.Marshal(s)
		if err != nil {
			obs.Fatal("marshal summary: %v", err)
		}
		a.out.Write(b)
		a.out.WriteByte('\n')
		a.n++
	}
	a.cur = map[string]*summary{}
	a.order = nil
}

// ---------------------------------------------------------------------------------------
// supervisor

func supervise(pl *plan, childArgs []string, outPath string, detail bool) {
	outf, err := os.Create(outPath)
	if err != nil {
		obs.Fatal("create %s: %v", outPath, err)
	}
	out := bufio.NewWriterSize(outf, 1<<20)
	ag := &aggregator{pl: pl, out: out, detail: detail, cur: map[string]*summary{}}
	defer func() { ag.flush(); out.Flush(); outf.Close(); obs.Stat("summaries", ag.n) }()
	markerPath := outPath + ".marker"
	defer os.Remove(markerPath)
	from := 0
	skip := skipSpec{Jobs: map[int]map[int]inputs.Result{}}
	na, recs, restarts, deaths := 0, 0, 0, 0
	deathsBy := map[string]int{}
	// wall budget of this stage: when it is used up the supervisor stops feeding, keeps what it
	// has (the driver goes on to replay the candidates gathered so far) and reports how many jobs
	// were left
	var deadline time.Time
	if b, err := strconv.Atoi(os.Getenv("VERIF_C01_BUDGET_S")); err == nil && b > 0 {
		deadline = time.Now().Add(time.Duration(b) * time.Second)
	}
	budgetHit := false
	self, _ := os.Executable()
	for from < len(pl.jobs) {
		if !deadline.IsZero() && time.Now().After(deadline) {
			budgetHit = true
			break
		}
		os.Remove(markerPath)
		args := append([]string{"work"}, childArgs...)
		args = append(args, strconv.Itoa(from), markerPath, mustJSON(skip))
		cmd := exec.Command(self, args...)
		cmd.Env = os.Environ()
		if detail {
			cmd.Env = append(cmd.Env, "VERIF_C01_DETAIL=1")
		}
		var stderr strings.Builder
		cmd.Stderr = &limitedWriter{w: &stderr, n: 1 << 16}
		stdout, err := cmd.StdoutPipe()
		if err != nil {
			obs.Fatal("pipe: %v", err)
		}
		if err := cmd.Start(); err != nil {
			obs.Fatal("start worker: %v", err)
		}
		var killed atomic.Bool
		if !deadline.IsZero() {
			tm := time.AfterFunc(time.Until(deadline), func() { killed.Store(true); cmd.Process.Kill() })
			defer tm.Stop()
		}
		next := from
		rd := bufio.NewReaderSize(stdout, 1<<20)
		for {
			line, err := rd.ReadBytes('\n')
			if len(line) > 0 && line[len(line)-1] == '\n' {
				switch {
				case strings.HasPrefix(string(line[:3]), "NA "):
					ji, _ := strconv.Atoi(strings.TrimSpace(string(line[3:])))
					next = ji + 1
					na++
				case strings.HasPrefix(string(line[:4]), "REC "):
					sp := strings.IndexByte(string(line[4:]), ' ')
					ji, _ := strconv.Atoi(string(line[4 : 4+sp]))
					var rec record
					if err := json.Unmarshal(line[4+sp+1:], &rec); err != nil {
						obs.Fatal("worker record: %v", err)
					}
					ag.add(&rec)
					next = ji + 1
					recs++
				}
			}
			if err != nil {
				break
			}
		}
		werr := cmd.Wait()
		if werr == nil {
			from = len(pl.jobs)
			break
		}
		if killed.Load() {
			from = next
			budgetHit = true
			break
		}
		// the worker died: the marker names the call in flight
		deaths++
		code := -1
		if ee, ok := werr.(*exec.ExitError); ok {
			code = ee.ExitCode()
		}
		if code == 3 {
			obs.Fatal("worker reported a harness problem: %s", tail(stderr.String()))
		}
		mj, mc := readMarker(markerPath)
		if mj < next || mc < 0 {
			obs.Fatal("worker died (exit %d) outside a guarded call (job %d call %d, next %d): %s", code, mj, mc, next, tail(stderr.String()))
		}
		res := inputs.Result{O: "fatal", Msg: inputs.NormaliseMsg(fatalClass(stderr.String()))}
		if code == 4 {
			res = inputs.Result{O: "timeout", Ms: pl.model.TimeLimitMs + 1}
		}
		res.Site = fatalSite(stderr.String())
		if skip.Jobs[mj] == nil {
			skip.Jobs[mj] = map[int]inputs.Result{}
		}
		k := pl.model.Kind(pl.jobs[mj].seed.Kind)
		res.EP, res.M = k.EPs[mc/len(pl.model.Modes)], pl.model.Modes[mc%len(pl.model.Modes)]
		skip.Jobs[mj][mc] = res
		bk := k.K + "|" + res.EP
		deathsBy[bk+"|"+res.O]++
		if deathsBy[bk+"|"+res.O] >= banK {
			already := false
			for _, b := range skip.Ban {
				already = already || b == bk
			}
			if !already {
				skip.Ban = append(skip.Ban, bk)
			}
		}
		from = next
		restarts++
		if restarts > 2000 {
			obs.Fatal("too many worker restarts")
		}
	}
	obs.Stat("jobs", len(pl.jobs))
	obs.Stat("records", recs)
	obs.Stat("not_applicable", na)
	obs.Stat("worker_deaths", deaths)
	obs.Stat("calls_not_run", ag.notrun)
	if len(skip.Ban) > 0 {
		obs.Stat("banned", skip.Ban)
	}
	if budgetHit {
		obs.Stat("budget_jobs_left", len(pl.jobs)-from)
	}
}

type limitedWriter struct {
	w io.Writer
	n int
}

func (l *limitedWriter) Write(p []byte) (int, error) {
	if l.n > 0 {
		q := p
		if len(q) > l.n {
			q = q[:l.n]
		}
		l.w.Write(q)
		l.n -= len(q)
	}
	return len(p), nil
}

func tail(s string) string {
	if len(s) > 1500 {
		return s[len(s)-1500:]
	}
	return s
}

// fatalClass extracts the first line of a Go runtime fatal error / unrecovered panic.
func fatalClass(stderr string) string {
	if strings.Contains(stderr, "out of memory") || strings.Contains(stderr, "cannot allocate memory") {
		return "out of memory"
	}
	if strings.Contains(stderr, "stack overflow") || strings.Contains(stderr, "stack exceeds") {
		return "stack overflow"
	}
	for _, l := range strings.Split(stderr, "\n") {
		l = strings.TrimSpace(l)
		if strings.HasPrefix(l, "fatal error:") || strings.HasPrefix(l, "runtime:") || strings.HasPrefix(l, "panic:") {
			return l
		}
	}
	return "worker died"
}

func fatalSite(stderr string) string {
	for _, l := range strings.Split(stderr, "\n") {
		l = strings.TrimSpace(l)
		if strings.HasPrefix(l, "github.com/zmap/zcrypto/") {
			if i := strings.LastIndexByte(l, '('); i > 0 {
				l = l[:i]
			}
			return strings.TrimPrefix(l, "github.com/zmap/zcrypto/")
		}
	}
	return ""
}

// ---------------------------------------------------------------------------------------

type replayCase struct {
	K     string       `json:"k"`
	P     []inputs.Mut `json:"p"`
	Sw    int          `json:"sw"`
	Seed  string       `json:"seed"`
	I     int          `json:"i"`
	Hex   string       `json:"hex"`
	EP    string       `json:"ep"`
	Mode  string       `json:"mode"`
	VSeed int64        `json:"vseed"`
}

func (pl *plan) planOne(path string) {
	var c replayCase
	obs.ReadReplay(path, &c)
	var seed *inputs.Seed
	for _, s := range pl.seeds.ByKind[c.K] {
		if s.Name == c.Seed {
			seed = s
		}
	}
	if seed == nil {
		obs.Fatal("replay: no seed %q of kind %q", c.Seed, c.K)
	}
	if c.Sw > 0 {
		j := job{seed: seed, sweep: c.I}
		if c.Hex != "" {
			b, err := hex.DecodeString(c.Hex)
			if err != nil {
				obs.Fatal("replay: bad hex")
			}
			j.raw, j.rawSw = b, c.Sw
			if j.raw == nil {
				j.raw = []byte{}
			}
		}
		pl.jobs = []job{j}
		return
	}
	pl.jobs = []job{{prog: &inputs.Program{K: c.K, P: c.P}, pidx: c.I, seed: seed}}
}

func opt(a []string, i int, def string) string {
	if i < len(a) {
		return a[i]
	}
	return def
}

func atoi(s string) int {
	v, err := strconv.Atoi(s)
	if err != nil {
		obs.Fatal("bad number %q", s)
	}
	return v
}

func main() {
	if len(os.Args) < 3 {
		obs.Fatal("usage: c01 run|sweep|one|seeds|work ...")
	}
	cmd, a := os.Args[1], os.Args[2:]
	switch cmd {
	case "seeds":
		pl := newPlan(a[0])
		n, bad := 0, 0
		for _, k := range pl.model.Kinds {
			if len(pl.seeds.ByKind[k.K]) == 0 {
				obs.Fatal("kind %s has no seed", k.K)
			}
			for _, s := range pl.seeds.ByKind[k.K] {
				n++
				if err := pl.model.CheckSeed(s); err != nil {
					bad++
					fmt.Printf("SEEDBAD %s %s: %v\n", k.K, s.Name, err)
				}
			}
			for _, ep := range k.EPs {
				if inputs.EPs[ep] == nil {
					obs.Fatal("the model names entry point %q which the harness does not bind", ep)
				}
			}
		}
		obs.Stat("seeds", n)
		obs.Stat("seeds_bad", bad)
	case "run":
		// run <model> <programs> <out> <shard> <nshards> [summary|detail] [only.json]
		pl := newPlan(a[0])
		mode, only := opt(a, 5, "summary"), opt(a, 6, "-")
		pl.only = loadOnly(only)
		pl.planRun(a[1], atoi(a[3]), atoi(a[4]))
		supervise(pl, []string{"run", a[0], a[1], a[3], a[4], only}, a[2], mode == "detail")
	case "sweep":
		// sweep <model> <out> <count> <shard> <nshards> [summary|detail] [only.json]
		pl := newPlan(a[0])
		mode, only := opt(a, 5, "summary"), opt(a, 6, "-")
		pl.only = loadOnly(only)
		pl.planSweep(atoi(a[2]), atoi(a[3]), atoi(a[4]))
		supervise(pl, []string{"sweep", a[0], a[2], a[3], a[4], only}, a[1], mode == "detail")
	case "one":
		pl := newPlan(a[0])
		pl.planOne(a[1])
		supervise(pl, []string{"one", a[0], a[1]}, a[2], true)
	case "work":
		// work <sub> <sub args...> <from> <marker> <skip json>
		sub := a[0]
		rest := a[1:]
		n := len(rest)
		from, markerPath := atoi(rest[n-3]), rest[n-2]
		var skip skipSpec
		if err := json.Unmarshal([]byte(rest[n-1]), &skip); err != nil {
			obs.Fatal("skip: %v", err)
		}
		if skip.Jobs == nil {
			skip.Jobs = map[int]map[int]inputs.Result{}
		}
		if pf := os.Getenv("VERIF_CPUPROFILE"); pf != "" {
			f, _ := os.Create(pf + "." + rest[n-3])
			pprof.StartCPUProfile(f)
			defer pprof.StopCPUProfile()
		}
		pl := newPlan(rest[0])
		switch sub {
		case "run":
			pl.only = loadOnly(rest[4])
			pl.planRun(rest[1], atoi(rest[2]), atoi(rest[3]))
		case "sweep":
			pl.only = loadOnly(rest[4])
			pl.planSweep(atoi(rest[1]), atoi(rest[2]), atoi(rest[3]))
		case "one":
			pl.planOne(rest[1])
		}
		work(pl, from, markerPath, skip)
	default:
		obs.Fatal("unknown command %q", cmd)
	}
}
