// c30: conformance harness binding TLSWire.tla to zcrypto's handshake message and
// session-state codecs (marshal / unmarshal) through tls/verif_tlsfunc.go.
//
//	c30 replay-gen <obs-out.ndjson> <cases.ndjson>...
//	      for every TLC-generated case [t, v, bytes, pf]: build the real value from v, then
//	      (a) unmarshal(marshal(v)) succeeds and equals v;
//	      (b) if pf (the specification's own prefix-freeness): unmarshal rejects EVERY strict prefix;
//	      (c) unmarshal(bytes demanded by the specification) succeeds and equals v;
//	      (d) if marshal(v) differs from the demanded bytes, the real bytes are written to
//	          <obs-out> for the specification's parser to judge (TLSWireVal.tla).
//	c30 replay <replay.json>      one case (exit 1 if the recorded kind of disagreement reproduces)
//	c30 marshal-one <replay.json> <obs-out.ndjson>   re-marshal one case for TLC
package main

import (
	"bytes"
	"encoding/json"
	"fmt"
	"os"
	"reflect"
	"sort"
	"strings"
	"time"

	"github.com/zmap/zcrypto/tls"
	"verifharness/lib/obs"
	"verifharness/lib/wire"
)

type Case struct {
	T      string      `json:"t"`
	V      wire.Fields `json:"v"`
	Bytes  []int       `json:"bytes"`
	PF     bool        `json:"pf"`
	Opaque bool        `json:"opaque"` // the body is one opaque field: only the handshake header delimits it
	Kind   string      `json:"kind,omitempty"`
	// Base: the base value of the type (for naming the culprit fields of a finding)
	Base wire.Fields `json:"base,omitempty"`
}

// build creates the real message of a case; returns the message and the concretised fields.
func build(c *Case) (*tls.VerifMsg, map[string]interface{}, error) {
	name, variant := c.T, ""
	if i := strings.Index(c.T, "_"); i >= 0 {
		name, variant = c.T[:i], c.T[i+1:]
	}
	m := tls.VerifNewMessage(name)
	if m == nil {
		return nil, nil, fmt.Errorf("unknown message type %q", name)
	}
	if variant != "" {
		if err := m.Set("hasSignatureAlgorithm", variant == "12"); err != nil {
			return nil, nil, err
		}
	}
	fields := map[string]interface{}{}
	for f, r := range c.V {
		zero, ok := m.Get(f)
		if !ok {
			return nil, nil, fmt.Errorf("%s has no field %q", name, f)
		}
		val, err := wire.Concretise(zero, r)
		if err != nil {
			return nil, nil, fmt.Errorf("%s.%s: %v", name, f, err)
		}
		fields[f] = val
		if err := m.Set(f, val); err != nil {
			return nil, nil, err
		}
		// concretisation check (rule 2): read the field back
		back, _ := m.Get(f)
		if wire.Canon(back) != wire.Canon(val) {
			return nil, nil, fmt.Errorf("%s.%s: set %s, read back %s", name, f, clip(wire.Canon(val)), clip(wire.Canon(back)))
		}
	}
	return m, fields, nil
}

func fresh(c *Case) *tls.VerifMsg {
	name, variant := c.T, ""
	if i := strings.Index(c.T, "_"); i >= 0 {
		name, variant = c.T[:i], c.T[i+1:]
	}
	m := tls.VerifNewMessage(name)
	if variant != "" {
		m.Set("hasSignatureAlgorithm", variant == "12")
	}
	return m
}

func clip(s string) string {
	if len(s) > 70 {
		return s[:70] + "..."
	}
	return s
}

// diff returns the first field (sorted) of want that m does not hold.
func diff(m *tls.VerifMsg, want map[string]interface{}) (string, string) {
	var ks []string
	for k := range want {
		ks = append(ks, k)
	}
	sort.Strings(ks)
	for _, k := range ks {
		got, _ := m.Get(k)
		if wire.Canon(got) != wire.Canon(want[k]) {
			return k, fmt.Sprintf("field %s: decoded %s, value was %s", k, clip(wire.Canon(got)), clip(wire.Canon(want[k])))
		}
	}
	return "", ""
}

type finding struct {
	kind, field, what string
}

// checkCase runs (a)-(c); real = marshal(v) (nil if marshal panicked).
func checkCase(c *Case) (fs []finding, real []byte, err error) {
	m, fields, err := build(c)
	if err != nil {
		return nil, nil, err
	}
	spec := wire.ToBytes(c.Bytes)
	o := obs.Guard(120*time.Second, func() { real = append([]byte(nil), m.Marshal()...) })
	if o.Timeout {
		return nil, nil, fmt.Errorf("marshal timed out")
	}
	if o.Panic != "" {
		return []finding{{"marshal-panic", "", fmt.Sprintf("%s.marshal panicked on a representable value: %s", c.T, o.Panic)}}, nil, nil
	}
	// (a) round trip through the real pair
	m2 := fresh(c)
	var ok bool
	o = obs.Guard(120*time.Second, func() { ok = m2.Unmarshal(append([]byte(nil), real...)) })
	if o.Panic != "" {
		fs = append(fs, finding{"unmarshal-panic", "", fmt.Sprintf("%s.unmarshal panicked on its own marshalled bytes: %s", c.T, o.Panic)})
	} else if !ok {
		fs = append(fs, finding{"roundtrip-rejected", "", fmt.Sprintf("%s.unmarshal rejects the bytes %s.marshal produced (%d bytes)", c.T, c.T, len(real))})
	} else if f, what := diff(m2, fields); f != "" {
		fs = append(fs, finding{"roundtrip", f, fmt.Sprintf("%s does not round-trip: %s", c.T, what)})
	}
	// (b) every strict prefix is rejected (only where the specification's grammar is prefix-free)
	if c.PF {
		m3 := fresh(c)
		for k := 0; k < len(real); k++ {
			acc := false
			o = obs.Guard(120*time.Second, func() { acc = m3.Unmarshal(real[:k:k]) })
			if o.Panic != "" {
				fs = append(fs, finding{"prefix-panic", "", fmt.Sprintf("%s.unmarshal panicked on the %d-byte prefix of a %d-byte encoding: %s", c.T, k, len(real), o.Panic)})
				break
			}
			if acc {
				fs = append(fs, finding{"prefix", "", fmt.Sprintf("%s.unmarshal accepts the %d-byte strict prefix of a valid %d-byte encoding", c.T, k, len(real))})
				break
			}
		}
	}
	// (b') for the same types the ACCEPTED strings must be prefix-free too: a valid encoding followed by
	// extra bytes (handshake length adjusted) must not be accepted, or the valid encoding would be an
	// accepted strict prefix of an accepted string
	if c.PF && ok {
		type variant struct {
			extra  int
			adjust bool
		}
		// extra bytes behind the header-announced body; and (where the body has inner structure) extra
		// bytes inside it, the handshake length adjusted - for an opaque body the latter would simply be
		// the valid encoding of a longer value
		vs := []variant{{1, false}, {4, false}}
		if !c.Opaque && !isSessionState(c.T) {
			vs = append(vs, variant{1, true}, variant{4, true})
		}
		for _, vr := range vs {
			extra := vr.extra
			ext := append(append([]byte(nil), real...), make([]byte, extra)...)
			if vr.adjust && len(ext) >= 4 {
				l := len(ext) - 4
				ext[1], ext[2], ext[3] = byte(l>>16), byte(l>>8), byte(l)
			}
			m5 := fresh(c)
			acc := false
			o = obs.Guard(120*time.Second, func() { acc = m5.Unmarshal(ext) })
			if o.Panic != "" {
				fs = append(fs, finding{"trailing-panic", "", fmt.Sprintf("%s.unmarshal panicked on a valid encoding followed by %d bytes: %s", c.T, extra, o.Panic)})
				break
			}
			if acc {
				fs = append(fs, finding{"trailing", "", fmt.Sprintf("%s.unmarshal accepts a valid %d-byte encoding and also the same bytes followed by %d more: the accepted encodings are not prefix-free", c.T, len(real), extra)})
				break
			}
		}
	}
	// (c) the bytes the specification demands are read back as v (the session states are internal
	// formats: their layout is not demanded, only observed)
	if c.Bytes != nil && !isSessionState(c.T) && !bytes.Equal(real, spec) {
		m4 := fresh(c)
		o = obs.Guard(120*time.Second, func() { ok = m4.Unmarshal(append([]byte(nil), spec...)) })
		if o.Panic != "" {
			fs = append(fs, finding{"spec-layout-panic", "", fmt.Sprintf("%s.unmarshal panicked on the RFC layout of the value: %s", c.T, o.Panic)})
		} else if !ok {
			fs = append(fs, finding{"spec-layout-rejected", "", fmt.Sprintf("%s.unmarshal rejects the RFC layout of the value (%d bytes)", c.T, len(spec))})
		} else if f, what := diff(m4, fields); f != "" {
			fs = append(fs, finding{"spec-layout-misread", f, fmt.Sprintf("%s.unmarshal misreads the RFC layout: %s", c.T, what)})
		}
	}
	return fs, real, nil
}

func isSessionState(t string) bool { return t == "sessionState" || t == "sessionStateTLS13" }

func sigOf(c *Case, f finding) map[string]any {
	sig := map[string]any{"t": c.T, "kind": f.kind, "field": f.field}
	if f.field == "" && c.Base != nil {
		sig["culprit"] = culprit(c, f.kind)
	}
	return sig
}

func hasKind(fs []finding, kind string) bool {
	for _, f := range fs {
		if f.kind == kind {
			return true
		}
	}
	return false
}

// culprit names a minimal set of fields that must differ from the type's base value for the
// finding of the given kind to persist (greedy: each non-base field is reset to the base value
// if the finding survives).  It only makes the signature of a finding specific; the verdict is
// always about the original, valid value.
func culprit(c *Case, kind string) string {
	cur := wire.Fields{}
	for k, v := range c.V {
		cur[k] = v
	}
	var names []string
	for k := range cur {
		if !bytes.Equal(cur[k], c.Base[k]) {
			names = append(names, k)
		}
	}
	sort.Strings(names)
	var keep []string
	for _, k := range names {
		saved := cur[k]
		cur[k] = c.Base[k]
		t := &Case{T: c.T, V: cur, Bytes: nil, PF: c.PF}
		fs, _, err := checkCase(t)
		if err != nil || !hasKind(fs, kind) {
			cur[k] = saved
			keep = append(keep, k)
		}
	}
	return strings.Join(keep, ",")
}

func intsOf(b []byte) []int {
	a := make([]int, len(b))
	for i, x := range b {
		a[i] = int(x)
	}
	return a
}

func nonTrivial(c *Case) bool {
	// a value that differs from the all-absent base: some vector non-empty beyond the minimum
	return len(c.Bytes) > 8
}

func main() {
	if len(os.Args) < 3 {
		obs.Fatal("usage")
	}
	switch os.Args[1] {
	case "replay-gen":
		w := obs.NewWriter(os.Args[2])
		n, nontriv, prefixes, differs := 0, 0, 0, 0
		perType := map[string]int{}
		pfTypes := map[string]bool{}
		seen := map[string]bool{}
		cnt := map[string]int{}
		for _, path := range os.Args[3:] {
			var cases []Case
			err := obs.ReadLines(path, func(line []byte) error {
				var c Case
				if err := json.Unmarshal(line, &c); err != nil {
					return err
				}
				cases = append(cases, c)
				return nil
			})
			if err != nil {
				obs.Fatal("%v", err)
			}
			// the base value of each type = the value with the shortest encoding
			base := map[string]wire.Fields{}
			blen := map[string]int{}
			for i := range cases {
				if l, ok := blen[cases[i].T]; !ok || len(cases[i].Bytes) < l {
					blen[cases[i].T] = len(cases[i].Bytes)
					base[cases[i].T] = cases[i].V
				}
			}
			for i := range cases {
				c := cases[i]
				c.Base = base[c.T]
				n++
				perType[c.T]++
				if c.PF {
					pfTypes[c.T] = true
				}
				if nonTrivial(&c) {
					nontriv++
				}
				fs, real, err := checkCase(&c)
				if err != nil {
					obs.Fatal("case %d (%s): %v", n, c.T, err)
				}
				if c.PF {
					prefixes += len(real)
				}
				if real != nil && !bytes.Equal(real, wire.ToBytes(c.Bytes)) {
					differs++
					w.Write(map[string]any{"t": c.T, "v": c.V, "bytes": intsOf(real), "spec": c.Bytes, "pf": c.PF})
				}
				for _, f := range fs {
					// cheap pre-signature: do not minimise the same kind of finding over and over
					pre := fmt.Sprintf("%s/%s/%s", c.T, f.kind, f.field)
					if f.field != "" {
						if seen[pre] {
							continue
						}
						seen[pre] = true
					} else if cnt[pre] >= 200 {
						continue
					}
					cnt[pre]++
					sig := sigOf(&c, f)
					k, _ := json.Marshal(sig)
					if !seen[string(k)] {
						seen[string(k)] = true
						cc := c
						cc.Kind = f.kind
						obs.Emit(obs.Candidate{Sig: sig, What: f.what, Case: cc})
					}
				}
			}
		}
		w.Close()
		obs.Stat("cases", n)
		obs.Stat("nontrivial", nontriv)
		obs.Stat("prefixes_tested", prefixes)
		obs.Stat("marshal_differs_from_spec_layout", differs)
		obs.Stat("per_type", perType)
		var pf []string
		for t := range pfTypes {
			pf = append(pf, t)
		}
		sort.Strings(pf)
		obs.Stat("prefix_free_types", pf)
	case "replay":
		var c Case
		obs.ReadReplay(os.Args[2], &c)
		fs, _, err := checkCase(&c)
		if err != nil {
			obs.Fatal("%v", err)
		}
		for _, f := range fs {
			if f.kind == c.Kind {
				fmt.Println("reproduced:", f.what)
				os.Exit(1)
			}
		}
		fmt.Println("not reproduced")
	case "marshal-one":
		var c Case
		obs.ReadReplay(os.Args[2], &c)
		m, _, err := build(&c)
		if err != nil {
			obs.Fatal("%v", err)
		}
		var real []byte
		o := obs.Guard(120*time.Second, func() { real = m.Marshal() })
		if o.Panic != "" || o.Timeout {
			obs.Fatal("marshal failed: %s", o.Panic)
		}
		w := obs.NewWriter(os.Args[3])
		w.Write(map[string]any{"t": c.T, "v": c.V, "bytes": intsOf(real), "spec": c.Bytes, "pf": c.PF})
		w.Close()
	default:
		obs.Fatal("unknown command %q", os.Args[1])
	}
	_ = reflect.TypeOf
}
