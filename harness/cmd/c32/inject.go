package main

// Data-phase adversary: after a completed handshake the peer sends one genuine, correctly protected
// post-handshake message - KeyUpdate (update_requested 0/1), NewSessionTicket (TLS 1.3) or
// HelloRequest (TLS 1.1/1.2, to the client) - built from the secrets of the peer's key log with the
// record functions exported in /repo/tls/verif_tlsfunc.go, while the transport is healthy, has a
// failing write side, delivers EOF after the message, or is fully closed.  Then Read, Write,
// CloseWrite and Close are issued on the endpoint from fresh goroutines; the environment finally
// closes the transport, and every call has to return.

import (
	"bytes"
	"crypto/rand"
	"encoding/hex"
	"fmt"
	"strings"
	"sync"
	"time"

	"github.com/zmap/zcrypto/tls"
	"verifharness/lib/obs"
	"verifharness/lib/tlsh"
)

type lockedBuf struct {
	mu sync.Mutex
	b  bytes.Buffer
}

func (k *lockedBuf) Write(p []byte) (int, error) {
	k.mu.Lock()
	defer k.mu.Unlock()
	return k.b.Write(p)
}
func (k *lockedBuf) secret(label string) []byte {
	k.mu.Lock()
	defer k.mu.Unlock()
	for _, line := range strings.Split(k.b.String(), "\n") {
		f := strings.Fields(line)
		if len(f) == 3 && f[0] == label {
			b, _ := hex.DecodeString(f[2])
			return b
		}
	}
	return nil
}

// Calls of an injection case: "ret" returned, "hang" still blocked after the transport was closed
// and the watchdog expired, "-" not issued.
type Calls struct {
	Read       string `json:"read"`
	Write      string `json:"write"`
	CloseWrite string `json:"closewrite"`
	Close      string `json:"close"`
	Panic      string `json:"panic"`
	Answered   int    `json:"answered"` // records the endpoint wrote in reaction to the message (before the harness' own Write)
}

const callWatchdog = 8 * time.Second // >= 1000 x the latency of these calls on a closed in-memory transport

func postMessage(sub string) []byte {
	switch sub {
	case "keyupdate0":
		return []byte{24, 0, 0, 1, 0}
	case "keyupdate1":
		return []byte{24, 0, 0, 1, 1}
	case "nst":
		body := []byte{0, 0, 0x0e, 0x10, 1, 2, 3, 4, 0, 0, 8, 't', 'i', 'c', 'k', 'e', 't', '0', '1', 0, 0}
		return append([]byte{4, 0, 0, byte(len(body))}, body...)
	case "hellorequest":
		return []byte{0, 0, 0, 0}
	}
	obs.Fatal("unknown post-handshake message %q", sub)
	return nil
}

func runInject(cs Case32) (rec Rec) {
	rec = Rec{Case32: cs, LogOK: true, Calls: &Calls{Read: "-", Write: "-", CloseWrite: "-", Close: "-"}}
	b := build(cs)
	b.Server.SessionTicketsDisabled = true // no application-traffic record before the injected one
	kl := &lockedBuf{}
	b.Client.KeyLogWriter = kl
	r := tlsh.Run(b.Client, b.Server, tlsh.RunOpt{NoData: true, KeepOpen: true})
	rec.Obs = tlsh.Observe(r)
	if !r.C.Done || !r.S.Done {
		return rec // the honest handshake failed: Judge32 reports it
	}
	toClient := cs.Dir == 1
	conn, side, dir := r.S.Conn, 1, tlsh.C2S
	if toClient {
		conn, side, dir = r.C.Conn, 0, tlsh.S2C
	}
	st := r.C.State
	msg := postMessage(cs.Sub)
	var protected []byte
	if st.Version == tls.VersionTLS13 {
		label := "CLIENT_TRAFFIC_SECRET_0"
		if toClient {
			label = "SERVER_TRAFFIC_SECRET_0"
		}
		sec := kl.secret(label)
		if sec == nil {
			obs.Fatal("case %d: no %s in the key log", cs.ID, label)
		}
		hc, err := tls.VerifNewHalfConnTLS13(st.CipherSuite, sec)
		if err != nil {
			obs.Fatal("case %d: %v", cs.ID, err)
		}
		protected, err = hc.Encrypt([]byte{22, 3, 3, byte(len(msg) >> 8), byte(len(msg))}, msg, rand.Reader)
		if err != nil {
			obs.Fatal("case %d: %v", cs.ID, err)
		}
	} else {
		ms := kl.secret("CLIENT_RANDOM")
		var cr, sr []byte
		if m := tlsh.PlainHandshake(r.Link.Records(tlsh.C2S), false); len(m) > 0 {
			if h, err := tlsh.ParseClientHello(m[0].Body); err == nil {
				cr = h.Random
			}
		}
		if m := tlsh.PlainHandshake(r.Link.Records(tlsh.S2C), false); len(m) > 0 {
			if h, err := tlsh.ParseServerHello(m[0].Body); err == nil {
				sr = h.Random
			}
		}
		su, ok := tls.VerifSuiteByID(st.CipherSuite)
		if ms == nil || cr == nil || sr == nil || !ok {
			obs.Fatal("case %d: cannot rebuild the record keys", cs.ID)
		}
		keys, err := tls.VerifKeysFromMasterSecret(st.Version, st.CipherSuite, ms, cr, sr, su.MacLen, su.KeyLen, su.IVLen)
		if err != nil {
			obs.Fatal("case %d: %v", cs.ID, err)
		}
		key, iv, mac := keys.ClientKey, keys.ClientIV, keys.ClientMAC
		if toClient {
			key, iv, mac = keys.ServerKey, keys.ServerIV, keys.ServerMAC
		}
		hc, err := tls.VerifNewHalfConn(st.Version, st.CipherSuite, key, iv, mac, false)
		if err != nil {
			obs.Fatal("case %d: %v", cs.ID, err)
		}
		hc.SetSeq([8]byte{0, 0, 0, 0, 0, 0, 0, 1}) // the peer has sent its Finished under these keys
		protected, err = hc.Encrypt([]byte{22, byte(st.Version >> 8), byte(st.Version), byte(len(msg) >> 8), byte(len(msg))}, msg, rand.Reader)
		if err != nil {
			obs.Fatal("case %d: %v", cs.ID, err)
		}
	}
	rec.Fired, rec.RType = true, 22
	link := r.Link
	// transport state at the moment of the message
	switch cs.Pos {
	case 0: // healthy
	case 1:
		link.FailWrites(side)
	case 2:
		defer func() {}()
	case 3:
	default:
		obs.Fatal("case %d: unknown transport state %d", cs.ID, cs.Pos)
	}
	before := len(link.Records(1 - dir))
	link.Inject(dir, protected)
	if cs.Pos == 2 {
		link.EOFReads(side)
	}
	if cs.Pos == 3 {
		link.CloseAll()
	}
	var mu sync.Mutex
	calls := rec.Calls
	start := func(slot *string, f func()) chan struct{} {
		done := make(chan struct{})
		mu.Lock()
		*slot = "hang"
		mu.Unlock()
		go func() {
			defer func() {
				if p := recover(); p != nil {
					mu.Lock()
					calls.Panic = fmt.Sprintf("%v", p)
					mu.Unlock()
				}
				mu.Lock()
				*slot = "ret"
				mu.Unlock()
				close(done)
			}()
			f()
		}()
		return done
	}
	settle := func(d chan struct{}, limit time.Duration) {
		select {
		case <-d:
		case <-time.After(limit):
		}
	}
	rd := start(&calls.Read, func() { conn.Read(make([]byte, 16)) })
	// give the Read time to consume the message: until it returned or sits idle in the transport
	for i := 0; i < 2000; i++ {
		select {
		case <-rd:
			i = 1 << 30
		default:
			if link.Idle(toClient) {
				i = 1 << 30
			} else {
				time.Sleep(time.Millisecond)
			}
		}
	}
	mu.Lock()
	calls.Answered = len(link.Records(1-dir)) - before
	mu.Unlock()
	wr := start(&calls.Write, func() { conn.Write([]byte("x")) })
	settle(wr, 200*time.Millisecond)
	cw := start(&calls.CloseWrite, func() { conn.CloseWrite() })
	settle(cw, 200*time.Millisecond)
	link.CloseAll() // the environment closes the transport: from now on nothing may stay blocked
	cl := start(&calls.Close, func() { conn.Close() })
	deadline := time.Now().Add(callWatchdog)
	for _, d := range []chan struct{}{rd, wr, cw, cl} {
		select {
		case <-d:
		case <-time.After(time.Until(deadline)):
		}
	}
	mu.Lock()
	snapshot := *calls
	mu.Unlock()
	rec.Calls = &snapshot
	other := r.C.Conn
	if toClient {
		other = r.S.Conn
	}
	go other.Close()
	return rec
}
