// c32: conformance harness for "TLS endpoints survive arbitrary peer behaviour".  A case names a
// configuration, a direction, a record index (message boundary), a corruption kind and a
// position class - enumerated by TLC from the adversary model of spec/TLSHandshakeMC.tla /
// TLSHandshakeGen.tla - and is applied by the in-memory transport to a live handshake between
// two real zcrypto endpoints (so every later message is processed in a genuine state); stream
// cases feed seeded random / mutated-transcript bytes to a single endpoint.  The environment
// closes the transport once nothing can progress; each endpoint's outcome in {done, failed,
// panic, hang} is logged, GetHandshakeLog() and its JSON encoding are exercised on the partial
// handshake, and TLC (Judge32) judges.
//
//	c32 facts | run <cases> <obs> | random <n> <cases> | run-one <replay> <obs>
package main

import (
	"encoding/json"
	"fmt"
	"math/rand"
	"os"
	"strconv"
	"sync"
	"time"

	"github.com/zmap/zcrypto/tls"
	"verifharness/lib/obs"
	"verifharness/lib/tlsh"
)

type Case32 struct {
	ID    int    `json:"id"`
	Vers  int    `json:"vers"`
	Suite int    `json:"suite"`
	Key   string `json:"key"`
	Auth  int    `json:"auth"` // 0 or 4 (client certificate exchanged)
	Dir   int    `json:"dir"`  // 0: client->server records are attacked (server under test), 1: server->client
	Idx   int    `json:"idx"`  // record index in that direction
	Kind  string `json:"kind"` // flip trunc insert split refrag dup drop close garbage | stream
	Pos   int    `json:"pos"`  // flip: 0 type 1 version 2 length 3 first body byte 4 middle 5 last; trunc: bytes kept class
	Mask  int    `json:"mask"`
	Sub   string `json:"sub"`  // insert: junk-handshake alert-warning alert-fatal unknown-type empty-appdata ccs; stream: random header-random transcript
	Seed  int    `json:"seed"` // stream / garbage: seed of the bytes
}

type Rec struct {
	Case32
	Fired  bool     `json:"fired"`  // the targeted record existed and the fault was applied
	RType  int      `json:"rtype"`  // content type of the targeted record
	LogOK  bool     `json:"log_ok"` // GetHandshakeLog() + JSON encoding returned on both ends
	LogErr string   `json:"log_err"`
	Millis int      `json:"millis"` // wall time of the case
	Calls  *Calls   `json:"calls"`  // injection cases: what became of Read / Write / CloseWrite / Close
	Obs    tlsh.Obs `json:"obs"`
}

func build(cs Case32) *tlsh.Built {
	ep := tlsh.EP{Min: cs.Vers, Max: cs.Vers, Tickets: true}
	if cs.Suite != 0 {
		ep.Suites = []int{cs.Suite}
	}
	abs := tlsh.Case{ID: cs.ID, C: ep.NonNil(), S: ep.NonNil()}
	abs.C.Force = cs.Suite != 0
	abs.S.Key, abs.S.Auth = cs.Key, cs.Auth
	if cs.Auth != 0 {
		abs.CScen, abs.CKey = "ClientTrusted", "P"
	}
	b, err := tlsh.Build(abs, true)
	if err != nil {
		obs.Fatal("case %d: %v", cs.ID, err)
	}
	return b
}

func junk(r *rand.Rand, n int) []byte {
	b := make([]byte, n)
	r.Read(b)
	return b
}

func record(typ byte, ver uint16, body []byte) []byte {
	return append([]byte{typ, byte(ver >> 8), byte(ver), byte(len(body) >> 8), byte(len(body))}, body...)
}

// fault builds the transport filter of a case.
func fault(cs Case32, fired *bool, rtype *int) tlsh.Filter {
	var mu sync.Mutex
	seenCCS := [2]bool{}
	return func(dir, idx int, rec []byte) *tlsh.Action {
		mu.Lock()
		defer mu.Unlock()
		if rec[0] == tlsh.RecCCS {
			defer func() { seenCCS[dir] = true }()
		}
		if dir != cs.Dir || idx != cs.Idx || *fired {
			return nil
		}
		if cs.Kind == "shorten" || cs.Kind == "lengthen" || cs.Kind == "zeros" {
			// message-level corruption with consistent framing: only possible on cleartext
			// handshake records (one message per record, as zcrypto writes them)
			if rec[0] != tlsh.RecHandshake || seenCCS[dir] || len(rec) < 9 ||
				int(rec[6])<<16|int(rec[7])<<8|int(rec[8]) != len(rec)-9 {
				return nil
			}
		}
		*fired = true
		*rtype = int(rec[0])
		n := len(rec)
		ver := uint16(rec[1])<<8 | uint16(rec[2])
		rnd := rand.New(rand.NewSource(int64(cs.Seed)*7919 + int64(cs.ID)))
		switch cs.Kind {
		case "flip":
			pos := []int{0, 2, 4, 5, 5 + (n-5)/2, n - 1}[cs.Pos]
			if pos >= n {
				pos = n - 1
			}
			out := append([]byte(nil), rec...)
			m := byte(cs.Mask)
			if m == 0 {
				m = 1
			}
			out[pos] ^= m
			return &tlsh.Action{Deliver: [][]byte{out}}
		case "trunc": // the stream ends inside the record
			keep := []int{1, 3, 5, 5 + (n-5)/2, n - 1}[cs.Pos%5]
			if keep >= n {
				keep = n - 1
			}
			return &tlsh.Action{Deliver: [][]byte{rec[:keep]}, Close: true}
		case "close": // the stream ends at the message boundary
			return &tlsh.Action{Deliver: nil, Close: true}
		case "drop":
			return &tlsh.Action{Deliver: nil}
		case "dup":
			return &tlsh.Action{Deliver: [][]byte{rec, rec}}
		case "split": // TCP re-segmentation: same bytes, two chunks
			cut := []int{1, 4, 5, 5 + (n-5)/2, n - 1}[cs.Pos%5]
			if cut >= n {
				cut = n - 1
			}
			return &tlsh.Action{Deliver: [][]byte{rec[:cut], rec[cut:]}}
		case "refrag": // TLS-level fragmentation of the payload into two records
			if n-5 < 2 {
				return &tlsh.Action{Deliver: [][]byte{rec}}
			}
			cut := 1 + (n-5-1)*(cs.Pos%5)/5
			return &tlsh.Action{Deliver: [][]byte{record(rec[0], ver, rec[5:5+cut]), record(rec[0], ver, rec[5+cut:])}}
		case "shorten", "lengthen", "zeros":
			body := rec[9:]
			if cs.Kind == "zeros" { // empty vectors / null fields: the body becomes k zero bytes
				k := []int{1, 2, 3, 4, 8, len(body)}[cs.Pos%6]
				z := make([]byte, k)
				if string(z) == string(body) { // already all zero (e.g. the empty ServerHelloDone)
					*fired = false
					return nil
				}
				body = z
			} else if cs.Kind == "shorten" {
				k := []int{0, 1, 2, 3, len(body) / 2, len(body) - 1}[cs.Pos%6]
				if k < 0 {
					k = 0
				}
				if k >= len(body) { // nothing to cut: the message stays as it is
					*fired = false
					return nil
				}
				body = body[:k]
			} else {
				body = append(append([]byte(nil), body...), junk(rnd, []int{1, 2, 4, 31, 100, 300}[cs.Pos%6])...)
			}
			msg := append([]byte{rec[5], byte(len(body) >> 16), byte(len(body) >> 8), byte(len(body))}, body...)
			return &tlsh.Action{Deliver: [][]byte{record(rec[0], ver, msg)}}
		case "garbage":
			if cs.Sub == "keep-header" {
				return &tlsh.Action{Deliver: [][]byte{append(append([]byte(nil), rec[:5]...), junk(rnd, n-5)...)}}
			}
			return &tlsh.Action{Deliver: [][]byte{junk(rnd, n)}}
		case "insert":
			var extra []byte
			switch cs.Sub {
			case "junk-handshake":
				extra = record(22, ver, junk(rnd, 40))
			case "short-handshake": // a handshake header announcing more than it carries
				extra = record(22, ver, []byte{12, 0, 0, 1})
			case "huge-handshake": // length field beyond maxHandshake
				extra = record(22, ver, []byte{11, 0xff, 0xff, 0xff, 0})
			case "alert-warning":
				extra = record(21, ver, []byte{1, 90})
			case "alert-fatal":
				extra = record(21, ver, []byte{2, 40})
			case "unknown-type":
				extra = record(99, ver, junk(rnd, 8))
			case "empty-appdata":
				extra = record(23, ver, nil)
			case "empty-handshake":
				extra = record(22, ver, nil)
			case "ccs":
				extra = record(20, ver, []byte{1})
			case "oversize": // record length above the protocol maximum
				extra = append([]byte{22, byte(ver >> 8), byte(ver), 0xff, 0xff}, junk(rnd, 64)...)
			default:
				obs.Fatal("unknown insert kind %q", cs.Sub)
			}
			return &tlsh.Action{Deliver: [][]byte{extra, rec}}
		}
		obs.Fatal("unknown fault kind %q", cs.Kind)
		return nil
	}
}

// exerciseLogs touches the handshake logs of both ends (partial handshakes included).
func exerciseLogs(conns ...*tls.Conn) (ok bool, what string) {
	ok = true
	for _, c := range conns {
		if c == nil {
			continue
		}
		o := obs.Guard(20*time.Second, func() {
			hl := c.GetHandshakeLog()
			if hl != nil {
				if _, err := json.Marshal(hl); err != nil {
					panic("json: " + err.Error())
				}
			}
			_ = c.ConnectionState()
		})
		if o.Panic != "" || o.Timeout {
			ok = false
			what = fmt.Sprintf("panic=%q timeout=%v", o.Panic, o.Timeout)
		}
	}
	return
}

// solo runs one endpoint against a scripted peer that writes `script` and leaves.
func solo(cs Case32, b *tlsh.Built, script []byte) (tlsh.Obs, bool, string) {
	tlsh.InstallHooks()
	link := tlsh.NewLink(nil)
	link.SetRaw(tlsh.C2S)
	link.SetRaw(tlsh.S2C)
	ce, se := link.Ends()
	var conn *tls.Conn
	var peer interface{ Write([]byte) (int, error) }
	isClient := cs.Dir == 1
	if isClient {
		conn, peer = tls.Client(ce, b.Client), se
	} else {
		conn, peer = tls.Server(se, b.Server), ce
	}
	type out struct {
		err error
		pan string
	}
	ch := make(chan out, 1)
	go func() {
		var o out
		defer func() {
			if r := recover(); r != nil {
				o.pan = fmt.Sprintf("%v", r)
			}
			ch <- o
		}()
		o.err = conn.Handshake()
		if o.err == nil {
			buf := make([]byte, 16)
			conn.Read(buf)
		}
	}()
	peer.Write(script)
	// the peer stops talking: wait until the endpoint has consumed what it wants, then close
	var o tlsh.Obs
	o.Canary, o.CTypes, o.STypes = "nosh", []int{}, []int{}
	deadline := time.After(tlsh.Watchdog)
	poll := time.NewTicker(2 * time.Millisecond)
	defer poll.Stop()
	closed := false
	var res *out
	for res == nil {
		select {
		case r := <-ch:
			res = &r
		case <-poll.C:
			if !closed && link.Idle(isClient) {
				closed = true
				link.CloseAll()
			}
		case <-deadline:
			if !closed {
				closed = true
				link.CloseAll()
				deadline = time.After(tlsh.Watchdog)
				continue
			}
			res = &out{}
			if isClient {
				o.CHang = true
			} else {
				o.SHang = true
			}
		}
	}
	link.CloseAll()
	done := res.err == nil && res.pan == "" && !o.CHang && !o.SHang
	errs := ""
	if res.err != nil {
		errs = res.err.Error()
	}
	if isClient {
		o.CDone, o.CPanic, o.CErr = done, res.pan != "", errs
		if res.pan != "" {
			o.CErr = "panic: " + res.pan
		}
	} else {
		o.SDone, o.SPanic, o.SErr = done, res.pan != "", errs
		if res.pan != "" {
			o.SErr = "panic: " + res.pan
		}
	}
	lok, lwhat := true, ""
	if !o.CHang && !o.SHang {
		lok, lwhat = exerciseLogs(conn)
		conn.Close()
	}
	return o, lok, lwhat
}

func runCase(cs Case32) (rec Rec) {
	t0 := time.Now()
	defer func() { rec.Millis = int(time.Since(t0) / time.Millisecond) }()
	rec = Rec{Case32: cs, LogOK: true, Calls: &Calls{Read: "-", Write: "-", CloseWrite: "-", Close: "-"}}
	if cs.Kind == "inject" {
		return runInject(cs)
	}
	b := build(cs)
	if cs.Kind == "stream" {
		rnd := rand.New(rand.NewSource(int64(cs.Seed)))
		var script []byte
		switch cs.Sub {
		case "random":
			script = junk(rnd, 1+rnd.Intn(600))
		case "header-random":
			for k := 0; k < 1+rnd.Intn(4); k++ {
				typ := []byte{20, 21, 22, 22, 22, 23}[rnd.Intn(6)]
				script = append(script, record(typ, []uint16{0x0301, 0x0303, 0x0304, 0x0300, 0x7f00}[rnd.Intn(5)], junk(rnd, rnd.Intn(300)))...)
			}
		case "transcript":
			// what a genuine peer of this configuration sent, with a few random byte edits; the
			// endpoint's own randomness differs, so the handshake cannot complete, but the parsers
			// of every message of the flight are reached with well-formed neighbours
			r := tlsh.Run(b.Client, b.Server, tlsh.RunOpt{NoData: true})
			dir := tlsh.S2C
			if cs.Dir == 0 {
				dir = tlsh.C2S
			}
			for _, x := range r.Link.Records(dir) {
				script = append(script, x...)
			}
			for k := 0; k < cs.Mask%4; k++ {
				if len(script) > 0 {
					script[rnd.Intn(len(script))] ^= byte(1 + rnd.Intn(255))
				}
			}
			if cs.Pos%3 == 1 && len(script) > 10 {
				script = script[:rnd.Intn(len(script))]
			}
		default:
			obs.Fatal("unknown stream kind %q", cs.Sub)
		}
		rec.Fired = true
		rec.Obs, rec.LogOK, rec.LogErr = solo(cs, b, script)
		return rec
	}
	fired, rtype := false, 0
	if cs.Kind == "exthello" {
		// the client is configured with an externally supplied ClientHello (Config.ExternalClientHello):
		// a genuine hello of this configuration without the supported_versions extension, as an
		// older stack or a recorded fingerprint would have it; the peer is an honest server
		var first []byte
		tlsh.Run(b.Client, b.Server, tlsh.RunOpt{NoData: true, Filter: func(dir, idx int, rec []byte) *tlsh.Action {
			if dir == tlsh.C2S && idx == 0 {
				first = append([]byte(nil), rec...)
			}
			return nil
		}})
		down := cs.Vers
		if down > 12 {
			down = 12
		}
		old, err := tlsh.RewriteClientHelloDowngrade(first, down)
		if err != nil {
			obs.Fatal("case %d: %v", cs.ID, err)
		}
		b = build(cs)
		b.Client.ExternalClientHello = old[5:]
		if cs.Sub == "no-cache" {
			b.Client.ClientSessionCache = nil
		}
		cs.Kind, cs.Idx = "split", 1 << 20 // no transport fault
		fired = true
	}
	r := tlsh.Run(b.Client, b.Server, tlsh.RunOpt{Filter: fault(cs, &fired, &rtype), KeepOpen: true})
	rec.Obs = tlsh.Observe(r)
	rec.Fired, rec.RType = fired, rtype
	var live []*tls.Conn
	if !r.C.Hang {
		live = append(live, r.C.Conn)
	}
	if !r.S.Hang {
		live = append(live, r.S.Conn)
	}
	rec.LogOK, rec.LogErr = exerciseLogs(live...)
	for _, c := range live {
		c.Close()
	}
	r.Link.CloseAll()
	return rec
}

var combos = [][3]interface{}{
	{10, 47, "R"}, {10, 49171, "R"}, {10, 49161, "P"}, {10, 51, "R"}, {11, 53, "R"}, {11, 49172, "R"}, {11, 5, "R"},
	{12, 156, "R"}, {12, 49199, "R"}, {12, 49195, "P"}, {12, 49195, "E"}, {12, 158, "R"}, {12, 52393, "Q"}, {12, 49191, "R"},
	{13, 0, "R"}, {13, 0, "P"}, {13, 0, "E"},
}

func randomCase(r *rand.Rand, id int) Case32 {
	c := combos[r.Intn(len(combos))]
	cs := Case32{ID: id, Vers: c[0].(int), Suite: c[1].(int), Key: c[2].(string), Dir: r.Intn(2), Idx: r.Intn(12), Seed: r.Intn(1 << 30)}
	if r.Intn(4) == 0 {
		cs.Auth = 4
	}
	if r.Intn(8) == 0 {
		cs.Kind, cs.Pos, cs.Auth = "inject", r.Intn(4), 0
		cs.Sub = []string{"keyupdate0", "keyupdate1", "nst"}[r.Intn(3)]
		if cs.Vers != 13 {
			cs.Vers, cs.Suite, cs.Key = 13, 0, "E"
		}
		return cs
	}
	kinds := []string{"flip", "flip", "flip", "trunc", "insert", "split", "refrag", "dup", "drop", "close", "garbage", "stream", "stream", "shorten", "shorten", "lengthen", "zeros"}
	cs.Kind = kinds[r.Intn(len(kinds))]
	cs.Pos = r.Intn(6)
	cs.Mask = 1 + r.Intn(255)
	switch cs.Kind {
	case "insert":
		cs.Sub = []string{"junk-handshake", "short-handshake", "huge-handshake", "alert-warning", "alert-fatal", "unknown-type", "empty-appdata", "empty-handshake", "ccs", "oversize"}[r.Intn(10)]
	case "garbage":
		cs.Sub = []string{"keep-header", "all"}[r.Intn(2)]
	case "stream":
		cs.Sub = []string{"random", "header-random", "transcript", "transcript"}[r.Intn(4)]
	case "trunc", "split", "refrag":
		cs.Pos = r.Intn(5)
	}
	return cs
}

func main() {
	if len(os.Args) < 2 {
		obs.Fatal("usage")
	}
	switch os.Args[1] {
	case "facts":
		b, _ := json.Marshal(tlsh.GetFacts())
		fmt.Println(string(b))
	case "random":
		n, _ := strconv.Atoi(os.Args[2])
		w := obs.NewWriter(os.Args[3])
		r := rand.New(rand.NewSource(obs.Seed()))
		for i := 0; i < n; i++ {
			w.Write(randomCase(r, i+1))
		}
		w.Close()
		obs.Stat("cases", n)
	case "run":
		var cases []Case32
		tlsh.ReadCases(os.Args[2], func(line []byte) error {
			var c Case32
			if err := json.Unmarshal(line, &c); err != nil {
				return err
			}
			cases = append(cases, c)
			return nil
		})
		recs := make([]Rec, len(cases))
		tlsh.Parallel(len(cases), func(i int) { recs[i] = runCase(cases[i]) })
		w := obs.NewWriter(os.Args[3])
		for _, r := range recs {
			w.Write(r)
		}
		w.Close()
		obs.Stat("cases", len(cases))
	case "run-one":
		var c Case32
		obs.ReadReplay(os.Args[2], &c)
		w := obs.NewWriter(os.Args[3])
		w.Write(runCase(c))
		w.Close()
	default:
		obs.Fatal("unknown command")
	}
}
