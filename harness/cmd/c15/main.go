// c15: conformance harness binding RevSets.tla to the three browser revocation sets
// (x509/revocation/google, mozilla, microsoft).
//
//	c15 replay-gen <queries.ndjson> <cases.ndjson>   TLC-generated sets (RevSetsGen.tla)
//	c15 replay <replay.json>                         one set + one query; exit 1 if reproduced
//
// For every case the harness (1) evaluates the wire term of the specification to bytes (lib/rev
// term interpreter, standard library only), (2) checks the concretisation by decoding those bytes
// with its own minimal reader back to the abstract set, (3) parses them with zcrypto, (4) projects
// the parsed structure to issuer ids / serial octets / blocked keys and compares with the
// structure the specification demands, (5) runs Check for every query certificate (a real
// certificate parsed by zcrypto) and compares "reported / not reported" with the verdict computed
// by TLC.  Nothing here decides what is correct.
package main

import (
	"crypto/sha256"
	stdx509 "crypto/x509"
	"encoding/base64"
	"encoding/binary"
	"encoding/hex"
	"encoding/json"
	"fmt"
	"math/big"
	"math/rand"
	"os"
	"sort"
	"strconv"
	"strings"
	"time"

	"github.com/zmap/zcrypto/x509"
	zpkix "github.com/zmap/zcrypto/x509/pkix"
	"github.com/zmap/zcrypto/x509/revocation/google"
	"github.com/zmap/zcrypto/x509/revocation/microsoft"
	"github.com/zmap/zcrypto/x509/revocation/mozilla"
	"verifharness/lib/obs"
	"verifharness/lib/pki"
	"verifharness/lib/rev"
)

// ---- abstract data -------------------------------------------------------------------------

type Issuer struct {
	N string `json:"n"`
	K string `json:"k"`
}
type Entry struct {
	Iss Issuer    `json:"iss"`
	S   rev.Bytes `json:"s"`
}
type BSubj struct {
	Subj string `json:"subj"`
	Key  string `json:"key"`
}
type Set struct {
	Entries []Entry  `json:"entries"`
	BKeys   []string `json:"bkeys"`
	BSubj   []BSubj  `json:"bsubj"`
}
type Group struct {
	ID      string      `json:"id"`
	Serials []rev.Bytes `json:"serials"`
}
type Parsed struct {
	Lists   []Group `json:"lists"`
	Blocked []any   `json:"blocked"` // key ids (crlset) or [subj, key] pairs (onecrl)
}
type Query struct {
	IName  string    `json:"iname"`
	IKey   string    `json:"ikey"`
	Serial rev.Bytes `json:"serial"`
	Subj   string    `json:"subj"`
	SKey   string    `json:"skey"`
}
type Case struct {
	Fmt    string         `json:"fmt"`
	Set    Set            `json:"set"`
	Var    map[string]any `json:"var"`
	Wire   any            `json:"wire"`
	Parsed Parsed         `json:"parsed"`
	Checks []int          `json:"checks,omitempty"`
	// cases computed by TLC from harness-drawn random models carry their own query list
	Queries []Query `json:"queries,omitempty"`
	// replay files carry one query with its verdict instead of the whole vector
	Query   *Query `json:"query,omitempty"`
	Verdict int    `json:"verdict,omitempty"`
	Level   string `json:"level,omitempty"` // "wire" or "struct" (crlset only)
}

// known abstract ids (for mapping parsed hashes / names back)
var keyIDs = []string{"K1", "K2", "K3", "K4", "K5", "K6", "KS1", "KS2", "KS3", "KS4", "KD"}
var nameIDs = []string{"N1", "N2", "N3", "N4", "N5", "N6", "S1", "S2", "S3", "S4", "D"}

var hashToKey, rawToName map[string]string

func keyOfHash(h []byte) string {
	if hashToKey == nil {
		hashToKey = map[string]string{}
		for _, k := range keyIDs {
			x := rev.SPKIHash(k)
			hashToKey[string(x[:])] = k
		}
	}
	if k, ok := hashToKey[string(h)]; ok {
		return k
	}
	return "?" + hex.EncodeToString(h)
}

func nameOfRaw(raw []byte) string {
	if rawToName == nil {
		rawToName = map[string]string{}
		for _, n := range nameIDs {
			rawToName[string(pki.RawName(n))] = n
		}
	}
	if n, ok := rawToName[string(raw)]; ok {
		return n
	}
	return "?" + hex.EncodeToString(raw)
}

func nameID(n *zpkix.Name) string {
	if len(n.Names) == 2 && n.Names[0].Type.String() == "2.5.4.10" && n.Names[0].Value == "verif" &&
		n.Names[1].Type.String() == "2.5.4.3" {
		if s, ok := n.Names[1].Value.(string); ok && s == n.CommonName {
			return s
		}
	}
	return "?" + n.String()
}

// canonical form of an issuer -> serial multiset structure
type canon struct {
	Lists   map[string][]string
	Blocked []string
}

func (c canon) String() string {
	var ks []string
	for k := range c.Lists {
		ks = append(ks, k)
	}
	sort.Strings(ks)
	var sb strings.Builder
	for _, k := range ks {
		v := append([]string{}, c.Lists[k]...)
		sort.Strings(v)
		fmt.Fprintf(&sb, "%s:%v;", k, v)
	}
	b := append([]string{}, c.Blocked...)
	sort.Strings(b)
	fmt.Fprintf(&sb, "blocked:%v", b)
	return sb.String()
}

func canonOfParsed(p Parsed) canon {
	c := canon{Lists: map[string][]string{}}
	for _, g := range p.Lists {
		for _, s := range g.Serials {
			c.Lists[g.ID] = append(c.Lists[g.ID], hex.EncodeToString(s))
		}
	}
	for _, b := range p.Blocked {
		switch v := b.(type) {
		case string:
			c.Blocked = append(c.Blocked, v)
		case []any:
			c.Blocked = append(c.Blocked, fmt.Sprintf("%v/%v", v[0], v[1]))
		}
	}
	return c
}

func serialHex(n *big.Int) string {
	if n == nil {
		return "nil"
	}
	return hex.EncodeToString(rev.ContentFromInt(n))
}

// ---- concretisation check: the harness' own reading of the wire bytes ------------------------

func fatalIf(err error, what string) {
	if err != nil {
		obs.Fatal("%s: %v", what, err)
	}
}

func minimalPos(b []byte) string { // serial octets on the wire -> canonical content octets
	return serialHex(new(big.Int).SetBytes(b))
}

func decodeCRLSet(w []byte) canon {
	c := canon{Lists: map[string][]string{}}
	if len(w) < 2 {
		obs.Fatal("concretisation: crlset too short")
	}
	hl := int(binary.LittleEndian.Uint16(w))
	var hdr struct {
		BlockedSPKIs []string
		NumParents   int
	}
	fatalIf(json.Unmarshal(w[2:2+hl], &hdr), "concretisation: crlset header")
	for _, s := range hdr.BlockedSPKIs {
		h, err := base64.StdEncoding.DecodeString(s)
		fatalIf(err, "concretisation: blocked spki")
		c.Blocked = append(c.Blocked, keyOfHash(h))
	}
	p := w[2+hl:]
	np := 0
	for len(p) > 0 {
		id := keyOfHash(p[:32])
		n := int(binary.LittleEndian.Uint32(p[32:]))
		p = p[36:]
		np++
		for i := 0; i < n; i++ {
			l := int(p[0])
			c.Lists[id] = append(c.Lists[id], minimalPos(p[1:1+l]))
			p = p[1+l:]
		}
	}
	if np != hdr.NumParents {
		obs.Fatal("concretisation: NumParents %d, blocks %d", hdr.NumParents, np)
	}
	return c
}

func decodeOneCRL(w []byte) canon {
	c := canon{Lists: map[string][]string{}}
	var doc struct {
		Data []map[string]any `json:"data"`
	}
	fatalIf(json.Unmarshal(w, &doc), "concretisation: onecrl json")
	b64 := func(x any) []byte {
		b, err := base64.StdEncoding.DecodeString(x.(string))
		fatalIf(err, "concretisation: onecrl base64")
		return b
	}
	for _, r := range doc.Data {
		if r["subject"] != nil {
			c.Blocked = append(c.Blocked, nameOfRaw(b64(r["subject"]))+"/"+keyOfHash(b64(r["pubKeyHash"])))
		} else {
			id := nameOfRaw(b64(r["issuerName"]))
			c.Lists[id] = append(c.Lists[id], minimalPos(b64(r["serialNumber"])))
		}
	}
	return c
}

func decodeSST(w []byte) canon {
	c := canon{Lists: map[string][]string{}}
	if len(w) < 8 || binary.LittleEndian.Uint32(w) != 0 || string(w[4:8]) != "CERT" {
		obs.Fatal("concretisation: sst header")
	}
	p := w[8:]
	for {
		id := binary.LittleEndian.Uint32(p)
		if id == 0 {
			if len(p) != 12 || binary.LittleEndian.Uint64(p[4:]) != 0 {
				obs.Fatal("concretisation: sst end marker")
			}
			break
		}
		enc := binary.LittleEndian.Uint32(p[4:])
		l := int(binary.LittleEndian.Uint32(p[8:]))
		v := p[12 : 12+l]
		p = p[12+l:]
		if enc != 1 {
			obs.Fatal("concretisation: sst encoding type")
		}
		if id == 32 {
			crt, err := stdx509.ParseCertificate(v)
			fatalIf(err, "concretisation: sst certificate (standard library)")
			n := nameOfRaw(crt.RawIssuer)
			c.Lists[n] = append(c.Lists[n], serialHex(crt.SerialNumber))
		}
	}
	return c
}

func canonOfSet(f string, s Set) canon {
	c := canon{Lists: map[string][]string{}}
	for _, e := range s.Entries {
		id := e.Iss.N
		if f == "crlset" {
			id = e.Iss.K
		}
		c.Lists[id] = append(c.Lists[id], hex.EncodeToString(e.S))
	}
	switch f {
	case "crlset":
		c.Blocked = append(c.Blocked, s.BKeys...)
	case "onecrl":
		for _, b := range s.BSubj {
			c.Blocked = append(c.Blocked, b.Subj+"/"+b.Key)
		}
	}
	return c
}

// ---- the real code -------------------------------------------------------------------------

type parsedSet struct {
	crlset *google.CRLSet
	onecrl *mozilla.OneCRL
	sst    *microsoft.DisallowedCerts
}

// guard: a panic on a well-formed input is reported as an error of the call (the input is not
// "parsed faithfully" / the membership is not decided); a hang is a machinery problem.
func guard(f func()) (panicked string) {
	o := obs.Guard(30*time.Second, f)
	if o.Timeout {
		obs.Fatal("real code hung on a well-formed input")
	}
	return o.Panic
}

func parseReal(f string, w []byte) (ps parsedSet, err error) {
	defer func() {
		if err == nil && (f == "crlset" && ps.crlset == nil || f == "onecrl" && ps.onecrl == nil || f == "sst" && ps.sst == nil) {
			err = fmt.Errorf("nil result without error")
		}
	}()
	p := guard(func() {
		switch f {
		case "crlset":
			ps.crlset, err = google.Parse(w, "6375")
		case "onecrl":
			ps.onecrl, err = mozilla.Parse(w)
		case "sst":
			ps.sst, err = microsoft.Parse(w)
		default:
			obs.Fatal("format %q", f)
		}
	})
	if p != "" {
		err = fmt.Errorf("panic: %s", p)
	}
	return
}

// blockedKeyOfString: the statement does not fix the textual form of a blocked SPKI in the parsed
// CRLSet; any standard text encoding of the 32-byte hash identifies the key.
func blockedKeyOfString(s string) string {
	if b, err := hex.DecodeString(s); err == nil && len(b) == 32 {
		return keyOfHash(b)
	}
	if b, err := base64.StdEncoding.DecodeString(s); err == nil && len(b) == 32 {
		return keyOfHash(b)
	}
	if len(s) == 32 {
		return keyOfHash([]byte(s))
	}
	return "?" + s
}

func project(f string, ps parsedSet) canon {
	c := canon{Lists: map[string][]string{}}
	switch f {
	case "crlset":
		for h, l := range ps.crlset.IssuerLists {
			id := "?" + h
			if b, err := hex.DecodeString(h); err == nil {
				id = keyOfHash(b)
			}
			if _, ok := c.Lists[id]; !ok {
				c.Lists[id] = nil
			}
			for _, e := range l.Entries {
				c.Lists[id] = append(c.Lists[id], serialHex(e.SerialNumber))
			}
		}
		for _, s := range ps.crlset.BlockedSPKIs {
			c.Blocked = append(c.Blocked, blockedKeyOfString(s))
		}
	case "onecrl":
		for _, l := range ps.onecrl.IssuerLists {
			id := nameID(l.Issuer)
			for _, e := range l.Entries {
				c.Lists[id] = append(c.Lists[id], serialHex(e.SerialNumber))
			}
		}
		for _, b := range ps.onecrl.Blocked {
			c.Blocked = append(c.Blocked, nameOfRaw(b.RawSubject)+"/"+keyOfHash(b.PubKeyHash))
		}
	case "sst":
		for _, l := range ps.sst.IssuerLists {
			id := nameID(&l.Issuer)
			for _, e := range l.Entries {
				c.Lists[id] = append(c.Lists[id], serialHex(e.SerialNumber))
			}
		}
	}
	// an issuer with an empty list is no list
	for k, v := range c.Lists {
		if len(v) == 0 {
			delete(c.Lists, k)
		}
	}
	return c
}

var qcerts = map[string]*x509.Certificate{}

func queryCert(q Query) *x509.Certificate {
	k := fmt.Sprintf("%s/%s/%x/%s/%s", q.IName, q.IKey, []byte(q.Serial), q.Subj, q.SKey)
	if c, ok := qcerts[k]; ok {
		return c
	}
	der := rev.CertWithSerial(q.Subj, q.SKey, q.IName, q.IKey, q.Serial)
	// concretisation check with the standard library
	sc, err := stdx509.ParseCertificate(der)
	fatalIf(err, "query certificate (standard library)")
	spki, _ := stdx509.MarshalPKIXPublicKey(sc.PublicKey)
	h := sha256.Sum256(spki)
	if nameOfRaw(sc.RawIssuer) != q.IName || nameOfRaw(sc.RawSubject) != q.Subj || keyOfHash(h[:]) != q.SKey ||
		serialHex(sc.SerialNumber) != hex.EncodeToString(q.Serial) {
		obs.Fatal("query certificate does not carry the abstract fields")
	}
	c, err := x509.ParseCertificate(der)
	fatalIf(err, "zcrypto cannot parse the query certificate")
	qcerts[k] = c
	return c
}

// set by checkReal when Check panicked; checkPanicWant is the verdict being tested
var (
	checkPanic     string
	checkPanicWant bool
)

func issuerHashHex(key string) string {
	h := rev.SPKIHash(key)
	return hex.EncodeToString(h[:])
}

func checkReal(f string, ps parsedSet, q Query) (reported bool) {
	cert := queryCert(q)
	defer func() {
		if checkPanic != "" {
			reported = !checkPanicWant // a panic is never the demanded answer
		}
	}()
	checkPanic = guard(func() {
		switch f {
		case "crlset":
			// calling convention of verifier.Verify and of google's own test: lower-case hex
			// SHA-256 of the issuer's SubjectPublicKeyInfo
			reported = ps.crlset.Check(cert, issuerHashHex(q.IKey)) != nil
		case "onecrl":
			reported = ps.onecrl.Check(cert) != nil
		case "sst":
			reported = microsoft.Check(ps.sst, cert) != nil
		}
	})
	return
}

// structCRLSet builds a google.CRLSet value directly from the abstract set, in the representation
// zcrypto's own callers use (verifier tests: issuer lists and blocked SPKIs keyed by hex hashes).
func structCRLSet(s Set) *google.CRLSet {
	cs := &google.CRLSet{IssuerLists: map[string]*google.IssuerList{}, Version: "6375"}
	for _, e := range s.Entries {
		h := issuerHashHex(e.Iss.K)
		if cs.IssuerLists[h] == nil {
			cs.IssuerLists[h] = &google.IssuerList{SPKIHash: h}
		}
		cs.IssuerLists[h].Entries = append(cs.IssuerLists[h].Entries, &google.Entry{SerialNumber: rev.IntFromContent(e.S)})
	}
	for _, k := range s.BKeys {
		cs.BlockedSPKIs = append(cs.BlockedSPKIs, issuerHashHex(k))
	}
	return cs
}

// ---- judging one case ----------------------------------------------------------------------

type finding struct {
	what string
	sig  map[string]any
	c    Case
}

// facts about a query relative to the set, used only to label a disagreement
func facts(c Case, q Query) map[string]any {
	listed, bi, bo, bs := false, false, false, false
	for _, e := range c.Set.Entries {
		same := e.Iss.N == q.IName
		if c.Fmt == "crlset" {
			same = e.Iss.K == q.IKey
		}
		if same && string(e.S) == string(q.Serial) {
			listed = true
		}
	}
	for _, k := range c.Set.BKeys {
		if k == q.IKey {
			bi = true
		}
		if k == q.SKey {
			bo = true
		}
	}
	for _, b := range c.Set.BSubj {
		if b.Subj == q.Subj && b.Key == q.SKey {
			bs = true
		}
	}
	return map[string]any{"listed": listed, "issuer_key_blocked": bi, "own_key_blocked": bo, "subject_key_blocked": bs,
		"wide_serial": len(q.Serial) > 8, "leading_zero": len(q.Serial) > 1 && q.Serial[0] == 0}
}

func judge(c Case, queries []Query, each func(finding)) (nchecks int) {
	wire := rev.EvalBytes(c.Wire)
	var mine canon
	switch c.Fmt {
	case "crlset":
		mine = decodeCRLSet(wire)
	case "onecrl":
		mine = decodeOneCRL(wire)
	case "sst":
		mine = decodeSST(wire)
	}
	if mine.String() != canonOfSet(c.Fmt, c.Set).String() {
		obs.Fatal("concretisation: wire bytes decode to %s, abstract set is %s", mine, canonOfSet(c.Fmt, c.Set))
	}
	base := func(kind string) map[string]any { return map[string]any{"fmt": c.Fmt, "kind": kind, "level": "wire"} }
	ps, err := parseReal(c.Fmt, wire)
	if err != nil {
		sig := base("parse-error")
		cc := c
		cc.Checks, cc.Queries = nil, nil
		each(finding{fmt.Sprintf("%s: well-formed encoding rejected: %v", c.Fmt, err), sig, cc})
		return 0
	}
	got, want := project(c.Fmt, ps), canonOfParsed(c.Parsed)
	if got.String() != want.String() {
		sig := base("parsed-structure")
		gl, wl := got, want
		gl.Blocked, wl.Blocked = nil, nil
		sig["part"] = "blocked"
		if gl.String() != wl.String() {
			sig["part"] = "lists"
		}
		cc := c
		cc.Checks, cc.Queries = nil, nil
		each(finding{fmt.Sprintf("%s: parsed structure %s, specification demands %s", c.Fmt, got, want), sig, cc})
	}
	run := func(level string, chk func(Query) bool, qi int, q Query, verdict int) {
		if verdict == 2 {
			return
		}
		nchecks++
		checkPanicWant = verdict == 1
		rep := chk(q)
		if rep != (verdict == 1) {
			sig := facts(c, q)
			sig["panic"] = checkPanic != ""
			sig["fmt"], sig["kind"], sig["level"], sig["want"], sig["got"] = c.Fmt, "check", level, verdict == 1, rep
			cc := c
			cc.Checks, cc.Queries, cc.Query, cc.Verdict, cc.Level = nil, nil, &q, verdict, level
			each(finding{fmt.Sprintf("%s Check (%s): certificate issuer=%s/%s serial=%x subject=%s/%s: reported=%v, specification demands %v",
				c.Fmt, level, q.IName, q.IKey, []byte(q.Serial), q.Subj, q.SKey, rep, verdict == 1), sig, cc})
		}
	}
	var sc *google.CRLSet
	if c.Fmt == "crlset" {
		sc = structCRLSet(c.Set)
	}
	doq := func(qi int, q Query, verdict int) {
		if c.Level == "" || c.Level == "wire" {
			run("wire", func(q Query) bool { return checkReal(c.Fmt, ps, q) }, qi, q, verdict)
		}
		if sc != nil && (c.Level == "" || c.Level == "struct") {
			run("struct", func(q Query) bool { return checkReal("crlset", parsedSet{crlset: sc}, q) }, qi, q, verdict)
		}
	}
	if c.Queries != nil && c.Query == nil {
		queries = c.Queries
	}
	if c.Query != nil {
		doq(0, *c.Query, c.Verdict)
	} else if len(c.Checks) > 0 || queries != nil {
		if len(c.Checks) != len(queries) {
			obs.Fatal("case has %d verdicts, %d queries", len(c.Checks), len(queries))
		}
		for qi, q := range queries {
			doq(qi, q, c.Checks[qi])
		}
	}
	return
}

func main() {
	if len(os.Args) < 3 {
		obs.Fatal("usage")
	}
	switch os.Args[1] {
	case "replay-gen":
		var queries []Query
		var err error
		if os.Args[2] == "-" {
			queries = []Query{}
		}
		err = obs.ReadLines(map[bool]string{true: os.DevNull, false: os.Args[2]}[os.Args[2] == "-"], func(line []byte) error {
			var u struct {
				Queries []Query `json:"queries"`
			}
			if err := json.Unmarshal(line, &u); err != nil {
				return err
			}
			queries = u.Queries
			return nil
		})
		if err != nil || (len(queries) == 0 && os.Args[2] != "-") {
			obs.Fatal("queries: %v", err)
		}
		seen := map[string]bool{}
		ncases, nchecks, bad, nontriv := 0, 0, 0, 0
		err = obs.ReadLines(os.Args[3], func(line []byte) error {
			var c Case
			if err := json.Unmarshal(line, &c); err != nil {
				return err
			}
			ncases++
			if len(c.Set.Entries) > 0 || len(c.Set.BKeys) > 0 || len(c.Set.BSubj) > 0 {
				nontriv++
			}
			nchecks += judge(c, queries, func(f finding) {
				bad++
				k, _ := json.Marshal(f.sig)
				if !seen[string(k)] {
					seen[string(k)] = true
					obs.Emit(obs.Candidate{Sig: f.sig, What: f.what, Case: f.c})
				}
			})
			return nil
		})
		if err != nil {
			obs.Fatal("cases: %v", err)
		}
		obs.Stat("cases", ncases)
		obs.Stat("checks", nchecks)
		obs.Stat("nontrivial", nontriv)
		obs.Stat("disagreements", bad)
	case "models":
		n, _ := strconv.Atoi(os.Args[3])
		models(os.Args[2], n)
	case "replay":
		var c Case
		sig := obs.ReadReplay(os.Args[2], &c)
		n := 0
		var first string
		judge(c, nil, func(f finding) {
			if f.sig["kind"] != sig["kind"] || f.sig["level"] != sig["level"] {
				return
			}
			n++
			if first == "" {
				first = f.what
			}
		})
		if n > 0 {
			fmt.Println("REPRODUCED:", first)
			os.Exit(1)
		}
		fmt.Println("not reproduced")
	default:
		obs.Fatal("unknown command")
	}
}

// ---- random models for RevSetsRand.tla ------------------------------------------------------

func randSerial(rng *rand.Rand) rev.Bytes {
	if rng.Intn(4) == 0 {
		return rev.ContentFromInt(big.NewInt(int64(rng.Intn(400))))
	}
	b := make([]byte, 1+rng.Intn(19))
	rng.Read(b)
	return rev.ContentFromInt(new(big.Int).SetBytes(b))
}

// models writes n seeded random abstract sets with their own query certificates.  Only abstract
// records are written; wire bytes, demanded parse result and verdicts come back from TLC.
func models(path string, n int) {
	rng := rand.New(rand.NewSource(obs.Seed()))
	w := obs.NewWriter(path)
	fmts := []string{"crlset", "onecrl", "sst"}
	for i := 0; i < n; i++ {
		f := fmts[i%3]
		ni := 1 + rng.Intn(5)
		issuers := make([]Issuer, ni)
		for j := range issuers {
			issuers[j] = Issuer{N: fmt.Sprintf("N%d", j+1), K: fmt.Sprintf("K%d", j+1)}
		}
		ne := rng.Intn(40)
		if f == "sst" {
			ne = rng.Intn(12) // every entry is a certificate
		}
		set := Set{Entries: []Entry{}, BKeys: []string{}, BSubj: []BSubj{}}
		for j := 0; j < ne; j++ {
			e := Entry{Iss: issuers[rng.Intn(ni)], S: randSerial(rng)}
			if j > 0 && rng.Intn(6) == 0 {
				e.S = set.Entries[rng.Intn(j)].S // same serial, maybe another issuer
			}
			set.Entries = append(set.Entries, e)
		}
		if f == "crlset" {
			for _, k := range []string{"K1", "K2", "K6", "KS1", "KS3"} {
				if rng.Intn(4) == 0 {
					set.BKeys = append(set.BKeys, k)
				}
			}
		}
		if f == "onecrl" {
			for j := rng.Intn(3); j > 0; j-- {
				set.BSubj = append(set.BSubj, BSubj{Subj: fmt.Sprintf("S%d", 1+rng.Intn(4)), Key: fmt.Sprintf("KS%d", 1+rng.Intn(4))})
			}
		}
		v := map[string]any{"strip": rng.Intn(2) == 0 && f != "sst", "bfirst": rng.Intn(2) == 0 && f == "onecrl", "nprops": 0}
		if f == "sst" {
			v["nprops"] = rng.Intn(3)
		}
		var qs []Query
		for j := 0; j < 24; j++ {
			q := Query{IName: fmt.Sprintf("N%d", 1+rng.Intn(6)), IKey: fmt.Sprintf("K%d", 1+rng.Intn(6)),
				Serial: randSerial(rng), Subj: fmt.Sprintf("S%d", 1+rng.Intn(4)), SKey: fmt.Sprintf("KS%d", 1+rng.Intn(4))}
			if len(set.Entries) > 0 && rng.Intn(3) > 0 {
				e := set.Entries[rng.Intn(len(set.Entries))]
				q.Serial = e.S
				switch rng.Intn(4) {
				case 0: // same serial, issuer left random
				case 1:
					q.IName, q.IKey = e.Iss.N, fmt.Sprintf("K%d", 1+rng.Intn(6)) // name matches, key maybe not
				default:
					q.IName, q.IKey = e.Iss.N, e.Iss.K
				}
			} else if rng.Intn(2) == 0 {
				j := rng.Intn(ni)
				q.IName, q.IKey = issuers[j].N, issuers[j].K
			}
			qs = append(qs, q)
		}
		w.Write(map[string]any{"fmt": f, "set": set, "var": v, "queries": qs})
	}
	w.Close()
	obs.Stat("models", n)
}
