// c18: conformance harness binding ASN1Marshal.tla (C18, ASN.1 marshalling round-trips and is
// idempotent) to encoding/asn1.Marshal / Unmarshal.
//
//	c18 replay-gen <cases.ndjson>   TLC-generated (type, value, Enc) cases (ASN1MarshalGen.tla)
//	c18 replay <replay.json>        one case (exit 1 if the real code disagrees)
//	c18 record <out.ndjson> <n>     seeded random deeper types / values: what Marshal, Unmarshal and
//	                                re-Marshal really did, for Trace_ASN1Marshal
//	c18 record-one <replay.json> <out>
//
// Go types are built with reflect.StructOf from the abstract schema (struct tags carry the
// field parameters); the value read back by Unmarshal is projected to the abstract value again.
package main

import (
	"encoding/json"
	"fmt"
	"math/big"
	"math/rand"
	"os"
	"reflect"
	"sort"
	"strconv"
	"strings"
	"time"

	"github.com/zmap/zcrypto/encoding/asn1"
	"verifharness/lib/obs"
)

// Params / Type mirror PT / TT of ASN1MarshalGen.tla.
type Params struct {
	Opt, HasDef bool
	Def         json.RawMessage
	Explicit    bool
	Tag         int
	Class       string
	Set, Omit   bool
	St, Tt      string
}
type Type struct {
	K   string
	P   Params
	Sub []Type
}

func (p *Params) UnmarshalJSON(b []byte) error {
	var raw []json.RawMessage
	if err := json.Unmarshal(b, &raw); err != nil || len(raw) != 10 {
		return fmt.Errorf("params tuple: %s", b)
	}
	fs := []any{&p.Opt, &p.HasDef, &p.Def, &p.Explicit, &p.Tag, &p.Class, &p.Set, &p.Omit, &p.St, &p.Tt}
	for i, f := range fs {
		if err := json.Unmarshal(raw[i], f); err != nil {
			return err
		}
	}
	return nil
}
func (p Params) MarshalJSON() ([]byte, error) {
	d := p.Def
	if d == nil {
		d = json.RawMessage(`[0,[]]`)
	}
	return json.Marshal([]any{p.Opt, p.HasDef, d, p.Explicit, p.Tag, p.Class, p.Set, p.Omit, p.St, p.Tt})
}
func (t *Type) UnmarshalJSON(b []byte) error {
	var raw []json.RawMessage
	if err := json.Unmarshal(b, &raw); err != nil || len(raw) != 3 {
		return fmt.Errorf("type tuple: %s", b)
	}
	if err := json.Unmarshal(raw[0], &t.K); err != nil {
		return err
	}
	if err := json.Unmarshal(raw[1], &t.P); err != nil {
		return err
	}
	return json.Unmarshal(raw[2], &t.Sub)
}
func (t Type) MarshalJSON() ([]byte, error) {
	sub := t.Sub
	if sub == nil {
		sub = []Type{}
	}
	return json.Marshal([]any{t.K, t.P, sub})
}

type Case struct {
	T   Type            `json:"t"`
	V   json.RawMessage `json:"v"`
	Enc []int           `json:"enc"`
}

// tag string of a field
func (p Params) String() string {
	var s []string
	if p.Opt {
		s = append(s, "optional")
	}
	if p.HasDef {
		s = append(s, "default:"+bigOf(p.Def).String())
	}
	if p.Explicit {
		s = append(s, "explicit")
	}
	if p.Tag >= 0 {
		s = append(s, "tag:"+strconv.Itoa(p.Tag))
	}
	switch p.Class {
	case "app":
		s = append(s, "application")
	case "priv":
		s = append(s, "private")
	}
	if p.Set {
		s = append(s, "set")
	}
	if p.Omit {
		s = append(s, "omitempty")
	}
	if p.St != "" {
		s = append(s, p.St)
	}
	if p.Tt != "" {
		s = append(s, p.Tt)
	}
	return strings.Join(s, ",")
}

// IntsSET: a slice type whose name ends in SET is a SET OF.
type IntsSET []int64

func bigOf(raw json.RawMessage) *big.Int {
	var t []json.RawMessage
	var s int
	var m []int
	if json.Unmarshal(raw, &t) != nil || len(t) != 2 || json.Unmarshal(t[0], &s) != nil || json.Unmarshal(t[1], &m) != nil {
		obs.Fatal("integer value %s", raw)
	}
	b := make([]byte, len(m))
	for i, x := range m {
		b[i] = byte(x)
	}
	n := new(big.Int).SetBytes(b)
	if s < 0 {
		n.Neg(n)
	}
	if n.Sign() != s {
		obs.Fatal("concretisation of integer %s gives %v", raw, n)
	}
	return n
}

func bytesOf(raw json.RawMessage) []byte {
	var m []int
	if err := json.Unmarshal(raw, &m); err != nil {
		obs.Fatal("octets %s: %v", raw, err)
	}
	if len(m) == 0 {
		return nil
	}
	b := make([]byte, len(m))
	for i, x := range m {
		b[i] = byte(x)
	}
	return b
}

func ints(b []byte) []any {
	r := make([]any, len(b))
	for i, x := range b {
		r[i] = float64(x)
	}
	return r
}

var (
	tInt64  = reflect.TypeOf(int64(0))
	tBig    = reflect.TypeOf((*big.Int)(nil))
	tEnum   = reflect.TypeOf(asn1.Enumerated(0))
	tBool   = reflect.TypeOf(false)
	tFlag   = reflect.TypeOf(asn1.Flag(false))
	tString = reflect.TypeOf("")
	tOID    = reflect.TypeOf(asn1.ObjectIdentifier(nil))
	tBits   = reflect.TypeOf(asn1.BitString{})
	tTime   = reflect.TypeOf(time.Time{})
	tBytes  = reflect.TypeOf([]byte(nil))
	tRaw    = reflect.TypeOf(asn1.RawValue{})
	tIntSET = reflect.TypeOf(IntsSET(nil))
)

func goType(t Type) reflect.Type {
	switch t.K {
	case "int":
		return tInt64
	case "bigint":
		return tBig
	case "enum":
		return tEnum
	case "bool":
		return tBool
	case "flag":
		return tFlag
	case "str":
		return tString
	case "oid":
		return tOID
	case "bits":
		return tBits
	case "time":
		return tTime
	case "octets":
		return tBytes
	case "raw":
		return tRaw
	case "seqof":
		return reflect.SliceOf(goType(t.Sub[0]))
	case "setof":
		if t.Sub[0].K != "int" {
			obs.Fatal("setof element kind %s has no named Go type", t.Sub[0].K)
		}
		return tIntSET
	case "struct":
		fs := make([]reflect.StructField, len(t.Sub))
		for i, f := range t.Sub {
			fs[i] = reflect.StructField{Name: "F" + strconv.Itoa(i+1), Type: goType(f)}
			if s := f.P.String(); s != "" {
				fs[i].Tag = reflect.StructTag(`asn1:"` + s + `"`)
			}
		}
		return reflect.StructOf(fs)
	}
	obs.Fatal("unknown kind %q", t.K)
	return nil
}

func timeOf(raw json.RawMessage) time.Time {
	var t []int
	if json.Unmarshal(raw, &t) != nil || len(t) != 7 {
		obs.Fatal("time %s", raw)
	}
	loc := time.UTC
	if t[6] != 0 {
		loc = time.FixedZone("", t[6])
	}
	return time.Date(t[0], time.Month(t[1]), t[2], t[3], t[4], t[5], 0, loc)
}

// set stores abstract value raw into v (of goType(t)).
func set(t Type, v reflect.Value, raw json.RawMessage) { setD(t, v, raw, 0) }

// setD: depth 0 = the top-level struct, 1 = its direct fields.
func setD(t Type, v reflect.Value, raw json.RawMessage, depth int) {
	switch t.K {
	case "int", "enum":
		v.SetInt(bigOf(raw).Int64())
	case "bigint":
		v.Set(reflect.ValueOf(bigOf(raw)))
	case "bool", "flag":
		var b bool
		json.Unmarshal(raw, &b)
		v.SetBool(b)
	case "str":
		v.SetString(string(bytesOf(raw)))
	case "octets":
		v.SetBytes(bytesOf(raw))
	case "oid":
		var a []int
		json.Unmarshal(raw, &a)
		if len(a) > 0 {
			v.Set(reflect.ValueOf(asn1.ObjectIdentifier(a)))
		}
	case "bits":
		var t2 []json.RawMessage
		json.Unmarshal(raw, &t2)
		var bl int
		json.Unmarshal(t2[1], &bl)
		v.Set(reflect.ValueOf(asn1.BitString{Bytes: bytesOf(t2[0]), BitLength: bl}))
	case "time":
		v.Set(reflect.ValueOf(timeOf(raw)))
	case "raw":
		var t2 []json.RawMessage
		json.Unmarshal(raw, &t2)
		var rv asn1.RawValue
		json.Unmarshal(t2[0], &rv.Class)
		json.Unmarshal(t2[1], &rv.Tag)
		json.Unmarshal(t2[2], &rv.IsCompound)
		rv.Bytes = bytesOf(t2[3])
		v.Set(reflect.ValueOf(rv))
	case "seqof", "setof":
		var el []json.RawMessage
		json.Unmarshal(raw, &el)
		if len(el) == 0 {
			if t.P.Omit && depth == 1 {
				// empty but not nil: only `omitempty` (not the zero-value rule of `optional`) omits it.
				// Only in fields of the top-level struct: inside an optional struct a non-nil empty
				// slice would make that struct non-zero, which the abstract value cannot express.
				v.Set(reflect.MakeSlice(v.Type(), 0, 0))
			}
			return // otherwise the nil slice
		}
		s := reflect.MakeSlice(v.Type(), len(el), len(el))
		for i, e := range el {
			setD(t.Sub[0], s.Index(i), e, depth+1)
		}
		v.Set(s)
	case "struct":
		var el []json.RawMessage
		json.Unmarshal(raw, &el)
		if len(el) != len(t.Sub) {
			obs.Fatal("struct value with %d members for %d fields", len(el), len(t.Sub))
		}
		for i, e := range el {
			setD(t.Sub[i], v.Field(i), e, depth+1)
		}
	}
}

func bigProj(n *big.Int) any {
	if n == nil {
		return []any{float64(9), []any{}} // impossible sign: a nil *big.Int
	}
	return []any{float64(n.Sign()), ints(n.Bytes())}
}

// proj projects a Go value back to the abstract value (shape of json.Unmarshal into any).
func proj(t Type, v reflect.Value) any { return projS(t, v, true) }

// runCaseRaw: as runCase, SET OF members left in the order Unmarshal produced (TLC compares up to order).
func runCaseRaw(t Type, raw json.RawMessage) Result {
	sortSets = false
	defer func() { sortSets = true }()
	return runCase(t, raw)
}

var sortSets = true

func projS(t Type, v reflect.Value, _ bool) any {
	switch t.K {
	case "int", "enum":
		return bigProj(big.NewInt(v.Int()))
	case "bigint":
		return bigProj(v.Interface().(*big.Int))
	case "bool", "flag":
		return v.Bool()
	case "str":
		return ints([]byte(v.String()))
	case "octets":
		return ints(v.Bytes())
	case "oid":
		o := v.Interface().(asn1.ObjectIdentifier)
		r := make([]any, len(o))
		for i, a := range o {
			r[i] = float64(a)
		}
		return r
	case "bits":
		b := v.Interface().(asn1.BitString)
		return []any{ints(b.Bytes), float64(b.BitLength)}
	case "time":
		// "times up to the second": the instant, expressed in UTC (expected and decoded alike)
		// (a zone's sub-minute part cannot be written as +-hhmm: the representable instant is the one
		// of the local fields in the zone truncated to minutes, ASN1Marshal.tla ZoneMin / ToUTC)
		x := v.Interface().(time.Time)
		if _, zo := x.Zone(); zo%60 != 0 {
			x = x.Add(time.Duration(zo%60) * time.Second)
		}
		x = x.UTC()
		y, mo, d := x.Date()
		h, mi, s := x.Clock()
		_, off := x.Zone()
		return []any{float64(y), float64(mo), float64(d), float64(h), float64(mi), float64(s), float64(off)}
	case "raw":
		r := v.Interface().(asn1.RawValue)
		return []any{float64(r.Class), float64(r.Tag), r.IsCompound, ints(r.Bytes)}
	case "seqof", "setof":
		r := make([]any, v.Len())
		for i := range r {
			r[i] = proj(t.Sub[0], v.Index(i))
		}
		if (t.K == "setof" || t.P.Set) && sortSets {
			sortAny(r) // SET OF: equal up to order
		}
		return r
	case "struct":
		r := make([]any, len(t.Sub))
		for i := range r {
			r[i] = proj(t.Sub[i], v.Field(i))
		}
		return r
	}
	return nil
}

func sortAny(r []any) {
	sort.Slice(r, func(i, j int) bool {
		a, _ := json.Marshal(r[i])
		b, _ := json.Marshal(r[j])
		return string(a) < string(b)
	})
}

// norm: the expected value in the same shape (SET OF members sorted the same way).
func norm(t Type, raw json.RawMessage) any {
	v := reflect.New(goType(t)).Elem()
	set(t, v, raw)
	return proj(t, v)
}

// Result of running one case on the real code.
type Result struct {
	MarshalErr   string
	Enc          []byte
	UnmarshalErr string
	Rest         int
	Value        any
	ReErr        string
	Re           []byte
	Panic        string
}

func runCase(t Type, raw json.RawMessage) (r Result) {
	defer func() {
		if x := recover(); x != nil {
			r.Panic = fmt.Sprintf("%v", x)
		}
	}()
	gt := goType(t)
	v := reflect.New(gt).Elem()
	set(t, v, raw)
	enc, err := asn1.Marshal(v.Interface())
	if err != nil {
		r.MarshalErr = err.Error()
		return
	}
	r.Enc = enc
	out := reflect.New(gt)
	asn1.AllowPermissiveParsing = false
	rest, err := asn1.Unmarshal(enc, out.Interface())
	if err != nil {
		r.UnmarshalErr = err.Error()
		return
	}
	r.Rest = len(rest)
	r.Value = proj(t, out.Elem())
	re, err := asn1.Marshal(out.Elem().Interface())
	if err != nil {
		r.ReErr = err.Error()
		return
	}
	r.Re = re
	return
}

func toBytes(v []int) []byte {
	b := make([]byte, len(v))
	for i, x := range v {
		b[i] = byte(x)
	}
	return b
}

// compare: "" or the stage at which the real code leaves what the specification demands.
func compare(c *Case, r Result) (stage, what string) {
	want := toBytes(c.Enc)
	switch {
	case r.Panic != "":
		return "panic", r.Panic
	case r.MarshalErr != "":
		return "marshal-error", r.MarshalErr
	case string(r.Enc) != string(want):
		return "marshal-bytes", fmt.Sprintf("Marshal gave [% x], the specification demands [% x]", r.Enc, want)
	case r.UnmarshalErr != "":
		return "unmarshal-error", fmt.Sprintf("strict Unmarshal of Marshal's output [% x] fails: %s", r.Enc, r.UnmarshalErr)
	case r.Rest != 0:
		return "rest", fmt.Sprintf("Unmarshal left %d bytes", r.Rest)
	}
	if exp := norm(c.T, c.V); !reflect.DeepEqual(exp, r.Value) {
		a, _ := json.Marshal(exp)
		b, _ := json.Marshal(r.Value)
		return "value", fmt.Sprintf("Unmarshal(Marshal(v)) = %s, v = %s", b, a)
	}
	switch {
	case r.ReErr != "":
		return "remarshal-error", r.ReErr
	case string(r.Re) != string(want):
		return "remarshal-bytes", fmt.Sprintf("re-marshalling the decoded value gave [% x], not [% x]", r.Re, want)
	}
	return "", ""
}

func fieldName(f Type) string {
	s := f.K
	if len(f.Sub) > 0 && f.K != "struct" {
		s += "(" + f.Sub[0].K + ")"
	}
	return s + ":" + f.P.String()
}

// culprit: the fields that show the same kind of disagreement when marshalled alone.
func culprit(c *Case, stage string) string {
	var vals []json.RawMessage
	json.Unmarshal(c.V, &vals)
	var bad []string
	for i, f := range c.T.Sub {
		single := Type{K: "struct", P: c.T.P, Sub: []Type{f}}
		v, _ := json.Marshal([]json.RawMessage{vals[i]})
		r := runCase(single, v)
		// no expected bytes for the single-field schema: only stages that need none
		st := ""
		switch {
		case r.Panic != "":
			st = "panic"
		case r.MarshalErr != "":
			st = "marshal-error"
		case r.UnmarshalErr != "":
			st = "unmarshal-error"
		case r.Rest != 0:
			st = "rest"
		case !reflect.DeepEqual(norm(single, v), r.Value):
			st = "value"
		case r.ReErr != "":
			st = "remarshal-error"
		case string(r.Re) != string(r.Enc):
			st = "remarshal-bytes"
		}
		if st == stage {
			bad = append(bad, fieldName(f))
		}
	}
	if len(bad) == 0 {
		return "combination"
	}
	sort.Strings(bad)
	return strings.Join(bad, " | ")
}

// normErr keeps the constant part of an error message (no offsets / values).
func normErr(m string) string {
	for i, r := range m {
		if r == '(' || (r >= '0' && r <= '9' && i > 5) {
			return strings.TrimSpace(m[:i])
		}
	}
	return m
}

func hasExplicitPrivate(t Type) bool {
	if t.P.Explicit && t.P.Class == "priv" {
		return true
	}
	for _, s := range t.Sub {
		if hasExplicitPrivate(s) {
			return true
		}
	}
	return false
}

func check(c *Case) (map[string]any, string) {
	r := runCase(c.T, c.V)
	stage, what := compare(c, r)
	if stage == "" {
		return nil, ""
	}
	cu := ""
	if stage != "marshal-bytes" {
		cu = culprit(c, stage)
	}
	errm := ""
	switch stage {
	case "marshal-error":
		errm = normErr(r.MarshalErr)
	case "unmarshal-error":
		errm = normErr(r.UnmarshalErr)
	case "remarshal-error":
		errm = normErr(r.ReErr)
	}
	return map[string]any{"stage": stage, "error": errm, "explicit_private": hasExplicitPrivate(c.T)},
		what + " [fields failing alone: " + cu + "]"
}

func main() {
	if len(os.Args) < 3 {
		obs.Fatal("usage")
	}
	switch os.Args[1] {
	case "replay-gen":
		n, bad, nontriv := 0, 0, 0
		seen := map[string]bool{}
		err := obs.ReadLines(os.Args[2], func(line []byte) error {
			var c Case
			if err := json.Unmarshal(line, &c); err != nil {
				return fmt.Errorf("%v: %s", err, line[:min(len(line), 300)])
			}
			n++
			for _, f := range c.T.Sub {
				if f.P.String() != "" || len(f.Sub) > 0 {
					nontriv++
					break
				}
			}
			if sig, what := check(&c); sig != nil {
				bad++
				k, _ := json.Marshal(sig)
				if !seen[string(k)] {
					seen[string(k)] = true
					obs.Emit(obs.Candidate{Sig: sig, What: what, Case: c})
				}
			}
			return nil
		})
		if err != nil {
			obs.Fatal("%v", err)
		}
		obs.Stat("cases", n)
		obs.Stat("nontrivial", nontriv)
		obs.Stat("disagreements", bad)
	case "replay":
		var c Case
		obs.ReadReplay(os.Args[2], &c)
		if sig, what := check(&c); sig != nil {
			fmt.Println("REPRODUCED:", what)
			os.Exit(1)
		}
		fmt.Println("not reproduced")
	case "record":
		n, _ := strconv.Atoi(os.Args[3])
		w := obs.NewWriter(os.Args[2])
		rng := rand.New(rand.NewSource(obs.Seed()))
		for i := 0; i < n; i++ {
			t := randomStruct(rng, 0)
			v := randomValue(rng, t)
			record(w, t, v)
		}
		w.Close()
		obs.Stat("observations", w.N)
	case "record-one":
		var c struct {
			T Type            `json:"t"`
			V json.RawMessage `json:"v"`
		}
		obs.ReadReplay(os.Args[2], &c)
		w := obs.NewWriter(os.Args[3])
		record(w, c.T, c.V)
		w.Close()
	default:
		obs.Fatal("unknown command")
	}
}

func intsOf(b []byte) []int {
	r := make([]int, len(b))
	for i, x := range b {
		r[i] = int(x)
	}
	return r
}

// record logs what the real code did; TLC (Trace_ASN1Marshal) computes Enc(t, v) itself.
func record(w *obs.Writer, t Type, v json.RawMessage) {
	r := runCaseRaw(t, v)
	dec := r.Value
	if dec == nil {
		dec = []any{}
	}
	w.Write(map[string]any{"t": t, "v": v, "panic": r.Panic != "", "merr": r.MarshalErr != "", "enc": intsOf(r.Enc),
		"uerr": r.UnmarshalErr != "", "rest": r.Rest, "dec": dec, "rerr": r.ReErr != "", "re": intsOf(r.Re),
		"errmsg": normErr(r.MarshalErr + r.UnmarshalErr + r.ReErr), "explicit_private": hasExplicitPrivate(t)})
}

// ---------------------------------------------------------------- random deeper types
// Types stay inside the documented domain by construction: every omittable field carries a
// context tag of its own, strings under implicit tags are utf8-typed, times under implicit
// tags stay in the UTCTime range.

func randomParams(rng *rand.Rand, k string, idx int) Params {
	p := Params{Tag: -1, Class: "ctx", Def: json.RawMessage(`[0,[]]`)}
	if k == "raw" {
		return p // Marshal ignores field parameters of a RawValue; tagged raw values are outside the round-trip domain
	}
	switch rng.Intn(5) {
	case 0:
		p.Tag = idx
		if k != "raw" {
			p.Explicit = rng.Intn(2) == 0
		} else {
			p.Explicit = true
		}
	case 1:
		p.Tag, p.Opt = idx, k != "time" && k != "bigint" && k != "raw"
		p.Explicit = rng.Intn(2) == 0 || k == "raw"
		if p.Opt && (k == "int" || k == "enum") && rng.Intn(2) == 0 {
			p.HasDef = true
			p.Def = json.RawMessage(`[1,[7]]`)
		}
	case 2:
		p.Tag = idx
		p.Class = []string{"app", "priv"}[rng.Intn(2)]
	}
	if k == "flag" {
		p.Opt = true
		if p.Tag < 0 {
			p.Tag, p.Explicit = idx, true
		}
	}
	if p.Class == "priv" && p.Explicit {
		p.Explicit = k == "raw" // explicit private tags are a separate, enumerated case
		if k == "raw" {
			p.Class = "ctx"
		}
	}
	if k == "str" {
		if p.Tag >= 0 && !p.Explicit {
			p.St = "utf8"
		} else if rng.Intn(3) == 0 {
			p.St = []string{"utf8", "ia5", "printable", "numeric"}[rng.Intn(4)]
		}
	}
	if k == "time" && (p.Tag < 0 || p.Explicit) && rng.Intn(3) == 0 {
		p.Tt = "generalized"
	}
	if (k == "seqof" || k == "struct") && rng.Intn(4) == 0 {
		p.Set = true
	}
	if k == "seqof" && p.Opt && rng.Intn(2) == 0 {
		p.Omit = true
	}
	return p
}

var prims = []string{"int", "bigint", "enum", "bool", "flag", "str", "oid", "bits", "time", "octets", "raw"}

func randomType(rng *rand.Rand, depth, idx int) Type {
	var k string
	switch r := rng.Intn(10); {
	case r < 6 || depth >= 3:
		k = prims[rng.Intn(len(prims))]
	case r < 8:
		k = "seqof"
	default:
		k = "struct"
	}
	t := Type{K: k, P: randomParams(rng, k, idx)}
	switch k {
	case "seqof":
		e := randomType(rng, depth+1, 0)
		for e.K == "flag" || e.K == "raw" {
			e = randomType(rng, depth+1, 0)
		}
		e.P = Params{Tag: -1, Class: "ctx", Def: json.RawMessage(`[0,[]]`)}
		if e.K == "struct" {
			e = randomStruct(rng, depth+1)
		}
		t.Sub = []Type{e}
	case "struct":
		s := randomStruct(rng, depth+1)
		t.Sub = s.Sub
	}
	return t
}

func randomStruct(rng *rand.Rand, depth int) Type {
	n := 1 + rng.Intn(5)
	t := Type{K: "struct", P: Params{Tag: -1, Class: "ctx", Def: json.RawMessage(`[0,[]]`)}}
	for i := 0; i < n; i++ {
		f := randomType(rng, depth, i)
		// an untagged raw value matches anything: allowed only as the first field
		for f.K == "raw" && i > 0 {
			f = randomType(rng, depth, i)
		}
		// untagged omittable fields would be ambiguous: give every omittable field its own tag
		if (f.P.Opt || f.P.Omit) && f.P.Tag < 0 {
			f.P.Tag = i
			if f.K == "str" {
				f.P.St = "utf8"
			}
		}
		t.Sub = append(t.Sub, f)
	}
	// an untagged raw first field must not be followed by omittable fields reaching it: fine (it is first)
	return t
}

func randMag(rng *rand.Rand, n int) []int {
	k := rng.Intn(n + 1)
	m := make([]int, k)
	for i := range m {
		m[i] = rng.Intn(256)
	}
	if k > 0 && m[0] == 0 {
		m[0] = 1 + rng.Intn(255)
	}
	return m
}

func j(v any) json.RawMessage {
	b, err := json.Marshal(v)
	if err != nil {
		obs.Fatal("%v", err)
	}
	return b
}

func randomValue(rng *rand.Rand, t Type) json.RawMessage {
	switch t.K {
	case "int", "enum", "bigint":
		max := 7
		if t.K == "enum" {
			max = 3
		}
		if t.K == "bigint" {
			max = 20
		}
		m := randMag(rng, max)
		s := 0
		if len(m) > 0 {
			s = []int{1, -1}[rng.Intn(2)]
		}
		if rng.Intn(5) == 0 && t.P.HasDef {
			return t.P.Def
		}
		return j([]any{s, m})
	case "bool", "flag":
		return j(rng.Intn(2) == 0)
	case "str":
		var s string
		switch t.P.St {
		case "ia5":
			s = []string{"", "a@b.c", "x y*"}[rng.Intn(3)]
		case "printable":
			s = []string{"", "Abc 1", "a*"}[rng.Intn(3)]
		case "numeric":
			s = []string{"", "12 34"}[rng.Intn(2)]
		default:
			s = []string{"", "plain", "a*b", "é€", "with@at", "tab\there"}[rng.Intn(6)]
		}
		return j(intsOf([]byte(s)))
	case "octets":
		n := rng.Intn(5)
		if rng.Intn(6) == 0 {
			n = 126 + rng.Intn(5)
		}
		b := make([]byte, n)
		rng.Read(b)
		return j(intsOf(b))
	case "oid":
		if t.P.Opt && rng.Intn(4) == 0 {
			return j([]int{})
		}
		a := []int{rng.Intn(3), rng.Intn(40)}
		for i := rng.Intn(6); i > 0; i-- {
			a = append(a, rng.Intn(1<<uint(1+rng.Intn(30))))
		}
		return j(a)
	case "bits":
		n := rng.Intn(4)
		b := make([]byte, n)
		rng.Read(b)
		bl := 8 * n
		if n > 0 {
			pad := rng.Intn(8)
			b[n-1] &^= byte(1<<uint(pad) - 1)
			bl -= pad
		}
		return j([]any{intsOf(b), bl})
	case "time":
		y := []int{1950, 1999, 2000, 2024, 2049}[rng.Intn(5)]
		if t.P.Tag < 0 || t.P.Explicit {
			y = []int{0, 1, 1949, 1950, 2024, 2049, 2050, 9999}[rng.Intn(8)]
		}
		off := 0
		if rng.Intn(4) == 0 {
			off = (rng.Intn(2*14*60) - 14*60) * 60
			if rng.Intn(4) == 0 { // zone with a sub-minute part (local mean time zones)
				off = rng.Intn(2*3600) - 3600
			}
		}
		return j([]int{y, 1 + rng.Intn(12), 1 + rng.Intn(28), rng.Intn(24), rng.Intn(60), rng.Intn(60), off})
	case "raw":
		switch rng.Intn(3) {
		case 0:
			return j([]any{0, 5, false, []int{}})
		case 1:
			return j([]any{2, 100 + rng.Intn(40), false, []int{1, 2, 3}})
		default:
			return j([]any{0, 16, true, []int{2, 1, 5}})
		}
	case "seqof":
		n := rng.Intn(4)
		r := make([]json.RawMessage, n)
		for i := range r {
			r[i] = randomValue(rng, t.Sub[0])
		}
		return j(r)
	case "struct":
		r := make([]json.RawMessage, len(t.Sub))
		for i := range r {
			r[i] = randomValue(rng, t.Sub[i])
		}
		return j(r)
	}
	obs.Fatal("random value of kind %q", t.K)
	return nil
}
