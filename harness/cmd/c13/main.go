// c13: conformance harness binding OCSP.tla to x509/revocation/ocsp.
//
//	c13 replay-gen <dir>       the five case files written by OCSPGen.tla (TLC) in <dir>
//	c13 replay <replay.json>   one case; exit 1 if the real code disagrees with the demand
//	c13 record <out.ndjson> <n>  seeded random templates/scenarios on the real code ->
//	                             observations for Trace_OCSP.tla
//
// The harness never decides what is right: verdicts (accept / reject / open), expected fields,
// request hash terms and ForCert indices come from TLC.  It concretises the abstract world (keys
// and certificates through lib/pki = standard library, its own DER encoder for multi-response
// messages, its own TLV walk for locating fault regions), runs the real code and compares.
package main

import (
	"bytes"
	"crypto"
	"crypto/ecdsa"
	"crypto/rand"
	stdrsa "crypto/rsa"
	"crypto/sha1"
	"crypto/sha256"
	"crypto/sha512"
	stdx509 "crypto/x509"
	stdpkix "crypto/x509/pkix"
	"encoding/asn1"
	"encoding/json"
	"fmt"
	"hash"
	"io"
	"math/big"
	mrand "math/rand"
	"os"
	"path/filepath"
	"strconv"
	"time"

	xocsp "golang.org/x/crypto/ocsp"

	zasn1 "github.com/zmap/zcrypto/encoding/asn1"
	zrsa "github.com/zmap/zcrypto/rsa"
	"github.com/zmap/zcrypto/x509"
	zpkix "github.com/zmap/zcrypto/x509/pkix"
	"github.com/zmap/zcrypto/x509/revocation/crl"
	"github.com/zmap/zcrypto/x509/revocation/ocsp"
	"verifharness/lib/obs"
	"verifharness/lib/pki"
	"verifharness/lib/rev"
)

// ---- abstract records (JSON as written by TLC) ---------------------------------------------

type Template struct {
	Status     string    `json:"status"`
	Reason     int       `json:"reason"`
	Serial     rev.Bytes `json:"serial"`
	IHash      string    `json:"ihash"`
	SigAlg     string    `json:"sigalg"` // requested hash of template.SignatureAlgorithm, "default" = 0
	ThisUpdate int       `json:"thisUpdate"`
	NextUpdate int       `json:"nextUpdate"`
	RevokedAt  int       `json:"revokedAt"`
	Exts       []rev.Ext `json:"exts"`
}

type Fields struct {
	Status     string    `json:"status"`
	Revoked    bool      `json:"revoked"`
	Serial     rev.Bytes `json:"serial"`
	ThisUpdate int       `json:"thisUpdate"`
	NextUpdate int       `json:"nextUpdate"`
	RevokedAt  int       `json:"revokedAt"`
	Reason     int       `json:"reason"`
	IHash      string    `json:"ihash"`
	SigAlg     string    `json:"sigalg"` // label of the response, e.g. "ecdsa-sha256"
	Responder  string    `json:"responder"`
	HasCert    bool      `json:"hasCert"`
	Exts       []rev.Ext `json:"exts"`
}

type Scenario struct {
	Signer    string `json:"signer"`
	Embedded  string `json:"embedded"`
	Responder string `json:"responder"`
	Verifier  string `json:"verifier"`
}

type Fault struct {
	Kind string `json:"kind"`
	Cert string `json:"cert"`
}

type Single struct {
	Serial rev.Bytes `json:"serial"`
	Mark   int       `json:"mark"`
}

type ReqWant struct {
	Hash     string    `json:"hash"`
	NameHash any       `json:"nameHash"`
	KeyHash  any       `json:"keyHash"`
	Serial   rev.Bytes `json:"serial"`
}

// Case is the union of the five families; Family selects the fields in use.
type Case struct {
	Family  string     `json:"family"`
	KT      [2]string  `json:"kt"`
	SC      *Scenario  `json:"sc,omitempty"`
	T       *Template  `json:"t,omitempty"`
	Want    *Fields    `json:"want,omitempty"`
	Verdict string     `json:"verdict,omitempty"`
	Fault   *Fault     `json:"fault,omitempty"`
	HOpt    string     `json:"hopt,omitempty"`
	Serial  rev.Bytes  `json:"serial,omitempty"`
	ReqWant *ReqWant   `json:"reqwant,omitempty"`
	Singles []Single   `json:"singles,omitempty"`
	Q       rev.Bytes  `json:"q,omitempty"`
	Idx     int        `json:"idx"`
	Variant int        `json:"variant"` // concretisation variant of times (0 plain, 1 +fraction, 2 other zone)
	Flip    *FlipPoint `json:"flip,omitempty"`
	API     string     `json:"api,omitempty"`    // "ParseResponse" | "ParseResponseForCert"
	SigAlg  string     `json:"sigalg,omitempty"` // accept family: requested signature hash
	Label   string     `json:"label,omitempty"`  // accept family: demanded label of the response
	Rid     *Rid       `json:"rid,omitempty"`
}

// Rid: responder ID form of a response built by the harness' own encoder
type Rid struct {
	Kind   string `json:"kind"`   // "name" | "key"
	Target string `json:"target"` // certificate id whose subject / key the ID points at
}

type FlipPoint struct {
	Region string `json:"region"`
	Off    int    `json:"off"` // octet offset inside the region
	Bit    int    `json:"bit"`
}

// ---- the concrete world --------------------------------------------------------------------

type world struct {
	kt   [2]string
	std  map[string]*stdx509.Certificate
	z    map[string]*x509.Certificate
	keys map[string]crypto.Signer // by role
}

var worlds = map[[2]string]*world{}

// certificate id -> subject, key role, issuer name, signing key role, key role whose identifier is
// the subjectKeyId ("-" none)  (OCSP.tla CertSpec)
var certSpec = map[string][5]string{
	"I": {"I", "KI", "I", "KI", "KI"}, "O": {"O", "KO", "O", "KO", "KO"},
	"R": {"R", "KR", "I", "KI", "-"}, "R2": {"R", "KR", "I", "KI", "-"},
	"Ro": {"R", "KR", "O", "KO", "-"}, "Rf": {"R", "KR", "I", "KO", "-"},
	"Rs": {"R", "KR", "R", "KR", "-"}, "Rx": {"X", "KX", "I", "KI", "-"},
	// name collisions: the issuer's subject (and subjectKeyId) on somebody else's key
	"Rn": {"I", "KR", "I", "KR", "-"}, "Rm": {"I", "KR", "X", "KX", "-"}, "Rnx": {"I", "KR", "I", "KX", "-"},
	"Rns": {"I", "KR", "I", "KR", "KI"}, "Rms": {"I", "KR", "X", "KX", "KI"},
}

func keyID(kt [2]string, role string) string {
	switch role {
	case "KI":
		return kt[0] + "I"
	case "KO":
		return kt[0] + "O"
	case "KR":
		return kt[1] + "R"
	case "KX":
		return kt[1] + "X"
	}
	obs.Fatal("unknown key role %q", role)
	return ""
}

func samePub(a, b crypto.PublicKey) bool {
	type eq interface{ Equal(crypto.PublicKey) bool }
	x, ok := a.(eq)
	return ok && x.Equal(b)
}

func getWorld(kt [2]string) *world {
	if w, ok := worlds[kt]; ok {
		return w
	}
	w := &world{kt: kt, std: map[string]*stdx509.Certificate{}, z: map[string]*x509.Certificate{}, keys: map[string]crypto.Signer{}}
	for _, r := range []string{"KI", "KO", "KR", "KX"} {
		w.keys[r] = pki.Key(keyID(kt, r))
	}
	for id, s := range certSpec {
		c := pki.Cert{ID: kt[0] + kt[1] + "/ocsp/" + id, Subj: s[0], Key: keyID(kt, s[1]), Iss: s[2], SKey: keyID(kt, s[3]),
			NB: 0, NA: 2000000000, PathLen: -1}
		if id == "I" || id == "O" {
			c.CA, c.BC = true, true
		} else {
			c.EKU = []string{"ocsp"}
		}
		if s[4] != "-" {
			c.SKID = keyID(kt, s[4])
		}
		der := pki.MustBuild(c)
		sc, err := stdx509.ParseCertificate(der)
		if err != nil {
			obs.Fatal("world: standard library cannot parse %s: %v", id, err)
		}
		// concretisation check: the certificate carries the abstract facts
		if sc.Subject.CommonName != s[0] || sc.Issuer.CommonName != s[2] || !samePub(sc.PublicKey, w.keys[s[1]].Public()) {
			obs.Fatal("world: certificate %s does not carry its abstract subject/issuer/key", id)
		}
		if (s[4] == "-") != (len(sc.SubjectKeyId) == 0) || (s[4] != "-" && !bytes.Equal(sc.SubjectKeyId, pki.KeyID(keyID(kt, s[4])))) {
			obs.Fatal("world: certificate %s does not carry its abstract subjectKeyId", id)
		}
		for _, role := range []string{"KI", "KO", "KR", "KX"} {
			probe := &stdx509.Certificate{PublicKey: w.keys[role].Public()}
			ok := probe.CheckSignature(sc.SignatureAlgorithm, sc.RawTBSCertificate, sc.Signature) == nil
			if ok != (role == s[3]) && !samePub(w.keys[role].Public(), w.keys[s[3]].Public()) {
				obs.Fatal("world: certificate %s: signature verifies under %s = %v, abstract signer is %s", id, role, ok, s[3])
			}
		}
		zc, err := x509.ParseCertificate(der)
		if err != nil {
			obs.Fatal("world: zcrypto cannot parse %s: %v", id, err)
		}
		w.std[id], w.z[id] = sc, zc
	}
	for _, id := range []string{"Rn", "Rm", "Rnx", "Rns", "Rms"} {
		if !bytes.Equal(w.std[id].RawSubject, w.std["I"].RawSubject) || samePub(w.std[id].PublicKey, w.std["I"].PublicKey) {
			obs.Fatal("world: %s is not a name collision with the issuer", id)
		}
	}
	if !bytes.Equal(w.std["Rns"].SubjectKeyId, w.std["I"].SubjectKeyId) || !bytes.Equal(w.std["Rms"].SubjectKeyId, w.std["I"].SubjectKeyId) {
		obs.Fatal("world: Rns/Rms do not carry the issuer's subjectKeyId")
	}
	worlds[kt] = w
	return w
}

// zsigner makes a standard-library key usable by zcrypto's CreateResponse, which switches on
// zcrypto's own rsa.PublicKey type.  Signing itself is the standard library's.
type zsigner struct{ k crypto.Signer }

func (s zsigner) Public() crypto.PublicKey {
	if p, ok := s.k.Public().(*stdrsa.PublicKey); ok {
		return &zrsa.PublicKey{N: p.N, E: big.NewInt(int64(p.E))}
	}
	return s.k.Public()
}
func (s zsigner) Sign(_ io.Reader, digest []byte, opts crypto.SignerOpts) ([]byte, error) {
	return s.k.Sign(rand.Reader, digest, opts)
}

var hashByName = map[string]crypto.Hash{"sha1": crypto.SHA1, "sha256": crypto.SHA256, "sha384": crypto.SHA384, "sha512": crypto.SHA512}

func hashName(h crypto.Hash) string {
	for n, x := range hashByName {
		if x == h {
			return n
		}
	}
	return "?" + strconv.Itoa(int(h))
}

func newHash(name string) hash.Hash {
	switch name {
	case "sha1":
		return sha1.New()
	case "sha256":
		return sha256.New()
	case "sha384":
		return sha512.New384()
	case "sha512":
		return sha512.New()
	}
	obs.Fatal("hash %q", name)
	return nil
}

// requested template.SignatureAlgorithm for a signing key and a hash name
func requestedAlg(k crypto.Signer, hash string) x509.SignatureAlgorithm {
	_, rsaKey := k.Public().(*stdrsa.PublicKey)
	switch {
	case hash == "default" || hash == "":
		return 0
	case rsaKey:
		return map[string]x509.SignatureAlgorithm{"sha1": x509.SHA1WithRSA, "sha256": x509.SHA256WithRSA, "sha384": x509.SHA384WithRSA, "sha512": x509.SHA512WithRSA}[hash]
	default:
		return map[string]x509.SignatureAlgorithm{"sha1": x509.ECDSAWithSHA1, "sha256": x509.ECDSAWithSHA256, "sha384": x509.ECDSAWithSHA384, "sha512": x509.ECDSAWithSHA512}[hash]
	}
}

var zAlgName = map[x509.SignatureAlgorithm]string{
	x509.SHA1WithRSA: "rsa-sha1", x509.SHA256WithRSA: "rsa-sha256", x509.SHA384WithRSA: "rsa-sha384", x509.SHA512WithRSA: "rsa-sha512",
	x509.ECDSAWithSHA1: "ecdsa-sha1", x509.ECDSAWithSHA256: "ecdsa-sha256", x509.ECDSAWithSHA384: "ecdsa-sha384", x509.ECDSAWithSHA512: "ecdsa-sha512",
}

// the label as the harness reads it from the DER (OID -> standard library algorithm)
var oidAlg = map[string]struct {
	name string
	std  stdx509.SignatureAlgorithm
}{
	"1.2.840.113549.1.1.5": {"rsa-sha1", stdx509.SHA1WithRSA}, "1.2.840.113549.1.1.11": {"rsa-sha256", stdx509.SHA256WithRSA},
	"1.2.840.113549.1.1.12": {"rsa-sha384", stdx509.SHA384WithRSA}, "1.2.840.113549.1.1.13": {"rsa-sha512", stdx509.SHA512WithRSA},
	"1.2.840.10045.4.1": {"ecdsa-sha1", stdx509.ECDSAWithSHA1}, "1.2.840.10045.4.3.2": {"ecdsa-sha256", stdx509.ECDSAWithSHA256},
	"1.2.840.10045.4.3.3": {"ecdsa-sha384", stdx509.ECDSAWithSHA384}, "1.2.840.10045.4.3.4": {"ecdsa-sha512", stdx509.ECDSAWithSHA512},
}

// wellSigned: independent reading of a response produced by CreateResponse (standard library
// only): the label and whether the signature verifies under `signer` with the labelled algorithm.
func wellSigned(der []byte, signer crypto.Signer) (label string, ok bool) {
	var o sResp
	if rest, err := asn1.Unmarshal(der, &o); err != nil || len(rest) != 0 {
		return "?unreadable", false
	}
	var b sBasic
	if rest, err := asn1.Unmarshal(o.Response.Response, &b); err != nil || len(rest) != 0 {
		return "?unreadable", false
	}
	var ai stdpkix.AlgorithmIdentifier
	if _, err := asn1.Unmarshal(b.Alg.FullBytes, &ai); err != nil {
		return "?unreadable", false
	}
	a, known := oidAlg[ai.Algorithm.String()]
	if !known {
		return "?" + ai.Algorithm.String(), false
	}
	probe := &stdx509.Certificate{PublicKey: signer.Public()}
	return a.name, probe.CheckSignature(a.std, b.TBS.FullBytes, b.Sig.RightAlign()) == nil
}

var statusCode = map[string]int{"good": ocsp.Good, "revoked": ocsp.Revoked, "unknown": ocsp.Unknown}

func statusName(c int) string {
	for n, x := range statusCode {
		if x == c {
			return n
		}
	}
	return "?" + strconv.Itoa(c)
}

// concrete time of an abstract second count; the variant adds what "to the second" hides
func concTime(n, variant int) time.Time {
	t := pki.At(n)
	switch variant % 3 {
	case 1:
		t = t.Add(730 * time.Millisecond)
	case 2:
		t = t.Add(999999999 * time.Nanosecond).In(time.FixedZone("x", -7*3600-1800))
	}
	return t
}

func secs(t time.Time) int {
	if t.IsZero() {
		return -1
	}
	d := t.Sub(pki.T0)
	if d < 0 {
		return -2
	}
	return int(d / time.Second)
}

func zexts(xs []rev.Ext) []zpkix.Extension {
	var out []zpkix.Extension
	for _, x := range xs {
		out = append(out, zpkix.Extension{Id: zasn1.ObjectIdentifier(rev.ParseOID(x.OID)), Critical: x.Crit, Value: x.Val})
	}
	return out
}

// createResponse: zcrypto's CreateResponse for template t in scenario sc.
func createResponse(w *world, t Template, sc Scenario, variant int) ([]byte, error) {
	tmpl := ocsp.Response{
		Status:           statusCode[t.Status],
		SerialNumber:     rev.IntFromContent(t.Serial),
		ThisUpdate:       concTime(t.ThisUpdate, variant),
		NextUpdate:       concTime(t.NextUpdate, variant),
		RevokedAt:        concTime(t.RevokedAt, variant),
		RevocationReason: crl.RevocationReasonCode(t.Reason),
		ExtraExtensions:  zexts(t.Exts),
	}
	if t.IHash != "default" {
		tmpl.IssuerHash = hashByName[t.IHash]
	}
	tmpl.SignatureAlgorithm = requestedAlg(w.keys[sc.Signer], t.SigAlg)
	if sc.Embedded != "none" {
		tmpl.Certificate = w.z[sc.Embedded]
	}
	var der []byte
	var err error
	p := guard(func() {
		der, err = ocsp.CreateResponse(w.z["I"], w.z[sc.Responder], tmpl, zsigner{w.keys[sc.Signer]})
	})
	if p != "" {
		return nil, fmt.Errorf("panic: %s", p)
	}
	return der, err
}

func guard(f func()) (panicked string) {
	defer func() {
		if r := recover(); r != nil {
			panicked = fmt.Sprint(r)
		}
	}()
	f()
	return ""
}

var nameIDs = []string{"I", "O", "R", "X"}

func nameOfRaw(raw []byte) string {
	for _, n := range nameIDs {
		if bytes.Equal(pki.RawName(n), raw) {
			return n
		}
	}
	return fmt.Sprintf("?%x", raw)
}

func project(r *ocsp.Response) Fields {
	f := Fields{Status: statusName(r.Status), Revoked: r.IsRevoked, Serial: rev.ContentFromInt(r.SerialNumber),
		ThisUpdate: secs(r.ThisUpdate), NextUpdate: secs(r.NextUpdate), RevokedAt: -1, IHash: hashName(r.IssuerHash),
		SigAlg:    zAlgName[r.SignatureAlgorithm],
		Responder: nameOfRaw(r.RawResponderName), HasCert: r.Certificate != nil, Exts: []rev.Ext{}}
	if r.Status == ocsp.Revoked {
		// only demanded for revoked responses
		f.RevokedAt = secs(r.RevokedAt)
		f.Reason = int(r.RevocationReason)
	}
	for _, x := range r.Extensions {
		f.Exts = append(f.Exts, rev.Ext{OID: x.Id.String(), Crit: x.Critical, Val: rev.Bytes(x.Value)})
	}
	return f
}

// diff names the first field in which got differs from want ("" if none)
func diff(got, want Fields) string {
	a, _ := json.Marshal(got.Exts)
	b, _ := json.Marshal(want.Exts)
	switch {
	case got.Status != want.Status:
		return "status"
	case got.Revoked != want.Revoked:
		return "revoked"
	case string(got.Serial) != string(want.Serial):
		return "serial"
	case got.ThisUpdate != want.ThisUpdate:
		return "thisUpdate"
	case got.NextUpdate != want.NextUpdate:
		return "nextUpdate"
	case got.RevokedAt != want.RevokedAt:
		return "revokedAt"
	case got.Reason != want.Reason:
		return "reason"
	case got.IHash != want.IHash:
		return "ihash"
	case got.SigAlg != want.SigAlg:
		return "sigalg"
	case got.Responder != want.Responder:
		return "responder"
	case got.HasCert != want.HasCert:
		return "hasCert"
	case string(a) != string(b):
		return "exts"
	}
	return ""
}

func parse(der []byte, cert, issuer *x509.Certificate) (r *ocsp.Response, err error, panicked string) {
	panicked = guard(func() { r, err = ocsp.ParseResponseForCert(der, cert, issuer) })
	if panicked != "" {
		err = fmt.Errorf("panic: %s", panicked)
	}
	if err == nil && r == nil {
		err = fmt.Errorf("nil response without error")
	}
	return
}

// ---- findings ------------------------------------------------------------------------------

type finding struct {
	what string
	sig  map[string]any
	c    Case
}

type sink func(finding)

// judgeParsed compares an outcome with verdict + expected fields.
func judgeParsed(c Case, fam string, r *ocsp.Response, err error, verdict string, want *Fields, extra map[string]any, out sink) {
	sig := map[string]any{"family": fam, "verdict": verdict, "kt": c.KT[0] + c.KT[1]}
	for k, v := range extra {
		sig[k] = v
	}
	switch {
	case verdict == "reject" && err == nil:
		sig["kind"] = "accepted-but-must-reject"
		out(finding{fmt.Sprintf("%s: ParseResponse accepted a response the specification says must be rejected (%v)", fam, extra), sig, c})
	case verdict == "accept" && err != nil:
		sig["kind"] = "rejected-but-must-accept"
		out(finding{fmt.Sprintf("%s: ParseResponse rejected a proper response: %v (%v)", fam, err, extra), sig, c})
	case err == nil && want != nil:
		if d := diff(project(r), *want); d != "" {
			sig["kind"] = "field"
			sig["field"] = d
			g, _ := json.Marshal(project(r))
			w, _ := json.Marshal(want)
			out(finding{fmt.Sprintf("%s: field %s: parsed %s, specification demands %s", fam, d, g, w), sig, c})
		}
	}
}

// ---- family: roundtrip and accept ----------------------------------------------------------

var acceptTemplate = Template{Status: "good", Serial: rev.Bytes{1}, IHash: "default", SigAlg: "default", ThisUpdate: 86400, NextUpdate: 172800, RevokedAt: 3600, Exts: []rev.Ext{}}

func runRoundTrip(c Case, out sink) {
	w := getWorld(c.KT)
	t := acceptTemplate
	if c.T != nil {
		t = *c.T
	} else if c.SigAlg != "" {
		t.SigAlg = c.SigAlg
	}
	der, err := createResponse(w, t, *c.SC, c.Variant)
	if err != nil {
		sig := map[string]any{"family": c.Family, "kind": "create-failed", "kt": c.KT[0] + c.KT[1]}
		out(finding{fmt.Sprintf("%s: CreateResponse failed on a well-formed template: %v", c.Family, err), sig, c})
		return
	}
	// whatever the scenario: the output of CreateResponse must carry the demanded label and the
	// label must be true (signature verifies under the signing key with the labelled algorithm)
	wantLabel := c.Label
	if c.Want != nil {
		wantLabel = c.Want.SigAlg
	}
	if label, ok := wellSigned(der, w.keys[c.SC.Signer]); !ok || (wantLabel != "" && label != wantLabel) {
		sig := map[string]any{"family": c.Family, "kind": "label", "kt": c.KT[0] + c.KT[1], "requested": t.SigAlg, "verifies": ok}
		out(finding{fmt.Sprintf("%s: CreateResponse output is labelled %s (specification demands %s); signature verifies under the signer's key with the labelled algorithm (standard library): %v; requested %q",
			c.Family, label, wantLabel, ok, t.SigAlg), sig, c})
	}
	var forCert *x509.Certificate
	if c.API == "ParseResponseForCert" {
		forCert, _ = leaf(w, t.Serial)
	}
	r, perr, _ := parse(der, forCert, w.z[c.SC.Verifier])
	extra := map[string]any{"signer": c.SC.Signer, "embedded": c.SC.Embedded, "verifier": c.SC.Verifier,
		"responder_is_issuer": c.SC.Responder == "I", "api": c.API}
	if c.Family == "roundtrip" {
		extra = map[string]any{"embedded": c.SC.Embedded, "status": t.Status, "variant": c.Variant % 3}
	}
	judgeParsed(c, c.Family, r, perr, c.Verdict, c.Want, extra, out)
}

// ---- family: fault -------------------------------------------------------------------------

type region struct {
	name       string
	start, end int
}

func must(t rev.TLV, err error) rev.TLV {
	if err != nil {
		obs.Fatal("response walk: %v", err)
	}
	return t
}

func kids(b []byte, t rev.TLV, n int) []rev.TLV {
	ks, err := rev.Children(b, t)
	if err != nil || len(ks) < n {
		obs.Fatal("response walk: children of element at %d: %v (%d)", t.Start, err, len(ks))
	}
	return ks
}

// regions locates the fault regions of a response by the harness' own TLV walk.
func regions(b []byte) (rs []region, basic rev.TLV, parts []rev.TLV) {
	outer := must(rev.ReadTLV(b, 0))
	top := kids(b, outer, 2)
	rb := kids(b, top[1], 1)[0]
	rbk := kids(b, rb, 2)
	basic = must(rev.ReadTLV(b, rbk[1].ContentStart()))
	parts = kids(b, basic, 3)
	add := func(n string, s, e int) {
		if e > s {
			rs = append(rs, region{n, s, e})
		}
	}
	algParts := func(prefix string, alg rev.TLV) {
		ak := kids(b, alg, 1)
		if len(ak) > 1 {
			add(prefix+"alg", alg.Start, ak[1].Start)
			add(prefix+"alg_params", ak[1].Start, ak[1].End())
		} else {
			add(prefix+"alg", alg.Start, alg.End())
		}
	}
	add("status", top[0].Start, top[0].End())
	add("resptype", rbk[0].Start, rbk[0].End())
	add("tbs", parts[0].Start, parts[0].End())
	algParts("", parts[1])
	add("sig", parts[2].Start, parts[2].End())
	if len(parts) > 3 {
		seqof := kids(b, parts[3], 1)[0]
		certs := kids(b, seqof, 1)
		ck := kids(b, certs[0], 3)
		add("cert_tbs", ck[0].Start, ck[0].End())
		add("cert_alg", ck[1].Start, ck[1].End()) // the outer copy, see OCSP.tla
		add("cert_sig", ck[2].Start, ck[2].End())
	}
	// everything else: identifier / length octets of the enclosing wrappers
	covered := make([]bool, len(b))
	for _, r := range rs {
		for i := r.start; i < r.end; i++ {
			covered[i] = true
		}
	}
	i := 0
	for i < len(b) {
		if covered[i] {
			i++
			continue
		}
		j := i
		for j < len(b) && !covered[j] {
			j++
		}
		rs = append(rs, region{"headers", i, j})
		i = j
	}
	return
}

// octets of a (possibly split) region, as absolute offsets
func regionOffsets(rs []region, name string) []int {
	var out []int
	for _, r := range rs {
		if r.name == name {
			for i := r.start; i < r.end; i++ {
				out = append(out, i)
			}
		}
	}
	return out
}

// standard-library mirror of the outer response structures, used to replace / drop the embedded
// certificates without touching the signed part
type sBasic struct {
	TBS   asn1.RawValue
	Alg   asn1.RawValue
	Sig   asn1.BitString
	Certs []asn1.RawValue `asn1:"explicit,tag:0,optional"`
}
type sBytes struct {
	Type     asn1.ObjectIdentifier
	Response []byte
}
type sResp struct {
	Status   asn1.Enumerated
	Response sBytes `asn1:"explicit,tag:0,optional"`
}

func recode(der []byte, edit func(*sBasic)) []byte {
	var o sResp
	if rest, err := asn1.Unmarshal(der, &o); err != nil || len(rest) != 0 {
		obs.Fatal("recode: outer: %v", err)
	}
	var b sBasic
	if rest, err := asn1.Unmarshal(o.Response.Response, &b); err != nil || len(rest) != 0 {
		obs.Fatal("recode: basic: %v", err)
	}
	tbs, sig := append([]byte{}, b.TBS.FullBytes...), append([]byte{}, b.Sig.Bytes...)
	edit(&b)
	inner, err := asn1.Marshal(b)
	if err != nil {
		obs.Fatal("recode: marshal: %v", err)
	}
	o.Response.Response = inner
	out, err := asn1.Marshal(o)
	if err != nil {
		obs.Fatal("recode: marshal outer: %v", err)
	}
	// concretisation check: signed part and signature are untouched
	var o2 sResp
	var b2 sBasic
	asn1.Unmarshal(out, &o2)
	asn1.Unmarshal(o2.Response.Response, &b2)
	if !bytes.Equal(b2.TBS.FullBytes, tbs) || !bytes.Equal(b2.Sig.Bytes, sig) {
		obs.Fatal("recode: signed part changed")
	}
	return out
}

func runFault(c Case, out sink) (nflips int) {
	w := getWorld(c.KT)
	verifier := w.z[c.SC.Verifier]
	extra := map[string]any{"fault": c.Fault.Kind, "embedded": c.SC.Embedded}
	if c.Fault.Kind == "reorder" {
		return runReorder(c, w, out)
	}
	der, err := createResponse(w, *c.T, *c.SC, 0)
	if err != nil {
		obs.Fatal("fault: CreateResponse failed: %v", err)
	}
	// the untampered response must be the accepted one (otherwise the fault cases are vacuous;
	// that disagreement itself is reported by the "none" case)
	switch c.Fault.Kind {
	case "none":
		r, perr, _ := parse(der, nil, verifier)
		judgeParsed(c, "fault", r, perr, c.Verdict, c.Want, extra, out)
		return 1
	case "swap", "drop":
		mut := recode(der, func(b *sBasic) {
			if c.Fault.Kind == "drop" {
				b.Certs = nil
			} else {
				b.Certs[0] = asn1.RawValue{FullBytes: w.std[c.Fault.Cert].Raw}
			}
		})
		extra["cert"] = c.Fault.Cert
		r, perr, _ := parse(mut, nil, verifier)
		judgeParsed(c, "fault", r, perr, c.Verdict, c.Want, extra, out)
		return 1
	}
	rs, _, _ := regions(der)
	offs := regionOffsets(rs, c.Fault.Kind)
	if len(offs) == 0 {
		return 0 // e.g. no algorithm parameters in an ECDSA identifier
	}
	try := func(idx, bit int) {
		mut := append([]byte{}, der...)
		mut[offs[idx]] ^= 1 << uint(bit)
		r, perr, _ := parse(mut, nil, verifier)
		nflips++
		cc := c
		cc.Flip = &FlipPoint{Region: c.Fault.Kind, Off: idx, Bit: bit}
		judgeParsed(cc, "fault", r, perr, c.Verdict, c.Want, extra, out)
	}
	if c.Flip != nil && c.Flip.Bit >= 0 {
		if c.Flip.Off < len(offs) {
			try(c.Flip.Off, c.Flip.Bit)
		}
		return
	}
	for i := range offs {
		for bit := 0; bit < 8; bit++ {
			try(i, bit)
		}
	}
	if obs.Thorough() || (c.Flip != nil && c.Flip.Bit < 0) {
		// beyond single bits: seeded octet replacements and pairs of changes inside the region
		// (same region, hence same verdict)
		rng := mrand.New(mrand.NewSource(obs.Seed() + int64(len(offs))))
		for k := 0; k < 1500; k++ {
			mut := append([]byte{}, der...)
			i := rng.Intn(len(offs))
			mut[offs[i]] ^= byte(1 + rng.Intn(255))
			if k%2 == 1 {
				j := rng.Intn(len(offs))
				mut[offs[j]] ^= byte(1 << uint(rng.Intn(8)))
				if bytes.Equal(mut, der) {
					continue
				}
			}
			r, perr, _ := parse(mut, nil, verifier)
			nflips++
			cc := c
			cc.Flip = &FlipPoint{Region: c.Fault.Kind, Off: i, Bit: -1 - k}
			judgeParsed(cc, "fault", r, perr, c.Verdict, c.Want, extra, out)
		}
	}
	return
}

// ---- own encoder for responses with several single responses --------------------------------

type eCertID struct {
	HashAlgorithm stdpkix.AlgorithmIdentifier
	NameHash      []byte
	IssuerKeyHash []byte
	SerialNumber  *big.Int
}
type eRevoked struct {
	RevocationTime time.Time       `asn1:"generalized"`
	Reason         asn1.Enumerated `asn1:"explicit,tag:0,optional"`
}
type eSingle struct {
	CertID     eCertID
	Good       asn1.Flag `asn1:"tag:0,optional"`
	Revoked    eRevoked  `asn1:"tag:1,optional"`
	Unknown    asn1.Flag `asn1:"tag:2,optional"`
	ThisUpdate time.Time `asn1:"generalized"`
	NextUpdate time.Time `asn1:"generalized,explicit,tag:0,optional"`
}
type eData struct {
	Version        int `asn1:"optional,default:0,explicit,tag:0"`
	RawResponderID asn1.RawValue
	ProducedAt     time.Time `asn1:"generalized"`
	Responses      []eSingle
}

var (
	oidSHA1      = asn1.ObjectIdentifier{1, 3, 14, 3, 2, 26}
	oidBasic     = asn1.ObjectIdentifier{1, 3, 6, 1, 5, 5, 7, 48, 1, 1}
	oidECDSA256  = asn1.ObjectIdentifier{1, 2, 840, 10045, 4, 3, 2}
	oidECDSA384  = asn1.ObjectIdentifier{1, 2, 840, 10045, 4, 3, 3}
	oidRSASHA256 = asn1.ObjectIdentifier{1, 2, 840, 113549, 1, 1, 11}
)

func pubKeyBits(c *stdx509.Certificate) []byte {
	var spki struct {
		Alg stdpkix.AlgorithmIdentifier
		Key asn1.BitString
	}
	if _, err := asn1.Unmarshal(c.RawSubjectPublicKeyInfo, &spki); err != nil {
		obs.Fatal("spki: %v", err)
	}
	return spki.Key.RightAlign()
}

// position p (1-based) and mark m are encoded in thisUpdate = 1000*p + m so that the harness
// can tell which single response was returned; mark 1 = good, mark 2 = revoked
func buildMulti(w *world, singles []Single) []byte {
	return buildBasic(w, singles, "KI", Rid{Kind: "name", Target: "I"}, "none")
}

// buildBasic: a signed response with the given single responses, signed by the key of role
// `signer`, with a responder ID by name or by SHA-1 key hash of certificate rid.Target, and
// optionally one embedded certificate.
func buildBasic(w *world, singles []Single, signer string, rid Rid, embedded string) []byte {
	iss := w.std["I"]
	nh, kh := sha1.Sum(iss.RawSubject), sha1.Sum(pubKeyBits(iss))
	d := eData{ProducedAt: pki.At(5000)}
	switch rid.Kind {
	case "name":
		d.RawResponderID = asn1.RawValue{Class: 2, Tag: 1, IsCompound: true, Bytes: w.std[rid.Target].RawSubject}
	case "key":
		x := sha1.Sum(pubKeyBits(w.std[rid.Target]))
		oct, _ := asn1.Marshal(x[:])
		d.RawResponderID = asn1.RawValue{Class: 2, Tag: 2, IsCompound: true, Bytes: oct}
	default:
		obs.Fatal("rid kind %q", rid.Kind)
	}
	for i, s := range singles {
		e := eSingle{CertID: eCertID{HashAlgorithm: stdpkix.AlgorithmIdentifier{Algorithm: oidSHA1, Parameters: asn1.NullRawValue},
			NameHash: nh[:], IssuerKeyHash: kh[:], SerialNumber: rev.IntFromContent(s.Serial)},
			ThisUpdate: pki.At(1000*(i+1) + s.Mark), NextUpdate: pki.At(900000)}
		if s.Mark == 2 {
			e.Revoked = eRevoked{RevocationTime: pki.At(50), Reason: 1}
		} else {
			e.Good = true
		}
		d.Responses = append(d.Responses, e)
	}
	tbs, err := asn1.Marshal(d)
	if err != nil {
		obs.Fatal("multi: marshal tbs: %v", err)
	}
	var alg stdpkix.AlgorithmIdentifier
	var digest []byte
	var h crypto.Hash
	switch k := w.keys[signer].Public().(type) {
	case *stdrsa.PublicKey:
		alg = stdpkix.AlgorithmIdentifier{Algorithm: oidRSASHA256, Parameters: asn1.NullRawValue}
		x := sha256.Sum256(tbs)
		digest, h = x[:], crypto.SHA256
	case *ecdsa.PublicKey:
		if k.Curve.Params().BitSize == 384 {
			alg = stdpkix.AlgorithmIdentifier{Algorithm: oidECDSA384}
			x := sha512.Sum384(tbs)
			digest, h = x[:], crypto.SHA384
		} else {
			alg = stdpkix.AlgorithmIdentifier{Algorithm: oidECDSA256}
			x := sha256.Sum256(tbs)
			digest, h = x[:], crypto.SHA256
		}
	}
	sig, err := w.keys[signer].Sign(rand.Reader, digest, h)
	if err != nil {
		obs.Fatal("multi: sign: %v", err)
	}
	algDER, err := asn1.Marshal(alg)
	if err != nil || len(algDER) == 0 {
		obs.Fatal("multi: marshal algorithm identifier: %v", err)
	}
	sb := sBasic{TBS: asn1.RawValue{FullBytes: tbs}, Alg: asn1.RawValue{FullBytes: algDER},
		Sig: asn1.BitString{Bytes: sig, BitLength: 8 * len(sig)}}
	if embedded != "none" {
		sb.Certs = []asn1.RawValue{{FullBytes: w.std[embedded].Raw}}
	}
	inner, err := asn1.Marshal(sb)
	if err != nil {
		obs.Fatal("multi: marshal basic: %v", err)
	}
	out, err := asn1.Marshal(sResp{Status: 0, Response: sBytes{Type: oidBasic, Response: inner}})
	if err != nil {
		obs.Fatal("multi: marshal: %v", err)
	}
	return out
}

var leafCache = map[string][2]any{}

func leaf(w *world, serial []byte) (*x509.Certificate, *stdx509.Certificate) {
	k := w.kt[0] + w.kt[1] + string(serial)
	if v, ok := leafCache[k]; ok {
		return v[0].(*x509.Certificate), v[1].(*stdx509.Certificate)
	}
	der := rev.CertWithSerial("L", "KL", "I", keyID(w.kt, "KI"), serial)
	z, err := x509.ParseCertificate(der)
	if err != nil {
		obs.Fatal("leaf: %v", err)
	}
	var s *stdx509.Certificate
	if serial[0]&0x80 == 0 {
		s, _ = stdx509.ParseCertificate(der)
	}
	leafCache[k] = [2]any{z, s}
	return z, s
}

func runForCert(c Case, out sink) {
	w := getWorld(c.KT)
	der := buildMulti(w, c.Singles)
	zleaf, sleaf := leaf(w, c.Q)
	// concretisation check with an implementation that is not under test (x/crypto/ocsp), for
	// the serials the standard library can represent in a certificate
	if sleaf != nil {
		xr, xerr := xocsp.ParseResponseForCert(der, sleaf, w.std["I"])
		if (xerr == nil) != (c.Idx != 0) || (xerr == nil && secs(xr.ThisUpdate)/1000 != c.Idx) {
			obs.Fatal("forcert: x/crypto/ocsp reads index %v (%v) from the harness' encoding, abstract index %d", xr, xerr, c.Idx)
		}
	}
	r, err, _ := parse(der, zleaf, w.z["I"])
	sig := map[string]any{"family": "forcert", "kt": c.KT[0] + c.KT[1], "want_match": c.Idx != 0, "n": len(c.Singles)}
	switch {
	case c.Idx == 0 && err == nil:
		sig["kind"] = "match-but-none-listed"
		out(finding{fmt.Sprintf("forcert: serial %x is in no single response but ParseResponseForCert returned one (thisUpdate %d)", []byte(c.Q), secs(r.ThisUpdate)), sig, c})
	case c.Idx != 0 && err != nil:
		sig["kind"] = "no-match-but-listed"
		out(finding{fmt.Sprintf("forcert: serial %x is single response %d but ParseResponseForCert failed: %v", []byte(c.Q), c.Idx, err), sig, c})
	case c.Idx != 0:
		got := secs(r.ThisUpdate) / 1000
		mark := secs(r.ThisUpdate) % 1000
		wantStatus := map[int]string{1: "good", 2: "revoked"}[c.Singles[c.Idx-1].Mark]
		if got != c.Idx || string(rev.ContentFromInt(r.SerialNumber)) != string(c.Q) || statusName(r.Status) != wantStatus || mark != c.Singles[c.Idx-1].Mark {
			sig["kind"] = "wrong-single"
			sig["later"] = got > c.Idx
			out(finding{fmt.Sprintf("forcert: serial %x: returned single response %d (%s), specification demands the first match %d (%s)", []byte(c.Q), got, statusName(r.Status), c.Idx, wantStatus), sig, c})
		}
	}
}

// rid family: responder ID by name / key hash pointing at the issuer (or someone else) while the
// signer and the embedded certificate vary; verdict from the same rule
func runRid(c Case, out sink) {
	w := getWorld(c.KT)
	der := buildBasic(w, []Single{{Serial: rev.Bytes{1}, Mark: 1}}, c.SC.Signer, *c.Rid, c.SC.Embedded)
	// the harness' encoding must be readable by an implementation that is not under test
	if xr, xerr := xocsp.ParseResponse(der, nil); c.SC.Embedded == "none" {
		if xerr != nil {
			obs.Fatal("rid: x/crypto/ocsp cannot read the harness' encoding: %v", xerr)
		}
		tgt := w.std[c.Rid.Target]
		x := sha1.Sum(pubKeyBits(tgt))
		if (c.Rid.Kind == "name" && !bytes.Equal(xr.RawResponderName, tgt.RawSubject)) || (c.Rid.Kind == "key" && !bytes.Equal(xr.ResponderKeyHash, x[:])) {
			obs.Fatal("rid: responder ID concretisation failed")
		}
	}
	r, err, _ := parse(der, nil, w.z[c.SC.Verifier])
	extra := map[string]any{"signer": c.SC.Signer, "embedded": c.SC.Embedded, "verifier": c.SC.Verifier,
		"rid": c.Rid.Kind + ":" + c.Rid.Target}
	judgeParsed(c, "rid", r, err, c.Verdict, nil, extra, out)
	if err == nil {
		tgt := w.std[c.Rid.Target]
		x := sha1.Sum(pubKeyBits(tgt))
		ok := (c.Rid.Kind == "name" && bytes.Equal(r.RawResponderName, tgt.RawSubject) && len(r.ResponderKeyHash) == 0) ||
			(c.Rid.Kind == "key" && bytes.Equal(r.ResponderKeyHash, x[:]) && len(r.RawResponderName) == 0)
		if !ok {
			sig := map[string]any{"family": "rid", "kind": "field", "field": "responderID", "kt": c.KT[0] + c.KT[1], "rid": c.Rid.Kind}
			out(finding{fmt.Sprintf("rid: parsed responder ID differs from the encoded one (%s:%s)", c.Rid.Kind, c.Rid.Target), sig, c})
		}
	}
}

// reorder: swap the first two single responses of a signed two-response message
func runReorder(c Case, w *world, out sink) int {
	singles := []Single{{Serial: rev.Bytes{1}, Mark: 1}, {Serial: rev.Bytes{1, 0, 0, 0, 0, 0, 0, 0, 1}, Mark: 2}}
	der := buildMulti(w, singles)
	zleaf, _ := leaf(w, singles[0].Serial)
	if _, err, _ := parse(der, zleaf, w.z["I"]); err != nil {
		obs.Fatal("reorder: the untampered two-response message is rejected: %v", err)
	}
	_, _, parts := regions(der)
	tk := kids(der, parts[0], 3)
	list := tk[len(tk)-1]
	ss := kids(der, list, 2)
	mut := append([]byte{}, der[:ss[0].Start]...)
	mut = append(mut, der[ss[1].Start:ss[1].End()]...)
	mut = append(mut, der[ss[0].Start:ss[0].End()]...)
	mut = append(mut, der[ss[1].End():]...)
	if len(mut) != len(der) || bytes.Equal(mut, der) {
		obs.Fatal("reorder: concretisation failed")
	}
	r, err, _ := parse(mut, zleaf, w.z["I"])
	judgeParsed(c, "fault", r, err, c.Verdict, nil, map[string]any{"fault": "reorder", "embedded": "none"}, out)
	return 1
}

// ---- family: request -----------------------------------------------------------------------

func evalHashTerm(w *world, t any) []byte {
	a := t.([]any)
	if a[0].(string) != "hash" {
		obs.Fatal("request term %v", t)
	}
	arg := a[2].([]any)
	c := w.std[arg[1].(string)]
	h := newHash(a[1].(string))
	switch arg[0].(string) {
	case "rawsubject":
		h.Write(c.RawSubject)
	case "pubkeybits":
		h.Write(pubKeyBits(c))
	default:
		obs.Fatal("request term %v", t)
	}
	return h.Sum(nil)
}

func runRequest(c Case, out sink) {
	w := getWorld(c.KT)
	zleaf, _ := leaf(w, c.Serial)
	var opts *ocsp.RequestOptions
	switch c.HOpt {
	case "nil":
	case "zero":
		opts = &ocsp.RequestOptions{}
	default:
		opts = &ocsp.RequestOptions{Hash: hashByName[c.HOpt]}
	}
	sig := map[string]any{"family": "request", "kt": c.KT[0] + c.KT[1], "hopt": c.HOpt}
	var der []byte
	var err error
	var req *ocsp.Request
	p := guard(func() {
		der, err = ocsp.CreateRequest(zleaf, w.z["I"], opts)
		if err == nil {
			req, err = ocsp.ParseRequest(der)
		}
	})
	if p != "" {
		err = fmt.Errorf("panic: %s", p)
	}
	if err != nil || req == nil {
		sig["kind"] = "request-failed"
		out(finding{fmt.Sprintf("request: CreateRequest/ParseRequest failed: %v", err), sig, c})
		return
	}
	field := ""
	switch {
	case hashName(req.HashAlgorithm) != c.ReqWant.Hash:
		field = "hash"
	case !bytes.Equal(req.IssuerNameHash, evalHashTerm(w, c.ReqWant.NameHash)):
		field = "nameHash"
	case !bytes.Equal(req.IssuerKeyHash, evalHashTerm(w, c.ReqWant.KeyHash)):
		field = "keyHash"
	case req.SerialNumber == nil || string(rev.ContentFromInt(req.SerialNumber)) != string(c.ReqWant.Serial):
		field = "serial"
	}
	if field != "" {
		sig["kind"], sig["field"] = "field", field
		out(finding{fmt.Sprintf("request: field %s differs from the specification's term (hash option %s)", field, c.HOpt), sig, c})
	}
}

// ---- driver ----------------------------------------------------------------------------------

func run(c Case, out sink) int {
	switch c.Family {
	case "roundtrip", "accept":
		runRoundTrip(c, out)
	case "fault":
		return runFault(c, out)
	case "request":
		runRequest(c, out)
	case "forcert":
		runForCert(c, out)
	case "rid":
		runRid(c, out)
	default:
		obs.Fatal("family %q", c.Family)
	}
	return 1
}

func readCases(path, family string, f func(Case)) int {
	n := 0
	err := obs.ReadLines(path, func(line []byte) error {
		var c Case
		if family == "request" {
			// "want" has another shape in request cases
			var raw map[string]json.RawMessage
			if err := json.Unmarshal(line, &raw); err != nil {
				return err
			}
			if err := json.Unmarshal(raw["want"], &c.ReqWant); err != nil {
				return err
			}
			delete(raw, "want")
			b, _ := json.Marshal(raw)
			line = b
		}
		if err := json.Unmarshal(line, &c); err != nil {
			return err
		}
		c.Family = family
		c.Variant = n
		n++
		f(c)
		return nil
	})
	if err != nil {
		obs.Fatal("%s: %v", path, err)
	}
	return n
}

func main() {
	if len(os.Args) < 3 {
		obs.Fatal("usage")
	}
	switch os.Args[1] {
	case "replay-gen":
		dir := os.Args[2]
		seen := map[string]bool{}
		bad := 0
		out := func(f finding) {
			bad++
			k, _ := json.Marshal(f.sig)
			if !seen[string(k)] {
				seen[string(k)] = true
				obs.Emit(obs.Candidate{Sig: f.sig, What: f.what, Case: f.c})
			}
		}
		flips := 0
		flipsBy := map[string]int{}
		for _, fam := range []string{"roundtrip", "accept", "fault", "request", "forcert", "rid"} {
			n := readCases(filepath.Join(dir, "ocsp_"+fam+".ndjson"), fam, func(c Case) {
				k := run(c, out)
				if fam == "fault" {
					flips += k
					flipsBy[c.Fault.Kind] += k
				}
			})
			obs.Stat(fam+"_cases", n)
		}
		obs.Stat("fault_parses", flips)
		obs.Stat("fault_parses_by_kind", flipsBy)
		obs.Stat("disagreements", bad)
	case "replay":
		var c Case
		sig := obs.ReadReplay(os.Args[2], &c)
		n := 0
		first := ""
		run(c, func(f finding) {
			if f.sig["kind"] != sig["kind"] {
				return
			}
			n++
			if first == "" {
				first = f.what
			}
		})
		if n > 0 {
			fmt.Println("REPRODUCED:", first)
			os.Exit(1)
		}
		fmt.Println("not reproduced")
	case "record":
		n, _ := strconv.Atoi(os.Args[3])
		record(os.Args[2], n)
	case "check-cases":
		// cases in replay form (one Case object per line), demands computed by TLC
		bad := 0
		seen := map[string]bool{}
		err := obs.ReadLines(os.Args[2], func(line []byte) error {
			var c Case
			if err := json.Unmarshal(line, &c); err != nil {
				return err
			}
			hit := false
			run(c, func(f finding) {
				hit = true
				k, _ := json.Marshal(f.sig)
				if !seen[string(k)] {
					seen[string(k)] = true
					obs.Emit(obs.Candidate{Sig: f.sig, What: f.what, Case: f.c})
				}
			})
			if hit {
				bad++
			}
			return nil
		})
		if err != nil {
			obs.Fatal("%v", err)
		}
		obs.Stat("disagreements", bad)
	case "dump-flips":
		// diagnostic: every accepted single-bit flip of a delegated / direct response
		kt := [2]string{os.Args[2], os.Args[3]}
		w := getWorld(kt)
		sc := Scenario{Signer: "KR", Embedded: "R", Responder: "R", Verifier: "I"}
		if len(os.Args) > 4 && os.Args[4] == "direct" {
			sc = Scenario{Signer: "KI", Embedded: "none", Responder: "I", Verifier: "I"}
		}
		der, err := createResponse(w, acceptTemplate, sc, 0)
		if err != nil {
			obs.Fatal("%v", err)
		}
		rs, _, _ := regions(der)
		for _, r := range rs {
			fmt.Printf("region %-16s [%d,%d)\n", r.name, r.start, r.end)
		}
		for i := range der {
			for bit := 0; bit < 8; bit++ {
				mut := append([]byte{}, der...)
				mut[i] ^= 1 << uint(bit)
				if _, perr, _ := parse(mut, nil, w.z["I"]); perr == nil {
					name := "?"
					for _, r := range rs {
						if i >= r.start && i < r.end {
							name = r.name
						}
					}
					lo := max(0, i-6)
					fmt.Printf("ACCEPTED offset %d bit %d region %s: % x [%02x->%02x] % x\n", i, bit, name, der[lo:i], der[i], mut[i], der[i+1:min(len(der), i+7)])
				}
			}
		}
	default:
		obs.Fatal("unknown command")
	}
}

// ---- random observations for Trace_OCSP.tla ------------------------------------------------

func record(path string, n int) {
	rng := mrand.New(mrand.NewSource(obs.Seed()))
	w := obs.NewWriter(path)
	kts := [][2]string{{"P", "P"}, {"P", "R"}, {"R", "P"}, {"Q", "Q"}, {"R", "R"}, {"Q", "P"}}
	signers := []string{"KI", "KR", "KX"}
	embedded := []string{"none", "R", "Ro", "Rf", "Rs", "Rx", "Rn", "Rm", "Rnx", "Rns", "Rms"}
	statuses := []string{"good", "revoked", "unknown"}
	hashes := []string{"default", "sha1", "sha256", "sha384", "sha512"}
	reasons := []int{0, 1, 2, 3, 4, 5, 6, 8, 9, 10}
	for i := 0; i < n; i++ {
		kt := kts[rng.Intn(len(kts))]
		sc := Scenario{Signer: "KI", Embedded: "none", Verifier: "I"}
		switch rng.Intn(4) {
		case 0:
		case 1:
			sc = Scenario{Signer: "KR", Embedded: "R", Verifier: "I"}
		default:
			sc = Scenario{Signer: signers[rng.Intn(3)], Embedded: embedded[rng.Intn(len(embedded))], Verifier: []string{"I", "I", "O"}[rng.Intn(3)]}
		}
		sc.Responder = sc.Embedded
		if sc.Embedded == "none" || rng.Intn(4) == 0 {
			sc.Responder = "I"
		}
		sl := 1 + rng.Intn(20)
		sb := make([]byte, sl)
		rng.Read(sb)
		serial := rev.ContentFromInt(rev.IntFromContent(sb))
		t := Template{Status: statuses[rng.Intn(3)], Reason: reasons[rng.Intn(len(reasons))], Serial: serial, IHash: hashes[rng.Intn(5)],
			SigAlg:     hashes[rng.Intn(5)],
			ThisUpdate: rng.Intn(1 << 30), NextUpdate: rng.Intn(1 << 31), RevokedAt: rng.Intn(1 << 30), Exts: []rev.Ext{}}
		for j := rng.Intn(3); j > 0; j-- {
			v := make([]byte, rng.Intn(6))
			rng.Read(v)
			t.Exts = append(t.Exts, rev.Ext{OID: fmt.Sprintf("1.3.6.1.4.1.99999.%d", 10+j), Crit: false, Val: v})
		}
		wd := getWorld(kt)
		der, err := createResponse(wd, t, sc, i)
		if err != nil {
			obs.Fatal("record: CreateResponse: %v", err)
		}
		r, perr, _ := parse(der, nil, wd.z[sc.Verifier])
		f := Fields{Serial: rev.Bytes{0}, Exts: []rev.Ext{}}
		// label as read by the harness (standard library) and whether it is true
		label, wellsigned := wellSigned(der, wd.keys[sc.Signer])
		if perr == nil {
			f = project(r)
		}
		w.Write(map[string]any{"t": t, "sc": sc, "kt": kt, "accepted": perr == nil, "fields": f, "variant": i,
			"label": label, "wellsigned": wellsigned})
	}
	w.Close()
	obs.Stat("observations", n)
}
