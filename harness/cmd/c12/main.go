// c12: conformance harness binding Verifier.tla to verifier.Verifier.Verify.
//
//	c12 replay-gen <catalog.ndjson> <verify_cases.ndjson> <obs_out.ndjson>   TLC-generated cases
//	c12 record <obs_out.ndjson> <pkis> <mincerts> <maxcerts>                 seeded random PKIs
//	c12 record-one <replay.json> <obs_out.ndjson>                            re-run one case
//
// Every case: build the real graph, call Graph.WalkChains and Verifier.Verify for the start
// certificate with the case's time, name, OneCRL and CRLSet, project every result field.
// The observations are judged by TLC (Trace_Verifier.tla); this program never decides.
package main

import (
	"encoding/json"
	"fmt"
	"math/rand"
	"os"
	"runtime"
	"strconv"
	"sync"

	"verifharness/lib/graphobs"
	"verifharness/lib/obs"
)

// RCase is a self-contained, replayable Verify case.
type RCase struct {
	Certs  []graphobs.AbsCert `json:"certs"`
	Ops    []graphobs.Op      `json:"ops"`
	Start  graphobs.AbsCert   `json:"start"`
	T      int                `json:"t"`
	Name   string             `json:"name"`
	OneCRL graphobs.Rev       `json:"onecrl"`
	CRLSet graphobs.Rev       `json:"crlset"`
}

type Rec struct {
	Obs  graphobs.VObs `json:"obs"`
	Case RCase         `json:"case"`
}

func workers() int {
	if n, err := strconv.Atoi(os.Getenv("VERIF_WORKERS")); err == nil && n > 0 {
		return n
	}
	return runtime.NumCPU()
}

func loadCatalog(path string) []graphobs.AbsCert {
	var cat []graphobs.AbsCert
	if err := obs.ReadLines(path, func(line []byte) error {
		var c graphobs.AbsCert
		if err := json.Unmarshal(line, &c); err != nil {
			return err
		}
		if c.DNS == nil {
			c.DNS = []string{}
		}
		cat = append(cat, c)
		return nil
	}); err != nil {
		obs.Fatal("catalog: %v", err)
	}
	return cat
}

// runCase returns one observation, or two when a OneCRL is supplied: one with the set built by
// hand, one with the set obtained from the real parser mozilla.Parse.
func runCase(p *graphobs.Pool, rc RCase) []graphobs.VObs {
	byID := map[string]graphobs.AbsCert{}
	for _, c := range rc.Certs {
		byID[c.ID] = c
	}
	b := graphobs.NewBuilder(p)
	for _, op := range rc.Ops {
		c, ok := byID[op.C]
		if !ok {
			obs.Fatal("case names unknown certificate %q", op.C)
		}
		if pan := b.Apply(c, op.Root); pan != "" {
			obs.Fatal("graph construction panicked (a C10 matter): %s", pan)
		}
	}
	out := []graphobs.VObs{p.Verify(b, rc.Start, rc.T, rc.Name, rc.OneCRL, rc.CRLSet, false)}
	if rc.OneCRL.Has {
		out = append(out, p.Verify(b, rc.Start, rc.T, rc.Name, rc.OneCRL, rc.CRLSet, true))
	}
	return out
}

type collector struct {
	mu    sync.Mutex
	seen  map[string]bool
	w     *obs.Writer
	calls int
	nontr int
}

func (c *collector) add(rc RCase, o graphobs.VObs) {
	rc.OneCRL.Norm()
	rc.CRLSet.Norm()
	k := graphobs.Key(o)
	c.mu.Lock()
	defer c.mu.Unlock()
	c.calls++
	if c.seen[k] {
		return
	}
	c.seen[k] = true
	if len(o.Walked) > 0 {
		c.nontr++
	}
	c.w.Write(Rec{Obs: o, Case: rc})
}

func main() {
	if len(os.Args) < 3 {
		obs.Fatal("usage")
	}
	switch os.Args[1] {
	case "replay-gen":
		cat := loadCatalog(os.Args[2])
		type tcase struct {
			Add    []int        `json:"add"`
			Roots  []int        `json:"roots"`
			Start  int          `json:"start"`
			T      int          `json:"t"`
			Name   string       `json:"name"`
			OneCRL graphobs.Rev `json:"onecrl"`
			CRLSet graphobs.Rev `json:"crlset"`
		}
		var cases []tcase
		if err := obs.ReadLines(os.Args[3], func(line []byte) error {
			var c tcase
			if err := json.Unmarshal(line, &c); err != nil {
				return err
			}
			cases = append(cases, c)
			return nil
		}); err != nil {
			obs.Fatal("cases: %v", err)
		}
		col := &collector{seen: map[string]bool{}, w: obs.NewWriter(os.Args[4])}
		var wg sync.WaitGroup
		ch := make(chan int, 256)
		for wk := 0; wk < workers(); wk++ {
			wg.Add(1)
			go func() {
				defer wg.Done()
				p := graphobs.NewPool()
				for i := range ch {
					tc := cases[i]
					rng := rand.New(rand.NewSource(obs.Seed()*1000003 + int64(i)))
					rc := RCase{T: tc.T, Name: tc.Name, OneCRL: tc.OneCRL, CRLSet: tc.CRLSet, Start: cat[tc.Start-1]}
					isRoot := map[int]bool{}
					for _, r := range tc.Roots {
						isRoot[r] = true
					}
					for _, j := range rng.Perm(len(tc.Add)) {
						c := cat[tc.Add[j]-1]
						rc.Certs = append(rc.Certs, c)
						rc.Ops = append(rc.Ops, graphobs.Op{C: c.ID, Root: isRoot[tc.Add[j]]})
					}
					for _, o := range runCase(p, rc) {
						col.add(rc, o)
					}
				}
			}()
		}
		for i := range cases {
			ch <- i
		}
		close(ch)
		wg.Wait()
		col.w.Close()
		obs.Stat("cases", len(cases))
		obs.Stat("verify_calls", col.calls)
		obs.Stat("distinct_observations", col.w.N)
		obs.Stat("with_chains", col.nontr)
	case "record":
		n, _ := strconv.Atoi(os.Args[3])
		lo, _ := strconv.Atoi(os.Args[4])
		hi, _ := strconv.Atoi(os.Args[5])
		rng := rand.New(rand.NewSource(obs.Seed()))
		col := &collector{seen: map[string]bool{}, w: obs.NewWriter(os.Args[2])}
		p := graphobs.NewPool()
		nbs := []int{0, 100, 200, 300}
		nas := []int{301, 400, 401, 500, 1000}
		for t := 0; t < n; t++ {
			certs := graphobs.RandomPKI(rng, fmt.Sprintf("v%d", t), lo+rng.Intn(hi-lo+1))
			for i := range certs {
				certs[i].NB = nbs[rng.Intn(len(nbs))]
				certs[i].NA = nas[rng.Intn(len(nas))]
				if rng.Intn(4) == 0 {
					certs[i].DNS = []string{"a.example"}
				}
			}
			var in []graphobs.AbsCert
			for _, c := range certs {
				if rng.Intn(10) < 9 {
					in = append(in, c)
				}
			}
			var ops []graphobs.Op
			for _, j := range rng.Perm(len(in)) {
				c := in[j]
				root := rng.Intn(25) == 0
				if c.Subj == c.Iss && c.Key == c.SKey {
					root = rng.Intn(10) < 8
				}
				ops = append(ops, graphobs.Op{C: c.ID, Root: root})
			}
			for s := 0; s < 12; s++ {
				st := certs[rng.Intn(len(certs))]
				bounds := []int{st.NB, st.NA, st.NA - 1}
				for _, c := range certs {
					bounds = append(bounds, c.NB, c.NA)
				}
				tm := bounds[rng.Intn(len(bounds))] + rng.Intn(3) - 1
				rc := RCase{Certs: in, Ops: ops, Start: st, T: tm, Name: []string{"", "a.example", "b.example"}[rng.Intn(3)]}
				other := certs[rng.Intn(len(certs))]
				switch rng.Intn(10) {
				case 5:
					rc.OneCRL = graphobs.Rev{Has: true, Listed: [][]any{{st.Iss, st.Serial}}}
					rc.CRLSet = graphobs.Rev{Has: true, Listed: [][]any{{other.SKey, other.Serial}}}
				case 6:
					rc.OneCRL = graphobs.Rev{Has: true, Listed: [][]any{{other.Iss, other.Serial}}}
					rc.CRLSet = graphobs.Rev{Has: true, Listed: [][]any{{st.SKey, st.Serial}}}
				case 0:
					rc.OneCRL = graphobs.Rev{Has: true, Listed: [][]any{{st.Iss, st.Serial}}}
				case 1:
					rc.OneCRL = graphobs.Rev{Has: true, Blocked: []any{[]any{st.Subj, st.Key}}, Listed: [][]any{{other.Iss, st.Serial}}}
				case 2:
					rc.CRLSet = graphobs.Rev{Has: true, Listed: [][]any{{st.SKey, st.Serial}}}
				case 3:
					rc.CRLSet = graphobs.Rev{Has: true, Blocked: []any{st.SKey}}
				case 4:
					rc.CRLSet = graphobs.Rev{Has: true, Blocked: []any{other.Key}, Listed: [][]any{{other.SKey, st.Serial}, {st.SKey, other.Serial}}}
					rc.OneCRL = graphobs.Rev{Has: true}
				}
				for _, o := range runCase(p, rc) {
					col.add(rc, o)
				}
			}
		}
		col.w.Close()
		obs.Stat("pkis", n)
		obs.Stat("verify_calls", col.calls)
		obs.Stat("distinct_observations", col.w.N)
		obs.Stat("with_chains", col.nontr)
	case "record-one":
		var rc RCase
		obs.ReadReplay(os.Args[2], &rc)
		w := obs.NewWriter(os.Args[3])
		p := graphobs.NewPool()
		rc.OneCRL.Norm()
		rc.CRLSet.Norm()
		for _, o := range runCase(p, rc) {
			w.Write(Rec{Obs: o, Case: rc})
		}
		w.Close()
	default:
		obs.Fatal("unknown command %q", os.Args[1])
	}
}
