// c28: conformance harness for "the client handshake log records what was actually exchanged".
// For a configuration pair (optionally a second, resumed connection) it captures the handshake
// messages the client sent and received - raw bytes from the readHandshake / writeRecordLocked
// hooks, i.e. after record protection and before zcrypto parses them, cross-checked against the
// transport capture for the cleartext part - projects them with an independent parser
// (lib/tlsh/wire.go) to a flat record `wire`, projects GetHandshakeLog() (and its JSON encoding)
// to a flat record `log` with the same keys, and logs both.  TLC (Judge28) compares field by
// field.  Secrets: the reference master secret is what the *server* wrote to its KeyLogWriter,
// the reference pre-master secret what the server's own log holds, and the logged master secret
// must reproduce the client's Finished through a PRF written here with crypto/hmac only.
//
//	c28 facts | run <cases> <obs> | random <n> <cases> | run-one <replay> <obs>
package main

import (
	"bytes"
	"crypto/hmac"
	"crypto/md5"
	"crypto/sha1"
	"crypto/sha256"
	"crypto/sha512"
	"encoding/hex"
	"encoding/json"
	"fmt"
	"hash"
	"math/big"
	"math/rand"
	"os"
	"strconv"
	"strings"
	"sync"

	"verifharness/lib/obs"
	"verifharness/lib/tlsh"
)

type Case28 struct {
	tlsh.Case
	Two  bool     `json:"two"`
	SCTs []string `json:"scts"` // classes of the SCTs the server staples into its ServerHello: good1 good2 good3 trunc badver short
	Skip bool     `json:"skip"` // the client runs with InsecureSkipVerify
	RwH  int      `json:"rwh"`  // scripted-peer rewrite of the TLS 1.2 ServerKeyExchange SignatureAndHashAlgorithm in flight:
	RwS  int      `json:"rws"`  // hash byte / signature byte (0/0 = untouched)
	// Late: client options that alter the ClientHello after it has been built: "" none, "ticket"
	// ForceSessionTicketExt, "sct" SignedCertificateTimestampExt, "ticket+sct" both, "ticket-disabled"
	// ForceSessionTicketExt with SessionTicketsDisabled; each with (c.tickets) and without a session cache
	Late string `json:"late"`
}

type Rec struct {
	ID     int            `json:"id"`
	C      tlsh.EP        `json:"c"`
	S      tlsh.EP        `json:"s"`
	Second bool           `json:"second"`
	Done   bool           `json:"done"`
	Vers   int            `json:"vers"`
	Suite  int            `json:"suite"`
	Res    bool           `json:"resumed"`
	Rw     bool           `json:"rewritten"` // the ServerKeyExchange algorithm bytes were rewritten in flight
	SCTs   []string       `json:"scts"`
	Skip   bool           `json:"skip"`
	RwH    int            `json:"rwh"`
	RwS    int            `json:"rws"`
	Late   string         `json:"late"`
	Wire   map[string]any `json:"wire"`
	Log    map[string]any `json:"log"`
	JSONOK bool           `json:"json_ok"` // the log marshals to JSON and the JSON agrees with the structure on the probed fields
	CErr   string         `json:"cerr"`
}

func hx(b []byte) string { return hex.EncodeToString(b) }

// blob abbreviates long byte strings to length + digest (equality of both = equality of bytes).
func blob(b []byte) string {
	if len(b) <= 48 {
		return fmt.Sprintf("%d:%s", len(b), hx(b))
	}
	d := sha256.Sum256(b)
	return fmt.Sprintf("%d:#%s", len(b), hx(d[:12]))
}
func bigs(b []byte) string { return new(big.Int).SetBytes(b).Text(16) }
func ints[T ~uint8 | ~uint16 | ~int](xs []T) []int {
	out := []int{}
	for _, x := range xs {
		out = append(out, int(x))
	}
	return out
}
func strs(xs []string) []string {
	if xs == nil {
		return []string{}
	}
	return xs
}

// ---------------------------------------------------------------------------------------------
// PRF of RFC 2246 / RFC 5246 with crypto/hmac only

func pHash(h func() hash.Hash, secret, seed []byte, n int) []byte {
	var out []byte
	a := seed
	for len(out) < n {
		m := hmac.New(h, secret)
		m.Write(a)
		a = m.Sum(nil)
		m = hmac.New(h, secret)
		m.Write(a)
		m.Write(seed)
		out = append(out, m.Sum(nil)...)
	}
	return out[:n]
}

func finishedPRF(vers, suite int, master []byte, label string, msgs [][]byte) []byte {
	var th []byte
	seedOf := func(th []byte) []byte { return append([]byte(label), th...) }
	if vers >= 12 {
		h := sha256.New
		if suite == 49200 || suite == 49196 || suite == 157 || suite == 159 {
			h = sha512.New384
		}
		x := h()
		for _, m := range msgs {
			x.Write(m)
		}
		th = x.Sum(nil)
		return pHash(h, master, seedOf(th), 12)
	}
	m5, s1 := md5.New(), sha1.New()
	for _, m := range msgs {
		m5.Write(m)
		s1.Write(m)
	}
	th = append(m5.Sum(nil), s1.Sum(nil)...)
	half := (len(master) + 1) / 2
	a := pHash(md5.New, master[:half], seedOf(th), 12)
	b := pHash(sha1.New, master[len(master)-half:], seedOf(th), 12)
	for i := range a {
		a[i] ^= b[i]
	}
	return a
}

// ---------------------------------------------------------------------------------------------

type keylog struct {
	mu sync.Mutex
	b  bytes.Buffer
}

func (k *keylog) Write(p []byte) (int, error) {
	k.mu.Lock()
	defer k.mu.Unlock()
	return k.b.Write(p)
}
func (k *keylog) master(clientRandom []byte) []byte {
	k.mu.Lock()
	defer k.mu.Unlock()
	for _, line := range strings.Split(k.b.String(), "\n") {
		f := strings.Fields(line)
		if len(f) == 3 && f[0] == "CLIENT_RANDOM" && f[1] == hx(clientRandom) {
			b, _ := hex.DecodeString(f[2])
			return b
		}
	}
	return nil
}

func kxKind(suite int) string {
	switch suite {
	case 52392, 52393, 49199, 49195, 49200, 49196, 49191, 49171, 49187, 49161, 49172, 49162, 49170, 49169, 49159:
		return "ECDHE"
	case 52394, 158, 159, 103, 107, 51, 57, 22:
		return "DHE"
	}
	return "RSA"
}

func point(curve int, pub []byte) (x, y string) {
	if curve == 29 {
		return bigs(pub), ""
	}
	if len(pub) >= 1 && pub[0] == 4 && len(pub)%2 == 1 {
		n := (len(pub) - 1) / 2
		return bigs(pub[1 : 1+n]), bigs(pub[1+n:])
	}
	return "malformed:" + hx(pub), ""
}

func skxDigest(vers int, kind string, hashID, sigID int, isECDSAKey bool, cr, sr, params []byte) string {
	data := append(append(append([]byte{}, cr...), sr...), params...)
	sum := func(h hash.Hash) string { h.Write(data); return hx(h.Sum(nil)) }
	if vers >= 12 {
		if hashID == 8 { // TLS 1.3 style code points
			switch sigID {
			case 7:
				return hx(data)
			case 4, 9:
				return sum(sha256.New())
			case 5, 10:
				return sum(sha512.New384())
			case 6, 11:
				return sum(sha512.New())
			}
			return "?"
		}
		switch hashID {
		case 1:
			return sum(md5.New())
		case 2:
			return sum(sha1.New())
		case 3:
			return sum(sha256.New224())
		case 4:
			return sum(sha256.New())
		case 5:
			return sum(sha512.New384())
		case 6:
			return sum(sha512.New())
		}
		return "?"
	}
	if isECDSAKey {
		return sum(sha1.New())
	}
	a, b := md5.Sum(data), sha1.Sum(data)
	return hx(a[:]) + hx(b[:])
}

// sctBytes builds the SCT of a class.
func sctBytes(class string) []byte {
	good := func(n int) []byte {
		id := sha256.Sum256([]byte(fmt.Sprintf("verif log %d", n)))
		b := []byte{0}
		b = append(b, id[:]...)
		ts := uint64(1600000000000 + n)
		for i := 7; i >= 0; i-- {
			b = append(b, byte(ts>>(8*uint(i))))
		}
		b = append(b, 0, 0)       // no extensions
		b = append(b, 4, 3, 0, 8) // sha256, ecdsa, 8 signature bytes
		return append(b, id[:8]...)
	}
	switch class {
	case "good1":
		return good(1)
	case "good2":
		return good(2)
	case "good3":
		return good(3)
	case "trunc":
		return good(4)[:20]
	case "badver":
		b := good(5)
		b[0] = 1
		return b
	case "short":
		return []byte{0}
	}
	obs.Fatal("unknown SCT class %q", class)
	return nil
}

// sctParse is the independent reading of one SCT (RFC 6962 3.2): "" if it is not a complete v1 SCT.
func sctParse(b []byte) string {
	if len(b) < 1+32+8+2 || b[0] != 0 {
		return ""
	}
	logID, ts := b[1:33], b[33:41]
	rest := b[41:]
	el := int(rest[0])<<8 | int(rest[1])
	if len(rest) < 2+el+4 {
		return ""
	}
	ext := rest[2 : 2+el]
	rest = rest[2+el:]
	h, g, sl := int(rest[0]), int(rest[1]), int(rest[2])<<8|int(rest[3])
	if len(rest) < 4+sl {
		return ""
	}
	return fmt.Sprintf("v1|%s|%s|%s|%d|%d|%s", hx(logID), new(big.Int).SetBytes(ts).String(), hx(ext), h, g, hx(rest[4:4+sl]))
}

// project builds the two flat records of one client connection.
func project(r *tlsh.Result, srvKeylog *keylog, serverKey string) (wire, lg map[string]any, jsonOK bool) {
	wire, lg = map[string]any{}, map[string]any{}
	hl := r.C.Conn.GetHandshakeLog()
	vers, suite := 0, 0
	var sent, rcvd []tlsh.Msg
	var transcript [][]byte // handshake messages in order, up to (excluding) the client's Finished
	sawClientFin := false
	for _, e := range r.C.Events {
		if e.Read {
			rcvd = append(rcvd, tlsh.Msg{Type: e.Typ, Body: e.Data[4:], Raw: e.Data})
			if !sawClientFin {
				transcript = append(transcript, e.Data)
			}
		} else if e.Typ == tlsh.RecHandshake {
			ms, rest := tlsh.SplitMessages(e.Data)
			if len(rest) != 0 {
				obs.Fatal("client wrote a partial handshake message in one record")
			}
			for _, m := range ms {
				sent = append(sent, m)
				if m.Type == 20 {
					sawClientFin = true
				}
				if !sawClientFin {
					transcript = append(transcript, m.Raw)
				}
			}
		}
	}
	find := func(ms []tlsh.Msg, t int) *tlsh.Msg {
		for i := range ms {
			if ms[i].Type == t {
				return &ms[i]
			}
		}
		return nil
	}
	// cross-check the hook view with the transport capture (cleartext part)
	if pl := tlsh.PlainHandshake(r.Link.Records(tlsh.C2S), false); len(pl) > 0 && len(sent) > 0 && !bytes.Equal(pl[0].Raw, sent[0].Raw) {
		obs.Fatal("hook and transport disagree on the ClientHello")
	}

	var ch, sh *tlsh.Hello
	if m := find(sent, 1); m != nil {
		h, err := tlsh.ParseClientHello(m.Body)
		if err != nil {
			obs.Fatal("own ClientHello does not parse: %v", err)
		}
		ch = h
		wire["ch_version"] = h.Version
		wire["ch_random"] = hx(h.Random)
		wire["ch_session_id"] = hx(h.SessionID)
		wire["ch_suites"] = h.Suites
		wire["ch_compression"] = h.Compression
		sni := ""
		if d, ok := h.Ext(0); ok && len(d) >= 5 {
			sni = string(d[5:])
		}
		wire["ch_server_name"] = sni
		alpn := []string{}
		if d, ok := h.Ext(16); ok && len(d) >= 2 {
			for p := d[2:]; len(p) > 0; p = p[1+int(p[0]):] {
				alpn = append(alpn, string(p[1:1+int(p[0])]))
			}
		}
		wire["ch_alpn"] = alpn
		u16list := func(t, skip int) []int {
			out := []int{}
			if d, ok := h.Ext(t); ok && len(d) >= skip {
				for p := d[skip:]; len(p) >= 2; p = p[2:] {
					out = append(out, int(p[0])<<8|int(p[1]))
				}
			}
			return out
		}
		wire["ch_curves"] = u16list(10, 2)
		pts := []int{}
		if d, ok := h.Ext(11); ok && len(d) >= 1 {
			for _, b := range d[1:] {
				pts = append(pts, int(b))
			}
		}
		wire["ch_points"] = pts
		wire["ch_versions"] = u16list(43, 1)
		_, wire["ch_ocsp"] = h.Ext(5)
		_, wire["ch_ticket_ext"] = h.Ext(35)
		_, wire["ch_scts"] = h.Ext(18)
		_, wire["ch_ems"] = h.Ext(23)
		_, wire["ch_heartbeat"] = h.Ext(15)
		wire["ch_sigalgs"] = u16list(13, 2)
		if d, ok := h.Ext(35); ok && len(d) > 0 {
			wire["ch_ticket"] = blob(d)
			wire["ch_ticket_len"] = len(d)
		}
	}
	if hl != nil && hl.ClientHello != nil {
		c := hl.ClientHello
		lg["ch_version"] = int(c.Version)
		lg["ch_random"] = hx(c.Random)
		lg["ch_session_id"] = hx(c.SessionID)
		lg["ch_suites"] = ints(c.CipherSuites)
		lg["ch_compression"] = ints(c.CompressionMethods)
		lg["ch_server_name"] = c.ServerName
		lg["ch_alpn"] = strs(c.AlpnProtocols)
		lg["ch_curves"] = ints(c.SupportedCurves)
		lg["ch_points"] = ints(c.SupportedPoints)
		lg["ch_versions"] = ints(c.SupportedVersions)
		lg["ch_ocsp"] = c.OcspStapling
		lg["ch_ticket_ext"] = c.TicketSupported
		lg["ch_scts"] = c.Scts
		lg["ch_ems"] = c.ExtendedMasterSecret
		lg["ch_heartbeat"] = c.HeartbeatSupported
		names := [][]string{}
		for i := range c.SignatureAndHashes {
			b, _ := json.Marshal(&c.SignatureAndHashes[i])
			var a struct {
				S string `json:"signature_algorithm"`
				H string `json:"hash_algorithm"`
			}
			json.Unmarshal(b, &a)
			names = append(names, []string{a.S, a.H})
		}
		lg["ch_sigalg_names"] = names
		if c.SessionTicket != nil {
			lg["ch_ticket"] = blob(c.SessionTicket.Value)
			lg["ch_ticket_len"] = c.SessionTicket.Length
		}
	}

	var ee *tlsh.Msg
	if m := find(rcvd, 2); m != nil {
		h, err := tlsh.ParseServerHello(m.Body)
		if err != nil {
			obs.Fatal("received ServerHello does not parse: %v", err)
		}
		sh = h
		wire["sh_version"] = h.Version
		wire["sh_random"] = hx(h.Random)
		wire["sh_session_id"] = hx(h.SessionID)
		wire["sh_suite"] = h.Suites[0]
		wire["sh_compression"] = h.Compression[0]
		_, wire["sh_ocsp"] = h.Ext(5)
		_, wire["sh_ticket_ext"] = h.Ext(35)
		_, wire["sh_ems"] = h.Ext(23)
		vers = tlsh.AbsVers(uint16(h.Version))
		if d, ok := h.Ext(43); ok && len(d) == 2 {
			wire["sh_selected_version"] = int(d[0])<<8 | int(d[1])
			vers = tlsh.AbsVers(uint16(int(d[0])<<8 | int(d[1])))
		}
		if d, ok := h.Ext(51); ok && len(d) >= 2 {
			wire["sh_key_share_group"] = int(d[0])<<8 | int(d[1])
		}
		ids := []int{}
		for _, e := range h.Exts {
			ids = append(ids, e.Type)
		}
		if h.HasExts {
			wire["sh_ext_ids"] = ids
		}
		if d, ok := h.Ext(18); ok && len(d) >= 2 {
			list := [][]string{}
			for p := d[2:]; len(p) >= 2; {
				l := int(p[0])<<8 | int(p[1])
				if len(p) < 2+l {
					break
				}
				list = append(list, []string{blob(p[2 : 2+l]), sctParse(p[2 : 2+l])})
				p = p[2+l:]
			}
			wire["sh_scts"] = list
		}
		suite = h.Suites[0]
		alpn := ""
		if d, ok := h.Ext(16); ok && len(d) >= 3 {
			alpn = string(d[3:])
		}
		if ee = find(rcvd, 8); ee != nil && vers == 13 && r.C.Done {
			// TLS 1.3: the ALPN answer travels in EncryptedExtensions; the log copies it into
			// server_hello after a completed handshake
			rr := ee.Body
			if len(rr) >= 2 {
				for p := rr[2:]; len(p) >= 4; {
					t, l := int(p[0])<<8|int(p[1]), int(p[2])<<8|int(p[3])
					if t == 16 && l >= 3 {
						alpn = string(p[4+3 : 4+l])
					}
					p = p[4+l:]
				}
			}
		}
		wire["sh_alpn"] = alpn
	}
	if hl != nil && hl.ServerHello != nil {
		s := hl.ServerHello
		lg["sh_version"] = int(s.Version)
		lg["sh_random"] = hx(s.Random)
		lg["sh_session_id"] = hx(s.SessionID)
		lg["sh_suite"] = int(s.CipherSuite)
		lg["sh_compression"] = int(s.CompressionMethod)
		lg["sh_ocsp"] = s.OcspStapling
		lg["sh_ticket_ext"] = s.TicketSupported
		lg["sh_ems"] = s.ExtendedMasterSecret
		lg["sh_alpn"] = s.AlpnProtocol
		if s.SupportedVersions != nil {
			lg["sh_selected_version"] = int(s.SupportedVersions.SelectedVersion)
		}
		if s.KeyShare != nil && s.KeyShare.KeyExchange != nil {
			lg["sh_key_share_group"] = int(*s.KeyShare.KeyExchange)
		}
		if s.ExtensionIdentifiers != nil {
			lg["sh_ext_ids"] = ints(s.ExtensionIdentifiers)
		}
		if len(s.SignedCertificateTimestamps) > 0 {
			list := [][]string{}
			for _, x := range s.SignedCertificateTimestamps {
				parsed := ""
				if p := x.Parsed; p != nil {
					parsed = fmt.Sprintf("v%d|%s|%d|%s|%d|%d|%s", int(p.SCTVersion)+1, hx(p.LogID[:]), p.Timestamp, hx(p.Extensions),
						int(p.Signature.HashAlgorithm), int(p.Signature.SignatureAlgorithm), hx(p.Signature.Signature))
				}
				list = append(list, []string{blob(x.Raw), parsed})
			}
			lg["sh_scts"] = list
		}
	}

	if m := find(rcvd, 11); m != nil {
		certs, err := tlsh.ParseCertificates(m.Body, vers == 13)
		if err != nil || len(certs) == 0 {
			obs.Fatal("received Certificate does not parse: %v", err)
		}
		wire["cert_leaf"] = blob(certs[0])
		chain := []string{}
		for _, c := range certs[1:] {
			chain = append(chain, blob(c))
		}
		wire["cert_chain"] = chain
	}
	if hl != nil && hl.ServerCertificates != nil {
		sc := hl.ServerCertificates
		lg["cert_leaf"] = blob(sc.Certificate.Raw)
		chain := []string{}
		for _, c := range sc.Chain {
			chain = append(chain, blob(c.Raw))
		}
		lg["cert_chain"] = chain
		if sc.Certificate.Parsed != nil {
			// the parsed certificate the log carries is the one whose bytes are logged
			lg["cert_leaf_parsed"] = blob(sc.Certificate.Parsed.Raw)
			wire["cert_leaf_parsed"] = wire["cert_leaf"]
		}
	}

	kind := kxKind(suite)
	if m := find(rcvd, 12); m != nil && vers != 13 && ch != nil && sh != nil {
		s, err := tlsh.ParseSKX(m.Body, kind, vers)
		if err != nil {
			obs.Fatal("received ServerKeyExchange does not parse (%s): %v", kind, err)
		}
		if kind == "ECDHE" {
			wire["skx_curve"] = s.Curve
			wire["skx_pub_x"], wire["skx_pub_y"] = point(s.Curve, s.Public)
		} else {
			wire["skx_dh_p"], wire["skx_dh_g"], wire["skx_dh_ys"] = bigs(s.P), bigs(s.G), bigs(s.Public)
		}
		wire["skx_sig_raw"] = blob(s.Sig)
		wire["skx_sig_tls_version"] = int(map[int]uint16{10: 0x0301, 11: 0x0302, 12: 0x0303}[vers])
		if s.HasAlg {
			wire["skx_sig_scheme"] = s.HashID<<8 | s.SigID
		}
		wire["skx_digest"] = skxDigest(vers, kind, s.HashID, s.SigID, serverKey == "P" || serverKey == "Q", ch.Random, sh.Random, s.Params)
	}
	if hl != nil && hl.ServerKeyExchange != nil {
		k := hl.ServerKeyExchange
		if k.ECDHParams != nil {
			lg["skx_curve"] = int(k.ECDHParams.TLSCurveID)
			if p := k.ECDHParams.ServerPublic; p != nil {
				x, y := "", ""
				if p.X != nil {
					x = p.X.Text(16)
				}
				if p.Y != nil {
					y = p.Y.Text(16)
				}
				lg["skx_pub_x"], lg["skx_pub_y"] = x, y
			}
		}
		if d := k.DHParams; d != nil {
			t := func(b *big.Int) string {
				if b == nil {
					return "nil"
				}
				return b.Text(16)
			}
			lg["skx_dh_p"], lg["skx_dh_g"], lg["skx_dh_ys"] = t(d.Prime), t(d.Generator), t(d.ServerPublic)
		}
		if len(k.Digest) > 0 { // empty when the client gave up on the signature before hashing
			lg["skx_digest"] = hx(k.Digest)
		}
		if sg := k.Signature; sg != nil {
			if len(sg.Raw) > 0 {
				lg["skx_sig_raw"] = blob(sg.Raw)
			}
			lg["skx_sig_tls_version"] = int(sg.Version)
			if sg.SigHashExtension != nil {
				b, _ := json.Marshal(sg.SigHashExtension)
				var a struct {
					S string `json:"signature_algorithm"`
					H string `json:"hash_algorithm"`
				}
				json.Unmarshal(b, &a)
				lg["skx_sig_name"], lg["skx_hash_name"] = a.S, a.H
			}
		}
	}

	if m := find(sent, 16); m != nil {
		switch kind {
		case "RSA":
			if len(m.Body) >= 2 {
				wire["ckx_rsa_len"] = int(m.Body[0])<<8 | int(m.Body[1])
				wire["ckx_rsa_epms"] = blob(m.Body[2:])
			}
		case "DHE":
			if len(m.Body) >= 2 {
				wire["ckx_dh_yc"] = bigs(m.Body[2:])
			}
		case "ECDHE":
			if len(m.Body) >= 1 {
				curve, _ := wire["skx_curve"].(int)
				wire["ckx_pub_x"], wire["ckx_pub_y"] = point(curve, m.Body[1:])
			}
		}
	}
	if hl != nil && hl.ClientKeyExchange != nil {
		k := hl.ClientKeyExchange
		if k.RSAParams != nil {
			lg["ckx_rsa_len"] = int(k.RSAParams.Length)
			lg["ckx_rsa_epms"] = blob(k.RSAParams.EncryptedPMS)
		}
		if k.DHParams != nil && k.DHParams.ClientPublic != nil {
			lg["ckx_dh_yc"] = k.DHParams.ClientPublic.Text(16)
		}
		if k.ECDHParams != nil && k.ECDHParams.ClientPublic != nil {
			p := k.ECDHParams.ClientPublic
			x, y := "", ""
			if p.X != nil {
				x = p.X.Text(16)
			}
			if p.Y != nil {
				y = p.Y.Text(16)
			}
			lg["ckx_pub_x"], lg["ckx_pub_y"] = x, y
		}
	}

	var clientFin []byte
	if vers != 13 {
		if m := find(sent, 20); m != nil {
			clientFin = m.Body
			wire["fin_client"] = hx(m.Body)
		}
		if m := find(rcvd, 20); m != nil {
			wire["fin_server"] = hx(m.Body)
		}
	}
	if hl != nil && hl.ClientFinished != nil {
		lg["fin_client"] = hx(hl.ClientFinished.VerifyData)
	}
	if hl != nil && hl.ServerFinished != nil {
		lg["fin_server"] = hx(hl.ServerFinished.VerifyData)
	}

	// session ticket: the NewSessionTicket of this handshake, else the ticket presented in it
	gotNST := false
	if m := find(rcvd, 4); m != nil && vers != 13 {
		if t, err := tlsh.ParseNewSessionTicket(m.Body); err == nil {
			gotNST = true
			wire["st_value"], wire["st_len"], wire["st_lifetime"] = blob(t.Ticket), len(t.Ticket), int(t.Lifetime)
		}
	}
	if !gotNST && ch != nil {
		if d, ok := ch.Ext(35); ok && len(d) > 0 {
			wire["st_value"], wire["st_len"] = blob(d), len(d)
		}
	}
	if hl != nil && hl.SessionTicket != nil {
		lg["st_value"], lg["st_len"] = blob(hl.SessionTicket.Value), hl.SessionTicket.Length
		if gotNST {
			lg["st_lifetime"] = int(hl.SessionTicket.LifetimeHint)
		}
	}

	// key material
	if ch != nil && vers != 13 && r.S.Done {
		ms := srvKeylog.master(ch.Random)
		if ms == nil && r.S.State.DidResume {
			// a resumed handshake derives no new master secret (nothing goes to the key log): the
			// reference is the master secret the server took out of the ticket
			if sl := r.S.Conn.GetHandshakeLog(); sl != nil && sl.KeyMaterial != nil && sl.KeyMaterial.MasterSecret != nil {
				ms = sl.KeyMaterial.MasterSecret.Value
			}
		}
		if ms != nil {
			wire["km_master"] = blob(ms)
			wire["km_master_len"] = len(ms)
		}
		if sl := r.S.Conn.GetHandshakeLog(); sl != nil && sl.KeyMaterial != nil && sl.KeyMaterial.PreMasterSecret != nil && !r.S.State.DidResume {
			wire["km_premaster"] = blob(sl.KeyMaterial.PreMasterSecret.Value)
			wire["km_premaster_len"] = len(sl.KeyMaterial.PreMasterSecret.Value)
		}
	}
	if hl != nil && hl.KeyMaterial != nil {
		if m := hl.KeyMaterial.MasterSecret; m != nil {
			lg["km_master"], lg["km_master_len"] = blob(m.Value), m.Length
			if clientFin != nil && len(m.Value) > 0 {
				// the logged master secret must explain the Finished the client put on the wire
				lg["km_master_finished"] = hx(finishedPRF(vers, suite, m.Value, "client finished", transcript))
				wire["km_master_finished"] = hx(clientFin)
			}
		}
		if p := hl.KeyMaterial.PreMasterSecret; p != nil && !r.C.State.DidResume {
			lg["km_premaster"], lg["km_premaster_len"] = blob(p.Value), p.Length
		}
	}

	// the JSON encoding must exist and agree with the structure on a few probed fields
	jsonOK = true
	if hl != nil {
		b, err := json.Marshal(hl)
		var g map[string]any
		if err != nil || json.Unmarshal(b, &g) != nil {
			jsonOK = false
		} else if shj, ok := g["server_hello"].(map[string]any); ok && hl.ServerHello != nil {
			cs, _ := shj["cipher_suite"].(map[string]any)
			if v, _ := cs["value"].(float64); int(v) != int(hl.ServerHello.CipherSuite) {
				jsonOK = false
			}
		}
	}
	return wire, lg, jsonOK
}

func runCase(cs Case28) []Rec {
	cs.C, cs.S = cs.C.NonNil(), cs.S.NonNil()
	if cs.SCTs == nil {
		cs.SCTs = []string{}
	}
	b, err := tlsh.Build(cs.Case, !cs.Skip)
	if err != nil {
		obs.Fatal("case %d: %v", cs.ID, err)
	}
	kl := &keylog{}
	b.Server.KeyLogWriter = kl
	switch cs.Late {
	case "":
	case "ticket":
		b.Client.ForceSessionTicketExt = true
	case "sct":
		b.Client.SignedCertificateTimestampExt = true
	case "ticket+sct":
		b.Client.ForceSessionTicketExt, b.Client.SignedCertificateTimestampExt = true, true
	case "ticket-disabled":
		b.Client.ForceSessionTicketExt, b.Client.SessionTicketsDisabled = true, true
	default:
		obs.Fatal("case %d: unknown late ClientHello option %q", cs.ID, cs.Late)
	}
	for _, c := range cs.SCTs {
		b.Server.Certificates[0].SignedCertificateTimestamps = append(b.Server.Certificates[0].SignedCertificateTimestamps, sctBytes(c))
	}
	// scripted peer: the genuine server's ServerKeyExchange with the TLS 1.2 SignatureAndHashAlgorithm
	// bytes rewritten in flight (a zcrypto server never names an algorithm other than the suite's)
	rewritten := false
	var filter tlsh.Filter
	if cs.RwH != 0 || cs.RwS != 0 {
		var mu sync.Mutex
		seenCCS := false
		filter = func(dir, idx int, rec []byte) *tlsh.Action {
			mu.Lock()
			defer mu.Unlock()
			if dir != tlsh.S2C || seenCCS || len(rec) < 10 {
				return nil
			}
			if rec[0] == tlsh.RecCCS {
				seenCCS = true
				return nil
			}
			if rec[0] != tlsh.RecHandshake || rec[5] != 12 || rec[1] != 3 || rec[2] != 3 {
				return nil
			}
			body := rec[9:]
			var off int
			switch {
			case len(body) > 4 && body[0] == 3: // ECDHE: curve_type, curve, point
				off = 4 + int(body[3])
			default: // DHE: p, g, Ys
				off = 0
				for k := 0; k < 3 && off+2 <= len(body); k++ {
					off += 2 + (int(body[off])<<8 | int(body[off+1]))
				}
			}
			if off+2 > len(body) {
				return nil
			}
			out := append([]byte(nil), rec...)
			out[9+off], out[9+off+1] = byte(cs.RwH), byte(cs.RwS)
			rewritten = true
			return &tlsh.Action{Deliver: [][]byte{out}}
		}
	}
	var out []Rec
	n := 1
	if cs.Two {
		n = 2
	}
	for k := 0; k < n; k++ {
		r := tlsh.Run(b.Client, b.Server, tlsh.RunOpt{KeepOpen: true, Filter: filter})
		w, l, jok := project(r, kl, cs.S.Key)
		o := tlsh.Observe(r)
		out = append(out, Rec{ID: cs.ID, C: cs.C, S: cs.S, Second: k == 1, Done: r.C.Done && r.S.Done, Vers: o.CVers,
			Suite: o.CSuite, Res: o.CRes, Rw: rewritten, SCTs: cs.SCTs, Skip: cs.Skip, RwH: cs.RwH, RwS: cs.RwS, Late: cs.Late, Wire: w, Log: l, JSONOK: jok, CErr: o.CErr})
		r.C.Conn.Close()
		r.S.Conn.Close()
		r.Link.CloseAll()
	}
	return out
}

func randomCase(r *rand.Rand, id int) Case28 {
	cs := Case28{}
	cs.ID = id
	cs.C = tlsh.RandomEP(r, false)
	cs.S = tlsh.RandomEP(r, true)
	if r.Intn(3) != 0 { // favour pairs that complete
		cs.C.Min, cs.C.Max = 10, 10+r.Intn(4)
		cs.S.Min, cs.S.Max = 10, 13
	}
	cs.Two = r.Intn(2) == 0
	cs.SCTs = []string{}
	if r.Intn(3) == 0 {
		classes := []string{"good1", "good2", "good3", "trunc", "badver", "short"}
		for k := r.Intn(4); k > 0; k-- {
			cs.SCTs = append(cs.SCTs, classes[r.Intn(len(classes))])
		}
	}
	cs.Late = []string{"", "", "", "ticket", "sct", "ticket+sct", "ticket-disabled"}[r.Intn(7)]
	cs.Skip = r.Intn(4) == 0
	if cs.Skip && r.Intn(2) == 0 {
		cs.RwH, cs.RwS = []int{1, 2, 4, 5, 6, 9}[r.Intn(6)], []int{1, 2, 3, 9}[r.Intn(4)]
		cs.Two = false
	}
	return cs
}

func main() {
	if len(os.Args) < 2 {
		obs.Fatal("usage")
	}
	switch os.Args[1] {
	case "facts":
		b, _ := json.Marshal(tlsh.GetFacts())
		fmt.Println(string(b))
	case "random":
		n, _ := strconv.Atoi(os.Args[2])
		w := obs.NewWriter(os.Args[3])
		r := rand.New(rand.NewSource(obs.Seed()))
		for i := 0; i < n; i++ {
			w.Write(randomCase(r, i+1))
		}
		w.Close()
		obs.Stat("cases", n)
	case "run":
		var cases []Case28
		tlsh.ReadCases(os.Args[2], func(line []byte) error {
			var c Case28
			if err := json.Unmarshal(line, &c); err != nil {
				return err
			}
			cases = append(cases, c)
			return nil
		})
		recs := make([][]Rec, len(cases))
		tlsh.Parallel(len(cases), func(i int) { recs[i] = runCase(cases[i]) })
		w := obs.NewWriter(os.Args[3])
		for _, rs := range recs {
			for _, r := range rs {
				w.Write(r)
			}
		}
		w.Close()
		obs.Stat("cases", len(cases))
	case "run-one":
		var c Case28
		obs.ReadReplay(os.Args[2], &c)
		w := obs.NewWriter(os.Args[3])
		for _, r := range runCase(c) {
			w.Write(r)
		}
		w.Close()
	default:
		obs.Fatal("unknown command")
	}
}
