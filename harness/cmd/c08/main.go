// c08: conformance harness binding CertPool.tla to x509.CertPool.
//
//	c08 replay-gen <universe.ndjson> <states.txt> <parents-out.ndjson>
//	      states.txt: lines printed by TLC from CertPoolGen.tla: {"hist":[ops], "steps":[{"op":op,"exp":[slot...]}]}
//	      for every line and every step: fresh pools, replay hist, apply op, compare every observer with
//	      the demanded result; log every distinct (pool contents, child, returned parent indices) for TLC
//	c08 replay <replay.json>                      one {universe, hist, step}; exit 1 if reproduced
//	c08 record <universe.ndjson> <out.ndjson> <traces> <len>   seeded random histories -> events (Trace_CertPool.tla)
//	c08 record-one <replay.json> <out.ndjson>     re-record the operations of one rejected trace
package main

import (
	"bytes"
	"crypto/sha256"
	"encoding/json"
	"encoding/pem"
	"fmt"
	"math/rand"
	"os"
	"reflect"
	"strconv"

	"github.com/zmap/zcrypto/x509"
	"verifharness/lib/obs"
	"verifharness/lib/pki"
	"verifharness/lib/pkv"
)

type Block struct {
	K string          `json:"k"`
	C json.RawMessage `json:"c"` // index into the pool certificates (generator) or id / "" (traces)
}

type Op struct {
	Op     string  `json:"op"`
	P      int     `json:"p,omitempty"`
	C      int     `json:"c,omitempty"` // 1-based index into the pool certificates
	Blocks []Block `json:"blocks,omitempty"`
	A      int     `json:"a,omitempty"`
	B      int     `json:"b,omitempty"`
	To     int     `json:"to,omitempty"`
}

type SlotExp struct {
	Nil      bool     `json:"nil"`
	Size     int      `json:"size"`
	Certs    []string `json:"certs"`
	Subjects []string `json:"subjects"`
	Contains []bool   `json:"contains"`
	Covers   []bool   `json:"covers"`
}

type Step struct {
	Op  Op        `json:"op"`
	Exp []SlotExp `json:"exp"`
}

type State struct {
	Hist  []Op   `json:"hist"`
	Steps []Step `json:"steps"`
}

// universe
var (
	abstract  []pki.Cert // in file order: pool certificates u1.. then children x1..
	ders      = map[string][]byte{}
	idByFP    = map[[32]byte]string{}
	nameByRaw = map[string]string{}
	poolIDs   []string
	childIDs  []string
)

func loadUniverse(path string) {
	err := obs.ReadLines(path, func(line []byte) error {
		var c pki.Cert
		if err := json.Unmarshal(line, &c); err != nil {
			return err
		}
		abstract = append(abstract, c)
		return nil
	})
	if err != nil {
		obs.Fatal("universe: %v", err)
	}
	useUniverse()
}

func useUniverse() {
	keyIDs := map[string]bool{}
	for _, c := range abstract {
		keyIDs[c.Key], keyIDs[c.SKey] = true, true
	}
	for _, c := range abstract {
		der := pki.MustBuild(c)
		if msg := pkv.CheckConcretisation(c, der, keyIDs); msg != "" {
			obs.Fatal("concretisation of %s does not match its abstract record: %s", c.ID, msg)
		}
		ders[c.ID] = der
		idByFP[sha256.Sum256(der)] = c.ID
		nameByRaw[string(pki.RawName(c.Subj))] = c.Subj
		if c.ID[0] == 'u' {
			poolIDs = append(poolIDs, c.ID)
		} else {
			childIDs = append(childIDs, c.ID)
		}
	}
}

// parse returns a parsed copy of certificate id.  Nothing may depend on pointer identity, so every
// use gets another of several separately parsed objects (parsing afresh each time is what it stands
// for, at a fraction of the cost).
const copies = 7

var (
	parsedCopies = map[string][]*x509.Certificate{}
	parsedNext   = map[string]int{}
)

func parse(id string) *x509.Certificate {
	cs, ok := parsedCopies[id]
	if !ok {
		der, ok := ders[id]
		if !ok {
			obs.Fatal("unknown certificate %q", id)
		}
		for i := 0; i < copies; i++ {
			c, err := x509.ParseCertificate(der)
			if err != nil {
				obs.Fatal("parse %s: %v", id, err)
			}
			cs = append(cs, c)
		}
		parsedCopies[id] = cs
	}
	parsedNext[id] = (parsedNext[id] + 1) % copies
	return cs[parsedNext[id]]
}

// Children (arguments of the parent lookup) are ONE object per id, reused by every lookup: the lookup
// writes to its argument (ValidSignature), so what an earlier lookup left behind is part of the next
// one's input.  resetChildren starts a new self-contained history.
var children = map[string]*x509.Certificate{}

func parseChild(id string) *x509.Certificate {
	if c, ok := children[id]; ok {
		return c
	}
	c, err := x509.ParseCertificate(ders[id])
	if err != nil {
		obs.Fatal("parse %s: %v", id, err)
	}
	children[id] = c
	return c
}

func resetChildren() { children = map[string]*x509.Certificate{} }

func idOf(c *x509.Certificate) string {
	if c == nil {
		return "?nil"
	}
	if id, ok := idByFP[sha256.Sum256(c.Raw)]; ok {
		return id
	}
	return "?"
}

// PEM text of a block list; cert = id of the certificate inside ("c" and "t" blocks)
func pemText(blocks []Block, cert func(Block) string) []byte {
	var buf bytes.Buffer
	for _, b := range blocks {
		switch b.K {
		case "c":
			pem.Encode(&buf, &pem.Block{Type: "CERTIFICATE", Bytes: ders[cert(b)]})
		case "t":
			pem.Encode(&buf, &pem.Block{Type: "X509 CRL", Bytes: ders[cert(b)]})
		case "b":
			pem.Encode(&buf, &pem.Block{Type: "CERTIFICATE", Bytes: []byte{0x30, 0x03, 0x02, 0x01, 0x05}})
		case "g":
			buf.WriteString("text between the blocks: not PEM at all\n")
		default:
			obs.Fatal("unknown block kind %q", b.K)
		}
	}
	return buf.Bytes()
}

func genCert(b Block) string {
	var i int
	if err := json.Unmarshal(b.C, &i); err != nil || i < 1 || i > len(poolIDs) {
		obs.Fatal("bad block certificate index %s", b.C)
	}
	return poolIDs[i-1]
}

type pools [4]*x509.CertPool // slots 1..3

func fresh() *pools {
	return &pools{nil, x509.NewCertPool(), x509.NewCertPool(), nil}
}

// apply runs one operation of the generator's vocabulary; certificates are parsed afresh for every
// use so that nothing can depend on pointer identity.
func (ps *pools) apply(o Op) {
	switch o.Op {
	case "add":
		ps[o.P].AddCert(parse(poolIDs[o.C-1]))
	case "pem":
		ps[o.P].AppendCertsFromPEM(pemText(o.Blocks, genCert))
	case "sum":
		ps[o.To] = ps[o.A].Sum(ps[o.B])
	default:
		obs.Fatal("unknown op %q", o.Op)
	}
}

func certIDs(p *x509.CertPool) []string {
	out := []string{}
	for _, c := range p.Certificates() {
		out = append(out, idOf(c))
	}
	return out
}

func subjectNames(p *x509.CertPool) []string {
	out := []string{}
	for _, raw := range p.Subjects() {
		n, ok := nameByRaw[string(raw)]
		if !ok {
			n = "?"
		}
		out = append(out, n)
	}
	return out
}

// observe returns what the real pools say, in the shape of the specification's Expect.
func (ps *pools) observe(nc int) []SlotExp {
	out := make([]SlotExp, 3)
	for s := 1; s <= 3; s++ {
		p := ps[s]
		e := SlotExp{Nil: p == nil, Size: p.Size(), Certs: []string{}, Subjects: []string{}, Covers: []bool{}}
		for i := 0; i < nc; i++ {
			e.Contains = append(e.Contains, p.Contains(parse(poolIDs[i])))
		}
		if p != nil {
			e.Certs, e.Subjects = certIDs(p), subjectNames(p)
			for q := 1; q <= 3; q++ {
				e.Covers = append(e.Covers, p.Covers(ps[q]))
			}
		}
		out[s-1] = e
	}
	return out
}

func diff(exp, got []SlotExp, o Op) (observer string, slot int, ok bool) {
	for s := range exp {
		e, g := exp[s], got[s]
		switch {
		case e.Nil != g.Nil:
			return "nil", s + 1, false
		case e.Size != g.Size:
			return "Size", s + 1, false
		case !reflect.DeepEqual(e.Certs, g.Certs):
			return "Certificates", s + 1, false
		case !reflect.DeepEqual(e.Subjects, g.Subjects):
			return "Subjects", s + 1, false
		case !reflect.DeepEqual(e.Contains, g.Contains):
			return "Contains", s + 1, false
		case !reflect.DeepEqual(e.Covers, g.Covers) && !(len(e.Covers) == 0 && len(g.Covers) == 0):
			return "Covers", s + 1, false
		}
	}
	return "", 0, true
}

func target(o Op) int {
	if o.Op == "sum" {
		return o.To
	}
	return o.P
}

type ReplayCase struct {
	Universe []pki.Cert `json:"universe"`
	Hist     []Op       `json:"hist"`
	Step     Step       `json:"step"`
}

// runStep replays hist on fresh pools, applies the step and compares. Panics are results too.
func runStep(hist []Op, st Step) (observer string, slot int, got []SlotExp, ok bool, ps *pools) {
	nc := len(st.Exp[0].Contains)
	g := obs.Guard(watchdogLimit, func() {
		ps = fresh()
		for _, o := range hist {
			ps.apply(o)
		}
		ps.apply(st.Op)
		got = ps.observe(nc)
	})
	if g.Panic != "" || g.Timeout {
		return "panic: " + g.Panic, target(st.Op), nil, false, nil
	}
	observer, slot, ok = diff(st.Exp, got, st.Op)
	return
}

const watchdogLimit = 60e9

type ParentObs struct {
	Pool  []string   `json:"pool"`
	Child string     `json:"child"`
	Idxs  []int      `json:"idxs"`
	Prior [][]string `json:"prior"` // pools this child object was looked up in before, in order (replay context)
}

func parentsOf(p *x509.CertPool, child string) []int {
	idxs, _, _ := p.VerifPkvFindVerifiedParents(parseChild(child))
	if idxs == nil {
		idxs = []int{}
	}
	return idxs
}

func main() {
	if len(os.Args) < 3 {
		obs.Fatal("usage")
	}
	pki.Namespace = "c08"
	switch os.Args[1] {
	case "replay-gen":
		loadUniverse(os.Args[2])
		pw := obs.NewWriter(os.Args[4])
		seenParents := map[string]bool{}
		prior := map[string][][]string{}
		seen := map[string]bool{}
		states, steps, bad := 0, 0, 0
		err := obs.ReadLines(os.Args[3], func(line []byte) error {
			if line[0] == '"' { // TLC prints ToJson output as a quoted TLA+ string
				var s string
				if err := json.Unmarshal(line, &s); err != nil {
					return err
				}
				line = []byte(s)
			}
			var st State
			if err := json.Unmarshal(line, &st); err != nil {
				return err
			}
			states++
			for _, step := range st.Steps {
				steps++
				observer, slot, got, ok, ps := runStep(st.Hist, step)
				if !ok {
					bad++
					where := "other-slot"
					if slot == target(step.Op) {
						where = "target-slot"
					}
					if len(observer) > 5 && observer[:5] == "panic" {
						observer = "panic"
					}
					sig := map[string]any{"op": step.Op.Op, "observer": observer, "where": where}
					k, _ := json.Marshal(sig)
					if !seen[string(k)] {
						seen[string(k)] = true
						obs.Emit(obs.Candidate{Sig: sig, Case: ReplayCase{Universe: abstract, Hist: st.Hist, Step: step},
							What: fmt.Sprintf("after %d operations, %s: %s of slot %d differs: real %s, specification demands %s",
								len(st.Hist), mustJSON(step.Op), observer, slot, mustJSON(got), mustJSON(step.Exp))})
					}
					continue
				}
				// parent lookup on every non-nil pool of the post-state, logged for TLC
				for s := 1; s <= 3; s++ {
					if ps[s] == nil {
						continue
					}
					ids := got[s-1].Certs
					for _, ch := range childIDs {
						po := ParentObs{Pool: ids, Child: ch}
						k := fmt.Sprint(ids, ch)
						if seenParents[k] {
							continue
						}
						seenParents[k] = true
						po.Idxs = parentsOf(ps[s], ch)
						po.Prior = prior[ch]
						if po.Prior == nil {
							po.Prior = [][]string{}
						}
						pw.Write(po)
						prior[ch] = append(prior[ch][:len(prior[ch]):len(prior[ch])], ids)
					}
				}
			}
			return nil
		})
		if err != nil {
			obs.Fatal("%v", err)
		}
		pw.Close()
		obs.Stat("states", states)
		obs.Stat("steps", steps)
		obs.Stat("disagreements", bad)
		obs.Stat("parent_observations", pw.N)
	case "replay":
		var rc ReplayCase
		obs.ReadReplay(os.Args[2], &rc)
		abstract = rc.Universe
		useUniverse()
		observer, slot, got, ok, _ := runStep(rc.Hist, rc.Step)
		if !ok {
			fmt.Printf("REPRODUCED: %s of slot %d: real %s, specification demands %s\n", observer, slot, mustJSON(got), mustJSON(rc.Step.Exp))
			os.Exit(1)
		}
		fmt.Println("not reproduced")
	case "record":
		loadUniverse(os.Args[2])
		traces, _ := strconv.Atoi(os.Args[4])
		ln, _ := strconv.Atoi(os.Args[5])
		record(os.Args[3], traces, ln)
	case "record-one":
		var tc TraceCase
		obs.ReadReplay(os.Args[2], &tc)
		abstract = tc.Universe
		useUniverse()
		w := obs.NewWriter(os.Args[3])
		rerecord(w, tc.Events)
		w.Close()
	default:
		obs.Fatal("unknown command")
	}
}

func mustJSON(v any) string {
	b, _ := json.Marshal(v)
	return string(b)
}

// ---------------------------------------------------------------------------------------------
// code -> spec: random histories recorded as events for Trace_CertPool.tla

type Event map[string]any

type TraceCase struct {
	Universe []pki.Cert `json:"universe"`
	Events   []Event    `json:"events"`
	Trace    bool       `json:"trace"`
}

func traceCert(b Block) string {
	var s string
	json.Unmarshal(b.C, &s)
	return s
}

func logObs(w *obs.Writer, ps *pools, s int) {
	p := ps[s]
	if p == nil {
		return
	}
	has, hasnot := []string{}, []string{}
	for _, id := range poolIDs {
		if p.Contains(parse(id)) {
			has = append(has, id)
		} else {
			hasnot = append(hasnot, id)
		}
	}
	w.Write(Event{"ev": "obs", "p": s, "size": p.Size(), "certs": certIDs(p), "subjects": subjectNames(p), "has": has, "hasnot": hasnot})
}

func blocksJSON(bs []Block) []map[string]string {
	out := []map[string]string{}
	for _, b := range bs {
		out = append(out, map[string]string{"k": b.K, "c": traceCert(b)})
	}
	return out
}

func strBlock(k, id string) Block {
	b, _ := json.Marshal(id)
	return Block{K: k, C: b}
}

// doEvent performs a mutating or observing event on the real pools and logs what happened.
func doEvent(w *obs.Writer, ps *pools, kind string, a, b, to int, cert string, blocks []Block) {
	switch kind {
	case "add":
		ps[a].AddCert(parse(cert))
		w.Write(Event{"ev": "add", "p": a, "c": cert})
	case "pem":
		ps[a].AppendCertsFromPEM(pemText(blocks, traceCert))
		w.Write(Event{"ev": "pem", "p": a, "blocks": blocksJSON(blocks)})
	case "sum":
		ps[to] = ps[a].Sum(ps[b])
		w.Write(Event{"ev": "sum", "a": a, "b": b, "to": to})
	case "obs":
		logObs(w, ps, a)
	case "covers":
		w.Write(Event{"ev": "covers", "p": a, "q": b, "res": ps[a].Covers(ps[b])})
	case "parents":
		w.Write(Event{"ev": "parents", "p": a, "child": cert, "idxs": parentsOf(ps[a], cert)})
	}
}

func record(path string, traces, ln int) {
	rng := rand.New(rand.NewSource(obs.Seed()*2654435761 + 5))
	w := obs.NewWriter(path)
	kinds := []string{"c", "c", "c", "t", "b", "g"}
	for t := 0; t < traces; t++ {
		ps := fresh()
		resetChildren() // every recorded trace is a self-contained history
		w.Write(Event{"ev": "reset"})
		// a trace works on a random sub-universe so that pools fill up and duplicates are frequent
		nu := 2 + rng.Intn(len(poolIDs)-1)
		pick := func() string { return poolIDs[rng.Intn(nu)] }
		nonNil := func() int {
			for {
				s := 1 + rng.Intn(3)
				if ps[s] != nil {
					return s
				}
			}
		}
		for i := 0; i < ln; i++ {
			switch r := rng.Intn(20); {
			case r < 7:
				doEvent(w, ps, "add", nonNil(), 0, 0, pick(), nil)
			case r < 11:
				var bs []Block
				for n := rng.Intn(5); n > 0; n-- {
					k := kinds[rng.Intn(len(kinds))]
					id := ""
					if k == "c" || k == "t" {
						id = pick()
					}
					bs = append(bs, strBlock(k, id))
				}
				doEvent(w, ps, "pem", nonNil(), 0, 0, "", bs)
			case r < 14:
				doEvent(w, ps, "sum", 1+rng.Intn(3), 1+rng.Intn(3), 1+rng.Intn(3), "", nil)
			case r < 16:
				doEvent(w, ps, "covers", nonNil(), 1+rng.Intn(3), 0, "", nil)
			case r < 18:
				doEvent(w, ps, "parents", nonNil(), 0, 0, childIDs[rng.Intn(len(childIDs))], nil)
			default:
				doEvent(w, ps, "obs", nonNil(), 0, 0, "", nil)
			}
			if rng.Intn(3) == 0 {
				doEvent(w, ps, "obs", nonNil(), 0, 0, "", nil)
			}
		}
		for s := 1; s <= 3; s++ {
			logObs(w, ps, s)
			if ps[s] != nil {
				for _, ch := range childIDs {
					doEvent(w, ps, "parents", s, 0, 0, ch, nil)
				}
			}
		}
	}
	w.Close()
	obs.Stat("events", w.N)
}

// rerecord performs the operations of a recorded trace again and logs fresh observations.
func rerecord(w *obs.Writer, events []Event) {
	ps := fresh()
	num := func(e Event, k string) int {
		f, _ := e[k].(float64)
		return int(f)
	}
	for _, e := range events {
		switch e["ev"] {
		case "reset":
			ps = fresh()
			if e["newchildren"] == true {
				resetChildren()
			}
			w.Write(Event{"ev": "reset"})
		case "add":
			doEvent(w, ps, "add", num(e, "p"), 0, 0, e["c"].(string), nil)
		case "pem":
			var bs []Block
			raw, _ := json.Marshal(e["blocks"])
			var in []map[string]string
			json.Unmarshal(raw, &in)
			for _, b := range in {
				bs = append(bs, strBlock(b["k"], b["c"]))
			}
			doEvent(w, ps, "pem", num(e, "p"), 0, 0, "", bs)
		case "sum":
			doEvent(w, ps, "sum", num(e, "a"), num(e, "b"), num(e, "to"), "", nil)
		case "obs":
			doEvent(w, ps, "obs", num(e, "p"), 0, 0, "", nil)
		case "covers":
			doEvent(w, ps, "covers", num(e, "p"), num(e, "q"), 0, "", nil)
		case "parents":
			doEvent(w, ps, "parents", num(e, "p"), 0, 0, e["child"].(string), nil)
		}
	}
}
