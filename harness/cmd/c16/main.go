// c16: conformance harness binding CTCodec.tla to zcrypto's CT codecs (packages ct and x509/ct)
// and to ct.SignatureVerifier.
//
//	c16 replay-gen <cases.ndjson> <results.ndjson>   TLC-generated cases (abstract value + demanded layout)
//	                                                 executed on the real code; one result record per
//	                                                 (case, package, operation) for TLC to judge
//	c16 record <results.ndjson> <n>                  seeded random small values with explicit bytes
//	c16 record-hist <results.ndjson> <cases> <h> <len>  h seeded random operation sequences of length len per key
//	                                                 type, each applied to ONE ct.SignatureVerifier
//	c16 replay <replay.json> <results.ndjson>        one case again (fresh process)
//
// The harness builds real values from abstract ones, runs zcrypto, and projects the outcome
// (error?, output length, output == expansion of the demanded layout, round trip through zcrypto's
// own deserialiser, reported length, accepted?).  Whether an outcome is allowed is decided by TLC
// (Trace_CTCodec.tla).  Signatures are made and keys generated with the Go standard library only.
package main

import (
	"bytes"
	"crypto"
	"crypto/ecdsa"
	"crypto/elliptic"
	"crypto/rand"
	stdrsa "crypto/rsa"
	"crypto/sha256"
	"encoding/asn1"
	"encoding/binary"
	"encoding/json"
	"fmt"
	"math/big"
	mrand "math/rand"
	"os"
	"strconv"
	"time"

	"github.com/zmap/zcrypto/ct"
	zrsa "github.com/zmap/zcrypto/rsa"
	xct "github.com/zmap/zcrypto/x509/ct"
	"verifharness/lib/obs"
	"verifharness/lib/pki"
)

type Fld struct {
	N int   `json:"n"`
	S int   `json:"s"`
	B []int `json:"b"`
}

func (f Fld) bytes() []byte {
	if f.S < 0 {
		out := make([]byte, len(f.B))
		for i, x := range f.B {
			out[i] = byte(x)
		}
		return out
	}
	out := make([]byte, f.N)
	for i := range out {
		out[i] = byte(f.S + i)
	}
	return out
}

type Chunk struct {
	T string `json:"t"`
	B []int  `json:"b"`
	N int    `json:"n"`
	S int    `json:"s"`
}

type Want struct {
	OK  bool    `json:"ok"`
	CS  []Chunk `json:"cs"`
	Len int     `json:"len"`
}

func (w Want) expand() []byte {
	var out []byte
	for _, c := range w.CS {
		if c.T == "lit" {
			for _, x := range c.B {
				out = append(out, byte(x))
			}
		} else {
			for i := 0; i < c.N; i++ {
				out = append(out, byte(c.S+i))
			}
		}
	}
	return out
}

// Val is the union of the abstract values of CTCodec.tla.
type Val struct {
	H     int    `json:"h"`
	S     int    `json:"s"`
	Sig   *Fld   `json:"sig,omitempty"`
	Ver   int    `json:"ver"`
	LogID *Fld   `json:"logid,omitempty"`
	TS    []int  `json:"ts,omitempty"`
	Ext   *Fld   `json:"ext,omitempty"`
	DS    *Val   `json:"ds,omitempty"`
	LType int    `json:"ltype"`
	EType int    `json:"etype"`
	Cert  *Fld   `json:"cert,omitempty"`
	IKH   *Fld   `json:"ikh,omitempty"`
	Kind  string `json:"kind,omitempty"`
	Pre   *Fld   `json:"pre,omitempty"`
	Certs []Fld  `json:"certs,omitempty"`
	Size  []int  `json:"size,omitempty"`
	Root  *Fld   `json:"root,omitempty"`
}

type Case struct {
	Kind string          `json:"kind"`
	Val  json.RawMessage `json:"val,omitempty"`
	Want Want            `json:"want"`
	// verification matrix
	Obj       string          `json:"obj,omitempty"`
	Key       string          `json:"key,omitempty"`
	Mut       string          `json:"mut,omitempty"`
	Demand    string          `json:"demand,omitempty"`
	Signed    *Want           `json:"signed,omitempty"`
	Presented json.RawMessage `json:"presented,omitempty"`
	SigMut    string          `json:"sigmut,omitempty"`
	Algs      []int           `json:"algs,omitempty"`
	VerKey    string          `json:"verkey,omitempty"`
	Obs       bool            `json:"obs,omitempty"` // replay of a random observation: explicit bytes, TLC compares
	// verifier histories (kind "vseq"): operation table and sequences of 1-based operation indices
	Ops  []VOp   `json:"ops,omitempty"`
	Seqs [][]int `json:"seqs,omitempty"`
}

// VOp is one operation of CTCodec.tla's VerifierOps, concretised by CTCodecGen.tla (HOp).
type VOp struct {
	Obj       string          `json:"obj"`
	Mut       string          `json:"mut"`
	Demand    string          `json:"demand"`
	Signed    Want            `json:"signed"`
	Presented json.RawMessage `json:"presented"`
	SigMut    string          `json:"sigmut"`
	SignKey   string          `json:"signkey"`
	Algs      []int           `json:"algs"`
}

// R is the projected outcome of one operation.
type R struct {
	Err    bool `json:"err"`
	N      int  `json:"n"`
	Eq     bool `json:"eq"`
	RT     bool `json:"rt"`
	RepLen int  `json:"replen"`
}

// Result is one line for Trace_CTCodec.tla.
type Result struct {
	Src      string          `json:"src"` // "gen" | "obs"
	Case     int             `json:"case"`
	Kind     string          `json:"kind"`
	Pkg      string          `json:"pkg"`
	Op       string          `json:"op"` // "ser" | "deser" | "verify"
	Val      json.RawMessage `json:"val"`
	R        R               `json:"r"`
	Out      []int           `json:"out"` // obs only: the serialiser's output
	Mut      string          `json:"mut"`
	Accepted bool            `json:"accepted"`
	Note     string          `json:"note,omitempty"`
	// op = "vseq": the operations applied to ONE verifier object and its verdicts
	Key  string   `json:"key,omitempty"`
	Seq  []int    `json:"seq,omitempty"`
	Acc  []bool   `json:"acc,omitempty"`
	Muts []string `json:"muts,omitempty"` // informational (signature of a candidate), not used by TLC
}

func u64(b []int) uint64 {
	var x [8]byte
	for i := 0; i < 8 && i < len(b); i++ {
		x[i] = byte(b[i])
	}
	return binary.BigEndian.Uint64(x[:])
}

func fb(f *Fld) []byte {
	if f == nil {
		return nil
	}
	return f.bytes()
}

func arr32(f *Fld) (a [32]byte) {
	copy(a[:], fb(f))
	return
}

func ctDS(v *Val) ct.DigitallySigned {
	return ct.DigitallySigned{HashAlgorithm: ct.HashAlgorithm(v.H), SignatureAlgorithm: ct.SignatureAlgorithm(v.S), Signature: fb(v.Sig)}
}
func xDS(v *Val) xct.DigitallySigned {
	return xct.DigitallySigned{HashAlgorithm: xct.HashAlgorithm(v.H), SignatureAlgorithm: xct.SignatureAlgorithm(v.S), Signature: fb(v.Sig)}
}
func ctSCT(v *Val) ct.SignedCertificateTimestamp {
	return ct.SignedCertificateTimestamp{SCTVersion: ct.Version(v.Ver), LogID: arr32(v.LogID), Timestamp: u64(v.TS),
		Extensions: fb(v.Ext), Signature: ctDS(v.DS)}
}

func sameDS(h, s int, sig []byte, v *Val) bool {
	return h == v.H && s == v.S && bytes.Equal(sig, fb(v.Sig))
}

func guard(f func()) (panicked string) {
	o := obs.Guard(120*time.Second, f)
	if o.Timeout {
		return "timeout"
	}
	return o.Panic
}

// serResult projects a serialiser's outcome against the demanded layout.
func serResult(out []byte, err error, want Want, replen int, rt func(out []byte) bool) R {
	r := R{Err: err != nil, RepLen: replen}
	if err != nil {
		return r
	}
	r.N = len(out)
	if want.OK {
		r.Eq = bytes.Equal(out, want.expand())
	}
	r.RT = rt(out)
	return r
}

// hereBuf is shared by all SerializeSCTHere calls of the process.
var hereBuf = func() []byte {
	b := make([]byte, 2*(1<<16)+200)
	for i := range b {
		b[i] = 0xEE
	}
	return b
}()

func runCase(ci int, c Case, emit func(Result)) {
	var lastOut []byte
	res := func(pkg, op string, r R, note string) {
		x := Result{Src: "gen", Case: ci, Kind: c.Kind, Pkg: pkg, Op: op, Val: c.Val, R: r, Out: []int{}, Note: note}
		if c.Obs && op == "ser" {
			x.Src, x.Out = "obs", ints(lastOut)
		}
		emit(x)
	}
	serResult := func(out []byte, err error, want Want, replen int, rt func(out []byte) bool) R {
		lastOut = out
		return serResult(out, err, want, replen, rt)
	}
	var v Val
	if c.Kind != "verify" && c.Kind != "vseq" {
		if err := json.Unmarshal(c.Val, &v); err != nil {
			obs.Fatal("case %d: %v", ci, err)
		}
	}
	switch c.Kind {
	case "ds":
		{
			var out []byte
			var err error
			p := guard(func() { out, err = ct.MarshalDigitallySigned(ctDS(&v)) })
			res("ct", "ser", serResult(out, err, c.Want, -1, func(o []byte) bool {
				d, e := ct.UnmarshalDigitallySigned(bytes.NewReader(o))
				return e == nil && sameDS(int(d.HashAlgorithm), int(d.SignatureAlgorithm), d.Signature, &v)
			}), p)
		}
		{
			var out []byte
			var err error
			p := guard(func() { out, err = xct.MarshalDigitallySigned(xDS(&v)) })
			res("x509/ct", "ser", serResult(out, err, c.Want, -1, func(o []byte) bool {
				d, e := xct.UnmarshalDigitallySigned(bytes.NewReader(o))
				return e == nil && sameDS(int(d.HashAlgorithm), int(d.SignatureAlgorithm), d.Signature, &v)
			}), p)
		}
		if c.Want.OK {
			in := c.Want.expand()
			d, e := ct.UnmarshalDigitallySigned(bytes.NewReader(in))
			res("ct", "deser", R{Err: e != nil, RT: e == nil && sameDS(int(d.HashAlgorithm), int(d.SignatureAlgorithm), d.Signature, &v)}, "")
			d2, e2 := xct.UnmarshalDigitallySigned(bytes.NewReader(in))
			res("x509/ct", "deser", R{Err: e2 != nil, RT: e2 == nil && sameDS(int(d2.HashAlgorithm), int(d2.SignatureAlgorithm), d2.Signature, &v)}, "")
		}
	case "sct":
		sct := ctSCT(&v)
		same := func(d *ct.SignedCertificateTimestamp) bool {
			return int(d.SCTVersion) == v.Ver && d.LogID == arr32(v.LogID) && d.Timestamp == u64(v.TS) &&
				bytes.Equal(d.Extensions, fb(v.Ext)) &&
				sameDS(int(d.Signature.HashAlgorithm), int(d.Signature.SignatureAlgorithm), d.Signature.Signature, v.DS)
		}
		rt := func(o []byte) bool {
			d, e := ct.DeserializeSCT(bytes.NewReader(o))
			return e == nil && same(d)
		}
		replen := -1
		if n, e := sct.SerializedLength(); e == nil {
			replen = n
		}
		{
			var out []byte
			var err error
			p := guard(func() { out, err = ct.SerializeSCT(sct) })
			res("ct", "ser", serResult(out, err, c.Want, replen, rt), p)
		}
		{
			// into ONE caller-provided buffer that is reused, uncleared, for every SCT of the run
			// (larger than needed, still holding the previous outputs)
			var out []byte
			var err error
			p := guard(func() { out, err = ct.SerializeSCTHere(sct, hereBuf) })
			res("ct", "ser", serResult(out, err, c.Want, replen, rt), "here "+p)
		}
		if c.Want.OK {
			in := c.Want.expand()
			d, e := ct.DeserializeSCT(bytes.NewReader(in))
			res("ct", "deser", R{Err: e != nil, RT: e == nil && same(d)}, "")
			d2, e2 := xct.DeserializeSCT(bytes.NewReader(in))
			ok := e2 == nil && int(d2.SCTVersion) == v.Ver && [32]byte(d2.LogID) == arr32(v.LogID) && d2.Timestamp == u64(v.TS) &&
				bytes.Equal(d2.Extensions, fb(v.Ext)) &&
				sameDS(int(d2.Signature.HashAlgorithm), int(d2.Signature.SignatureAlgorithm), d2.Signature.Signature, v.DS)
			res("x509/ct", "deser", R{Err: e2 != nil, RT: ok}, "")
		}
	case "leaf":
		in := c.Want.expand()
		var m *ct.MerkleTreeLeaf
		var e error
		p := guard(func() { m, e = ct.ReadMerkleTreeLeaf(bytes.NewReader(in)) })
		ok := false
		if e == nil && m != nil {
			te := m.TimestampedEntry
			ok = int(m.Version) == v.Ver && int(m.LeafType) == v.LType && te.Timestamp == u64(v.TS) && int(te.EntryType) == v.EType &&
				bytes.Equal(te.Extensions, fb(v.Ext))
			if v.EType == 0 {
				ok = ok && bytes.Equal(te.X509Entry, fb(v.Cert))
			} else {
				ok = ok && bytes.Equal(te.PrecertEntry.TBSCertificate, fb(v.Cert)) && te.PrecertEntry.IssuerKeyHash == arr32(v.IKH)
			}
		}
		res("ct", "deser", R{Err: e != nil || p != "", RT: ok}, p)
	case "chain":
		in := c.Want.expand()
		var chain []ct.ASN1Cert
		var e error
		p := guard(func() {
			if v.Kind == "x509" {
				chain, e = ct.UnmarshalX509ChainArray(in)
			} else {
				chain, e = ct.UnmarshalPrecertChainArray(in)
			}
		})
		var want [][]byte
		if v.Kind != "x509" {
			want = append(want, fb(v.Pre))
		}
		for i := range v.Certs {
			want = append(want, v.Certs[i].bytes())
		}
		ok := e == nil && len(chain) == len(want)
		for i := 0; ok && i < len(want); i++ {
			ok = bytes.Equal(chain[i], want[i])
		}
		res("ct", "deser", R{Err: e != nil || p != "", RT: ok}, p)
	case "sigin-sct":
		sct, entry := sctAndEntry(&v)
		var out []byte
		var err error
		p := guard(func() { out, err = ct.SerializeSCTSignatureInput(sct, entry) })
		res("ct", "ser", serResult(out, err, c.Want, -1, func([]byte) bool { return true }), p)
	case "sigin-sth":
		sth := sthOf(&v)
		var out []byte
		var err error
		p := guard(func() { out, err = ct.SerializeSTHSignatureInput(sth) })
		res("ct", "ser", serResult(out, err, c.Want, -1, func([]byte) bool { return true }), p)
	case "vseq":
		vs := prepareOps(c.Key, c.Ops)
		for _, seq := range c.Seqs {
			emit(runHistory(ci, c.Key, vs, c.Ops, seq, "gen"))
		}
	case "verify":
		acc, note := runVerify(c)
		emit(Result{Src: "gen", Case: ci, Kind: "verify", Pkg: "ct", Op: "verify", Val: c.Presented, Out: []int{}, Mut: c.Mut, Accepted: acc,
			Note: c.Obj + "/" + c.Key + " " + note})
	default:
		obs.Fatal("unknown case kind %q", c.Kind)
	}
}

func sctAndEntry(v *Val) (ct.SignedCertificateTimestamp, ct.LogEntry) {
	sct := ct.SignedCertificateTimestamp{SCTVersion: ct.Version(v.Ver), Timestamp: u64(v.TS)}
	var e ct.LogEntry
	e.Leaf.Version = ct.V1
	e.Leaf.LeafType = ct.TimestampedEntryLeafType
	e.Leaf.TimestampedEntry.EntryType = ct.LogEntryType(v.EType)
	e.Leaf.TimestampedEntry.Extensions = fb(v.Ext)
	if v.EType == 1 {
		e.Leaf.TimestampedEntry.PrecertEntry.TBSCertificate = fb(v.Cert)
		e.Leaf.TimestampedEntry.PrecertEntry.IssuerKeyHash = arr32(v.IKH)
	} else {
		e.Leaf.TimestampedEntry.X509Entry = fb(v.Cert)
	}
	return sct, e
}

func sthOf(v *Val) ct.SignedTreeHead {
	return ct.SignedTreeHead{Version: ct.Version(v.Ver), Timestamp: u64(v.TS), TreeSize: u64(v.Size), SHA256RootHash: arr32(v.Root)}
}

// ---------------------------------------------------------------------------- verification

func pubFor(id string) crypto.PublicKey {
	k := pki.Key(id + "ctlog")
	switch p := k.Public().(type) {
	case *stdrsa.PublicKey:
		return &zrsa.PublicKey{N: p.N, E: big.NewInt(int64(p.E))}
	default:
		return p
	}
}

func sign(keyID string, msg []byte) []byte {
	k := pki.Key(keyID + "ctlog")
	h := sha256.Sum256(msg)
	sig, err := k.Sign(rand.Reader, h[:], crypto.SHA256)
	if err != nil {
		obs.Fatal("sign: %v", err)
	}
	// the oracle for "is a genuine signature": the standard library verifies it
	switch p := k.Public().(type) {
	case *ecdsa.PublicKey:
		if !ecdsa.VerifyASN1(p, h[:], sig) {
			obs.Fatal("stdlib rejects its own ECDSA signature")
		}
	case *stdrsa.PublicKey:
		if stdrsa.VerifyPKCS1v15(p, crypto.SHA256, h[:], sig) != nil {
			obs.Fatal("stdlib rejects its own RSA signature")
		}
	}
	return sig
}

func mutateSig(sig []byte, how string) []byte {
	s := append([]byte{}, sig...)
	switch how {
	case "none":
	case "flip":
		s[len(s)-1] ^= 0x01
	case "empty":
		s = []byte{}
	case "trailing":
		s = append(s, 0xde, 0xad)
	case "malleable":
		var rs struct{ R, S *big.Int }
		if _, err := asn1.Unmarshal(sig, &rs); err != nil {
			obs.Fatal("malleable: %v", err)
		}
		rs.S = new(big.Int).Sub(elliptic.P256().Params().N, rs.S)
		b, err := asn1.Marshal(rs)
		if err != nil {
			obs.Fatal("malleable: %v", err)
		}
		s = b
	default:
		obs.Fatal("unknown signature mutation %q", how)
	}
	return s
}

func runVerify(c Case) (accepted bool, note string) {
	var pv Val
	if err := json.Unmarshal(c.Presented, &pv); err != nil {
		obs.Fatal("presented: %v", err)
	}
	if c.Signed == nil || !c.Signed.OK {
		obs.Fatal("verify case without a signed input")
	}
	sig := mutateSig(sign(c.Key, c.Signed.expand()), c.SigMut)
	ds := ct.DigitallySigned{HashAlgorithm: ct.HashAlgorithm(c.Algs[0]), SignatureAlgorithm: ct.SignatureAlgorithm(c.Algs[1]), Signature: sig}
	ver, err := ct.NewSignatureVerifier(pubFor(c.VerKey))
	if err != nil {
		obs.Fatal("NewSignatureVerifier(%s): %v", c.VerKey, err)
	}
	var verr error
	p := guard(func() {
		if c.Obj == "sth" {
			sth := sthOf(&pv)
			sth.TreeHeadSignature = ds
			verr = ver.VerifySTHSignature(sth)
		} else {
			sct, entry := sctAndEntry(&pv)
			sct.Signature = ds
			verr = ver.VerifySCTSignature(sct, entry)
		}
	})
	if p != "" {
		return false, "panic: " + p
	}
	if verr != nil {
		return false, verr.Error()
	}
	return true, ""
}

// ---------------------------------------------------------------------------- verifier histories

// prepareOps builds, once per operation, the presented object and its (mutated) signature; the
// returned closures only call the verifier.
func prepareOps(key string, ops []VOp) []func(*ct.SignatureVerifier) bool {
	sigCache := map[string][]byte{}
	out := make([]func(*ct.SignatureVerifier) bool, len(ops))
	for i := range ops {
		op := ops[i]
		if !op.Signed.OK {
			obs.Fatal("history operation without a signed input")
		}
		ck := op.SignKey + "/" + op.Obj
		if _, ok := sigCache[ck]; !ok {
			sigCache[ck] = sign(op.SignKey, op.Signed.expand())
		}
		var pv Val
		if err := json.Unmarshal(op.Presented, &pv); err != nil {
			obs.Fatal("presented: %v", err)
		}
		ds := ct.DigitallySigned{HashAlgorithm: ct.HashAlgorithm(op.Algs[0]), SignatureAlgorithm: ct.SignatureAlgorithm(op.Algs[1]),
			Signature: mutateSig(sigCache[ck], op.SigMut)}
		if op.Obj == "sth" {
			sth := sthOf(&pv)
			sth.TreeHeadSignature = ds
			out[i] = func(v *ct.SignatureVerifier) bool { return v.VerifySTHSignature(sth) == nil }
		} else {
			sct, entry := sctAndEntry(&pv)
			sct.Signature = ds
			out[i] = func(v *ct.SignatureVerifier) bool { return v.VerifySCTSignature(sct, entry) == nil }
		}
	}
	return out
}

// runHistory applies the operations seq (1-based indices) to ONE fresh verifier object.
func runHistory(ci int, key string, vs []func(*ct.SignatureVerifier) bool, ops []VOp, seq []int, src string) Result {
	ver, err := ct.NewSignatureVerifier(pubFor(key))
	if err != nil {
		obs.Fatal("NewSignatureVerifier(%s): %v", key, err)
	}
	r := Result{Src: src, Case: ci, Kind: "vseq", Pkg: "ct", Op: "vseq", Val: json.RawMessage("{}"), Out: []int{},
		Key: key, Seq: seq, Acc: make([]bool, len(seq)), Muts: make([]string, len(seq))}
	p := guard(func() {
		for k, id := range seq {
			r.Acc[k] = vs[id-1](ver)
			r.Muts[k] = ops[id-1].Obj + "/" + ops[id-1].Mut
		}
	})
	r.Note = p
	return r
}

// recordHistories: long seeded random operation sequences, each on one shared verifier.
func recordHistories(w *obs.Writer, casesPath string, n, length int) {
	rng := mrand.New(mrand.NewSource(obs.Seed()*131 + 9))
	err := obs.ReadLines(casesPath, func(line []byte) error {
		if !bytes.Contains(line, []byte(`"vseq"`)) {
			return nil
		}
		c := readCase(append([]byte{}, line...))
		if c.Kind != "vseq" {
			return nil
		}
		vs := prepareOps(c.Key, c.Ops)
		for i := 0; i < n; i++ {
			seq := make([]int, length)
			for k := range seq {
				if rng.Intn(3) == 0 { // genuine operations are a third of the traffic
					for {
						id := 1 + rng.Intn(len(c.Ops))
						if c.Ops[id-1].Mut == "none" {
							seq[k] = id
							break
						}
					}
				} else {
					seq[k] = 1 + rng.Intn(len(c.Ops))
				}
			}
			w.Write(runHistory(i, c.Key, vs, c.Ops, seq, "obs"))
		}
		return nil
	})
	if err != nil {
		obs.Fatal("%v", err)
	}
}

// ---------------------------------------------------------------------------- random observations

func fldB(b []byte) *Fld {
	f := &Fld{N: len(b), S: -1, B: make([]int, len(b))}
	for i, x := range b {
		f.B[i] = int(x)
	}
	return f
}

func ints(b []byte) []int {
	out := make([]int, len(b))
	for i, x := range b {
		out[i] = int(x)
	}
	return out
}

func rndBytes(rng *mrand.Rand, max int) []byte {
	n := rng.Intn(max + 1)
	if rng.Intn(5) == 0 {
		n = []int{0, 1, 255, 256, 257}[rng.Intn(5)]
	}
	b := make([]byte, n)
	rng.Read(b)
	return b
}

func record(path string, n int) {
	w := obs.NewWriter(path)
	rng := mrand.New(mrand.NewSource(obs.Seed()*31 + 5))
	for i := 0; i < n; i++ {
		ts := rndBytes(rng, 0)
		ts = make([]byte, 8)
		rng.Read(ts)
		ds := &Val{H: rng.Intn(7), S: rng.Intn(4), Sig: fldB(rndBytes(rng, 300))}
		switch i % 4 {
		case 0: // DigitallySigned, both packages
			raw, _ := json.Marshal(ds)
			o1, e1 := ct.MarshalDigitallySigned(ctDS(ds))
			rt := false
			if e1 == nil {
				d, e := ct.UnmarshalDigitallySigned(bytes.NewReader(o1))
				rt = e == nil && sameDS(int(d.HashAlgorithm), int(d.SignatureAlgorithm), d.Signature, ds)
			}
			w.Write(Result{Src: "obs", Case: i, Kind: "ds", Pkg: "ct", Op: "ser", Val: raw, R: R{Err: e1 != nil, N: len(o1), RT: rt, RepLen: -1}, Out: ints(o1)})
			o2, e2 := xct.MarshalDigitallySigned(xDS(ds))
			rt = false
			if e2 == nil {
				d, e := xct.UnmarshalDigitallySigned(bytes.NewReader(o2))
				rt = e == nil && sameDS(int(d.HashAlgorithm), int(d.SignatureAlgorithm), d.Signature, ds)
			}
			w.Write(Result{Src: "obs", Case: i, Kind: "ds", Pkg: "x509/ct", Op: "ser", Val: raw, R: R{Err: e2 != nil, N: len(o2), RT: rt, RepLen: -1}, Out: ints(o2)})
		case 1: // SCT
			lid := make([]byte, 32)
			rng.Read(lid)
			v := &Val{Ver: 0, LogID: fldB(lid), TS: ints(ts), Ext: fldB(rndBytes(rng, 200)), DS: ds}
			if rng.Intn(10) == 0 {
				v.Ver = 1 + rng.Intn(3)
			}
			raw, _ := json.Marshal(v)
			sct := ctSCT(v)
			out, err := ct.SerializeSCT(sct)
			replen := -1
			if n, e := sct.SerializedLength(); e == nil {
				replen = n
			}
			rt := false
			if err == nil {
				d, e := ct.DeserializeSCT(bytes.NewReader(out))
				rt = e == nil && int(d.SCTVersion) == v.Ver && d.LogID == arr32(v.LogID) && d.Timestamp == u64(v.TS) &&
					bytes.Equal(d.Extensions, fb(v.Ext)) &&
					sameDS(int(d.Signature.HashAlgorithm), int(d.Signature.SignatureAlgorithm), d.Signature.Signature, v.DS)
			}
			w.Write(Result{Src: "obs", Case: i, Kind: "sct", Pkg: "ct", Op: "ser", Val: raw, R: R{Err: err != nil, N: len(out), RT: rt, RepLen: replen}, Out: ints(out)})
			// the same value again through the shared, uncleared buffer (back to back with earlier values)
			out2, err2 := ct.SerializeSCTHere(sct, hereBuf)
			rt2 := false
			if err2 == nil {
				d, e := ct.DeserializeSCT(bytes.NewReader(out2))
				rt2 = e == nil && int(d.SCTVersion) == v.Ver && d.LogID == arr32(v.LogID) && d.Timestamp == u64(v.TS) &&
					bytes.Equal(d.Extensions, fb(v.Ext)) &&
					sameDS(int(d.Signature.HashAlgorithm), int(d.Signature.SignatureAlgorithm), d.Signature.Signature, v.DS)
			}
			w.Write(Result{Src: "obs", Case: i, Kind: "sct", Pkg: "ct", Op: "ser", Val: raw, R: R{Err: err2 != nil, N: len(out2), RT: rt2, RepLen: replen}, Out: ints(out2), Note: "here"})
		case 2: // SCT signature input
			ikh := make([]byte, 32)
			rng.Read(ikh)
			v := &Val{Ver: 0, TS: ints(ts), EType: rng.Intn(2), Cert: fldB(rndBytes(rng, 400)), IKH: fldB(ikh), Ext: fldB(rndBytes(rng, 100))}
			raw, _ := json.Marshal(v)
			sct, entry := sctAndEntry(v)
			out, err := ct.SerializeSCTSignatureInput(sct, entry)
			w.Write(Result{Src: "obs", Case: i, Kind: "sigin-sct", Pkg: "ct", Op: "ser", Val: raw, R: R{Err: err != nil, N: len(out), RT: true, RepLen: -1}, Out: ints(out)})
		case 3: // STH signature input
			root := make([]byte, 32)
			rng.Read(root)
			sz := make([]byte, 8)
			rng.Read(sz)
			v := &Val{Ver: 0, TS: ints(ts), Size: ints(sz), Root: fldB(root)}
			raw, _ := json.Marshal(v)
			out, err := ct.SerializeSTHSignatureInput(sthOf(v))
			w.Write(Result{Src: "obs", Case: i, Kind: "sigin-sth", Pkg: "ct", Op: "ser", Val: raw, R: R{Err: err != nil, N: len(out), RT: true, RepLen: -1}, Out: ints(out)})
		}
	}
	w.Close()
	obs.Stat("observations", w.N)
}

func readCase(line []byte) Case {
	var c Case
	if err := json.Unmarshal(line, &c); err != nil {
		obs.Fatal("case: %v", err)
	}
	return c
}

func main() {
	if len(os.Args) < 4 {
		obs.Fatal("usage")
	}
	switch os.Args[1] {
	case "replay-gen":
		w := obs.NewWriter(os.Args[3])
		n := 0
		kinds := map[string]int{}
		err := obs.ReadLines(os.Args[2], func(line []byte) error {
			c := readCase(append([]byte{}, line...))
			runCase(n, c, func(r Result) { w.Write(r) })
			kinds[c.Kind]++
			n++
			return nil
		})
		if err != nil {
			obs.Fatal("%v", err)
		}
		w.Close()
		obs.Stat("cases", n)
		obs.Stat("results", w.N)
		obs.Stat("kinds", kinds)
	case "record":
		n, _ := strconv.Atoi(os.Args[3])
		record(os.Args[2], n)
	case "record-hist":
		// record-hist <out> <cases.ndjson> <histories per key> <length>
		if len(os.Args) < 6 {
			obs.Fatal("usage: record-hist <out> <cases> <n> <len>")
		}
		h, _ := strconv.Atoi(os.Args[4])
		l, _ := strconv.Atoi(os.Args[5])
		w := obs.NewWriter(os.Args[2])
		recordHistories(w, os.Args[3], h, l)
		w.Close()
		obs.Stat("history_records", w.N)
	case "replay":
		var c Case
		obs.ReadReplay(os.Args[2], &c)
		w := obs.NewWriter(os.Args[3])
		runCase(0, c, func(r Result) { w.Write(r) })
		w.Close()
	default:
		obs.Fatal("unknown command")
	}
	_ = fmt.Sprint
}
