// pkiprobe: smoke test of lib/pki against zcrypto's parser and verifier (used by tools/setup.sh).
package main

import (
	"fmt"
	"os"

	"github.com/zmap/zcrypto/x509"
	"verifharness/lib/pki"
)

func main() {
	root := pki.Cert{ID: "r", Subj: "R", Key: "K1", Iss: "R", SKey: "K1", CA: true, BC: true, PathLen: -1, NB: 0, NA: 1000, SKID: "K1"}
	inter := pki.Cert{ID: "i", Subj: "I", Key: "P2", Iss: "R", SKey: "K1", CA: true, BC: true, PathLen: 0, NB: 0, NA: 1000, SKID: "P2", AKID: "K1"}
	leaf := pki.Cert{ID: "l", Subj: "L", Key: "K3", Iss: "I", SKey: "P2", NB: 10, NA: 20, DNS: []string{"a.example"}, EKU: []string{"server"}, AKID: "P2"}
	var cs []*x509.Certificate
	for _, c := range []pki.Cert{root, inter, leaf} {
		x, err := x509.ParseCertificate(pki.MustBuild(c))
		if err != nil {
			fmt.Println("parse:", err)
			os.Exit(1)
		}
		cs = append(cs, x)
	}
	roots, inters := x509.NewCertPool(), x509.NewCertPool()
	roots.AddCert(cs[0])
	inters.AddCert(cs[1])
	cur, exp, never, err := cs[2].Verify(x509.VerifyOptions{Roots: roots, Intermediates: inters, CurrentTime: pki.At(15), DNSName: "a.example"})
	fmt.Println(len(cur), len(exp), len(never), err)
	if len(cur) != 1 || err != nil {
		os.Exit(1)
	}
}
