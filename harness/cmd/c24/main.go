// c24: conformance harness binding the negotiation layer of spec/TLSHandshake.tla to real
// zcrypto client/server pairs.  It only executes and observes; TLC (Trace_TLSHandshake.tla)
// judges the observations.
//
//	c24 facts                          environment facts passed to the specification as constants
//	c24 random <n> <cases.ndjson>      seeded random abstract cases
//	c24 run <cases.ndjson> <obs.ndjson> run every case on the real code, log observations
//	c24 run-one <replay.json> <obs.ndjson>
package main

import (
	"encoding/json"
	"fmt"
	"math/rand"
	"os"
	"strconv"
	"sync"

	"github.com/zmap/zcrypto/tls"
	"verifharness/lib/obs"
	"verifharness/lib/tlsh"
)

// Case24 is a C24 case: a configuration pair, an optional downgrade adversary, and whether a
// second connection (resumption) is attempted with the client's session cache.
type Case24 struct {
	tlsh.Case
	Two   bool `json:"two"`
	CCert bool `json:"ccert"` // the client holds a (valid) certificate for client authentication
	// Reconf: between the two connections the server is reconfigured to S2 (suite list, version range,
	// curves, preference flag) while keeping its ticket keys; the client and its session cache stay.
	Reconf bool    `json:"reconf"`
	S2     tlsh.EP `json:"s2"`
}

// Rec is one observation record (one connection).
type Rec struct {
	ID     int      `json:"id"`
	C      tlsh.EP  `json:"c"`
	S      tlsh.EP  `json:"s"`
	Down   int      `json:"down"`
	Second bool     `json:"second"`
	CCert  bool     `json:"ccert"`
	Reconf bool     `json:"reconf"` // this (second) connection ran against the reconfigured server: S is the configuration in force, S1 the issuing one
	S1     tlsh.EP  `json:"s1"`
	Obs    tlsh.Obs `json:"obs"`
}

// ticket keys shared by the server configurations of a reconfiguration case
var sharedTicketKey = [32]byte{'c', '2', '4', '-', 'r', 'e', 'c', 'o', 'n', 'f'}

func runCase(cs Case24) []Rec {
	cs.C, cs.S = cs.C.NonNil(), cs.S.NonNil()
	if cs.CCert {
		cs.CScen, cs.CKey = "ClientTrusted", "P"
	}
	b, err := tlsh.Build(cs.Case, true)
	if err != nil {
		obs.Fatal("case %d: %v", cs.ID, err)
	}
	if v := b.PKI.Std(); !v.ServerChainOK || !v.ServerKeyOK {
		obs.Fatal("case %d: harness PKI is not valid by the standard library: %+v", cs.ID, v)
	}
	var filter tlsh.Filter
	if cs.Down != 0 {
		filter = func(dir, idx int, rec []byte) *tlsh.Action {
			if dir != tlsh.C2S || idx != 0 {
				return nil
			}
			out, err := tlsh.RewriteClientHelloDowngrade(rec, cs.Down)
			if err != nil {
				obs.Fatal("case %d: %v", cs.ID, err)
			}
			return &tlsh.Action{Deliver: [][]byte{out}}
		}
	}
	var out []Rec
	n := 1
	if cs.Two {
		n = 2
	}
	servers := []*tls.Config{b.Server, b.Server}
	confs := []tlsh.EP{cs.S, cs.S}
	if cs.Two && cs.Reconf {
		cs.S2 = cs.S2.NonNil()
		c2 := cs.Case
		c2.S = cs.S2
		b2, err := tlsh.Build(c2, true)
		if err != nil {
			obs.Fatal("case %d (reconfigured server): %v", cs.ID, err)
		}
		b.Server.SetSessionTicketKeys([][32]byte{sharedTicketKey})
		b2.Server.SetSessionTicketKeys([][32]byte{sharedTicketKey})
		servers[1], confs[1] = b2.Server, cs.S2
	}
	for k := 0; k < n; k++ {
		r := tlsh.Run(b.Client, servers[k], tlsh.RunOpt{Filter: filter})
		out = append(out, Rec{ID: cs.ID, C: cs.C, S: confs[k], Down: cs.Down, Second: k == 1, CCert: cs.CCert,
			Reconf: k == 1 && cs.Reconf, S1: cs.S, Obs: tlsh.Observe(r)})
	}
	return out
}

func randomCase(r *rand.Rand, id int) Case24 {
	cs := Case24{}
	cs.ID = id
	cs.C = tlsh.RandomEP(r, false)
	cs.S = tlsh.RandomEP(r, true)
	cs.Two = r.Intn(2) == 0
	if r.Intn(3) == 0 {
		cs.S.Auth = r.Intn(5)
	}
	cs.CCert = r.Intn(2) == 0
	cs.S2 = cs.S
	if cs.Two && r.Intn(3) == 0 {
		cs.Reconf = true
		cs.S2 = tlsh.RandomEP(r, true)
		cs.S2.Key, cs.S2.Auth = cs.S.Key, cs.S.Auth
		if r.Intn(2) == 0 { // only the suite list changes
			l := cs.S2.Suites
			cs.S2 = cs.S
			cs.S2.Suites = l
		}
	}
	if r.Intn(6) == 0 {
		cs.Down = 10 + r.Intn(3)
		cs.Two, cs.Reconf, cs.S2 = false, false, cs.S
	}
	return cs
}

func main() {
	if len(os.Args) < 2 {
		obs.Fatal("usage")
	}
	switch os.Args[1] {
	case "facts":
		b, _ := json.Marshal(tlsh.GetFacts())
		fmt.Println(string(b))
	case "random":
		n, _ := strconv.Atoi(os.Args[2])
		w := obs.NewWriter(os.Args[3])
		r := rand.New(rand.NewSource(obs.Seed()))
		for i := 0; i < n; i++ {
			w.Write(randomCase(r, i+1))
		}
		w.Close()
		obs.Stat("cases", n)
	case "run":
		var cases []Case24
		tlsh.ReadCases(os.Args[2], func(line []byte) error {
			var c Case24
			if err := json.Unmarshal(line, &c); err != nil {
				return err
			}
			cases = append(cases, c)
			return nil
		})
		recs := make([][]Rec, len(cases))
		tlsh.Parallel(len(cases), func(i int) { recs[i] = runCase(cases[i]) })
		w := obs.NewWriter(os.Args[3])
		conns, done := 0, 0
		var mu sync.Mutex
		for _, rs := range recs {
			for _, r := range rs {
				w.Write(r)
				mu.Lock()
				conns++
				if r.Obs.CDone && r.Obs.SDone {
					done++
				}
				mu.Unlock()
			}
		}
		w.Close()
		obs.Stat("cases", len(cases))
		obs.Stat("connections", conns)
		obs.Stat("completed", done)
	case "run-one":
		var c Case24
		obs.ReadReplay(os.Args[2], &c)
		w := obs.NewWriter(os.Args[3])
		for _, r := range runCase(c) {
			w.Write(r)
		}
		w.Close()
	default:
		obs.Fatal("unknown command")
	}
}
