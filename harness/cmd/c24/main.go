// c24: conformance harness binding the negotiation layer of spec/TLSHandshake.tla to real
// zcrypto client/server pairs.  It only executes and observes; TLC (Trace_TLSHandshake.tla)
// judges the observations.
//
//	c24 facts                          environment facts passed to the specification as constants
//	c24 random <n> <cases.ndjson>      seeded random abstract cases
//	c24 run <cases.ndjson> <obs.ndjson> run every case on the real code, log observations
//	c24 run-one <replay.json> <obs.ndjson>
package main

import (
	"encoding/json"
	"fmt"
	"math/rand"
	"os"
	"strconv"
	"sync"

	"verifharness/lib/obs"
	"verifharness/lib/tlsh"
)

// Case24 is a C24 case: a configuration pair, an optional downgrade adversary, and whether a
// second connection (resumption) is attempted with the client's session cache.
type Case24 struct {
	tlsh.Case
	Two   bool `json:"two"`
	CCert bool `json:"ccert"` // the client holds a (valid) certificate for client authentication
}

// Rec is one observation record (one connection).
type Rec struct {
	ID     int      `json:"id"`
	C      tlsh.EP  `json:"c"`
	S      tlsh.EP  `json:"s"`
	Down   int      `json:"down"`
	Second bool     `json:"second"`
	CCert  bool     `json:"ccert"`
	Obs    tlsh.Obs `json:"obs"`
}

func runCase(cs Case24) []Rec {
	cs.C, cs.S = cs.C.NonNil(), cs.S.NonNil()
	if cs.CCert {
		cs.CScen, cs.CKey = "ClientTrusted", "P"
	}
	b, err := tlsh.Build(cs.Case, true)
	if err != nil {
		obs.Fatal("case %d: %v", cs.ID, err)
	}
	if v := b.PKI.Std(); !v.ServerChainOK || !v.ServerKeyOK {
		obs.Fatal("case %d: harness PKI is not valid by the standard library: %+v", cs.ID, v)
	}
	var filter tlsh.Filter
	if cs.Down != 0 {
		filter = func(dir, idx int, rec []byte) *tlsh.Action {
			if dir != tlsh.C2S || idx != 0 {
				return nil
			}
			out, err := tlsh.RewriteClientHelloDowngrade(rec, cs.Down)
			if err != nil {
				obs.Fatal("case %d: %v", cs.ID, err)
			}
			return &tlsh.Action{Deliver: [][]byte{out}}
		}
	}
	var out []Rec
	n := 1
	if cs.Two {
		n = 2
	}
	for k := 0; k < n; k++ {
		r := tlsh.Run(b.Client, b.Server, tlsh.RunOpt{Filter: filter})
		out = append(out, Rec{ID: cs.ID, C: cs.C, S: cs.S, Down: cs.Down, Second: k == 1, CCert: cs.CCert, Obs: tlsh.Observe(r)})
	}
	return out
}

func randomCase(r *rand.Rand, id int) Case24 {
	cs := Case24{}
	cs.ID = id
	cs.C = tlsh.RandomEP(r, false)
	cs.S = tlsh.RandomEP(r, true)
	cs.Two = r.Intn(2) == 0
	if r.Intn(3) == 0 {
		cs.S.Auth = r.Intn(5)
	}
	cs.CCert = r.Intn(2) == 0
	if r.Intn(6) == 0 {
		cs.Down = 10 + r.Intn(3)
		cs.Two = false
	}
	return cs
}

func main() {
	if len(os.Args) < 2 {
		obs.Fatal("usage")
	}
	switch os.Args[1] {
	case "facts":
		b, _ := json.Marshal(tlsh.GetFacts())
		fmt.Println(string(b))
	case "random":
		n, _ := strconv.Atoi(os.Args[2])
		w := obs.NewWriter(os.Args[3])
		r := rand.New(rand.NewSource(obs.Seed()))
		for i := 0; i < n; i++ {
			w.Write(randomCase(r, i+1))
		}
		w.Close()
		obs.Stat("cases", n)
	case "run":
		var cases []Case24
		tlsh.ReadCases(os.Args[2], func(line []byte) error {
			var c Case24
			if err := json.Unmarshal(line, &c); err != nil {
				return err
			}
			cases = append(cases, c)
			return nil
		})
		recs := make([][]Rec, len(cases))
		tlsh.Parallel(len(cases), func(i int) { recs[i] = runCase(cases[i]) })
		w := obs.NewWriter(os.Args[3])
		conns, done := 0, 0
		var mu sync.Mutex
		for _, rs := range recs {
			for _, r := range rs {
				w.Write(r)
				mu.Lock()
				conns++
				if r.Obs.CDone && r.Obs.SDone {
					done++
				}
				mu.Unlock()
			}
		}
		w.Close()
		obs.Stat("cases", len(cases))
		obs.Stat("connections", conns)
		obs.Stat("completed", done)
	case "run-one":
		var c Case24
		obs.ReadReplay(os.Args[2], &c)
		w := obs.NewWriter(os.Args[3])
		for _, r := range runCase(c) {
			w.Write(r)
		}
		w.Close()
	default:
		obs.Fatal("unknown command")
	}
}
